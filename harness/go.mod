module verif/harness

go 1.23

require (
	github.com/elastic/go-ucfg v0.0.0
	gopkg.in/hjson/hjson-go.v3 v3.0.1
	gopkg.in/yaml.v2 v2.2.8
	pgregory.net/rapid v1.3.0
)

replace github.com/elastic/go-ucfg => /repo
