// Package c08 decides property C08: reference resolution terminates; cycles
// are errors, everything else resolves.
package c08

import (
	"fmt"
	"reflect"
	"sort"
	"strconv"
	"strings"
	"testing"

	ucfg "github.com/elastic/go-ucfg"
	"github.com/elastic/go-ucfg/diff"
	"pgregory.net/rapid"

	"verif/harness/internal/canon"
	"verif/harness/internal/runlog"
	"verif/harness/internal/uc"
	"verif/harness/internal/vx"
)

// Case is a reference graph laid out in a nested tree, with optional
// absorbers (an Env config, a resolver).
type Case struct {
	Root      *vx.Node   `json:"root"`
	Envs      []*vx.Node `json:"envs,omitempty"`
	Resolvers [][]vx.KV  `json:"resolvers,omitempty"`
	// Layers are merged into the configuration after Root, one Merge call each: the configuration that is read
	// is the result of the whole history (references are late bound: they see the settings merged last)
	Layers []*vx.Node `json:"layers,omitempty"`
	// Build: how the configuration is put together, see build
	Build int `json:"build,omitempty"`
	// ReadSep: path separator of a second option list for FlattenedKeys/CompareConfigs ("" = none)
	ReadSep string `json:"read_sep,omitempty"`
}

// names below containers that are nested in containers (a list in the object o, a list or object as element of l)
var nestedNames = []string{"o.l", "o.l.0", "o.l.1", "o.l.1"}

// plantNested puts a list into the object o and, according to lshape, a list (1) or an object (2) into the list l
func plantNested(t *rapid.T, g *vx.GCfg, root *vx.Node, lshape int) {
	if o := root.Get("o"); o != nil && o.K == "obj" && rapid.IntRange(0, 2).Draw(t, "nest-o") > 0 {
		o.Put("l", &vx.Node{K: "list", Vals: []*vx.Node{g.GenLeaf(t, true), g.GenLeaf(t, true)}})
	}
	if l := root.Get("l"); l != nil && l.K == "list" && len(l.Vals) == 2 {
		switch lshape {
		case 1:
			l.Vals[1] = &vx.Node{K: "list", Vals: []*vx.Node{g.GenLeaf(t, true), g.GenLeaf(t, true)}}
		case 2:
			e := &vx.Node{K: "obj"}
			e.Put("x", g.GenLeaf(t, true))
			e.Put("y", g.GenLeaf(t, true))
			l.Vals[1] = e
		}
	}
}

// genLayer draws settings for a later Merge call: it redefines leaves of the tree merged so far (same places,
// new leaves: literals, nil, expressions), element-wise for a prefix of every list, and may add the setting d
func genLayer(t *rapid.T, g *vx.GCfg, cur *vx.Node) *vx.Node {
	var sparse func(n *vx.Node, p int) *vx.Node
	sparse = func(n *vx.Node, p int) *vx.Node {
		switch n.K {
		case "obj":
			out := &vx.Node{K: "obj"}
			for i, k := range n.Keys {
				if sub := sparse(n.Vals[i], p); sub != nil {
					out.Put(k, sub)
				}
			}
			if len(out.Keys) == 0 {
				return nil
			}
			return out
		case "list":
			out := &vx.Node{K: "list"}
			for i, m := 0, rapid.IntRange(0, len(n.Vals)).Draw(t, "prefix"); i < m; i++ {
				e := n.Vals[i]
				if e.K == "obj" || e.K == "list" {
					// a container stays a container (names lead through it): some of its members are redefined
					sub := sparse(e, 1)
					if sub == nil {
						sub = &vx.Node{K: e.K}
					}
					out.Vals = append(out.Vals, sub)
					continue
				}
				out.Vals = append(out.Vals, g.GenLeaf(t, true))
			}
			if len(out.Vals) == 0 {
				return nil
			}
			return out
		}
		if rapid.IntRange(0, p).Draw(t, "redef") == 0 {
			return g.GenLeaf(t, true)
		}
		return nil
	}
	l := sparse(cur, 2)
	if l == nil {
		l = &vx.Node{K: "obj"}
	}
	if cur.Get("d") == nil && rapid.IntRange(0, 2).Draw(t, "addd") == 0 {
		l.Put("d", g.GenLeaf(t, true))
	}
	if len(l.Keys) == 0 {
		l.Put("a", g.GenLeaf(t, true))
	}
	return l
}

// mergedRoot is the model of the history: Root, then every layer merged into it.
func (c Case) mergedRoot() *vx.Node {
	root := c.Root.Clone()
	for _, l := range c.Layers {
		root = vx.MergeModel(root, l)
	}
	return root
}

// drawHistory draws the dimensions that are not the reference graph itself: later Merge calls, the way the
// configuration is assembled, a second path separator for flattening and diffing.
func drawHistory(t *rapid.T, g *vx.GCfg, c *Case) {
	if rapid.IntRange(0, 2).Draw(t, "layered") == 0 {
		cur := c.Root.Clone()
		for i, n := 0, rapid.IntRange(1, 2).Draw(t, "nlayers"); i < n; i++ {
			l := genLayer(t, g, cur)
			c.Layers = append(c.Layers, l)
			cur = vx.MergeModel(cur, l)
		}
	}
	c.Build = rapid.SampledFrom([]int{0, 0, 1, 2, 3}).Draw(t, "build")
	c.ReadSep = rapid.SampledFrom([]string{"/", "", "::", "-"}).Draw(t, "readsep")
}

func genCase(t *rapid.T) Case {
	// names are drawn from the own tree mostly, so that self references, references to ancestors
	// (o from o.x) and descendants, chains, diamonds and repeated uses are frequent
	names := vx.OwnNames
	if rapid.IntRange(0, 3).Draw(t, "allnames") == 0 {
		names = vx.Names
	}
	nested := rapid.IntRange(0, 2).Draw(t, "nested") == 0
	lshape := 0
	if nested {
		// (index 0 of a primitive is the primitive itself, which the model does not know: l.1.0 is a name only
		// where l.1 is a list)
		names = append(append([]string(nil), names...), nestedNames...)
		switch lshape = rapid.IntRange(0, 2).Draw(t, "lshape"); lshape {
		case 1:
			names = append(names, "l.1.0", "l.1.1", "l.1.0")
		case 2:
			names = append(names, "l.1.x", "l.1.y", "l.1.x")
		}
	}
	g := &vx.GCfg{Depth: runlog.Pick(2, 3), Names: names}
	c := Case{Root: g.GenRoot(t)}
	if nested {
		plantNested(t, g, c.Root, lshape)
	}
	if rapid.IntRange(0, 2).Draw(t, "env") == 0 {
		c.Envs = append(c.Envs, g.GenEnv(t))
	}
	if rapid.IntRange(0, 2).Draw(t, "res") == 0 {
		c.Resolvers = append(c.Resolvers, g.GenResolver(t))
	}
	drawHistory(t, g, &c)
	if rapid.IntRange(0, 5).Draw(t, "selfext") == 0 {
		// a setting that extends the equally named variable a resolver provides
		k := rapid.SampledFrom([]string{"a", "b", "c", "d"}).Draw(t, "selfk")
		self := vx.Part{IsVar: true, Name: []vx.Part{{Lit: k}}}
		parts := [][]vx.Part{{self, {Lit: ":/usr"}}, {{Lit: "pre-"}, self}, {self, {Lit: ","}, self}, {self}, {{Lit: "x"}, self, {Lit: "y"}}}
		c.Root.Put(k, &vx.Node{K: "expr", Expr: rapid.SampledFrom(parts).Draw(t, "selfparts")})
		c.Resolvers = append(c.Resolvers, []vx.KV{{K: k, V: rapid.SampledFrom([]string{"rv", "5", "/from/resolver", "p,q", "true", "{h: 1, p: x}", "u,v,w"}).Draw(t, "selfval")}})
		if rapid.Bool().Draw(t, "selfdiamond") {
			// other settings reach the same reference: a diamond on top of the absorbed re-entry
			for _, k2 := range []string{"a", "b", "c", "d"} {
				if k2 != k && rapid.IntRange(0, 2).Draw(t, "selfuse") == 0 {
					c.Root.Put(k2, &vx.Node{K: "expr", Expr: []vx.Part{self}})
				}
			}
		}
	}
	vx.Lighten(weightLimit, append(append([]*vx.Node{c.Root}, c.Layers...), c.Envs...)...)
	return c
}

// weightLimit bounds (number of expressions)! x product of their reference counts, see vx.Lighten: evaluation has
// no memo, heavier graphs finish only after minutes (observed: 34 references over 5 settings, 60 s of CPU)
const weightLimit = 20000

func unpackField(c *ucfg.Config, key string, opts []ucfg.Option) (interface{}, error) {
	typ := reflect.StructOf([]reflect.StructField{{Name: "V", Type: reflect.TypeOf((*interface{})(nil)).Elem(), Tag: reflect.StructTag(fmt.Sprintf(`config:"%s"`, key))}})
	out := reflect.New(typ)
	err := uc.Safe("Unpack", func() error { return c.Unpack(out.Interface(), opts...) })
	return out.Elem().Field(0).Interface(), err
}

// build puts the configuration of the case together. Whatever the way, the result holds the settings of Root
// with every layer merged over them, references unevaluated:
//
//	0: NewFrom(Root), then Merge(layer) with the layer as Go data
//	1: every step is turned into a *Config first and merged as such into an empty configuration
//	2: like 0, then the whole configuration is merged into an empty one, which is read (a copy)
//	3: like 0, but the copy is taken before the last layer, which is merged into the copy
func build(c Case, opts []ucfg.Option) (*ucfg.Config, error) {
	var cfg *ucfg.Config
	err := uc.Safe("building the configuration", func() error {
		step := func(i int, n *vx.Node) error {
			var src interface{} = n.Go()
			if c.Build == 1 {
				sc, err := ucfg.NewFrom(src, opts...)
				if err != nil {
					return fmt.Errorf("NewFrom of step %d failed: %v", i, err)
				}
				src = sc
			}
			if err := cfg.Merge(src, opts...); err != nil {
				return fmt.Errorf("Merge of step %d failed: %v", i, err)
			}
			return nil
		}
		copyOf := func() error {
			d := ucfg.New()
			if err := d.Merge(cfg, opts...); err != nil {
				return fmt.Errorf("merging the configuration into an empty one failed: %v", err)
			}
			cfg = d
			return nil
		}
		if c.Build == 1 {
			cfg = ucfg.New()
			if err := step(0, c.Root); err != nil {
				return err
			}
		} else {
			var err error
			if cfg, err = ucfg.NewFrom(c.Root.Go(), opts...); err != nil {
				return fmt.Errorf("NewFrom failed: %v", err)
			}
		}
		for i, l := range c.Layers {
			if c.Build == 3 && i == len(c.Layers)-1 {
				if err := copyOf(); err != nil {
					return err
				}
			}
			if err := step(i+1, l); err != nil {
				return err
			}
		}
		if c.Build == 2 || c.Build == 3 && len(c.Layers) == 0 {
			return copyOf()
		}
		return nil
	})
	return cfg, err
}

func histClasses(c Case, r *runlog.R) {
	r.ClassIf(len(c.Layers) > 0, "configuration put together by several Merge calls")
	r.ClassIf(c.Build == 1, "steps merged as *Config sources")
	r.ClassIf(c.Build >= 2, "a copy (merged into an empty configuration) is read")
}

func runCase(c Case, r *runlog.R) error {
	opts, err := vx.Options(c.Envs, c.Resolvers)
	if err != nil {
		return err
	}
	cfg, err := build(c, opts)
	if err != nil {
		return err
	}
	histClasses(c, r)
	// everything below is about the configuration the history results in
	orig := c
	c.Root = c.mergedRoot()
	r.ClassIf(nestedRefs(c.Root), "reference inside a container nested in a container")
	w := &vx.World{Root: c.Root, Envs: c.Envs, Resolvers: c.Resolvers}

	// (1) every read entry point returns, with typed errors
	typed := func(what string, err error) error { return vx.Typed(what, err) }
	var first error
	var other *ucfg.Config
	note := func(what string, err error) {
		if first == nil {
			first = typed(what, err)
		}
	}
	e := uc.Safe("read entry points", func() error {
		for _, k := range []string{"a", "b", "c", "d", "o", "o.x", "o.y", "l", "l.0", "l.1", "zz", "o.l", "o.l.1", "l.1.0", "l.1.x"} {
			_, err := cfg.String(k, -1, opts...)
			note("String", err)
			_, err = cfg.Int(k, -1, opts...)
			note("Int", err)
			_, err = cfg.Bool(k, -1, opts...)
			note("Bool", err)
			_, err = cfg.Float(k, -1, opts...)
			note("Float", err)
			_, err = cfg.Uint(k, -1, opts...)
			note("Uint", err)
			_, err = cfg.Child(k, -1, opts...)
			note("Child", err)
			_, err = cfg.Has(k, -1, opts...)
			note("Has", err)
			_, err = cfg.Has(k, 1, opts...)
			note("Has idx", err)
			_, err = cfg.CountField(k, opts...)
			note("CountField", err)
		}
		var m map[string]interface{}
		note("Unpack map", cfg.Unpack(&m, opts...))
		d := ucfg.New()
		note("Merge", d.Merge(cfg, opts...))
		note("Merge append", d.Merge(cfg, append([]ucfg.Option{ucfg.AppendValues}, opts...)...))
		diff.CompareConfigs(cfg, cfg, opts...)
		other = d
		return nil
	})
	if e != nil {
		return e
	}
	if first != nil {
		return first
	}
	keys, e := diffChecks(orig, cfg, other, opts, r)
	if e != nil {
		return e
	}

	// (2)/(3) per field: value if the evaluation never re-enters a reference, cyclic error if it must and nothing absorbs it
	nt := false
	anyCycle := false
	for i, k := range c.Root.Keys {
		setting := c.Root.Vals[i]
		w.Reset()
		want, werr := w.Eval(setting)
		got, gerr := unpackField(cfg, k, opts)
		if terr := typed("Unpack of "+k, gerr); terr != nil {
			return terr
		}
		if w.ThroughExpr {
			// a name leads through a setting that is an expression itself: the library evaluates it and walks on
			// in its value (a re-entry there is a cycle), the model does not look into values
			r.Class("name leads through an expression (termination only)")
			continue
		}
		if w.SawCycle {
			anyCycle = true
			nt = true
			if w.Absorbed || werr != vx.ErrCyclic {
				if !w.Swallowed && len(w.Uses) == 1 && setting.K == "expr" {
					// the statement's own case: a setting that extends the equally named variable (search:
					// "${search}:/usr/lib") - the only name it uses is re-entered and a resolver that knows the name
					// absorbs that, no operator is involved: nothing else was evaluated before, the value is the model's
					if (werr == nil) != (gerr == nil) || (werr == nil && !canon.EqualData(got, want)) {
						return fmt.Errorf("field %q uses only one name, re-enters it and a resolver that knows the name absorbs that: got %s / %v, want %s / %v", k, canon.Show(got), gerr, canon.Show(want), werr)
					}
					r.Class("self-extending setting absorbed by a resolver (value compared)")
					continue
				}
				// a resolver or an operator may absorb the re-entry: the value depends on what was active around the inner
				// evaluation; termination, typed errors (above) and determinism (C09) are asserted, not the value
				r.Class("cycle possibly absorbed (termination only)")
				continue
			}
			r.Class("pure cycle")
			if gerr == nil {
				return fmt.Errorf("field %q re-enters a reference that nothing can absorb, but Unpack returned %s", k, canon.Show(got))
			}
			if !vx.IsCyclic(gerr) {
				return fmt.Errorf("field %q re-enters a reference that nothing can absorb, but the error is not a cyclic-reference error: %v", k, gerr)
			}
			// walking a path through k evaluates k only as far as the chain of references leads (not the members of
			// the object or list it ends at)
			w.Reset()
			if herr := w.HeadErr(setting); herr == vx.ErrCyclic && !w.Absorbed {
				if err := throughCycle(cfg, k, opts, r); err != nil {
					return err
				}
			}
			continue
		}
		rep := w.Repeated()
		if rep {
			nt = true
			r.Class("repeated use / diamond")
		}
		if werr != nil {
			if gerr == nil {
				return fmt.Errorf("field %q: the model fails with %q but Unpack returned %s", k, werr, canon.Show(got))
			}
			if vx.IsCyclic(gerr) {
				return fmt.Errorf("field %q never re-enters a reference (the model fails with %q) but a cyclic reference was reported: %v", k, werr, gerr)
			}
			continue
		}
		if gerr != nil {
			return fmt.Errorf("field %q never re-enters a reference (uses: %v) and should yield %s, but Unpack failed: %v", k, w.Uses, canon.Show(want), gerr)
		}
		if !canon.EqualData(got, want) {
			return fmt.Errorf("field %q: got %s, want %s", k, canon.Show(got), canon.Show(want))
		}
		r.Class("acyclic read compared with the model")
		if err := moreReads(cfg, k, want, opts, r); err != nil {
			return err
		}
	}
	// all settings at once into one struct: sibling fields are evaluated independently of each other, so a
	// variable used by two fields (or reached by two fields along different paths) is no cycle
	if err := siblings(cfg, c, w, opts, r); err != nil {
		return err
	}
	// FlattenedKeys on a tree whose whole evaluation never re-enters a reference and succeeds: every key must be
	// the path of a non-nil primitive of the evaluated tree and their number must be the number of such
	// primitives. (Which path a reference to an object or list contributes its primitives under is not stated -
	// the library reports the paths of the referenced settings - so key sets are not compared; a reference that
	// is wrongly taken for cyclic shows up as a key that leads to a container, and in the count.)
	w.Reset()
	whole, werr := w.Eval(c.Root)
	ownOnly := !w.FromEnv && !w.FromResolver && !w.ThroughExpr // values from Env configs and resolvers carry paths of their own
	if !w.SawCycle && werr == nil && ownOnly && !splicedContainer(c.Root, w) {
		n := countPrims(whole)
		for _, k := range keys {
			v, ok := lookupData(whole, k)
			if !ok {
				return fmt.Errorf("FlattenedKeys returned %q, which is no path of the evaluated tree %s (keys %v)", k, canon.Show(whole), keys)
			}
			switch v.(type) {
			case map[string]interface{}, []interface{}, nil:
				return fmt.Errorf("FlattenedKeys returned %q, which leads to %s, not to a non-nil primitive (keys %v, evaluated tree %s)", k, canon.Show(v), keys, canon.Show(whole))
			}
		}
		if len(keys) != n {
			return fmt.Errorf("FlattenedKeys returned %d keys %v, the evaluated tree %s has %d non-nil primitive settings", len(keys), keys, canon.Show(whole), n)
		}
		r.Class("FlattenedKeys checked against the evaluated tree")
	}
	r.ClassIf(anyCycle, "case has a cycle")
	r.NonTrivialIf(nt)
	return nil
}

// nestedRefs reports whether an expression lives in a container that is itself a member of a container
func nestedRefs(root *vx.Node) bool {
	for _, v := range root.Vals {
		for _, e := range v.Vals {
			if (e.K == "obj" || e.K == "list") && e.AnyPart(func(p *vx.Part) bool { return p.IsVar }) {
				return true
			}
		}
	}
	return false
}

func keySet(keys []string) map[string]bool {
	m := make(map[string]bool, len(keys))
	for _, k := range keys {
		m[k] = true
	}
	return m
}

func sameSet(a, b map[string]bool) bool {
	if len(a) != len(b) {
		return false
	}
	for k := range a {
		if !b[k] {
			return false
		}
	}
	return true
}

func sortedKeys(m map[string]bool) []string {
	out := make([]string, 0, len(m))
	for k := range m {
		out = append(out, k)
	}
	sort.Strings(out)
	return out
}

// readVariant is an option list for FlattenedKeys and CompareConfigs
type readVariant struct {
	name   string
	opts   []ucfg.Option
	stable bool // no setting's evaluation absorbs a re-entry under these options
}

// withAltProbes returns a copy of the tree in which every ${N:+R} is preceded by ${N:}: the model decides ":+" by
// looking whether N exists and treats a name under evaluation as unset without recording the re-entry; the
// probe evaluates N, so that stableTree sees a re-entry (and its absorption) there as well.
func withAltProbes(root *vx.Node) *vx.Node {
	out := root.Clone()
	var parts func(ps []vx.Part) []vx.Part
	parts = func(ps []vx.Part) []vx.Part {
		var res []vx.Part
		for _, p := range ps {
			if p.IsVar {
				p.Name = parts(p.Name)
				p.Right = parts(p.Right)
				if p.Op == ":+" {
					res = append(res, vx.Part{IsVar: true, Name: p.Name, Op: ":"})
				}
			}
			res = append(res, p)
		}
		return res
	}
	var walk func(n *vx.Node)
	walk = func(n *vx.Node) {
		if n.K == "expr" {
			n.Expr = parts(n.Expr)
		}
		for _, c := range n.Vals {
			walk(c)
		}
	}
	walk(out)
	return out
}

// stableTree evaluates every expression of the tree on its own, the way FlattenedKeys meets it, and reports
// whether none of these evaluations absorbs a re-entry (other than the statement's own case, a setting whose only
// name is re-entered and provided by a resolver) or leads through an expression; and whether some name was
// computed while reading and contains the separator.
func stableTree(root *vx.Node, w *vx.World) (stable, dotted bool) {
	stable = true
	var walk func(n *vx.Node)
	walk = func(n *vx.Node) {
		if n.K == "expr" {
			w.Reset()
			_, werr := w.Eval(n)
			if w.ThroughExpr {
				stable = false
			}
			if w.SawCycle && (w.Absorbed || werr != vx.ErrCyclic) && (w.Swallowed || len(w.Uses) != 1) {
				stable = false
			}
			dotted = dotted || w.ComputedDotted
		}
		for _, c := range n.Vals {
			walk(c)
		}
	}
	walk(root)
	return
}

// diffChecks: key flattening and configuration diffing are reads like any other - they evaluate references with
// the options of the call, for BOTH configurations. Whatever the options are (the ones the configuration was built
// with, another path separator, the same without resolvers and Env configs, none at all), and unless an absorbed
// re-entry makes the keys depend on the order of evaluation (see below):
//   - FlattenedKeys of one configuration yields the same sorted keys every time, and the same keys as for an
//     identically built configuration;
//   - CompareConfigs with an identically built configuration reports no change;
//   - CompareConfigs(x, y, opts...) reports only keys of x.FlattenedKeys(opts...) or y.FlattenedKeys(opts...), every
//     key once, as removed exactly the keys only x has and - where neither side lists a key twice - exactly the
//     partition into kept, removed and added keys (edited and merged-twice second configurations, both argument
//     orders); HasChanged & co. agree with the lists.
//
// Observed on the unchanged library and outside the statement (not asserted): a key that the old configuration
// lacks and that the new one lists twice (a reference to an object or list contributes the paths of the referenced
// settings once more) is reported as kept instead of added.
//
// It returns the keys under the options the configuration was built with.
func diffChecks(c Case, cfg, merged *ucfg.Config, opts []ucfg.Option, r *runlog.R) ([]string, error) {
	// Where a re-entry is absorbed, the value of the inner evaluation depends on what was active around it and the
	// per-call cache re-uses it elsewhere: the keys of such a configuration legitimately depend on the order in
	// which FlattenedKeys visits the settings (reading decisions 17 and 22). The comparisons below are asserted
	// for configurations in which no setting is of that kind - in the world of the call: with and without the
	// Env configs and resolvers.
	mroot := withAltProbes(c.mergedRoot())
	var envs []*vx.Node
	for _, e := range c.Envs {
		envs = append(envs, withAltProbes(e))
	}
	fullStable, fullDotted := stableTree(mroot, &vx.World{Root: mroot, Envs: envs, Resolvers: c.Resolvers})
	bareStable, bareDotted := stableTree(mroot, &vx.World{Root: mroot})
	// the edited sibling is a configuration of its own: a setting less (what referred to it now fails or falls
	// back to a default), references more (below n7 the name o is under evaluation)
	ref := func(n string) *vx.Node {
		return &vx.Node{K: "expr", Expr: []vx.Part{{IsVar: true, Name: []vx.Part{{Lit: n}}}}}
	}
	eroot := mroot.Clone()
	if len(eroot.Keys) > 0 {
		eroot.Keys, eroot.Vals = eroot.Keys[1:], eroot.Vals[1:]
	}
	eroot.Put("n8", ref("a"))
	if c.ReadSep == "" {
		eroot.Put("n7", ref("o"))
	}
	eFull, _ := stableTree(eroot, &vx.World{Root: eroot, Envs: envs, Resolvers: c.Resolvers})
	eBare, _ := stableTree(eroot, &vx.World{Root: eroot})
	twin, err := build(c, opts)
	if err != nil {
		return nil, fmt.Errorf("building the same configuration a second time failed: %v", err)
	}
	// an edited sibling: one top-level setting less, one more, one reference more
	edited, err := build(c, opts)
	if err != nil {
		return nil, err
	}
	if e := uc.Safe("editing the second configuration", func() error {
		if fs := c.mergedRoot().Keys; len(fs) > 0 {
			if _, err := edited.Remove(fs[0], -1, opts...); err != nil {
				return fmt.Errorf("Remove(%q) failed: %v", fs[0], err)
			}
		}
		add := map[string]interface{}{"n9": map[string]interface{}{"k": 1}, "n8": "${a}"}
		if c.ReadSep == "" {
			add["n7"] = "${o}" // one reference more to (what may be) an object: its keys once more
		}
		return edited.Merge(add, opts...)
	}); e != nil {
		return nil, e
	}
	variants := []readVariant{{"the options the configuration was built with", opts, fullStable}}
	if c.ReadSep != "" {
		// (a name that is computed while reading is split with the separator of the reading call)
		variants = append(variants, readVariant{fmt.Sprintf("the same options and PathSep(%q)", c.ReadSep), append(append([]ucfg.Option(nil), opts...), ucfg.PathSep(c.ReadSep)), fullStable && bareStable && !fullDotted && !bareDotted})
	}
	if len(c.Envs)+len(c.Resolvers) > 0 {
		variants = append(variants, readVariant{"PathSep and VarExp only (no Env configs, no resolvers)", opts[:2], bareStable})
	}
	variants = append(variants, readVariant{"no options", nil, bareStable})

	flat := func(what string, x *ucfg.Config, o []ucfg.Option) (keys []string, err error) {
		err = uc.Safe("FlattenedKeys of "+what, func() error { keys = x.FlattenedKeys(o...); return nil })
		return
	}
	var builtKeys []string
	var plain map[string]bool
	for vi, v := range variants {
		k1, err := flat("the configuration", cfg, v.opts)
		if err != nil {
			return nil, err
		}
		if !sort.StringsAreSorted(k1) {
			return nil, fmt.Errorf("FlattenedKeys with %s returns keys that are not sorted: %v", v.name, k1)
		}
		if vi == 0 {
			builtKeys = k1
		}
		if v.opts == nil {
			plain = keySet(k1)
		}
		if v.stable {
			k2, err := flat("the configuration (second call)", cfg, v.opts)
			if err != nil {
				return nil, err
			}
			if !reflect.DeepEqual(k1, k2) {
				return nil, fmt.Errorf("FlattenedKeys with %s: two calls on the same configuration return different keys: %v and %v", v.name, k1, k2)
			}
			kt, err := flat("an identically built configuration", twin, v.opts)
			if err != nil {
				return nil, err
			}
			if !reflect.DeepEqual(k1, kt) {
				return nil, fmt.Errorf("FlattenedKeys with %s: two identically built configurations have different keys: %v and %v", v.name, k1, kt)
			}
		}
		pairs := []struct {
			what string
			x, y *ucfg.Config
		}{
			{"an identically built configuration", cfg, twin},
			{"an edited sibling", cfg, edited},
			{"an edited sibling (as the old one)", edited, cfg},
			{"a configuration it was merged into twice (appending)", cfg, merged},
		}
		if vi > 1 {
			pairs = pairs[:2]
		}
		for pi, p := range pairs {
			stable := v.stable
			if pi == 1 || pi == 2 {
				stable = stable && eFull && eBare
			}
			var d diff.Diff
			if e := uc.Safe("CompareConfigs", func() error { d = diff.CompareConfigs(p.x, p.y, v.opts...); return nil }); e != nil {
				return nil, e
			}
			seenKey := map[string]bool{}
			for _, typ := range []diff.Type{diff.Keep, diff.Add, diff.Remove} {
				for _, k := range d[typ] {
					if seenKey[k] {
						return nil, fmt.Errorf("CompareConfigs with %s and %s reports the key %q twice: %v", p.what, v.name, k, d)
					}
					seenKey[k] = true
				}
			}
			if d.HasKeyAdded() != (len(d[diff.Add]) > 0) || d.HasKeyRemoved() != (len(d[diff.Remove]) > 0) || d.HasChanged() != (len(d[diff.Add])+len(d[diff.Remove]) > 0) {
				return nil, fmt.Errorf("CompareConfigs with %s and %s: HasKeyAdded/HasKeyRemoved/HasChanged = %v/%v/%v disagree with the lists %v", p.what, v.name, d.HasKeyAdded(), d.HasKeyRemoved(), d.HasChanged(), d)
			}
			if !stable {
				r.Class("diff where an absorbed re-entry makes keys depend on the evaluation order (termination, each key once)")
				continue
			}
			kx, err := flat(p.what, p.x, v.opts)
			if err != nil {
				return nil, err
			}
			ky, err := flat(p.what, p.y, v.opts)
			if err != nil {
				return nil, err
			}
			sx, sy := keySet(kx), keySet(ky)
			for k := range seenKey {
				if !sx[k] && !sy[k] {
					return nil, fmt.Errorf("CompareConfigs of the configuration with %s, with %s, reports the key %q, which FlattenedKeys with the same options yields for neither configuration (%v, %v)", p.what, v.name, k, kx, ky)
				}
			}
			onlyOld := map[string]bool{}
			for k := range sx {
				if !sy[k] {
					onlyOld[k] = true
				}
			}
			if got := keySet(d[diff.Remove]); !sameSet(got, onlyOld) {
				return nil, fmt.Errorf("CompareConfigs of the configuration with %s, with %s: removed keys are %v, but FlattenedKeys with the same options yields %v for the old and %v for the new configuration (only in the old one: %v)", p.what, v.name, sortedKeys(got), kx, ky, sortedKeys(onlyOld))
			}
			if pi == 0 && d.HasChanged() {
				return nil, fmt.Errorf("CompareConfigs of two identically built configurations with %s reports a change: %v", v.name, d)
			}
			if len(sx) != len(kx) || len(sy) != len(ky) {
				// observed on the unchanged library, outside the statement: a key that is new and listed twice among
				// the keys of the new configuration is reported as kept (which keys a reference to an object or list
				// contributes, and how often, is not stated)
				r.Class("diff: partition not asserted, a side lists a key twice (reference to a container)")
				continue
			}
			want := map[diff.Type]map[string]bool{diff.Keep: {}, diff.Add: {}, diff.Remove: {}}
			for k := range sx {
				if sy[k] {
					want[diff.Keep][k] = true
				} else {
					want[diff.Remove][k] = true
				}
			}
			for k := range sy {
				if !sx[k] {
					want[diff.Add][k] = true
				}
			}
			for _, typ := range []diff.Type{diff.Keep, diff.Add, diff.Remove} {
				name := map[diff.Type]string{diff.Keep: "kept", diff.Add: "added", diff.Remove: "removed"}[typ]
				if got := keySet(d[typ]); !sameSet(got, want[typ]) {
					return nil, fmt.Errorf("CompareConfigs of the configuration with %s, with %s: %s keys are %v, but FlattenedKeys with the same options yields %v for the old and %v for the new configuration (so %s: %v)", p.what, v.name, name, sortedKeys(got), kx, ky, name, sortedKeys(want[typ]))
				}
			}
			for typ := range d {
				if typ != diff.Keep && typ != diff.Add && typ != diff.Remove {
					return nil, fmt.Errorf("CompareConfigs reports keys of an unknown type %v", typ)
				}
			}
			r.Class("diff: exact partition of the flattened keys asserted")
			r.ClassIf(pi > 0 && len(want[diff.Add]) > 0 && len(want[diff.Remove]) > 0 && len(want[diff.Keep]) > 0, "diff with kept, added and removed keys")
		}
	}
	if plain != nil {
		bs := keySet(builtKeys)
		r.ClassIf(!sameSet(bs, plain), "Env configs / resolvers change the key set (compared with a call without options)")
	}
	r.ClassIf(c.ReadSep != "", "flattened and diffed with another path separator too")
	r.ClassIf(fullStable, "FlattenedKeys/CompareConfigs: repeatable, twin, partition (options of the configuration)")
	return builtKeys, nil
}

// throughCycle: k is a reference that can only be evaluated by re-entering itself and nothing absorbs that. A read
// that has to walk THROUGH k (k.zz, element 1 of k) evaluates k on the way: the cycle must be reported as such,
// not as a missing or mistyped setting (which Has and struct fields with dotted names would silently swallow).
func throughCycle(cfg *ucfg.Config, k string, opts []ucfg.Option, r *runlog.R) error {
	check := func(what string, err error) error {
		if err == nil {
			return fmt.Errorf("%s succeeded although %q can only be evaluated by re-entering itself", what, k)
		}
		if !vx.IsCyclic(err) {
			return fmt.Errorf("%s leads through %q, which can only be evaluated by re-entering itself, but the error is not a cyclic-reference error: %v", what, k, err)
		}
		return vx.Typed(what, err)
	}
	if !strings.Contains(k, ".") {
		var cerr error
		if e := uc.Safe("CountField", func() error { _, cerr = cfg.CountField(k, opts...); return nil }); e != nil {
			return e
		}
		if err := check(fmt.Sprintf("CountField(%q)", k), cerr); err != nil {
			return err
		}
	}
	for _, p := range []string{k + ".zz", k + ".zz.y", k + ".1"} {
		var e1, e2, e3, e4, e5 error
		if e := uc.Safe("reads through a cyclic reference", func() error {
			_, e1 = cfg.String(p, -1, opts...)
			_, e2 = cfg.Has(p, -1, opts...)
			_, e3 = cfg.Child(p, -1, opts...)
			_, e4 = cfg.Int(p, -1, opts...)
			_, e5 = unpackField(cfg, p, opts)
			return nil
		}); e != nil {
			return e
		}
		for i, e := range []error{e1, e2, e3, e4, e5} {
			if err := check(fmt.Sprintf("%s(%q)", []string{"String", "Has", "Child", "Int", "Unpack of field"}[i], p), e); err != nil {
				return err
			}
		}
	}
	var e1, e2, e3 error
	if e := uc.Safe("reads through a cyclic reference", func() error {
		_, e1 = cfg.String(k, 1, opts...)
		_, e2 = cfg.Has(k, 1, opts...)
		_, e3 = cfg.Child(k, 1, opts...)
		return nil
	}); e != nil {
		return e
	}
	for i, e := range []error{e1, e2, e3} {
		if err := check(fmt.Sprintf("%s(%q, 1)", []string{"String", "Has", "Child"}[i], k), e); err != nil {
			return err
		}
	}
	r.Class("reads through a purely cyclic reference")
	return nil
}

type node struct {
	Name string `config:"x"`
	Next *node  `config:"y"`
	Sub  []node `config:"l"`
}

// moreReads: a field whose evaluation never re-enters a reference is read in further ways; none of them may
// report a cyclic reference (the same evaluation, only repeated or spread over list elements).
func moreReads(cfg *ucfg.Config, k string, want interface{}, opts []ucfg.Option, r *runlog.R) error {
	noCycle := func(what string, err error) error {
		if err != nil && vx.IsCyclic(err) {
			return fmt.Errorf("field %q never re-enters a reference, but %s reported a cyclic reference: %v", k, what, err)
		}
		return vx.Typed(what, err)
	}
	// by index: index 0 of a primitive is the primitive, index i of a list its element
	for _, idx := range []int{0, 1} {
		var err error
		if e := uc.Safe("String idx", func() error { _, err = cfg.String(k, idx, opts...); return nil }); e != nil {
			return e
		}
		if e := noCycle(fmt.Sprintf("String(%q, %d)", k, idx), err); e != nil {
			return e
		}
		if e := uc.Safe("Child idx", func() error { _, err = cfg.Child(k, idx, opts...); return nil }); e != nil {
			return e
		}
		if e := noCycle(fmt.Sprintf("Child(%q, %d)", k, idx), err); e != nil {
			return e
		}
	}
	// CountField evaluates the setting as far as its length requires: a list has as many elements as the model's
	// list, an object or a primitive counts 1, null counts 0 (top-level names only: CountField takes plain names)
	if !strings.Contains(k, ".") {
		wantN := 1
		switch x := want.(type) {
		case nil:
			wantN = 0
		case []interface{}:
			wantN = len(x)
		}
		var n int
		var cerr error
		if e := uc.Safe("CountField", func() error { n, cerr = cfg.CountField(k, opts...); return nil }); e != nil {
			return e
		}
		if e := noCycle(fmt.Sprintf("CountField(%q)", k), cerr); e != nil {
			return e
		}
		if cerr != nil {
			return fmt.Errorf("field %q evaluates to %s, but CountField failed: %v", k, canon.Show(want), cerr)
		}
		if n != wantN {
			return fmt.Errorf("field %q evaluates to %s, but CountField = %d, want %d", k, canon.Show(want), n, wantN)
		}
	}
	// typed primitive targets look at the type of the value first and convert it then: reading the chain of
	// references twice is no re-entry, and a small number converts into every numeric kind
	switch x := want.(type) {
	case uint64, int64, float64, bool, string:
		types := []reflect.Type{reflect.TypeOf(""), reflect.TypeOf((*interface{})(nil)).Elem()}
		num := false
		switch n := x.(type) {
		case uint64:
			num = n <= 100
		case int64:
			num = n >= 0 && n <= 100
		case bool:
			types = append(types, reflect.TypeOf(false))
		}
		if num {
			types = append(types, reflect.TypeOf(uint16(0)), reflect.TypeOf(uint(0)), reflect.TypeOf(int8(0)), reflect.TypeOf(float32(0)), reflect.TypeOf([]uint8(nil)), reflect.TypeOf((*uint32)(nil)))
		}
		var fs []reflect.StructField
		for i, t := range types {
			fs = append(fs, reflect.StructField{Name: fmt.Sprintf("T%d", i), Type: t, Tag: reflect.StructTag(fmt.Sprintf(`config:"%s"`, k))})
		}
		out := reflect.New(reflect.StructOf(fs))
		err := uc.Safe("Unpack", func() error { return cfg.Unpack(out.Interface(), opts...) })
		if e := noCycle("Unpack into typed primitive fields", err); e != nil {
			return e
		}
		if _, isStr := x.(string); err != nil && !isStr {
			return fmt.Errorf("field %q evaluates to %s, but unpacking it into fields of types %v failed: %v", k, canon.Show(want), types, err)
		}
		r.Class("primitive read into typed targets")
	}
	switch x := want.(type) {
	case []interface{}:
		// typed list targets evaluate the elements one after the other
		typ := reflect.StructOf([]reflect.StructField{{Name: "V", Type: reflect.TypeOf([]string(nil)), Tag: reflect.StructTag(fmt.Sprintf(`config:"%s"`, k))}})
		out := reflect.New(typ)
		err := uc.Safe("Unpack", func() error { return cfg.Unpack(out.Interface(), opts...) })
		if e := noCycle("Unpack into a []string field", err); e != nil {
			return e
		}
		// a list reached through any number of references is a list: its elements arrive one by one
		gtyp := reflect.StructOf([]reflect.StructField{{Name: "V", Type: reflect.TypeOf([]interface{}(nil)), Tag: reflect.StructTag(fmt.Sprintf(`config:"%s"`, k))}})
		gout := reflect.New(gtyp)
		gerr := uc.Safe("Unpack", func() error { return cfg.Unpack(gout.Interface(), opts...) })
		if e := noCycle("Unpack into a []interface{} field", gerr); e != nil {
			return e
		}
		if gerr != nil {
			return fmt.Errorf("field %q evaluates to the list %s, but unpacking it into a []interface{} field failed: %v", k, canon.Show(want), gerr)
		}
		if got := gout.Elem().Field(0).Interface(); !canon.EqualData(got, want) {
			return fmt.Errorf("field %q evaluates to the list %s, but a []interface{} field receives %s", k, canon.Show(want), canon.Show(got))
		}
		var ai [2]interface{}
		aout := reflect.New(reflect.StructOf([]reflect.StructField{{Name: "V", Type: reflect.TypeOf(ai), Tag: reflect.StructTag(fmt.Sprintf(`config:"%s"`, k))}}))
		err = uc.Safe("Unpack", func() error { return cfg.Unpack(aout.Interface(), opts...) })
		if e := noCycle("Unpack into a [2]interface{} field", err); e != nil {
			return e
		}
		r.Class("list read into typed targets")
	case map[string]interface{}:
		// typed map and struct targets, paths through the setting
		typ := reflect.StructOf([]reflect.StructField{{Name: "V", Type: reflect.TypeOf(map[string]interface{}(nil)), Tag: reflect.StructTag(fmt.Sprintf(`config:"%s"`, k))},
			{Name: "N", Type: reflect.TypeOf(node{}), Tag: reflect.StructTag(fmt.Sprintf(`config:"%s"`, k))}})
		out := reflect.New(typ)
		err := uc.Safe("Unpack", func() error { return cfg.Unpack(out.Interface(), opts...) })
		if e := noCycle("Unpack into map and struct fields", err); e != nil {
			return e
		}
		for sub := range x {
			var gerr error
			if e := uc.Safe("String path", func() error { _, gerr = cfg.String(k+"."+sub, -1, opts...); return nil }); e != nil {
				return e
			}
			if e := noCycle(fmt.Sprintf("String(%q)", k+"."+sub), gerr); e != nil {
				return e
			}
			// the member read through the (possibly referenced) object is the member of the evaluated object
			got, uerr := unpackField(cfg, k+"."+sub, opts)
			if e := noCycle(fmt.Sprintf("Unpack of field %q", k+"."+sub), uerr); e != nil {
				return e
			}
			if uerr != nil {
				return fmt.Errorf("field %q evaluates to %s, but reading its member %q failed: %v", k, canon.Show(want), sub, uerr)
			}
			if !canon.EqualData(got, x[sub]) {
				return fmt.Errorf("field %q evaluates to %s, but its member %q read through the path is %s", k, canon.Show(want), sub, canon.Show(got))
			}
			var has bool
			if e := uc.Safe("Has path", func() error { has, gerr = cfg.Has(k+"."+sub, -1, opts...); return nil }); e != nil {
				return e
			}
			if gerr != nil || !has {
				return fmt.Errorf("field %q evaluates to %s, but Has(%q) = %v, %v", k, canon.Show(want), k+"."+sub, has, gerr)
			}
		}
		r.Class("object read into typed targets and through paths")
	}
	return nil
}

func countPrims(v interface{}) int {
	switch x := v.(type) {
	case map[string]interface{}:
		n := 0
		for _, e := range x {
			n += countPrims(e)
		}
		return n
	case []interface{}:
		n := 0
		for _, e := range x {
			n += countPrims(e)
		}
		return n
	case nil:
		return 0
	}
	return 1
}

func lookupData(v interface{}, path string) (interface{}, bool) {
	for _, seg := range strings.Split(path, ".") {
		switch x := v.(type) {
		case map[string]interface{}:
			e, ok := x[seg]
			if !ok {
				return nil, false
			}
			v = e
		case []interface{}:
			i, err := strconv.Atoi(seg)
			if err != nil || i < 0 || i >= len(x) {
				return nil, false
			}
			v = x[i]
		default:
			return nil, false
		}
	}
	return v, true
}

// splicedContainer reports whether some string with several pieces evaluates to text that is re-parsed into a
// list or object: the paths of such parsed elements are not settings of the tree.
func splicedContainer(root *vx.Node, w *vx.World) bool {
	found := false
	var walk func(n *vx.Node)
	walk = func(n *vx.Node) {
		if n.K == "expr" {
			if _, direct := vx.DirectName(n.Expr); !direct {
				w.Reset()
				if v, err := w.Eval(n); err == nil {
					switch v.(type) {
					case map[string]interface{}, []interface{}:
						found = true
					}
				}
			}
		}
		for _, c := range n.Vals {
			walk(c)
		}
	}
	walk(root)
	return found
}

// siblings unpacks all settings at once into one struct, with plain tags and with merge options in the tags of
// some or all fields (a field with a merge option is evaluated with options of its own).
func siblings(cfg *ucfg.Config, c Case, w *vx.World, opts []ucfg.Option, r *runlog.R) error {
	for variant := 0; variant < 4; variant++ {
		if err := siblingsVariant(cfg, c, w, opts, r, variant); err != nil {
			return err
		}
	}
	return nil
}

var tagOpts = []string{"", ",replace", ",append", ",prepend"}

func siblingsVariant(cfg *ucfg.Config, c Case, w *vx.World, opts []ucfg.Option, r *runlog.R, variant int) error {
	var fields []reflect.StructField
	var want []interface{}
	anyErr, onlyCyclic := false, true
	for i, k := range c.Root.Keys {
		w.Reset()
		v, err := w.Eval(c.Root.Vals[i])
		if w.ThroughExpr || w.SawCycle && (w.Absorbed || err != vx.ErrCyclic) {
			return nil // an absorbed cycle somewhere: values are context dependent, nothing to compare
		}
		if err != nil {
			anyErr = true
			if err != vx.ErrCyclic {
				onlyCyclic = false
			}
		}
		want = append(want, v)
		tagOpt := ""
		switch variant {
		case 1:
			tagOpt = tagOpts[1+i%3]
		case 2:
			tagOpt = tagOpts[(i+1)%2*2] // every other field
		case 3:
			tagOpt = tagOpts[i%2*3]
		}
		fields = append(fields, reflect.StructField{Name: fmt.Sprintf("F%d", i), Type: reflect.TypeOf((*interface{})(nil)).Elem(), Tag: reflect.StructTag(fmt.Sprintf(`config:"%s%s"`, k, tagOpt))})
	}
	if len(fields) < 2 {
		return nil
	}
	out := reflect.New(reflect.StructOf(fields))
	gerr := uc.Safe("Unpack", func() error { return cfg.Unpack(out.Interface(), opts...) })
	if terr := vx.Typed("Unpack into a struct", gerr); terr != nil {
		return terr
	}
	if anyErr {
		if gerr == nil {
			return fmt.Errorf("unpacking all settings into one struct succeeded although the model fails for a field")
		}
		if !onlyCyclic || vx.IsCyclic(gerr) {
			return nil
		}
		return nil
	}
	if gerr != nil {
		if vx.IsCyclic(gerr) {
			return fmt.Errorf("no field re-enters a reference, but unpacking all settings into one struct (fields %v, tag variant %d) reported a cyclic reference: %v", c.Root.Keys, variant, gerr)
		}
		return fmt.Errorf("no field of the model fails, but unpacking all settings into one struct failed: %v", gerr)
	}
	for i := range want {
		if got := out.Elem().Field(i).Interface(); !canon.EqualData(got, want[i]) {
			return fmt.Errorf("struct field %q (tag variant %d): got %s, want %s", c.Root.Keys[i], variant, canon.Show(got), canon.Show(want[i]))
		}
	}
	r.Class("sibling struct fields compared")
	return nil
}

var subCycles = runlog.Register(&runlog.Sub[Case]{
	Name:    "reference-graphs",
	Rule:    "reference graphs over settings a-d, o{x,y}, l[2] with names drawn mostly from the own tree (self references, ancestor/descendant references through the object o, chains, diamonds, the same name several times in one string, references inside names and defaults), optionally an Env config and a resolver that can absorb a cycle; a third of the cases nest containers (a list o.l, a list or object as l.1, with names leading to their members). HISTORY: a third of the cases merge one or two later layers over the first (leaves of the tree so far redefined by new literals/nil/expressions, lists element-wise), the steps given as Go data or as *Config sources, and in two cases of five a copy (the configuration merged into an empty one, before or after the last layer) is what is read; the model is the merged tree - references see the settings merged last. Every read entry point (typed getters, Child, Has, CountField, Unpack, use as merge source, FlattenedKeys, CompareConfigs) must return with typed errors; a field whose evaluation never re-enters a reference must yield the model's value (never a cyclic-reference error), read alone and together with all its siblings as fields of one struct; a field that must re-enter one while nothing can absorb it must fail with a cyclic-reference error (also when it is only walked through: k.zz, element 1 of k); a setting that extends the equally named variable of a resolver (one case in six plants one, half of them with other settings referring to it, resolver values that parse into lists and objects included) must yield the model's value. FLATTENING AND DIFFING under up to four option lists (the options the configuration was built with; the same plus PathSep '/', '::' or '-'; PathSep and VarExp without the Env configs and resolvers; no options): unless some setting absorbs a re-entry other than in the statement's own case (there keys depend on the order of evaluation; only termination, every key once and HasChanged/HasKeyAdded/HasKeyRemoved consistent with the lists are asserted) FlattenedKeys is sorted, the same on a second call and for an identically built second configuration; CompareConfigs with an identically built configuration reports no change; with an edited sibling (one setting removed, two or three added, both argument orders) and with a configuration the first was merged into twice (appending) every reported key is a key of one side under the same options, the removed keys are exactly the keys only the old side has, and - where neither side lists a key twice - kept/added/removed are exactly the partition of the two key sets. Non-trivial: the evaluation of some field dereferences a name more than once (repeated use / diamond) or re-enters a reference (cycle). Distinct: hash of the case.",
	Gen:     genCase,
	Run:     runCase,
	Journal: true,
})

func TestReferenceGraphs(t *testing.T) { subCycles.Check(t, 40000, 2000000) }

// ---------------------------------------------------------------------------
// wild graphs: termination only

var wildNames = []string{"a", "b", "c", "o", "o.x", "l", "l.0", "a.x", "a.y", "a.0", "b.x", "b.k.j", "c.0.x", "o.x.y", "o.x.0", "l.0.x", "l.1.0", "d.o.x", "a.o.x", "a.l.0", "a.a"}

func genWild(t *rapid.T) Case {
	g := &vx.GCfg{Depth: runlog.Pick(2, 3), Names: wildNames}
	c := Case{Root: g.GenRoot(t)}
	if rapid.IntRange(0, 3).Draw(t, "recursive") == 0 {
		// an object that contains a reference to itself or to a setting that leads back to it: unpacked into a
		// recursive struct type this must end in a cyclic-reference error, not in unbounded recursion
		ref := func(n string) *vx.Node {
			return &vx.Node{K: "expr", Expr: []vx.Part{{IsVar: true, Name: []vx.Part{{Lit: n}}}}}
		}
		o := &vx.Node{K: "obj"}
		o.Put("x", g.GenLeaf(t, true))
		o.Put("y", ref(rapid.SampledFrom([]string{"o", "a", "b", "l.0", "o.y"}).Draw(t, "back")))
		c.Root.Put("o", o)
		c.Root.Put("a", ref(rapid.SampledFrom([]string{"o", "b", "l.0"}).Draw(t, "a")))
		c.Root.Put("b", ref(rapid.SampledFrom([]string{"o", "a", "l"}).Draw(t, "b")))
		c.Root.Put("l", &vx.Node{K: "list", Vals: []*vx.Node{ref(rapid.SampledFrom([]string{"o", "a", "l"}).Draw(t, "l0")), g.GenLeaf(t, true)}})
	}
	if rapid.IntRange(0, 3).Draw(t, "env") == 0 {
		c.Envs = append(c.Envs, g.GenEnv(t))
	}
	if rapid.IntRange(0, 3).Draw(t, "res") == 0 {
		c.Resolvers = append(c.Resolvers, g.GenResolver(t))
	}
	vx.Lighten(weightLimit, append([]*vx.Node{c.Root}, c.Envs...)...)
	return c
}

// nest is a list type whose elements are lists of the same type
type nest []nest

type wildTarget struct {
	LN nest                   `config:"l"`
	AN nest                   `config:"a"`
	ON map[string]nest        `config:"o"`
	A  node                   `config:"a"`
	B  *node                  `config:"b"`
	C  []string               `config:"c"`
	D  map[string]string      `config:"d"`
	O  map[string]*node       `config:"o"`
	L  []node                 `config:"l"`
	A2 [2]interface{}         `config:"a"`
	O2 map[string]interface{} `config:"o"`
	L2 []map[string][]string  `config:"l"`
}

func runWild(c Case, r *runlog.R) error {
	opts, err := vx.Options(c.Envs, c.Resolvers)
	if err != nil {
		return err
	}
	var cfg *ucfg.Config
	if err := uc.Safe("NewFrom", func() (e error) { cfg, e = ucfg.NewFrom(c.Root.Go(), opts...); return }); err != nil {
		return fmt.Errorf("NewFrom failed: %v", err)
	}
	var first error
	errs := 0
	note := func(what string, err error) {
		if err != nil {
			errs++
		}
		if first == nil {
			first = vx.Typed(what, err)
		}
	}
	e := uc.Safe("read entry points", func() error {
		for _, k := range append([]string{"d", "zz"}, wildNames...) {
			for _, idx := range []int{-1, 0, 1} {
				_, err := cfg.String(k, idx, opts...)
				note("String", err)
				_, err = cfg.Int(k, idx, opts...)
				note("Int", err)
				_, err = cfg.Child(k, idx, opts...)
				note("Child", err)
				_, err = cfg.Has(k, idx, opts...)
				note("Has", err)
			}
			_, err := cfg.Bool(k, -1, opts...)
			note("Bool", err)
			_, err = cfg.Float(k, -1, opts...)
			note("Float", err)
			_, err = cfg.Uint(k, -1, opts...)
			note("Uint", err)
			_, err = cfg.CountField(k, opts...)
			note("CountField", err)
		}
		var m map[string]interface{}
		note("Unpack map", cfg.Unpack(&m, opts...))
		var wt wildTarget
		note("Unpack typed", cfg.Unpack(&wt, opts...))
		note("Unpack typed again", cfg.Unpack(&wt, opts...))
		var n node
		note("Unpack node", cfg.Unpack(&n, opts...))
		var ms map[string][]string
		note("Unpack map of lists", cfg.Unpack(&ms, opts...))
		d := ucfg.New()
		note("Merge", d.Merge(cfg, opts...))
		note("Merge append", d.Merge(cfg, append([]ucfg.Option{ucfg.AppendValues}, opts...)...))
		cfg.FlattenedKeys(opts...)
		d.FlattenedKeys(opts...)
		diff.CompareConfigs(cfg, d, opts...)
		if ch, err := cfg.Child("o", -1, opts...); err == nil {
			ch.FlattenedKeys(opts...)
			var m2 map[string]interface{}
			note("Unpack child", ch.Unpack(&m2, opts...))
		}
		return nil
	})
	if e != nil {
		return e
	}
	if first != nil {
		return first
	}
	through := c.Root.AnyPart(func(p *vx.Part) bool {
		return p.IsVar && len(p.Name) == 1 && !p.Name[0].IsVar && (len(p.Name[0].Lit) > 3 || p.Name[0].Lit == "a.x" || p.Name[0].Lit == "a.y" || p.Name[0].Lit == "a.0" || p.Name[0].Lit == "b.x" || p.Name[0].Lit == "a.a")
	})
	r.NonTrivialIf(through && errs > 0)
	r.ClassIf(through, "a name leads through a setting that may itself be a reference")
	return nil
}

var subWild = runlog.Register(&runlog.Sub[Case]{
	Name:    "wild-graphs",
	Rule:    "reference graphs whose names may lead THROUGH settings that are themselves references or spliced text (a.x, a.0, b.k.j, o.x.y, l.0.x, a.o.x ... where a, b, o.x, l.0 may be expressions), read through every getter with idx -1/0/1, Child, Has, CountField, Unpack into generic, typed and RECURSIVE struct targets (twice), typed lists and maps (a quarter of the cases plant an object that refers back to itself directly or through other settings), use as merge source, FlattenedKeys, CompareConfigs and child handles. Oracle: every call returns (journal + watchdog + small maximal stack catch runaway recursion) and every error is typed; values are not compared (no model of lookups through evaluated values). Non-trivial: some name leads through a setting that may be a reference and at least one call returned an error. Distinct: hash of the case.",
	Gen:     genWild,
	Run:     runWild,
	Journal: true,
})

func TestWildGraphs(t *testing.T) { subWild.Check(t, 15000, 1500000) }

func TestReplay(t *testing.T) { runlog.ReplayMain(t) }
