package c16

// Sub-check "option-reuse": the statement of C16 speaks about "merging with
// Field*Values for a path": the result of ONE merge call is determined by the
// operands and by the options passed to THAT call. Option values are ordinary
// Go values that programs keep and pass to several calls (NewFrom, Merge,
// Unpack), in changing company. The case is a history of 1-4 calls in one
// process that draw their field options from a small pool of Option VALUES
// (each created once, by one Field*Values(names...) call with 0-3 names), in
// any subset, order and multiplicity, next to a global policy option at any
// position of the list. Every call is compared
//
//	(1) with the field-policy model for exactly the options passed to it, and
//	(2) with the same history executed with freshly created Option values for
//	    every call (library as its own reference: sharing a value must not
//	    make a difference).

import (
	"fmt"
	"sort"
	"strings"
	"testing"

	ucfg "github.com/elastic/go-ucfg"
	"pgregory.net/rapid"

	"verif/harness/internal/canon"
	"verif/harness/internal/gen"
	"verif/harness/internal/model"
	"verif/harness/internal/runlog"
	"verif/harness/internal/uc"
)

// OptVal is one Option VALUE: the result of one FieldXxxValues(Paths...) call.
type OptVal struct {
	Paths  []string     `json:"paths"`
	Policy model.Policy `json:"policy"`
}

// HStep is one call of the history.
type HStep struct {
	Base     int          `json:"base"`           // tree the target config is built from; -1: the result of the previous step
	From     int          `json:"from"`           // tree that is merged in
	Global   model.Policy `json:"global"`         // global policy option of the call
	GPos     int          `json:"gpos"`           // the global option stands before field option number GPos (>= len(Use): last)
	Use      []int        `json:"use"`            // pool indices of the field options, in call order
	Entry    int          `json:"entry"`          // 0 Merge; 1 NewFrom(base, opts...) and Merge(from, opts...) with one option slice; 2 from.Unpack(target *Config, opts...)
	Src      int          `json:"src"`            // 0 generic Go data; 1 *Config kept across steps; 2 *Config built with the options of the call; 3 mixed Go representation (structs with tags, typed maps, pointers, embedded configs); 4 *Config that is a child of a larger config
	Sub      bool         `json:"sub,omitempty"`  // the target is a child of a larger config (Base >= 0, Entry != 1): field paths are relative to the config the call is made on
	Repr     int          `json:"repr,omitempty"` // seed of the representation choices of Src 3
	DumpOpts bool         `json:"dumpopts,omitempty"`
}

// HistCase is a history of calls sharing Option values.
type HistCase struct {
	Trees []*gen.Tree `json:"trees"`
	Pool  []OptVal    `json:"pool"`
	Steps []HStep     `json:"steps"`
}

func mkOption(v OptVal) ucfg.Option {
	switch v.Policy {
	case model.Replace:
		return ucfg.FieldReplaceValues(v.Paths...)
	case model.Append:
		return ucfg.FieldAppendValues(v.Paths...)
	case model.Prepend:
		return ucfg.FieldPrependValues(v.Paths...)
	}
	return ucfg.FieldMergeValues(v.Paths...)
}

// flat lists the field options of a step for the model: the names of one
// value one after the other (they carry the same policy, so their mutual
// order does not matter), the values in call order.
func (c HistCase) flat(s HStep) []FieldOpt {
	var out []FieldOpt
	for _, i := range s.Use {
		for _, p := range c.Pool[i].Paths {
			out = append(out, FieldOpt{Path: p, Policy: c.Pool[i].Policy})
		}
	}
	return out
}

func (c HistCase) valid() bool {
	if len(c.Trees) < 2 || len(c.Trees) > 3 || len(c.Pool) < 1 || len(c.Pool) > 4 || len(c.Steps) < 1 || len(c.Steps) > 4 {
		return false
	}
	for _, t := range c.Trees {
		if t == nil || !t.IsCont() {
			return false
		}
	}
	for _, v := range c.Pool {
		if len(v.Paths) > 3 {
			return false
		}
		var fs []FieldOpt
		for _, p := range v.Paths {
			fs = append(fs, FieldOpt{Path: p, Policy: v.Policy})
		}
		if _, ok := parseOpts(fs); !ok && len(fs) > 0 {
			return false
		}
		switch v.Policy {
		case model.Default, model.Replace, model.Append, model.Prepend:
		default:
			return false
		}
	}
	for k, s := range c.Steps {
		if s.Base < -1 || s.Base >= len(c.Trees) || (k == 0 && s.Base < 0) || s.From < 0 || s.From >= len(c.Trees) ||
			s.Global < 0 || s.Global >= model.NPolicies || len(s.Use) > 4 || s.Entry < 0 || s.Entry > 2 || s.Src < 0 || s.Src > 4 || s.GPos < 0 {
			return false
		}
		for _, i := range s.Use {
			if i < 0 || i >= len(c.Pool) {
				return false
			}
		}
	}
	return true
}

// withReprs returns a copy of the tree whose containers choose their Go
// representation (gen.Tree.GoRepr) pseudo-randomly from the seed.
func withReprs(t *gen.Tree, seed int) *gen.Tree {
	c := t.Clone()
	x := uint64(seed)*0x9E3779B97F4A7C15 + 0x1234567
	c.Walk(nil, func(_ []string, n *gen.Tree) {
		if n.IsCont() {
			x ^= x << 13
			x ^= x >> 7
			x ^= x << 17
			n.R = int((x >> 20) % uint64(2*gen.NRepr))
		}
	})
	return c
}

// ---------------------------------------------------------------------------
// the library side

type histRun struct {
	c      HistCase
	shared bool
	sepOpt ucfg.Option
	vals   []ucfg.Option
	srcs   map[int]*ucfg.Config
	cur    *ucfg.Config
	used   map[string]int
}

func newHistRun(c HistCase, shared bool) *histRun {
	return &histRun{c: c, shared: shared, sepOpt: ucfg.PathSep(sep), vals: make([]ucfg.Option, len(c.Pool)),
		srcs: map[int]*ucfg.Config{}, used: map[string]int{}}
}

func (h *histRun) option(i int) ucfg.Option {
	if !h.shared {
		return mkOption(h.c.Pool[i])
	}
	if h.vals[i] == nil {
		h.vals[i] = mkOption(h.c.Pool[i])
	}
	return h.vals[i]
}

// callOpts: the separator first (documented precondition), then the field
// options in call order with the global policy option at position GPos.
func (h *histRun) callOpts(s HStep) []ucfg.Option {
	var opts []ucfg.Option
	if h.shared {
		opts = append(opts, h.sepOpt)
	} else {
		opts = append(opts, ucfg.PathSep(sep))
	}
	g := uc.PolicyOpts(s.Global)
	done := false
	for k, i := range s.Use {
		if k == s.GPos {
			opts, done = append(opts, g...), true
		}
		opts = append(opts, h.option(i))
	}
	if !done {
		opts = append(opts, g...)
	}
	return opts
}

func (h *histRun) source(s HStep, opts []ucfg.Option) (interface{}, error) {
	t := h.c.Trees[s.From]
	var src interface{}
	switch s.Src {
	case 1:
		if h.shared {
			if c := h.srcs[s.From]; c != nil {
				return c, nil
			}
		}
		c, err := ucfg.NewFrom(t.Go(), ucfg.PathSep(sep))
		if err != nil {
			return nil, fmt.Errorf("NewFrom(source): %v", err)
		}
		h.srcs[s.From] = c
		return c, nil
	case 2:
		var c *ucfg.Config
		err := uc.Safe("NewFrom", func() (err error) { c, err = ucfg.NewFrom(t.Go(), opts...); return })
		if err != nil {
			return nil, fmt.Errorf("NewFrom(source, options of the call): %v", err)
		}
		return c, nil
	case 4:
		p, err := ucfg.NewFrom(map[string]interface{}{"w": t.Go()}, ucfg.PathSep(sep))
		if err != nil {
			return nil, fmt.Errorf("NewFrom(parent of the source): %v", err)
		}
		c, err := p.Child("w", -1)
		if err != nil {
			return nil, fmt.Errorf("Child(w) of the parent of the source: %v", err)
		}
		return c, nil
	case 3:
		v, err := withReprs(t, s.Repr).GoRepr([]ucfg.Option{ucfg.PathSep(sep)}, h.used)
		if err != nil {
			return nil, fmt.Errorf("building the mixed representation of the source: %v", err)
		}
		src = v
	default:
		src = t.Go()
	}
	if s.Entry == 2 { // Unpack needs a *Config as source
		if c, ok := src.(*ucfg.Config); ok {
			return c, nil
		}
		c, err := ucfg.NewFrom(src, ucfg.PathSep(sep))
		if err != nil {
			return nil, fmt.Errorf("NewFrom(source): %v", err)
		}
		return c, nil
	}
	return src, nil
}

// step performs one call of the history and returns the generic view of the
// target afterwards.
func (h *histRun) step(s HStep) (interface{}, error) {
	opts := h.callOpts(s)
	if s.Base >= 0 {
		var err error
		base := h.c.Trees[s.Base].Go()
		if s.Entry == 1 {
			err = uc.Safe("NewFrom", func() (err error) { h.cur, err = ucfg.NewFrom(base, opts...); return })
		} else if s.Sub {
			var p *ucfg.Config
			if p, err = ucfg.NewFrom(map[string]interface{}{"w": base}, ucfg.PathSep(sep)); err == nil {
				h.cur, err = p.Child("w", -1)
			}
		} else {
			h.cur, err = ucfg.NewFrom(base, ucfg.PathSep(sep))
		}
		if err != nil {
			return nil, fmt.Errorf("NewFrom(target): %v", err)
		}
	}
	src, err := h.source(s, opts)
	if err != nil {
		return nil, err
	}
	if s.Entry == 2 {
		from, target := src.(*ucfg.Config), h.cur
		if err := uc.Safe("Unpack", func() error { return from.Unpack(target, opts...) }); err != nil {
			return nil, fmt.Errorf("Unpack into the target *Config: %v", err)
		}
	} else if err := uc.Safe("Merge", func() error { return h.cur.Merge(src, opts...) }); err != nil {
		return nil, fmt.Errorf("Merge: %v", err)
	}
	var d interface{}
	if s.DumpOpts {
		d, err = uc.Dump(h.cur, opts...)
	} else {
		d, err = uc.Dump(h.cur)
	}
	if err != nil {
		return nil, fmt.Errorf("unpacking the result: %v", err)
	}
	return d, nil
}

// ---------------------------------------------------------------------------
// description

var entryNames = []string{"Merge", "NewFrom+Merge with one option slice", "Unpack into *Config"}
var srcNames = []string{"generic data", "*Config kept across calls", "*Config built with the call's options", "mixed Go representation", "*Config that is a child of a larger config"}

func (c HistCase) describe() string {
	var b strings.Builder
	for i, t := range c.Trees {
		fmt.Fprintf(&b, " T%d   %s\n", i, show(t.Go()))
	}
	for i, v := range c.Pool {
		fmt.Fprintf(&b, " o%d := Field(%v)(%q)\n", i, v.Policy, v.Paths)
	}
	for k, s := range c.Steps {
		base := "previous result"
		if s.Base >= 0 {
			base = fmt.Sprintf("T%d", s.Base)
		}
		var use []string
		for j, i := range s.Use {
			if j == s.GPos {
				use = append(use, "global="+s.Global.String())
			}
			use = append(use, fmt.Sprintf("o%d", i))
		}
		if s.GPos >= len(s.Use) {
			use = append(use, "global="+s.Global.String())
		}
		fmt.Fprintf(&b, " step %d: %s <- T%d  options [%s]  entry: %s, source: %s", k, base, s.From, strings.Join(use, " "), entryNames[s.Entry], srcNames[s.Src])
		if s.DumpOpts {
			b.WriteString(", result read with the same options")
		}
		if s.Sub && s.Base >= 0 && s.Entry != 1 {
			b.WriteString(", target is the child w of a larger config")
		}
		b.WriteString("\n")
	}
	return strings.TrimRight(b.String(), "\n")
}

// ---------------------------------------------------------------------------
// run

func sameInts(a, b []int) bool {
	if len(a) != len(b) {
		return false
	}
	for i := range a {
		if a[i] != b[i] {
			return false
		}
	}
	return true
}

func contains(a []int, x int) bool {
	for _, e := range a {
		if e == x {
			return true
		}
	}
	return false
}

func sameSet(a, b []int) bool {
	for _, x := range a {
		if !contains(b, x) {
			return false
		}
	}
	for _, x := range b {
		if !contains(a, x) {
			return false
		}
	}
	return true
}

func runHist(c HistCase, r *runlog.R) error {
	if !c.valid() {
		r.Discard()
		return nil
	}
	shared, fresh := newHistRun(c, true), newHistRun(c, false)
	labels := map[string]bool{} // every label once per case
	class := func(l string) { labels[l] = true }
	classIf := func(cond bool, l string) {
		if cond {
			labels[l] = true
		}
	}
	var cur *model.Node // model state of the target
	tainted := false    // the model state holds values the statement does not determine
	differs := make([]bool, len(c.Steps))
	for k, s := range c.Steps {
		if s.Base < 0 && s.Entry == 1 {
			s.Entry = 0 // no target is built in this call
		}
		fields := c.flat(s)
		opts, ok := parseOpts(fields)
		if !ok && len(fields) > 0 {
			r.Discard()
			return nil
		}
		got, err := shared.step(s)
		if err != nil {
			return fmt.Errorf("step %d: %v\n%s", k, err, c.describe())
		}
		ref, err := fresh.step(s)
		if err != nil {
			return fmt.Errorf("step %d (freshly created options): %v\n%s", k, err, c.describe())
		}

		// model: exactly the options of this call
		fm := &fieldModel{global: s.Global, opts: opts}
		gm := &fieldModel{global: s.Global}
		if s.Base >= 0 {
			cur, tainted = &model.Node{Kind: "cont"}, false
			if s.Entry == 1 {
				model.MergeCont(fm.policyAt(nil), fm.at(nil), cur, model.FromTree(c.Trees[s.Base]))
			} else {
				model.MergeCont(model.Default, nil, cur, model.FromTree(c.Trees[s.Base]))
			}
		}
		globOnly := cur.Copy()
		model.MergeCont(gm.policyAt(nil), nil, globOnly, model.FromTree(c.Trees[s.From]))
		model.MergeCont(fm.policyAt(nil), fm.at(nil), cur, model.FromTree(c.Trees[s.From]))
		want := cur.Reify()
		differs[k] = !canon.EqualSplit(want, globOnly.Reify())

		// (2) sharing Option values makes no difference
		if !canon.EqualSplit(got, ref) {
			return fmt.Errorf("step %d: the result depends on what the Option values were used for before: it differs from the same call with freshly created options\n%s\n got (values shared between the calls) %s\n got (fresh values for every call)    %s\n model                                %s",
				k, c.describe(), show(got), show(ref), show(want))
		}

		// (1) field-policy model
		roots := overlapRoots(opts)
		if indexLeak(opts) && d46Open() {
			r.Excluded("D46")
			tainted = true
		}
		if !tainted {
			if eg, ew := erase(got, nil, roots), erase(want, nil, roots); !canon.EqualSplit(eg, ew) {
				note := ""
				if len(roots) > 0 {
					note = fmt.Sprintf("\n (compared without the %d subtree(s) where a ** option and an exact option compete: %s vs %s)", len(roots), show(eg), show(ew))
				}
				return fmt.Errorf("step %d: result differs from the field-policy model for the options of this call\n%s\n got  %s\n want %s\n model of the merge under the global policy alone %s%s",
					k, c.describe(), show(got), show(want), show(globOnly.Reify()), note)
			}
		} else {
			class("step not compared with the model (earlier unasserted subtree in the target)")
		}
		if len(roots) > 0 {
			tainted = true // later steps on this target start from values the statement does not determine
			class("wildcard+exact overlap (unasserted)")
		}

		class("entry: " + entryNames[s.Entry])
		class("source: " + srcNames[s.Src])
		class("global=" + s.Global.String())
		class(fmt.Sprintf("field options in the call=%d", len(s.Use)))
		classIf(s.Base < 0, "call on the result of the previous call")
		classIf(s.Sub && s.Base >= 0 && s.Entry != 1, "target is a child of a larger config")
		seen := map[string]model.Policy{}
		for _, f := range fields {
			if p, dup := seen[f.Path]; dup {
				class("same path named twice in one call")
				classIf(p != f.Policy, "same path named twice in one call with different policies")
			}
			seen[f.Path] = f.Policy
		}
		classIf(s.DumpOpts, "result read with the options of the call")
		classIf(len(s.Use) > 0 && s.GPos > 0, "global option after a field option")
		classIf(differs[k], "call result differs from global-only merge")
		dup := false
		for i := range s.Use {
			dup = dup || contains(s.Use[:i], s.Use[i])
		}
		classIf(dup, "same Option value twice in one call")
	}

	// classification of the sharing
	nt := false
	maxShare, diffCompany, diffOrder, firstOfMany, acrossEntries := 0, false, false, false, false
	for v := range c.Pool {
		var in []int
		for k, s := range c.Steps {
			if contains(s.Use, v) {
				in = append(in, k)
			}
		}
		if len(in) > maxShare {
			maxShare = len(in)
		}
		for x := 0; x < len(in); x++ {
			for y := x + 1; y < len(in); y++ {
				a, b := c.Steps[in[x]], c.Steps[in[y]]
				if a.Entry != b.Entry {
					acrossEntries = true
				}
				if sameInts(a.Use, b.Use) {
					continue
				}
				if sameSet(a.Use, b.Use) {
					diffOrder = true
				} else {
					diffCompany = true
				}
				if a.Use[0] == v && !sameSet(a.Use, []int{v}) && !sameSet(a.Use, b.Use) {
					firstOfMany = true
				}
				if differs[in[x]] || differs[in[y]] {
					nt = true
				}
			}
		}
		classIf(len(c.Pool[v].Paths) > 1, "Option value with several names")
		classIf(len(c.Pool[v].Paths) == 0, "Option value without names")
	}
	r.NonTrivialIf(nt)
	class(fmt.Sprintf("calls=%d", len(c.Steps)))
	class(fmt.Sprintf("pool=%d", len(c.Pool)))
	class(fmt.Sprintf("an Option value is used by up to %d calls", maxShare))
	classIf(diffCompany, "Option value reused with other companions")
	classIf(diffOrder, "Option value reused with the same companions in another order or multiplicity")
	classIf(firstOfMany, "first field option of a multi-option call reused later with other companions")
	classIf(acrossEntries, "Option value shared between different entry points")
	for k := range shared.used {
		class("repr:" + k)
	}
	ls := make([]string, 0, len(labels))
	for l := range labels {
		ls = append(ls, l)
	}
	sort.Strings(ls)
	for _, l := range ls {
		r.Class(l)
	}
	return nil
}

// ---------------------------------------------------------------------------
// generator

func genHist(t *rapid.T) HistCase {
	cfg := treeCfg()
	var a *gen.Tree
	if rapid.IntRange(0, 7).Draw(t, "toplist") == 0 {
		a = gen.GenList(t, cfg, cfg.Depth)
		if len(a.Vals) == 0 {
			a.Vals = append(a.Vals, gen.GenObj(t, cfg, cfg.Depth-1))
		}
	} else {
		a = gen.GenObj(t, cfg, cfg.Depth)
	}
	name := rapid.SampledFrom(keys).Draw(t, "name")
	plant(t, cfg, a, name, 2)
	var b *gen.Tree
	if rapid.IntRange(0, 7).Draw(t, "independent") == 0 {
		b = gen.GenObj(t, cfg, cfg.Depth)
	} else {
		b = mutate(t, cfg, a, cfg.Depth)
	}
	if rapid.IntRange(0, 2).Draw(t, "plantb") == 0 {
		plant(t, cfg, b, name, 1)
	}
	c := HistCase{Trees: []*gen.Tree{a, b}}
	if rapid.IntRange(0, 2).Draw(t, "third") == 0 {
		from := b
		if rapid.Bool().Draw(t, "thirdofa") {
			from = a
		}
		c.Trees = append(c.Trees, mutate(t, cfg, from, cfg.Depth))
	}

	// the pool of Option values; paths relate to each other like the options of one call in field-scope
	pl := buildPool(a, b)
	np := rapid.SampledFrom([]int{1, 2, 2, 2, 2, 3, 3, 3, 3, 4}).Draw(t, "npool")
	var prev []string
	for i := 0; i < np; i++ {
		v := OptVal{Policy: rapid.SampledFrom([]model.Policy{model.Default, model.Replace, model.Append, model.Prepend}).Draw(t, "fieldpolicy")}
		n := rapid.SampledFrom([]int{1, 1, 1, 1, 1, 1, 1, 2, 2, 3, 0}).Draw(t, "nnames")
		for j := 0; j < n; j++ {
			p := genPath(t, pl, name, prev)
			prev = append(prev, p)
			v.Paths = append(v.Paths, p)
		}
		c.Pool = append(c.Pool, v)
	}

	ns := rapid.SampledFrom([]int{1, 2, 2, 2, 2, 3, 3, 3, 3, 4}).Draw(t, "nsteps")
	for k := 0; k < ns; k++ {
		s := HStep{Global: model.Policy(rapid.IntRange(0, int(model.NPolicies)-1).Draw(t, "global"))}
		if k > 0 && rapid.IntRange(0, 3).Draw(t, "continue") == 0 {
			s.Base = -1
		} else {
			s.Base = rapid.SampledFrom([]int{0, 0, 0, 1}).Draw(t, "base")
			if s.Base >= len(c.Trees) {
				s.Base = 0
			}
		}
		s.From = rapid.IntRange(0, len(c.Trees)-1).Draw(t, "from")
		if s.From == s.Base {
			s.From = (s.From + 1) % len(c.Trees)
		}
		nu := rapid.SampledFrom([]int{1, 1, 2, 2, 2, 3, 3, 0}).Draw(t, "nuse")
		for j := 0; j < nu; j++ {
			// mostly distinct values, now and then the same value twice in one call
			i := rapid.IntRange(0, np-1).Draw(t, "use")
			if contains(s.Use, i) && rapid.IntRange(0, 5).Draw(t, "twice") > 0 {
				continue
			}
			s.Use = append(s.Use, i)
		}
		if len(s.Use) > 0 && rapid.Bool().Draw(t, "globallater") {
			s.GPos = rapid.IntRange(1, len(s.Use)).Draw(t, "gpos")
		}
		s.Entry = rapid.SampledFrom([]int{0, 0, 0, 0, 1, 1, 2, 2}).Draw(t, "entry")
		if s.Base < 0 && s.Entry == 1 {
			s.Entry = 0
		}
		s.Src = rapid.SampledFrom([]int{0, 0, 1, 1, 2, 3, 3, 4}).Draw(t, "srckind")
		s.Sub = s.Base >= 0 && s.Entry != 1 && rapid.IntRange(0, 5).Draw(t, "sub") == 0
		if s.Src == 3 {
			s.Repr = rapid.IntRange(0, 1<<16).Draw(t, "repr")
		}
		s.DumpOpts = rapid.IntRange(0, 3).Draw(t, "dumpopts") == 0
		c.Steps = append(c.Steps, s)
	}
	return c
}

var subReuse = runlog.Register(&runlog.Sub[HistCase]{
	Name: "option-reuse",
	Rule: "histories of 1-4 calls in one process over 2-3 related trees (T0 and T1 built like A and B of field-scope, T2 a mutation of one of them) that take their field options from a pool of 1-4 Option VALUES, each created once by one Field{Merge,Replace,Append,Prepend}Values call with 0-3 names (mostly 1; names drawn like the paths of field-scope, related to the names drawn before: same path again, enclosing/enclosed paths, `**.name`, look-alikes, absent paths); a call uses 0-3 values of the pool in any order and multiplicity (so values are shared between calls with other companions, in other orders, alone) next to one of the 5 global policy options placed before, between or after the field options (PathSep(\".\") always first); target: a fresh config from T0/T1 (1 in 6 of those obtained as Child of a larger config: field paths are relative to the config the call is made on) or (1 in 4) the result of the previous call; entry point: Merge, NewFrom(target data, opts...) followed by Merge(source, opts...) with the very same option slice, or source.Unpack(target *Config, opts...); source: generic data, a *Config kept and reused across the calls, a *Config built with the options of the call, a *Config that is a child of a larger config, or a mixed Go representation (StructOf structs with config tags, typed maps and slices, pointers, arrays, embedded *Config); 1 in 4 results are read by Unpack with the options of the call. Oracle per call: (1) the generic view of the target equals the field-policy model (longest named prefix wins, later option wins ties, `**.name` at any depth; global-policy merge elsewhere) evaluated for exactly the options passed to that call on the modelled state of the target; subtrees where a `**` option and an exact option with another policy compete are not asserted and, for calls that continue on such a target, the model comparison is skipped (counted); (2) the result equals the result of the same history executed with freshly created Option values (and fresh source configs) for every call: what a value was used for before must not matter. Reading decisions: the position of the global policy option among the field options is immaterial; an Option value with several names equals one option per name; one without names changes nothing; Unpack into a *Config target merges like Merge (package documentation: the Field*Values options configure all merging and unpacking operations). Non-trivial: some Option value is used by two calls whose field-option lists differ, and in one of the two calls the modelled result differs from the merge under the global policy alone. Distinct: hash of the whole case.",
	Gen:  genHist,
	Run:  runHist,
})

func TestOptionReuse(t *testing.T) { subReuse.Check(t, 25000, 1500000) }
