package c16

// Sub-check "numeric-names": the NAMES in field paths and in the data as a
// dimension. The statement quantifies over "all field paths"; a component of
// a dotted field path may look like a number ("responses.404.hosts"). Whether
// a data key that looks like a number is a list index or a name is decided by
// the options under which the data was read (EnableNumKeys, MaxIdx: property
// C20); the per-field policy has to reach the subtree either way.
//
// The case is data: two trees whose keys are letters and integer literals in
// several syntaxes and magnitudes, the number options under which A is built,
// B is read (as data by the merge call, or beforehand into a *Config) and the
// merge is called, a global policy and 1-3 field options whose paths are taken
// from the paths that exist. The result is read with the snapshot hook
// (dictionary part and list part of every node separately: the generic view
// folds both into one map, where a name "1" and the index 1 collide) and
// compared with the field-policy model on the shared merge model, with keys
// classified by an own reading of the number options.
//
// Matching of a path component against the data (reading decision): a list
// index i is matched by every component that is an integer literal of value
// i; a name is matched by the component of the same text. A name and a
// component that differ in text but are integer literals of the same value
// (<= 1024) are matched by the library as well (name "0x7" by option "r.7");
// the statement does not say whether "r.7" names the key "0x7": the values of
// such a case are not asserted (class "ambiguous spelling").

import (
	"fmt"
	"strconv"
	"strings"
	"testing"

	ucfg "github.com/elastic/go-ucfg"
	"pgregory.net/rapid"

	"verif/harness/internal/gen"
	"verif/harness/internal/model"
	"verif/harness/internal/runlog"
	"verif/harness/internal/uc"
)

// NumOpts are the options that decide whether a key is a name or an index.
type NumOpts struct {
	Enable bool  `json:"enable,omitempty"` // EnableNumKeys(true)
	MaxIdx int64 `json:"maxidx"`           // MaxIdx(n); negative: option not given (1024)
}

func (n NumOpts) opts() []ucfg.Option {
	var out []ucfg.Option
	if n.MaxIdx >= 0 {
		out = append(out, ucfg.MaxIdx(n.MaxIdx))
	}
	if n.Enable {
		out = append(out, ucfg.EnableNumKeys(true))
	}
	return out
}

func (n NumOpts) String() string {
	s := "EnableNumKeys(" + strconv.FormatBool(n.Enable) + ")"
	if n.MaxIdx >= 0 {
		s += fmt.Sprintf(" MaxIdx(%d)", n.MaxIdx)
	}
	return s
}

// intLiteral reads a Go integer literal (base prefixes, sign, underscores).
func intLiteral(s string) (int64, bool) {
	i, err := strconv.ParseInt(s, 0, 64)
	return i, err == nil
}

// index classifies a key of one component: an integer literal in [0, MaxIdx]
// is a list index unless numeric keys are enabled.
func (n NumOpts) index(key string) (int, bool) {
	if n.Enable {
		return 0, false
	}
	max := n.MaxIdx
	if max < 0 {
		max = 1024
	}
	i, ok := intLiteral(key)
	if !ok || i < 0 || i > max {
		return 0, false
	}
	return int(i), true
}

// NumCase is one merge A <- B.
type NumCase struct {
	A      *gen.Tree    `json:"a"`
	B      *gen.Tree    `json:"b"`
	NumA   NumOpts      `json:"numa"`           // options of NewFrom(A)
	NumB   NumOpts      `json:"numb"`           // Src 1: options of NewFrom(B)
	NumM   NumOpts      `json:"numm"`           // options of the merge call (they classify the keys of B when B is plain data)
	Src    int          `json:"src"`            // 0: B is generic Go data, 1: B is a *Config
	Late   bool         `json:"late,omitempty"` // the number options stand behind the field options in the merge call
	Global model.Policy `json:"global"`
	Fields []FieldOpt   `json:"fields"`
}

// bOpts: the options that classify the keys of B.
func (c NumCase) bOpts() NumOpts {
	if c.Src == 1 {
		return c.NumB
	}
	return c.NumM
}

// numFromTree converts a data tree into a model node under the number
// options; ok is false if two keys of one object address the same index (the
// library rejects that as a duplicate key).
func numFromTree(t *gen.Tree, n NumOpts) (*model.Node, bool) {
	switch t.K {
	case "nil":
		return &model.Node{Kind: "nil"}, true
	case "obj":
		out := &model.Node{Kind: "cont"}
		set := map[int]bool{}
		for i, k := range t.Keys {
			v, ok := numFromTree(t.Vals[i], n)
			if !ok {
				return nil, false
			}
			if idx, isIdx := n.index(k); isIdx {
				if set[idx] {
					return nil, false
				}
				set[idx] = true
				for len(out.A) <= idx {
					out.A = append(out.A, &model.Node{Kind: "nil"})
				}
				out.A[idx] = v
				continue
			}
			if out.D == nil {
				out.D = map[string]*model.Node{}
			}
			out.D[k] = v
		}
		return out, true
	case "list":
		out := &model.Node{Kind: "cont"}
		for _, e := range t.Vals {
			v, ok := numFromTree(e, n)
			if !ok {
				return nil, false
			}
			out.A = append(out.A, v)
		}
		return out, true
	}
	return &model.Node{Kind: "prim", Prim: t.Prim()}, true
}

// elem is one step of a path through the data: a name or a list index.
type elem struct {
	name string
	idx  int // < 0: name
}

func (e elem) String() string {
	if e.idx >= 0 {
		return strconv.Itoa(e.idx)
	}
	return e.name
}

func pathString(p []elem) string {
	s := make([]string, len(p))
	for i, e := range p {
		s[i] = e.String()
		if e.idx < 0 {
			s[i] = fmt.Sprintf("%q", e.name)
		}
	}
	return strings.Join(s, sep)
}

// matchSeg compares one component of an option path with one step of a data
// path: definite match, or only by numeric value (ambiguous).
func matchSeg(e elem, seg string) (yes, ambiguous bool) {
	v, isInt := intLiteral(seg)
	if e.idx >= 0 {
		return isInt && v == int64(e.idx), false
	}
	if e.name == seg {
		return true, false
	}
	if n, ok := intLiteral(e.name); ok && isInt && n == v && v >= 0 && v <= 1024 {
		return false, true
	}
	return false, false
}

type numModel struct {
	global    model.Policy
	opts      []opt
	ambiguous bool // a comparison by numeric value only would have decided a policy
}

// prefixLen returns the number of leading steps of path the option covers
// (-1: the option does not name the node or an ancestor of it).
func (m *numModel) prefixLen(o opt, path []elem) int {
	if o.wild {
		for j := len(path) - 1; j >= 0; j-- {
			yes, amb := matchSeg(path[j], o.segs[0])
			if amb {
				m.ambiguous = true
			}
			if yes {
				return j + 1
			}
		}
		return -1
	}
	if len(o.segs) > len(path) {
		return -1
	}
	amb := false
	for i, s := range o.segs {
		yes, a := matchSeg(path[i], s)
		if !yes && !a {
			return -1
		}
		amb = amb || a
	}
	if amb {
		m.ambiguous = true
		return -1
	}
	return len(o.segs)
}

func (m *numModel) policyAt(path []elem) model.Policy {
	best, pol := -1, m.global
	for _, o := range m.opts {
		l := m.prefixLen(o, path)
		if l < 0 || l < best {
			continue
		}
		best, pol = l, o.pol // the longer prefix wins; the later option wins ties
	}
	return pol
}

func (m *numModel) at(path []elem) model.PolicyAt {
	return func(_ model.Policy, name string, idx int) (model.Policy, model.PolicyAt) {
		p := append(append(make([]elem, 0, len(path)+1), path...), elem{name, idx})
		return m.policyAt(p), m.at(p)
	}
}

func (m *numModel) merge(a, b *model.Node) *model.Node {
	n := &model.Node{Kind: "cont"}
	model.MergeCont(model.Default, nil, n, a)
	model.MergeCont(m.policyAt(nil), m.at(nil), n, b)
	return n
}

// ---------------------------------------------------------------------------
// canonical rendering of model nodes and snapshots: nil = absent = empty
// container, list positions significant (trailing nils dropped), numbers by
// value, dictionary and list part apart.

func renderPrim(v interface{}) string {
	switch x := v.(type) {
	case bool:
		return "b:" + strconv.FormatBool(x)
	case int64:
		return "n:" + strconv.FormatInt(x, 10)
	case uint64:
		return "n:" + strconv.FormatUint(x, 10)
	case string:
		return "s:" + strconv.Quote(x)
	}
	return fmt.Sprintf("?:%v", v)
}

func renderCont(names []string, dict []string, list []string) string {
	var parts []string
	for i, k := range names {
		if dict[i] != "" {
			parts = append(parts, strconv.Quote(k)+":"+dict[i])
		}
	}
	for len(list) > 0 && list[len(list)-1] == "" {
		list = list[:len(list)-1]
	}
	if len(parts) == 0 && len(list) == 0 {
		return ""
	}
	var l []string
	for _, e := range list {
		if e == "" {
			e = "nil"
		}
		l = append(l, e)
	}
	return "{" + strings.Join(parts, " ") + " | " + strings.Join(l, " ") + "}"
}

// renderNode returns "" for nil and for containers that hold nothing.
func renderNode(n *model.Node) string {
	if n == nil {
		return ""
	}
	switch n.Kind {
	case "nil":
		return ""
	case "prim":
		return renderPrim(n.Prim)
	}
	names := sortedKeys(n.D)
	dict := make([]string, len(names))
	for i, k := range names {
		dict[i] = renderNode(n.D[k])
	}
	list := make([]string, len(n.A))
	for i, e := range n.A {
		list[i] = renderNode(e)
	}
	return renderCont(names, dict, list)
}

func renderSnap(s ucfg.VerifNode) string {
	switch s.Kind {
	case "sub":
		dict := make([]string, len(s.Names))
		for i := range s.Names {
			dict[i] = renderSnap(s.Dict[i])
		}
		list := make([]string, len(s.Arr))
		for i, e := range s.Arr {
			list[i] = renderSnap(e)
		}
		return renderCont(s.Names, dict, list)
	case "nil", "<nil interface>":
		return ""
	case "bool":
		return "b:" + s.Prim
	case "int", "uint":
		return "n:" + s.Prim
	case "string":
		return "s:" + strconv.Quote(s.Prim)
	}
	return "?" + s.Kind + ":" + s.Prim
}

// walkElems visits every node below the root with its typed path.
func walkElems(n *model.Node, prefix []elem, f func(path []elem, n *model.Node)) {
	if n.Kind != "cont" {
		return
	}
	for _, k := range sortedKeys(n.D) {
		p := append(append([]elem{}, prefix...), elem{k, -1})
		f(p, n.D[k])
		walkElems(n.D[k], p, f)
	}
	for i, e := range n.A {
		if e.Kind == "nil" {
			continue // padding below a key that is an index
		}
		p := append(append([]elem{}, prefix...), elem{"", i})
		f(p, e)
		walkElems(e, p, f)
	}
}

func resolveElems(n *model.Node, p []elem) *model.Node {
	for _, e := range p {
		if n == nil || n.Kind != "cont" {
			return nil
		}
		if e.idx >= 0 {
			if e.idx >= len(n.A) {
				return nil
			}
			n = n.A[e.idx]
		} else {
			n = n.D[e.name]
		}
	}
	return n
}

// ---------------------------------------------------------------------------
// run

func (c NumCase) describe() string {
	var b strings.Builder
	fmt.Fprintf(&b, "global=%v", c.Global)
	for _, f := range c.Fields {
		fmt.Fprintf(&b, " field(%q)=%v", f.Path, f.Policy)
	}
	fmt.Fprintf(&b, "\n A    NewFrom(%#v, PathSep(\".\") %v)", c.A.Go(), c.NumA)
	if c.Src == 1 {
		fmt.Fprintf(&b, "\n B    NewFrom(%#v, PathSep(\".\") %v)", c.B.Go(), c.NumB)
	} else {
		fmt.Fprintf(&b, "\n B    %#v", c.B.Go())
	}
	fmt.Fprintf(&b, "\n Merge options: PathSep(\".\") %v, global policy, field options (number options behind the field options: %v)", c.NumM, c.Late)
	return b.String()
}

func (c NumCase) libMerge(fields []FieldOpt) (ucfg.VerifNode, error) {
	var none ucfg.VerifNode
	a, err := ucfg.NewFrom(c.A.Go(), append([]ucfg.Option{ucfg.PathSep(sep)}, c.NumA.opts()...)...)
	if err != nil {
		return none, fmt.Errorf("NewFrom(A): %v", err)
	}
	var src interface{} = c.B.Go()
	if c.Src == 1 {
		if src, err = ucfg.NewFrom(src, append([]ucfg.Option{ucfg.PathSep(sep)}, c.NumB.opts()...)...); err != nil {
			return none, fmt.Errorf("NewFrom(B): %v", err)
		}
	}
	opts := []ucfg.Option{ucfg.PathSep(sep)}
	if !c.Late {
		opts = append(opts, c.NumM.opts()...)
	}
	opts = append(opts, uc.PolicyOpts(c.Global)...)
	for _, f := range fields {
		opts = append(opts, fieldOption(f))
	}
	if c.Late {
		opts = append(opts, c.NumM.opts()...)
	}
	if err := uc.Safe("Merge", func() error { return a.Merge(src, opts...) }); err != nil {
		return none, fmt.Errorf("Merge: %v", err)
	}
	var snap ucfg.VerifNode
	if err := uc.Safe("snapshot", func() error { snap = ucfg.VerifSnapshot(a); return nil }); err != nil {
		return none, err
	}
	return snap, nil
}

func numericName(e elem) bool {
	if e.idx >= 0 {
		return false
	}
	_, ok := intLiteral(e.name)
	return ok
}

// classSet counts every class once per case.
type classSet struct {
	r    *runlog.R
	seen map[string]bool
}

func (s *classSet) Class(l string) {
	if !s.seen[l] {
		s.seen[l] = true
		s.r.Class(l)
	}
}

func (s *classSet) ClassIf(cond bool, l string) {
	if cond {
		s.Class(l)
	}
}

func runNum(c NumCase, rr *runlog.R) error {
	r := &classSet{r: rr, seen: map[string]bool{}}
	opts, ok := parseOpts(c.Fields)
	if !ok || c.A == nil || c.B == nil || c.A.K != "obj" || c.B.K != "obj" || len(opts) == 0 ||
		c.Global < 0 || c.Global >= model.NPolicies || c.Src < 0 || c.Src > 1 {
		rr.Discard()
		return nil
	}
	ma, okA := numFromTree(c.A, c.NumA)
	mb, okB := numFromTree(c.B, c.bOpts())
	if !okA || !okB {
		// two keys of one object are the same list index: rejected as a duplicate key
		rr.Discard()
		return nil
	}
	nm := &numModel{global: c.Global, opts: opts}
	want := renderNode(nm.merge(ma.Copy(), mb.Copy()))
	globOnly := renderNode((&numModel{global: c.Global}).merge(ma.Copy(), mb.Copy()))

	snap, err := c.libMerge(c.Fields)
	if err != nil {
		return fmt.Errorf("%v\n %s", err, c.describe())
	}
	got := renderSnap(snap)

	// a `**.name` option and an exact option with another policy that names or runs through a node of that name:
	// the statement does not say which one takes precedence (as in field-scope); not asserted
	competes := false
	for _, w := range opts {
		for _, o := range opts {
			if !w.wild || o.wild || o.pol == w.pol {
				continue
			}
			for _, s := range o.segs {
				v1, i1 := intLiteral(s)
				v2, i2 := intLiteral(w.segs[0])
				competes = competes || s == w.segs[0] || (i1 && i2 && v1 == v2)
			}
		}
	}
	switch {
	case competes:
		r.Class("wildcard+exact overlap (values unasserted)")
	case nm.ambiguous:
		// a name and a path component that are the same number in different spellings: not asserted
		r.Class("ambiguous spelling: a name and an option component are the same number in different texts (values unasserted)")
	case got != want:
		return fmt.Errorf("result differs from the field-policy model\n %s\n got  %s\n want %s\n merge under the global policy alone (model) %s", c.describe(), got, want, globOnly)
	}
	asserted := !competes && !nm.ambiguous
	// the library's own merge without field options agrees with the model as well (keys classified alike)
	gsnap, err := c.libMerge(nil)
	if err != nil {
		return fmt.Errorf("global-only merge: %v\n %s", err, c.describe())
	}
	if g := renderSnap(gsnap); g != globOnly {
		return fmt.Errorf("merge without field options differs from the merge model (classification of the keys)\n %s\n got  %s\n want %s", c.describe(), g, globOnly)
	}

	// classification
	differs := want != globOnly
	nt := false
	bo := c.bOpts()
	for _, o := range opts {
		if o.wild {
			r.Class("option `**.name`")
			if _, isInt := intLiteral(o.segs[0]); isInt {
				r.Class("option `**.<integer literal>`")
			}
			continue
		}
		// the data paths the option names, in A and in B
		var named [][]elem
		seen := map[string]bool{}
		for _, root := range []*model.Node{ma, mb} {
			walkElems(root, nil, func(p []elem, _ *model.Node) {
				if len(p) != len(o.segs) || seen[pathString(p)] {
					return
				}
				probe := &numModel{}
				if probe.prefixLen(o, p) == len(p) {
					seen[pathString(p)] = true
					named = append(named, p)
				}
			})
		}
		r.ClassIf(len(named) == 0, "option names no path of A or B")
		r.ClassIf(len(named) >= 2, "option names two paths (an index and a name of the same text)")
		for _, p := range named {
			na, nb := resolveElems(ma, p), resolveElems(mb, p)
			bothCont := na != nil && nb != nil && na.Kind == "cont" && nb.Kind == "cont"
			through, nondec, above, viaEnable, viaMax, idxSeg := false, false, false, false, false, false
			for _, e := range p {
				if e.idx >= 0 {
					idxSeg = true
					continue
				}
				v, isInt := intLiteral(e.name)
				if !isInt {
					continue
				}
				through = true
				nondec = nondec || strconv.FormatInt(v, 10) != e.name
				above = above || v > 1024
				if v >= 0 && v <= 1024 {
					viaEnable = viaEnable || c.NumA.Enable || bo.Enable
					viaMax = viaMax || (!c.NumA.Enable && c.NumA.MaxIdx >= 0 && v > c.NumA.MaxIdx) || (!bo.Enable && bo.MaxIdx >= 0 && v > bo.MaxIdx)
				}
			}
			r.ClassIf(through, "option path runs through an integer literal kept as a NAME")
			r.ClassIf(through && viaEnable, "... kept as a name by EnableNumKeys")
			r.ClassIf(through && viaMax, "... kept as a name by a small MaxIdx")
			r.ClassIf(above, "... a number above the default MaxIdx")
			r.ClassIf(nondec, "... in a non-decimal spelling (0x7, 007, +3, 0b11, 1_0)")
			r.ClassIf(idxSeg, "option path runs through a list index")
			r.ClassIf(through && idxSeg, "option path runs through a numeric name and a list index")
			r.ClassIf(bothCont, "named path is a container in both trees")
			r.ClassIf(through && bothCont && o.pol != c.Global, "numeric name on the path, container in both trees, policy differs from the global one")
			if through && bothCont && o.pol != c.Global && differs && asserted {
				nt = true
			}
		}
		for _, s := range o.segs {
			if v, isInt := intLiteral(s); isInt && strconv.FormatInt(v, 10) != s {
				r.Class("option component in a non-decimal spelling")
				break
			}
		}
	}
	// the same number as an index in one tree and as a name in the other
	mixed := false
	walkElems(mb, nil, func(p []elem, _ *model.Node) {
		last := p[len(p)-1]
		if v, isInt := intLiteral(last.name); last.idx < 0 && isInt && v >= 0 {
			q := append(append([]elem{}, p[:len(p)-1]...), elem{"", int(v)})
			if n := resolveElems(ma, q); n != nil && n.Kind != "nil" {
				mixed = true
			}
		}
	})
	r.ClassIf(mixed, "the same number is a list index in A and a name in B at one place")
	rr.NonTrivialIf(nt)
	r.Class("global=" + c.Global.String())
	r.Class(fmt.Sprintf("options=%d", len(opts)))
	r.ClassIf(differs, "result differs from global-only merge")
	r.Class("A read under " + c.NumA.String())
	r.Class("B classified under " + bo.String())
	r.ClassIf(c.Src == 1, "source is a *Config")
	r.ClassIf(c.Src == 1 && c.NumB != c.NumM, "source is a *Config built under other number options than the merge call has")
	r.ClassIf(c.NumA != bo, "A and B classified under different number options")
	r.ClassIf(c.Late, "number options behind the field options")
	return nil
}

// ---------------------------------------------------------------------------
// generator

var (
	// integer literals as keys: small numbers (indices unless kept as names), other syntaxes of small numbers,
	// numbers around and above the default MaxIdx (always names), a negative number (always a name)
	numNames     = []string{"7", "3", "1", "0", "12", "7", "3", "0x7", "007", "+3", "2000", "1025", "0b11", "1_2", "-1", "7", "3", "1", "12", "404"}
	numTreeKeys  = []string{"a", "b", "c", "a", "b", "7", "3", "1", "0", "12", "0x7", "007", "+3", "2000", "1025", "7", "3"}
	numOptChoice = []NumOpts{
		{Enable: true, MaxIdx: -1}, {Enable: true, MaxIdx: -1}, {Enable: true, MaxIdx: -1}, {Enable: true, MaxIdx: -1},
		{MaxIdx: -1}, {MaxIdx: -1},
		{MaxIdx: 0}, {MaxIdx: 1}, {MaxIdx: 5}, {MaxIdx: 2},
		{Enable: true, MaxIdx: 1},
	}
)

// spell writes a data path as an option path: names by their text, indices in decimal.
func spell(p []elem) string {
	s := make([]string, len(p))
	for i, e := range p {
		s[i] = e.String()
	}
	return strings.Join(s, sep)
}

func respell(t *rapid.T, v int64) string {
	switch rapid.IntRange(0, 4).Draw(t, "respell") {
	case 0:
		return fmt.Sprintf("0x%X", v)
	case 1:
		return fmt.Sprintf("0%o", v)
	case 2:
		return fmt.Sprintf("+%d", v)
	case 3:
		return fmt.Sprintf("0b%b", v)
	}
	return strconv.FormatInt(v, 10)
}

func genNumCase(t *rapid.T) NumCase {
	cfg := &gen.TreeCfg{Depth: 3, Width: runlog.Pick(3, 4), Keys: numTreeKeys, NoFloat: true}
	a := gen.GenObj(t, cfg, cfg.Depth)
	name := rapid.SampledFrom(numNames).Draw(t, "name")
	// a container under the name directly below the root, so that a path through it exists
	if rapid.IntRange(0, 3).Draw(t, "top") > 0 {
		a.Put(name, plantValue(t, &gen.TreeCfg{Depth: 2, Width: cfg.Width, Keys: cfg.Keys, NoFloat: true, NoEmpty: true}))
	}
	plant(t, cfg, a, name, 2)
	var b *gen.Tree
	if rapid.IntRange(0, 9).Draw(t, "independent") == 0 {
		b = gen.GenObj(t, cfg, cfg.Depth)
	} else {
		b = mutate(t, cfg, a, cfg.Depth)
	}
	if b.K != "obj" {
		b = gen.Obj()
	}
	if rapid.IntRange(0, 2).Draw(t, "plantb") == 0 {
		plant(t, cfg, b, name, 1)
	}
	c := NumCase{A: a, B: b, Global: model.Policy(rapid.IntRange(0, int(model.NPolicies)-1).Draw(t, "global"))}
	c.NumA = rapid.SampledFrom(numOptChoice).Draw(t, "numa")
	c.NumM = c.NumA
	if rapid.IntRange(0, 2).Draw(t, "othernum") == 0 {
		c.NumM = rapid.SampledFrom(numOptChoice).Draw(t, "numm")
	}
	c.NumB = c.NumM
	if rapid.IntRange(0, 3).Draw(t, "src") == 0 {
		c.Src = 1
		switch rapid.IntRange(0, 2).Draw(t, "cfgnum") {
		case 0: // the *Config was built with numeric names, the merge call knows nothing about them
			c.NumB, c.NumM = NumOpts{Enable: true, MaxIdx: -1}, NumOpts{MaxIdx: -1}
		case 1:
			c.NumB = rapid.SampledFrom(numOptChoice).Draw(t, "numb")
		}
	}
	c.Late = rapid.IntRange(0, 4).Draw(t, "late") == 0

	// field paths: taken from the typed paths of A and B
	ma, okA := numFromTree(a, c.NumA)
	mb, okB := numFromTree(b, c.bOpts())
	type cand struct {
		p        []elem
		both     bool
		numName  bool
		numBelow bool
	}
	var cands []cand
	if okA && okB {
		seen := map[string]bool{}
		for _, root := range []*model.Node{ma, mb} {
			walkElems(root, nil, func(p []elem, _ *model.Node) {
				k := pathString(p)
				if seen[k] {
					return
				}
				seen[k] = true
				na, nb := resolveElems(ma, p), resolveElems(mb, p)
				cd := cand{p: p, both: na != nil && nb != nil && na.Kind == "cont" && nb.Kind == "cont"}
				for _, e := range p {
					cd.numName = cd.numName || numericName(e)
				}
				cands = append(cands, cd)
			})
		}
	}
	pickFrom := func(pred func(cand) bool) []elem {
		var sel []cand
		for _, cd := range cands {
			if pred(cd) {
				sel = append(sel, cd)
			}
		}
		if len(sel) == 0 {
			return nil
		}
		return sel[rapid.IntRange(0, len(sel)-1).Draw(t, "path")].p
	}
	differs := func(fields []FieldOpt) bool {
		o, ok := parseOpts(fields)
		if !ok || !okA || !okB {
			return false
		}
		with := renderNode((&numModel{global: c.Global, opts: o}).merge(ma.Copy(), mb.Copy()))
		return with != renderNode((&numModel{global: c.Global}).merge(ma.Copy(), mb.Copy()))
	}
	genOpt := func() FieldOpt {
		var p []elem
		w := rapid.IntRange(0, 19).Draw(t, "pathkind")
		switch {
		case w < 9:
			p = pickFrom(func(cd cand) bool { return cd.both && cd.numName })
		case w < 12:
			p = pickFrom(func(cd cand) bool { return cd.numName })
		case w < 14:
			p = pickFrom(func(cd cand) bool { return cd.both })
		}
		if p == nil && w < 16 {
			p = pickFrom(func(cd cand) bool { return true })
		}
		path := ""
		switch {
		case p != nil:
			path = spell(p)
			if rapid.IntRange(0, 7).Draw(t, "respellseg") == 0 {
				// one integer component in another spelling: an index is still named; for a name the case is ambiguous
				segs := strings.Split(path, sep)
				j := rapid.IntRange(0, len(segs)-1).Draw(t, "seg")
				if v, isInt := intLiteral(segs[j]); isInt && v >= 0 {
					segs[j] = respell(t, v)
					path = strings.Join(segs, sep)
				}
			}
		case w < 18:
			path = "**" + sep + rapid.SampledFrom(append(append([]string{}, numNames...), "a", "b", "c")).Draw(t, "wildname")
		default:
			n := rapid.IntRange(1, 3).Draw(t, "plen")
			var segs []string
			for j := 0; j < n; j++ {
				segs = append(segs, rapid.SampledFrom(numTreeKeys).Draw(t, "seg"))
			}
			path = strings.Join(segs, sep)
		}
		pols := []model.Policy{model.Default, model.Replace, model.Append, model.Prepend}
		pol := rapid.SampledFrom(pols).Draw(t, "fieldpolicy")
		return FieldOpt{Path: path, Policy: pol}
	}
	nf := rapid.SampledFrom([]int{1, 1, 1, 2, 2, 3}).Draw(t, "nfields")
	for i := 0; i < nf; i++ {
		// up to four draws for the first option: one that makes a difference to the result is preferred
		f := genOpt()
		for try := 0; i == 0 && try < 3 && !differs([]FieldOpt{f}); try++ {
			f = genOpt()
		}
		c.Fields = append(c.Fields, f)
	}
	return c
}

var subNum = runlog.Register(&runlog.Sub[NumCase]{
	Name: "numeric-names",
	Rule: "the NAMES in field paths and data as a dimension. Tree A over the keys {a,b,c} and integer literals as keys (7, 3, 1, 0, 12; other spellings 0x7, 007, +3, 0b11, 1_2; rarely 404; numbers above the default MaxIdx 1025, 2000; -1), one such key planted as a container below the root and in 1-2 further objects; B a mutation of A (1 in 10 independent). Number options drawn per role from {EnableNumKeys(true) (1/3), none, MaxIdx(0|1|2|5), EnableNumKeys+MaxIdx(1)}: for NewFrom(A); for the merge call (2/3 the same as A's), which classify the keys of B when B is plain data; in 1 of 4 cases B is a *Config built beforehand under its own number options (1/3 of those: built with EnableNumKeys, merged by a call without any number option); in 1 of 5 cases the number options stand behind the field options. So the same integer literal is a list index in one tree and a name in the other, a name by EnableNumKeys, by a small MaxIdx, or by its magnitude. 1-3 field options (the first one is redrawn up to three times while the model says it makes no difference to the result), paths taken from the typed paths that exist in A or B (45% a container in both trees with an integer literal kept as a NAME on the path, 15% any path with such a name, 10% any container in both, 10% any path), spelled with the name's own text and indices in decimal, 1 in 8 with one integer component respelled (hex, octal, +, binary); `**.name` 10% (name mostly an integer literal); arbitrary paths 10%. PathSep(\".\") first, as the field options need it. Cases in which two keys of one object are the same list index are discarded (duplicate key). Oracle: the stored result (snapshot hook: dictionary and list part of every node apart, so that the name \"1\" and the index 1 stay distinct) equals the field-policy model (longest named prefix, later option wins ties, `**.name` at any depth) on the shared merge model, keys classified by an own reading of EnableNumKeys/MaxIdx; a path component matches a list index of the same VALUE and a name of the same TEXT; where a name and a component are the same number (<= 1024) in different texts the statement is silent and nothing is asserted about values (classed). The merge without field options must equal the plain merge model as well. Non-trivial: some option names a path that runs through an integer literal kept as a name and is a container in both trees, its policy differs from the global one, and the result differs from the global-only merge. Distinct: hash of the whole case.",
	Gen:  genNumCase,
	Run:  runNum,
})

func TestNumericNames(t *testing.T) { subNum.Check(t, 30000, 1500000) }
