// Package c16 decides property C16: a per-field merge policy applies to
// exactly the named subtree.
//
// Two sub-checks: "field-scope" (this file, one merge call) and
// "option-reuse" (reuse_test.go: histories of calls that share Option values,
// entry points NewFrom/Merge/Unpack, source representations).
//
// field-scope: the case is data: two trees, a global policy
// and 1-3 field options (dotted path + policy). run merges B into A with the
// library under PathSep("."), the global option and the Field*Values options
// (in that order) and asserts
//
//	(1) agreement with reference model (ii) of DESIGN section 3 (policy at a
//	    node = policy of the longest named path that is a prefix of the
//	    node's path, later option wins ties, else the global policy;
//	    `**.name` matches name at any depth) on top of the shared merge model;
//	(2) the two relations of the statement directly, with the library itself
//	    as the reference: (R1) after erasing every named subtree the result
//	    equals the merge under the global policy alone; (R2) a named subtree
//	    equals the library's merge of the two subtrees with the named policy
//	    as global policy, when its ancestors were merged rather than replaced.
//
// Where a `**.name` option and an exact option with another policy name (or
// run through) the same node the statement does not say which one takes
// precedence: the values inside that subtree are not asserted, everything
// around it is. Cases of the class of finding D46 are skipped while it is open.
package c16

import (
	"fmt"
	"os"
	"sort"
	"strconv"
	"strings"
	"testing"

	ucfg "github.com/elastic/go-ucfg"
	"pgregory.net/rapid"

	"verif/harness/internal/canon"
	"verif/harness/internal/gen"
	"verif/harness/internal/model"
	"verif/harness/internal/runlog"
	"verif/harness/internal/uc"
)

// FieldOpt is one Field*Values option: Default stands for FieldMergeValues.
type FieldOpt struct {
	Path   string       `json:"path"`
	Policy model.Policy `json:"policy"`
}

// Case is one merge A <- B under a global policy and field options.
type Case struct {
	A      *gen.Tree    `json:"a"`
	B      *gen.Tree    `json:"b"`
	Global model.Policy `json:"global"`
	Fields []FieldOpt   `json:"fields"`
	Src    int          `json:"src,omitempty"`  // 0: B is generic Go data, 1: B is a *Config, 2: B in a mixed Go representation
	Repr   int          `json:"repr,omitempty"` // seed of the representation choices of Src 2
}

const sep = "."

// ---------------------------------------------------------------------------
// model (ii): which policy governs a node

type opt struct {
	segs []string // path segments; for a wildcard option the single name
	wild bool     // `**.name`
	pol  model.Policy
}

func parseOpts(fields []FieldOpt) ([]opt, bool) {
	var out []opt
	for _, f := range fields {
		if f.Path == "" {
			return nil, false
		}
		segs := strings.Split(f.Path, sep)
		o := opt{segs: segs, pol: f.Policy}
		if segs[0] == "**" {
			if len(segs) != 2 {
				return nil, false // only `**.name` is defined (reading decision 10)
			}
			o.wild, o.segs = true, segs[1:]
		}
		for _, s := range o.segs {
			if s == "" || s == "*" || s == "**" {
				return nil, false
			}
		}
		switch f.Policy {
		case model.Default, model.Replace, model.Append, model.Prepend:
		default:
			return nil, false
		}
		out = append(out, o)
	}
	return out, true
}

type fieldModel struct {
	global model.Policy
	opts   []opt
}

func isPrefix(p, path []string) bool {
	if len(p) > len(path) {
		return false
	}
	for i := range p {
		if p[i] != path[i] {
			return false
		}
	}
	return true
}

// policyAt returns the policy that governs the merge of the node at path.
func (m *fieldModel) policyAt(path []string) model.Policy {
	best, pol := -1, m.global
	for _, o := range m.opts {
		l := -1
		if o.wild {
			for j := len(path) - 1; j >= 0; j-- {
				if path[j] == o.segs[0] {
					l = j + 1
					break
				}
			}
		} else if isPrefix(o.segs, path) {
			l = len(o.segs)
		}
		if l < 0 || l < best {
			continue
		}
		best, pol = l, o.pol // the longer prefix wins; the later option wins ties
	}
	return pol
}

func (m *fieldModel) at(path []string) model.PolicyAt {
	return func(_ model.Policy, name string, idx int) (model.Policy, model.PolicyAt) {
		seg := name
		if idx >= 0 {
			seg = strconv.Itoa(idx)
		}
		p := append(append(make([]string, 0, len(path)+1), path...), seg)
		return m.policyAt(p), m.at(p)
	}
}

func (m *fieldModel) merge(a, b *gen.Tree) interface{} {
	n := &model.Node{Kind: "cont"}
	model.MergeCont(model.Default, nil, n, model.FromTree(a))
	model.MergeCont(m.policyAt(nil), m.at(nil), n, model.FromTree(b))
	return n.Reify()
}

// overlapRoots returns the subtrees in which a `**.name` option and an exact
// option with a different policy compete: the exact path names, or runs
// through, a node the wildcard matches as well. The statement does not say
// which of the two takes precedence there, so the values inside these
// subtrees are not asserted (everything outside is).
func overlapRoots(opts []opt) []opt {
	var roots []opt
	for _, w := range opts {
		if !w.wild {
			continue
		}
		for _, o := range opts {
			if o.wild || o.pol == w.pol {
				continue
			}
			for j, s := range o.segs {
				if s == w.segs[0] {
					roots = append(roots, opt{segs: o.segs[:j+1]})
					break
				}
			}
		}
	}
	return roots
}

// indexLeak recognises the class of finding D46 (the repair of D21 is
// incomplete while a `**` option is present): some exact option has an index
// segment at a position where the field-policy tree holds nothing but list
// entries, i.e. every exact option sharing the segments before it continues
// with an index as well. Such an index pattern still matches lists further
// down, at any depth, so no value of such a case can be asserted.
func indexLeak(opts []opt) bool {
	wild := false
	for _, o := range opts {
		wild = wild || o.wild
	}
	if !wild {
		return false
	}
	for _, p := range opts {
		if p.wild {
			continue
		}
	next:
		for j, s := range p.segs {
			if !isIndex(s) {
				continue
			}
			for _, q := range opts {
				if q.wild || !isPrefix(p.segs[:j], q.segs) {
					continue
				}
				if len(q.segs) == j || !isIndex(q.segs[j]) {
					continue next
				}
			}
			return true
		}
	}
	return false
}

// d46Open: the class of D46 is constructed away from the value assertions
// while the finding is open. C16_FORCE_D46 forces that for development runs.
func d46Open() bool { return runlog.IsOpen("D46") || os.Getenv("C16_FORCE_D46") != "" }

func overlaps(roots []opt, p []string) bool {
	for _, r := range roots {
		if isPrefix(r.segs, p) || isPrefix(p, r.segs) {
			return true
		}
	}
	return false
}

// ---------------------------------------------------------------------------
// paths in model nodes and in generic dumps

func isIndex(seg string) bool {
	_, ok := model.IndexOf(seg, 1024)
	return ok
}

func sortedKeys(m map[string]*model.Node) []string {
	ks := make([]string, 0, len(m))
	for k := range m {
		ks = append(ks, k)
	}
	sort.Strings(ks)
	return ks
}

// walk visits every node below the root (not the root itself) with its path.
func walk(n *model.Node, prefix []string, f func(path []string, n *model.Node)) {
	if n.Kind != "cont" {
		return
	}
	for _, k := range sortedKeys(n.D) {
		p := append(append([]string{}, prefix...), k)
		f(p, n.D[k])
		walk(n.D[k], p, f)
	}
	for i, e := range n.A {
		p := append(append([]string{}, prefix...), strconv.Itoa(i))
		f(p, e)
		walk(e, p, f)
	}
}

// resolve walks a path. blocked: the walk ran into a primitive.
func resolve(n *model.Node, segs []string) (node *model.Node, blocked bool) {
	cur := n
	for _, s := range segs {
		switch cur.Kind {
		case "prim":
			return nil, true
		case "nil":
			return nil, false
		}
		if idx, ok := model.IndexOf(s, 1024); ok {
			if idx >= len(cur.A) {
				return nil, false
			}
			cur = cur.A[idx]
		} else if c, ok := cur.D[s]; ok {
			cur = c
		} else {
			return nil, false
		}
	}
	return cur, false
}

// navigate walks a path in a generic dump (mixed nodes are maps with the list
// part under decimal keys).
func navigate(v interface{}, segs []string) interface{} {
	for _, s := range segs {
		switch x := v.(type) {
		case map[string]interface{}:
			v = x[s]
		case []interface{}:
			idx, ok := model.IndexOf(s, 1024)
			if !ok || idx >= len(x) {
				return nil
			}
			v = x[idx]
		default:
			return nil
		}
	}
	return v
}

// erase returns a copy of a generic dump without the subtrees the options
// name: a node is erased if its path is the path of an exact option or if it
// sits under a key that a `**.name` option names.
func erase(v interface{}, path []string, opts []opt) interface{} {
	if len(path) > 0 {
		for _, o := range opts {
			if o.wild {
				if path[len(path)-1] == o.segs[0] {
					return nil
				}
			} else if len(o.segs) == len(path) && isPrefix(o.segs, path) {
				return nil
			}
		}
	}
	switch x := v.(type) {
	case map[string]interface{}:
		out := make(map[string]interface{}, len(x))
		for k, e := range x {
			out[k] = erase(e, append(append([]string{}, path...), k), opts)
		}
		return out
	case []interface{}:
		out := make([]interface{}, len(x))
		for i, e := range x {
			out[i] = erase(e, append(append([]string{}, path...), strconv.Itoa(i)), opts)
		}
		return out
	}
	return v
}

// ---------------------------------------------------------------------------
// the library side

func fieldOption(f FieldOpt) ucfg.Option {
	switch f.Policy {
	case model.Replace:
		return ucfg.FieldReplaceValues(f.Path)
	case model.Append:
		return ucfg.FieldAppendValues(f.Path)
	case model.Prepend:
		return ucfg.FieldPrependValues(f.Path)
	}
	return ucfg.FieldMergeValues(f.Path)
}

// libOpts: the separator first (the field options read it when they are
// applied), then the global policy, then the field options in case order.
func libOpts(global model.Policy, fields []FieldOpt) []ucfg.Option {
	opts := []ucfg.Option{ucfg.PathSep(sep)}
	opts = append(opts, uc.PolicyOpts(global)...)
	for _, f := range fields {
		opts = append(opts, fieldOption(f))
	}
	return opts
}

func libMerge(a, b interface{}, asConfig bool, opts []ucfg.Option) (interface{}, error) {
	c, err := ucfg.NewFrom(a, ucfg.PathSep(sep))
	if err != nil {
		return nil, fmt.Errorf("NewFrom(A): %v", err)
	}
	src := b
	if asConfig {
		if cfg, isCfg := b.(*ucfg.Config); isCfg {
			src = cfg
		} else if src, err = ucfg.NewFrom(b, ucfg.PathSep(sep)); err != nil {
			return nil, fmt.Errorf("NewFrom(B): %v", err)
		}
	}
	if err := uc.Safe("Merge", func() error { return c.Merge(src, opts...) }); err != nil {
		return nil, fmt.Errorf("Merge: %v", err)
	}
	d, err := uc.Dump(c)
	if err != nil {
		return nil, fmt.Errorf("unpacking the result: %v", err)
	}
	return d, nil
}

func goOf(n *model.Node) interface{} {
	if v := n.Reify(); v != nil {
		return v
	}
	return map[string]interface{}{}
}

func isContOrNil(n *model.Node) bool { return n.Kind == "cont" || n.Kind == "nil" }

func show(v interface{}) string { return canon.String(canon.Split(canon.Of(v))) }

func (c Case) describe() string {
	var b strings.Builder
	fmt.Fprintf(&b, "global=%v", c.Global)
	for _, f := range c.Fields {
		fmt.Fprintf(&b, " field(%q)=%v", f.Path, f.Policy)
	}
	fmt.Fprintf(&b, "\n A    %s\n B    %s", show(c.A.Go()), show(c.B.Go()))
	return b.String()
}

// ---------------------------------------------------------------------------
// run

type pathInfo struct {
	a, b *model.Node
}

func runCase(c Case, r *runlog.R) error {
	opts, ok := parseOpts(c.Fields)
	if !ok || c.A == nil || c.B == nil || !c.A.IsCont() || !c.B.IsCont() || len(opts) == 0 ||
		c.Global < 0 || c.Global >= model.NPolicies {
		r.Discard()
		return nil
	}
	goA, goB := c.A.Go(), c.B.Go()
	used := map[string]int{}
	if c.Src == 2 {
		// B as structs with config tags, typed maps and slices, pointers, arrays, embedded configs
		v, err := withReprs(c.B, c.Repr).GoRepr([]ucfg.Option{ucfg.PathSep(sep)}, used)
		if err != nil {
			return fmt.Errorf("building the mixed representation of B: %v\n %s", err, c.describe())
		}
		goB = v
	}
	got, err := libMerge(goA, goB, c.Src == 1, libOpts(c.Global, c.Fields))
	if err != nil {
		return fmt.Errorf("%v\n %s", err, c.describe())
	}
	if indexLeak(opts) && d46Open() {
		r.Excluded("D46")
		r.Class("index pattern next to a ** option (D46, unasserted)")
		return nil
	}
	glob, err := libMerge(goA, goB, c.Src == 1, libOpts(c.Global, nil))
	if err != nil {
		return fmt.Errorf("global-only merge: %v\n %s", err, c.describe())
	}

	// (1) model (ii); inside the subtrees where a wildcard and an exact option compete both outcomes are accepted
	fm := &fieldModel{global: c.Global, opts: opts}
	want := fm.merge(c.A, c.B)
	roots := overlapRoots(opts)
	if eg, ew := erase(got, nil, roots), erase(want, nil, roots); !canon.EqualSplit(eg, ew) {
		note := ""
		if len(roots) > 0 {
			note = fmt.Sprintf("\n (compared without the %d subtree(s) where a ** option and an exact option compete: %s vs %s)", len(roots), show(eg), show(ew))
		}
		return fmt.Errorf("result differs from the field-policy model\n %s\n got  %s\n want %s\n global-only merge %s%s",
			c.describe(), show(got), show(want), show(glob), note)
	}

	// (R1) outside the named subtrees the result is the global-only merge
	if eg, ew := erase(got, nil, opts), erase(glob, nil, opts); !canon.EqualSplit(eg, ew) {
		return fmt.Errorf("a setting outside the named subtrees differs from the merge under the global policy alone\n %s\n got  %s\n global-only merge %s\n after erasing the named subtrees: %s vs %s",
			c.describe(), show(got), show(glob), show(eg), show(ew))
	}

	// inventory of paths
	ma, mb := model.FromTree(c.A), model.FromTree(c.B)
	paths := map[string]*pathInfo{}
	var order []string
	add := func(isA bool) func([]string, *model.Node) {
		return func(p []string, n *model.Node) {
			k := strings.Join(p, sep)
			pi := paths[k]
			if pi == nil {
				pi = &pathInfo{}
				paths[k] = pi
				order = append(order, k)
			}
			if isA {
				pi.a = n
			} else {
				pi.b = n
			}
		}
	}
	walk(ma, nil, add(true))
	walk(mb, nil, add(false))
	sort.Strings(order)

	// (R2) a named subtree is the merge of the two subtrees under the named policy
	checked := 0
	{
		var named [][]string
		for _, o := range opts {
			if !o.wild {
				named = append(named, o.segs)
				continue
			}
			n := 0
			for _, k := range order {
				p := strings.Split(k, sep)
				if p[len(p)-1] == o.segs[0] && n < 6 {
					named = append(named, p)
					n++
				}
			}
		}
		for _, p := range named {
			if overlaps(roots, p) {
				continue
			}
			did, err := checkSubtree(fm, c, ma, mb, p, got)
			if err != nil {
				return err
			}
			if did {
				checked++
			}
		}
	}

	// classification
	differs := !canon.EqualSplit(got, glob)
	nt := false
	for _, o := range opts {
		last := o.segs[len(o.segs)-1]
		bothCont, depths := false, map[int]bool{}
		var kind string
		if o.wild {
			kind = "wildcard"
			for _, k := range order {
				p := strings.Split(k, sep)
				if p[len(p)-1] != last {
					continue
				}
				depths[len(p)] = true
				if pi := paths[k]; pi.a != nil && pi.b != nil && pi.a.Kind == "cont" && pi.b.Kind == "cont" {
					bothCont = true
				}
			}
			r.ClassIf(len(depths) == 0, "wildcard name absent")
		} else {
			key := strings.Join(o.segs, sep)
			pi := paths[key]
			switch {
			case pi == nil:
				kind = "absent"
				// look-alikes: the path is not there but becomes a real one once index segments are inserted,
				// or it is the bare last component of a deeper path
				for _, k := range order {
					p := strings.Split(k, sep)
					var q []string
					for _, s := range p {
						if !isIndex(s) {
							q = append(q, s)
						}
					}
					if len(q) != len(p) && strings.Join(q, sep) == key {
						kind = "look-alike (index segments dropped)"
						break
					}
					if len(o.segs) == 1 && len(p) > 1 && p[len(p)-1] == last {
						kind = "look-alike (bare last component)"
					}
				}
			case pi.a != nil && pi.b != nil:
				kind = "in both: " + kindOf(pi.a) + "/" + kindOf(pi.b)
				bothCont = pi.a.Kind == "cont" && pi.b.Kind == "cont"
			case pi.a != nil:
				kind = "in A only: " + kindOf(pi.a)
			default:
				kind = "in B only: " + kindOf(pi.b)
			}
			r.ClassIf(isIndex(last), "path ends in a list index")
			echo := false
			for _, k := range order {
				if p := strings.Split(k, sep); len(p) > len(o.segs) && p[len(p)-1] == last && isSubsequence(o.segs, p) {
					echo = true
					break
				}
			}
			r.ClassIf(echo, "option path is a subsequence (same last component) of a longer real path")
			for _, k := range order {
				p := strings.Split(k, sep)
				if p[len(p)-1] == last && k != key && len(p) != len(o.segs) {
					depths[len(p)] = true
				}
			}
		}
		r.Class("path " + kind)
		r.Class("field policy=" + o.pol.String())
		r.ClassIf(bothCont, "named path is a container in both trees")
		other := len(depths) >= 1
		if o.wild {
			other = len(depths) >= 2
		}
		r.ClassIf(other, "same last component at another depth")
		if bothCont && o.pol != c.Global && other && differs {
			nt = true
		}
	}
	r.NonTrivialIf(nt)
	r.Class("global=" + c.Global.String())
	r.Class(fmt.Sprintf("options=%d", len(opts)))
	r.ClassIf(differs, "result differs from global-only merge")
	r.ClassIf(len(roots) > 0, "wildcard+exact overlap (unasserted)")
	r.ClassIf(checked > 0, "subtree relation (R2) checked")
	r.ClassIf(c.A.K == "list", "top-level list")
	seen := map[string]model.Policy{}
	for _, f := range c.Fields {
		if p, dup := seen[f.Path]; dup {
			r.Class("same path named twice")
			r.ClassIf(p != f.Policy, "same path named twice with different policies")
		}
		seen[f.Path] = f.Policy
	}
	r.ClassIf(c.Src == 1, "source is *Config")
	r.ClassIf(c.Src == 2, "source in a mixed Go representation")
	for k := range used {
		r.Class("repr:" + k)
	}
	return nil
}

func isSubsequence(q, p []string) bool {
	i := 0
	for _, s := range p {
		if i < len(q) && q[i] == s {
			i++
		}
	}
	return i == len(q)
}

func kindOf(n *model.Node) string {
	switch {
	case n.Kind == "cont" && len(n.D) > 0 && len(n.A) > 0:
		return "mixed"
	case n.Kind == "cont" && len(n.A) > 0:
		return "list"
	case n.Kind == "cont":
		return "object"
	}
	return n.Kind
}

// checkSubtree asserts relation R2 for the path p if its preconditions hold:
// every ancestor was merged (no dictionary replaced on the way, lists merged
// index-wise), B does not put a primitive in the way of a subtree A has, and
// one policy governs the whole subtree.
func checkSubtree(m *fieldModel, c Case, ma, mb *model.Node, p []string, got interface{}) (bool, error) {
	for j := range p {
		h := m.policyAt(p[:j])
		if isIndex(p[j]) {
			if h != model.Default {
				return false, nil
			}
		} else if h == model.Replace {
			return false, nil
		}
	}
	a, _ := resolve(ma, p)
	b, blockedB := resolve(mb, p)
	if blockedB && a != nil {
		return false, nil
	}
	h := m.policyAt(p)
	uniform := true
	for _, n := range []*model.Node{a, b} {
		if n != nil {
			walk(n, p, func(q []string, _ *model.Node) {
				if m.policyAt(q) != h {
					uniform = false
				}
			})
		}
	}
	if !uniform {
		return false, nil
	}
	var want interface{}
	switch {
	case b == nil && a == nil:
		want = nil
	case b == nil:
		want = a.Reify()
	case a == nil:
		want = b.Reify()
	case a.Kind == "cont" && b.Kind == "cont":
		var err error
		want, err = libMerge(goOf(a), goOf(b), false, libOpts(h, nil))
		if err != nil {
			return false, fmt.Errorf("merging the subtrees at %q under %v as global policy: %v\n %s", strings.Join(p, sep), h, err, c.describe())
		}
	case isContOrNil(a) && isContOrNil(b):
		// a nil counts as an empty container: the other side stays
		if a.Kind == "cont" {
			want = a.Reify()
		} else {
			want = b.Reify()
		}
	default:
		want = b.Reify()
	}
	have := navigate(got, p)
	if !canon.EqualSplit(have, want) {
		return false, fmt.Errorf("the subtree at %q is not the merge of the two subtrees under %v as global policy\n %s\n got  %s\n subtree got  %s\n subtree want %s",
			strings.Join(p, sep), h, c.describe(), show(got), show(have), show(want))
	}
	return true, nil
}

// ---------------------------------------------------------------------------
// generator (constructive: paths are taken from the trees)

var keys = []string{"a", "b", "c", "d"}

// treeKeys: now and then an integer literal as object key, which puts the
// value into the list part of the node (mixed nodes).
var treeKeys = []string{"a", "b", "c", "d", "a", "b", "c", "d", "a", "b", "c", "0", "1"}

func treeCfg() *gen.TreeCfg {
	return &gen.TreeCfg{Depth: runlog.Pick(3, 4), Width: runlog.Pick(3, 4), Keys: treeKeys, NoFloat: true}
}

func genCont(t *rapid.T, cfg *gen.TreeCfg, depth int) *gen.Tree {
	if rapid.IntRange(0, 2).Draw(t, "contkind") == 0 {
		return gen.GenList(t, cfg, depth)
	}
	return gen.GenObj(t, cfg, depth)
}

// mutate derives an overlapping partner of a tree.
func mutate(t *rapid.T, cfg *gen.TreeCfg, v *gen.Tree, depth int) *gen.Tree {
	switch v.K {
	case "obj":
		out := gen.Obj()
		for i, k := range v.Keys {
			switch rapid.IntRange(0, 7).Draw(t, "mop") {
			case 0: // dropped
			case 1:
				out.Put(k, gen.GenTree(t, cfg, depth-1))
			default:
				out.Put(k, mutate(t, cfg, v.Vals[i], depth-1))
			}
		}
		if rapid.IntRange(0, 2).Draw(t, "addkey") == 0 {
			out.Put(rapid.SampledFrom(cfg.Keys).Draw(t, "newkey"), gen.GenTree(t, cfg, depth-1))
		}
		return out
	case "list":
		out := gen.List()
		for _, e := range v.Vals {
			switch rapid.IntRange(0, 7).Draw(t, "aop") {
			case 0:
			case 1:
				out.Vals = append(out.Vals, gen.GenTree(t, cfg, depth-1))
			default:
				out.Vals = append(out.Vals, mutate(t, cfg, e, depth-1))
			}
		}
		if rapid.IntRange(0, 2).Draw(t, "addelem") == 0 {
			out.Vals = append(out.Vals, gen.GenTree(t, cfg, depth-1))
		}
		return out
	}
	if rapid.Bool().Draw(t, "keepprim") {
		return v.Clone()
	}
	return gen.GenTree(t, cfg, 0)
}

func objects(t *gen.Tree) []*gen.Tree {
	var out []*gen.Tree
	t.Walk(nil, func(_ []string, n *gen.Tree) {
		if n.K == "obj" {
			out = append(out, n)
		}
	})
	return out
}

// plant puts a container under the key name into 1-2 objects of the tree, so
// that the name occurs at several depths.
func plant(t *rapid.T, cfg *gen.TreeCfg, tree *gen.Tree, name string, max int) {
	n := rapid.IntRange(1, max).Draw(t, "nplant")
	for i := 0; i < n; i++ {
		objs := objects(tree)
		if len(objs) == 0 {
			return
		}
		o := objs[rapid.IntRange(0, len(objs)-1).Draw(t, "plantat")]
		o.Put(name, plantValue(t, &gen.TreeCfg{Depth: 2, Width: cfg.Width, Keys: cfg.Keys, NoFloat: true, NoEmpty: true}))
	}
}

// plantValue draws the container that is planted: any container, or a list
// of containers (so that the same index leads to a container at several
// depths as well), now and then a list of such lists.
func plantValue(t *rapid.T, cfg *gen.TreeCfg) *gen.Tree {
	switch rapid.IntRange(0, 3).Draw(t, "plantkind") {
	case 0, 1:
		return genCont(t, cfg, 2)
	}
	l := gen.List()
	n := rapid.IntRange(1, 3).Draw(t, "plantlen")
	for i := 0; i < n; i++ {
		if rapid.IntRange(0, 3).Draw(t, "plantelem") == 0 {
			l.Vals = append(l.Vals, gen.List(gen.GenObj(t, cfg, 1), gen.GenObj(t, cfg, 1)))
		} else {
			l.Vals = append(l.Vals, gen.GenObj(t, cfg, 1))
		}
	}
	return l
}

type pool struct {
	real, bothCont, oneSide, look []string
	names                         []string
}

func buildPool(a, b *gen.Tree) *pool {
	ma, mb := model.FromTree(a), model.FromTree(b)
	inA, inB := map[string]*model.Node{}, map[string]*model.Node{}
	var order []string
	walk(ma, nil, func(p []string, n *model.Node) {
		k := strings.Join(p, sep)
		inA[k] = n
		order = append(order, k)
	})
	walk(mb, nil, func(p []string, n *model.Node) {
		k := strings.Join(p, sep)
		inB[k] = n
		if inA[k] == nil {
			order = append(order, k)
		}
	})
	sort.Strings(order)
	pl := &pool{}
	seenLook, seenName := map[string]bool{}, map[string]bool{}
	for _, k := range order {
		pl.real = append(pl.real, k)
		na, nb := inA[k], inB[k]
		if na != nil && nb != nil && na.Kind == "cont" && nb.Kind == "cont" {
			pl.bothCont = append(pl.bothCont, k)
		}
		if na == nil || nb == nil {
			pl.oneSide = append(pl.oneSide, k)
		}
		p := strings.Split(k, sep)
		var q []string
		for _, s := range p {
			if !isIndex(s) {
				q = append(q, s)
			}
		}
		if len(q) > 0 && len(q) != len(p) {
			if l := strings.Join(q, sep); !seenLook[l] {
				seenLook[l] = true
				pl.look = append(pl.look, l)
			}
		}
		last := p[len(p)-1]
		if len(p) > 1 && !seenLook[last] {
			seenLook[last] = true
			pl.look = append(pl.look, last)
		}
		if !isIndex(last) && !seenName[last] {
			seenName[last] = true
			pl.names = append(pl.names, last)
		}
	}
	return pl
}

func endsIn(paths []string, name string) []string {
	var out []string
	for _, p := range paths {
		if p == name || strings.HasSuffix(p, sep+name) {
			out = append(out, p)
		}
	}
	return out
}

func randomPath(t *rapid.T) string {
	n := rapid.IntRange(1, 3).Draw(t, "plen")
	var segs []string
	for i := 0; i < n; i++ {
		segs = append(segs, rapid.SampledFrom([]string{"a", "b", "c", "d", "0", "1"}).Draw(t, "seg"))
	}
	return strings.Join(segs, sep)
}

func pick(t *rapid.T, from []string, name string) string {
	if sub := endsIn(from, name); len(sub) > 0 && rapid.Bool().Draw(t, "planted") {
		from = sub
	}
	return from[rapid.IntRange(0, len(from)-1).Draw(t, "path")]
}

// wildPath: mostly a name that occurs in the trees, now and then any key of the alphabet.
func wildPath(t *rapid.T, pl *pool, name string) string {
	cand := append(append(append(append([]string{}, pl.names...), pl.names...), pl.names...), keys...)
	return "**" + sep + pick(t, cand, name)
}

func genPath(t *rapid.T, pl *pool, name string, prev []string) string {
	if len(prev) > 0 {
		switch rapid.IntRange(0, 5).Draw(t, "related") {
		case 0: // the same path again: the later option has to win
			return prev[rapid.IntRange(0, len(prev)-1).Draw(t, "same")]
		case 1: // a real path inside or around an earlier one
			p := prev[rapid.IntRange(0, len(prev)-1).Draw(t, "rel")]
			var rel []string
			for _, k := range pl.real {
				if k != p && (strings.HasPrefix(k, p+sep) || strings.HasPrefix(p, k+sep)) {
					rel = append(rel, k)
				}
			}
			if len(rel) > 0 {
				return rel[rapid.IntRange(0, len(rel)-1).Draw(t, "relpath")]
			}
		}
	}
	// a `**` option next to an exact path with index segments, in either order
	hasWild, hasIdx := false, false
	for _, p := range prev {
		if strings.HasPrefix(p, "**"+sep) {
			hasWild = true
			continue
		}
		for _, s := range strings.Split(p, sep) {
			hasIdx = hasIdx || isIndex(s)
		}
	}
	if hasWild != hasIdx && rapid.Bool().Draw(t, "pair") {
		if hasIdx {
			return wildPath(t, pl, name)
		}
		idx := rapid.SampledFrom([]string{"0", "1", "0", "1", "2"}).Draw(t, "pairidx")
		if len(pl.real) > 0 && rapid.IntRange(0, 2).Draw(t, "pairbare") > 0 {
			return pick(t, pl.real, name) + sep + idx
		}
		return idx
	}
	w := rapid.IntRange(0, 19).Draw(t, "pathkind")
	switch {
	case w < 8 && len(pl.bothCont) > 0:
		return pick(t, pl.bothCont, name)
	case w < 11 && len(pl.real) > 0:
		return pick(t, pl.real, name)
	case w < 13 && len(pl.oneSide) > 0:
		return pick(t, pl.oneSide, name)
	case w < 14 && len(pl.look) > 0:
		return pick(t, pl.look, name)
	case w < 16 && len(pl.real) > 0:
		// a real path (preferably a container in both trees) with some of its leading or inner
		// segments dropped: the rest names something else, or nothing, and must not reach the original
		from := pl.real
		if len(pl.bothCont) > 0 && rapid.IntRange(0, 3).Draw(t, "echoboth") > 0 {
			from = pl.bothCont
		}
		segs := strings.Split(pick(t, from, name), sep)
		var keep []string
		for _, s := range segs[:len(segs)-1] {
			if rapid.Bool().Draw(t, "keepseg") {
				keep = append(keep, s)
			}
		}
		return strings.Join(append(keep, segs[len(segs)-1]), sep)
	case w < 19:
		return wildPath(t, pl, name)
	}
	// absent: a real path continued by one more segment, or arbitrary segments
	if len(pl.real) > 0 && rapid.Bool().Draw(t, "extend") {
		return pick(t, pl.real, name) + sep + rapid.SampledFrom([]string{"a", "b", "c", "d", "0", "1"}).Draw(t, "ext")
	}
	return randomPath(t)
}

func genCase(t *rapid.T) Case {
	cfg := treeCfg()
	var a *gen.Tree
	if rapid.IntRange(0, 7).Draw(t, "toplist") == 0 {
		a = gen.GenList(t, cfg, cfg.Depth)
		if len(a.Vals) == 0 {
			a.Vals = append(a.Vals, gen.GenObj(t, cfg, cfg.Depth-1))
		}
	} else {
		a = gen.GenObj(t, cfg, cfg.Depth)
	}
	name := rapid.SampledFrom(keys).Draw(t, "name")
	plant(t, cfg, a, name, 2)
	var b *gen.Tree
	if rapid.IntRange(0, 7).Draw(t, "independent") == 0 {
		b = gen.GenObj(t, cfg, cfg.Depth)
	} else {
		b = mutate(t, cfg, a, cfg.Depth)
	}
	if rapid.IntRange(0, 2).Draw(t, "plantb") == 0 {
		plant(t, cfg, b, name, 1)
	}
	c := Case{A: a, B: b, Global: model.Policy(rapid.IntRange(0, int(model.NPolicies)-1).Draw(t, "global"))}
	switch rapid.IntRange(0, 5).Draw(t, "src") {
	case 0:
		c.Src = 1
	case 1, 2:
		c.Src, c.Repr = 2, rapid.IntRange(0, 1<<16).Draw(t, "repr")
	}
	pl := buildPool(a, b)
	nf := rapid.SampledFrom([]int{1, 1, 1, 2, 2, 3}).Draw(t, "nfields")
	var prev []string
	for i := 0; i < nf; i++ {
		p := genPath(t, pl, name, prev)
		prev = append(prev, p)
		c.Fields = append(c.Fields, FieldOpt{Path: p,
			Policy: rapid.SampledFrom([]model.Policy{model.Default, model.Replace, model.Append, model.Prepend}).Draw(t, "fieldpolicy")})
	}
	return c
}

var subScope = runlog.Register(&runlog.Sub[Case]{
	Name: "field-scope",
	Rule: "constructive: tree A over keys {a,b,c,d} (now and then 0/1, giving nodes with a list part next to named keys; 1 in 8 a non-empty top-level list) with one key name planted as a container in 1-2 further objects, so that the name occurs at several depths; B a mutation of A (children dropped, replaced, changed, added; 1 in 8 an independent tree), sometimes with the name planted once more; B given as generic data (1/2), as *Config (1/6) or in a mixed Go representation chosen per container (1/3: StructOf structs with config tags, typed maps and slices, pointers, arrays, named types, embedded *Config); global policy one of 5; 1-3 field options, policy one of merge/replace/append/prepend, path taken from the paths of A and B (container in both trees 40%, any node incl. primitives and list indices 15%, present in one tree only 10%), look-alikes (real paths with their index segments dropped, bare last components; 15%), `**.name` 15%, absent paths 5%, half of the picks restricted to paths ending in the planted name; later options repeat (1/6) or extend/enclose (1/6) an earlier path; options are given as PathSep(\".\"), global policy, field options. Oracle: (1) field-policy model (longest named prefix wins, later option wins ties, `**.name` matches at any depth) on the shared merge model; values inside a subtree where a `**` option and an exact option with another policy compete are not asserted (statement silent on precedence); (2) after erasing every named subtree the result equals the library's merge under the global policy alone; (3) each named subtree (up to 6 instances of a `**.name`) equals the library's merge of the two subtrees with the named policy as global one, provided its ancestors were merged (no dictionary replaced, lists merged index-wise on the way), B has no primitive in the way and one policy governs the whole subtree. Non-trivial: some option names a path that is a container in both trees (for `**.name`: some node under that name), its policy differs from the global one, the same last component occurs at another depth (for `**`: at two depths or more), and the result differs from the global-only merge. Distinct: hash of the whole case.",
	Gen:  genCase,
	Run:  runCase,
})

func TestFieldScope(t *testing.T) { subScope.Check(t, 160000, 10000000) }

func TestReplay(t *testing.T) { runlog.ReplayMain(t) }
