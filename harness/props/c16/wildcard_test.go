// Sub-check "element-wildcard" of C16: field paths with the element wildcard
// `*` (every element of the list named before it).
//
// The statement quantifies over field paths "addressing objects, lists, list
// indices or primitives"; the library lets a path address ALL indices of a
// list at once by the component `*` (TestMergeFieldHandling uses
// `*.paths`; merge.go: "the one configured for all elements of the array
// ('*')"). Its meaning is taken where it is unambiguous (reading decision,
// refines decision 10): an option whose path contains `*` equals the same
// option given once for every index the lists at that place have in A or B.
// That is a metamorphic relation with the library itself as the reference (the
// expanded options are plain index paths, which field-scope decides against the
// model); the result is compared with the field-policy model under the
// expanded options as well.
//
// Spelling: Field*Values appends the marker ".*" to a name unless the name
// ends in ".*" already, so "a" and "a.*" name the field a, the elements of the
// list a are "a.*.*" (the final ".*" is the marker and has to be written), the
// elements of a top-level list are "*" or "*.*", a field inside every element
// is "a.*.b" or "a.*.b.*".
//
// Left out (no assertion, classed), because the expansion relation is not
// implied by anything written down and does not hold on the library:
//   - an option with an explicit index at a place where another option has `*`
//     (which of the two governs that element: the library lets the index
//     option shadow the `*` option for the whole element);
//   - an option that names a list X itself next to an option `X.*...` for its
//     elements (both are stored under the key "*" of the node for X in the
//     field-handling tree: the later one silently drops the earlier one).
package c16

import (
	"fmt"
	"strconv"
	"strings"
	"testing"

	"pgregory.net/rapid"

	"verif/harness/internal/canon"
	"verif/harness/internal/gen"
	"verif/harness/internal/model"
	"verif/harness/internal/runlog"
)

// WCase: like Case; the paths of Fields are spelled as they are passed to the
// library (with `*` components, with or without the trailing marker).
type WCase struct {
	A      *gen.Tree    `json:"a"`
	B      *gen.Tree    `json:"b"`
	Global model.Policy `json:"global"`
	Fields []FieldOpt   `json:"fields"`
	Src    int          `json:"src,omitempty"` // 1: B is a *Config
}

// logical returns the components of a spelled path without the marker: the
// addressed node(s), `*` standing for every element. explicit: the marker was
// spelled.
func logical(path string) (segs []string, explicit bool, ok bool) {
	if path == "" {
		return nil, false, false
	}
	if strings.HasSuffix(path, sep+"*") {
		path, explicit = strings.TrimSuffix(path, sep+"*"), true
	}
	segs = strings.Split(path, sep)
	for _, s := range segs {
		if s == "" || s == "**" {
			return nil, false, false
		}
	}
	return segs, explicit, true
}

// expand replaces every `*` of segs by the indices the nodes at that place
// have in A or in B. A `*` at a place that has no list elements in either tree
// names nothing.
func expand(ma, mb *model.Node, segs []string) [][]string {
	out := [][]string{{}}
	for _, s := range segs {
		var next [][]string
		for _, p := range out {
			if s != "*" {
				next = append(next, append(append([]string{}, p...), s))
				continue
			}
			n := 0
			for _, root := range []*model.Node{ma, mb} {
				if node, _ := resolve(root, p); node != nil && node.Kind == "cont" && len(node.A) > n {
					n = len(node.A)
				}
			}
			for i := 0; i < n; i++ {
				next = append(next, append(append([]string{}, p...), strconv.Itoa(i)))
			}
		}
		out = next
	}
	return out
}

// ambiguous: two options whose first differing component is `*` in one and an
// index in the other (precedence between the two is written down nowhere), or
// one option names a list and the other one its elements through `*`.
func ambiguous(paths [][]string) (indexVsStar, listVsElems bool) {
	for i, p := range paths {
		for j, q := range paths {
			if i == j {
				continue
			}
			k := 0
			for k < len(p) && k < len(q) && p[k] == q[k] {
				k++
			}
			switch {
			case k < len(p) && k < len(q):
				if p[k] == "*" && isIndex(q[k]) {
					indexVsStar = true
				}
			case k == len(p) && k < len(q) && q[k] == "*":
				listVsElems = true
			}
		}
	}
	return
}

func (c WCase) describe() string {
	return Case{A: c.A, B: c.B, Global: c.Global, Fields: c.Fields}.describe()
}

func runWild(c WCase, r *runlog.R) error {
	if c.A == nil || c.B == nil || !c.A.IsCont() || !c.B.IsCont() || len(c.Fields) == 0 ||
		c.Global < 0 || c.Global >= model.NPolicies {
		r.Discard()
		return nil
	}
	var logic [][]string
	var expl []bool
	stars := 0
	for _, f := range c.Fields {
		segs, e, ok := logical(f.Path)
		switch f.Policy {
		case model.Default, model.Replace, model.Append, model.Prepend:
		default:
			ok = false
		}
		if !ok {
			r.Discard()
			return nil
		}
		for _, s := range segs {
			if s == "*" {
				stars++
			}
		}
		logic, expl = append(logic, segs), append(expl, e)
	}
	if stars == 0 && !anyTrue(expl) {
		r.Discard() // a plain case: field-scope
		return nil
	}
	ma, mb := model.FromTree(c.A), model.FromTree(c.B)
	var expanded []FieldOpt
	matched := make([]int, len(c.Fields))
	for i, f := range c.Fields {
		for _, p := range expand(ma, mb, logic[i]) {
			expanded = append(expanded, FieldOpt{Path: strings.Join(p, sep), Policy: f.Policy})
			matched[i]++
		}
	}

	goA, goB := c.A.Go(), c.B.Go()
	got, err := libMerge(goA, goB, c.Src == 1, libOpts(c.Global, c.Fields))
	if err != nil {
		return fmt.Errorf("%v\n %s", err, c.describe())
	}
	glob, err := libMerge(goA, goB, c.Src == 1, libOpts(c.Global, nil))
	if err != nil {
		return fmt.Errorf("global-only merge: %v\n %s", err, c.describe())
	}
	differs := !canon.EqualSplit(got, glob)

	ivs, lve := ambiguous(logic)
	switch {
	case ivs:
		r.Class("index option next to a `*` option at the same place (precedence undefined, unasserted)")
	case lve:
		r.Class("option for a list next to a `*` option for its elements (unasserted)")
	default:
		ref, err := libMerge(goA, goB, c.Src == 1, libOpts(c.Global, expanded))
		if err != nil {
			return fmt.Errorf("merge with the expanded options: %v\n %s", err, c.describe())
		}
		if !canon.EqualSplit(got, ref) {
			return fmt.Errorf("the result under options with the element wildcard differs from the result under the same options given for every index\n %s\n expanded: %s\n got      %s\n expanded %s\n global-only merge %s",
				c.describe(), showFields(expanded), show(got), show(ref), show(glob))
		}
		if opts, ok := parseOpts(expanded); ok {
			fm := &fieldModel{global: c.Global, opts: opts}
			if want := fm.merge(c.A, c.B); !canon.EqualSplit(got, want) {
				return fmt.Errorf("the result under options with the element wildcard differs from the field-policy model under the same options given for every index\n %s\n expanded: %s\n got  %s\n want %s\n global-only merge %s",
					c.describe(), showFields(expanded), show(got), show(want), show(glob))
			}
		} else if len(expanded) > 0 {
			return fmt.Errorf("harness: expanded options not accepted by the model: %s", showFields(expanded))
		}
		if len(expanded) == 0 && differs {
			return fmt.Errorf("options that name nothing in either tree changed the result\n %s\n got  %s\n global-only merge %s", c.describe(), show(got), show(glob))
		}
	}

	// classification
	nt := false
	for i, f := range c.Fields {
		segs := logic[i]
		n, consecutive := 0, false
		for j, s := range segs {
			if s == "*" {
				n++
				consecutive = consecutive || (j > 0 && segs[j-1] == "*")
			}
		}
		last := segs[len(segs)-1] == "*"
		switch {
		case n == 0:
			r.Class("plain path with the marker spelled (x.*)")
		case len(segs) == 1:
			r.Class("wildcard: bare top-level, spelled " + f.Path)
		case last && segs[0] == "*":
			r.Class("wildcard: first and last component")
		case last:
			r.Class("wildcard: last component (x.*.*)")
		case segs[0] == "*":
			r.Class("wildcard: first component (*.x)")
		default:
			r.Class("wildcard: in the middle (x.*.y)")
		}
		if n > 0 {
			r.Class(fmt.Sprintf("wildcard levels=%d", n))
			r.ClassIf(expl[i], "wildcard path with the marker spelled")
			r.ClassIf(!expl[i], "wildcard path without the marker")
			r.ClassIf(consecutive, "list of lists (`*.*` inside the path)")
			r.ClassIf(matched[i] == 0, "wildcard names nothing")
			r.ClassIf(matched[i] == 1, "wildcard names 1 node")
			r.ClassIf(matched[i] > 1, "wildcard names several nodes")
			// elements that are containers in both trees: the policy has something to do
			both, lists := 0, false
			for _, p := range expand(ma, mb, segs) {
				a, _ := resolve(ma, p)
				b, _ := resolve(mb, p)
				if a != nil && b != nil && a.Kind == "cont" && b.Kind == "cont" {
					both++
					lists = lists || (len(a.A) > 0 && len(b.A) > 0)
				}
			}
			r.ClassIf(both > 0, "a named node is a container in both trees")
			r.ClassIf(both > 1, "several named nodes are containers in both trees")
			r.ClassIf(last && lists, "named elements are lists in both trees (list of lists)")
			if both > 0 && f.Policy != c.Global && differs {
				nt = true
				switch {
				case len(segs) == 1:
					r.Class("non-trivial by an option with `*`: bare top-level")
				case last:
					r.Class("non-trivial by an option with `*`: last component")
				default:
					r.Class("non-trivial by an option with `*`: before a name")
				}
				r.ClassIf(last && lists, "non-trivial by an option with `*`: elements are lists (list of lists)")
			}
		}
		r.Class("field policy=" + f.Policy.String())
	}
	r.NonTrivialIf(nt && !ivs && !lve)
	r.Class("global=" + c.Global.String())
	r.Class(fmt.Sprintf("options=%d", len(c.Fields)))
	r.ClassIf(differs, "result differs from global-only merge")
	r.ClassIf(c.A.K == "list", "top-level list")
	r.ClassIf(c.Src == 1, "source is *Config")
	switch n := len(expanded); {
	case n == 0:
		r.Class("expanded options: 0")
	case n <= 2:
		r.Class("expanded options: 1-2")
	case n <= 5:
		r.Class("expanded options: 3-5")
	default:
		r.Class("expanded options: 6+")
	}
	return nil
}

func anyTrue(b []bool) bool {
	for _, x := range b {
		if x {
			return true
		}
	}
	return false
}

func showFields(fs []FieldOpt) string {
	var parts []string
	for _, f := range fs {
		parts = append(parts, fmt.Sprintf("field(%q)=%v", f.Path, f.Policy))
	}
	if len(parts) == 0 {
		return "(no field option)"
	}
	return strings.Join(parts, " ")
}

// ---------------------------------------------------------------------------
// generator

// listy draws a list of containers: objects, lists, lists of lists.
func listy(t *rapid.T, cfg *gen.TreeCfg, depth int) *gen.Tree {
	l := gen.List()
	n := rapid.IntRange(1, 3).Draw(t, "llen")
	kind := rapid.IntRange(0, 3).Draw(t, "lkind")
	for i := 0; i < n; i++ {
		k := kind
		if k == 3 {
			k = rapid.IntRange(0, 2).Draw(t, "ekind")
		}
		switch {
		case k == 0 || depth <= 0:
			l.Vals = append(l.Vals, gen.GenObj(t, cfg, 2))
		case k == 1:
			e := gen.GenList(t, cfg, 1)
			if len(e.Vals) == 0 {
				e.Vals = append(e.Vals, gen.GenTree(t, cfg, 0))
			}
			l.Vals = append(l.Vals, e)
		default:
			l.Vals = append(l.Vals, listy(t, cfg, depth-1))
		}
	}
	return l
}

// starPath turns a real path into a wildcard path: index components become
// `*` (at least one of them if there is one).
func starPath(t *rapid.T, real string) []string {
	segs := strings.Split(real, sep)
	var idx []int
	for j, s := range segs {
		if isIndex(s) {
			idx = append(idx, j)
		}
	}
	if len(idx) == 0 {
		return segs
	}
	must := idx[rapid.IntRange(0, len(idx)-1).Draw(t, "star")]
	for _, j := range idx {
		if j == must || rapid.IntRange(0, 3).Draw(t, "alsostar") > 0 {
			segs[j] = "*"
		}
	}
	return segs
}

func spellWild(t *rapid.T, segs []string) string {
	p := strings.Join(segs, sep)
	last := segs[len(segs)-1] == "*"
	switch {
	case last && len(segs) > 1:
		return p + sep + "*" // the marker has to be written
	case rapid.IntRange(0, 2).Draw(t, "marker") == 0:
		return p + sep + "*"
	}
	return p
}

func withIndex(paths []string) []string {
	var out []string
	for _, p := range paths {
		for _, s := range strings.Split(p, sep) {
			if isIndex(s) {
				out = append(out, p)
				break
			}
		}
	}
	return out
}

func genWildPath(t *rapid.T, pl *pool, idxBoth, idxReal []string, prev [][]string) []string {
	if len(prev) > 0 {
		p := prev[rapid.IntRange(0, len(prev)-1).Draw(t, "rel")]
		switch rapid.IntRange(0, 7).Draw(t, "related") {
		case 0: // the same path again
			return append([]string{}, p...)
		case 1: // a field inside the named elements
			return append(append([]string{}, p...), rapid.SampledFrom(keys).Draw(t, "inner"))
		case 2: // the elements of the named node, or what encloses it
			if len(p) > 1 && rapid.Bool().Draw(t, "up") {
				return append([]string{}, p[:len(p)-1]...)
			}
			return append(append([]string{}, p...), "*")
		case 3: // one wildcard of it as an explicit index, or the other way round
			q := append([]string{}, p...)
			for j, s := range q {
				if s == "*" && rapid.Bool().Draw(t, "toidx") {
					q[j] = rapid.SampledFrom([]string{"0", "1", "2"}).Draw(t, "idx")
				} else if isIndex(s) {
					q[j] = "*"
				}
			}
			return q
		}
	}
	w := rapid.IntRange(0, 19).Draw(t, "wkind")
	switch {
	case w < 10 && len(idxBoth) > 0:
		return starPath(t, idxBoth[rapid.IntRange(0, len(idxBoth)-1).Draw(t, "path")])
	case w < 14 && len(idxReal) > 0:
		return starPath(t, idxReal[rapid.IntRange(0, len(idxReal)-1).Draw(t, "path")])
	case w < 16 && len(pl.bothCont) > 0:
		// a plain path (marker spelled or not), now and then the elements it does not have
		segs := strings.Split(pl.bothCont[rapid.IntRange(0, len(pl.bothCont)-1).Draw(t, "path")], sep)
		if rapid.IntRange(0, 2).Draw(t, "elems") == 0 {
			segs = append(segs, "*")
		}
		return segs
	case w < 18 && len(pl.real) > 0:
		// a `*` in the place of a name: names nothing unless the node has a list part too
		segs := strings.Split(pl.real[rapid.IntRange(0, len(pl.real)-1).Draw(t, "path")], sep)
		segs[rapid.IntRange(0, len(segs)-1).Draw(t, "at")] = "*"
		return segs
	}
	n := rapid.IntRange(1, 3).Draw(t, "plen")
	var segs []string
	for i := 0; i < n; i++ {
		segs = append(segs, rapid.SampledFrom([]string{"*", "a", "b", "*", "c", "0"}).Draw(t, "seg"))
	}
	return segs
}

func genWild(t *rapid.T) WCase {
	cfg := treeCfg()
	sub := &gen.TreeCfg{Depth: 2, Width: cfg.Width, Keys: cfg.Keys, NoFloat: true, NoEmpty: true}
	var a *gen.Tree
	if rapid.IntRange(0, 3).Draw(t, "toplist") == 0 {
		a = listy(t, sub, 2)
	} else {
		a = gen.GenObj(t, cfg, cfg.Depth-1)
		n := rapid.IntRange(1, 2).Draw(t, "nlists")
		for i := 0; i < n; i++ {
			objs := objects(a)
			o := objs[rapid.IntRange(0, len(objs)-1).Draw(t, "at")]
			o.Put(rapid.SampledFrom(keys).Draw(t, "listname"), listy(t, sub, 2))
		}
	}
	var b *gen.Tree
	if rapid.IntRange(0, 9).Draw(t, "independent") == 0 {
		b = genCont(t, cfg, cfg.Depth)
	} else {
		b = mutate(t, cfg, a, cfg.Depth+1)
	}
	c := WCase{A: a, B: b, Global: model.Policy(rapid.SampledFrom([]int{0, 0, 1, 0, 0, 2, 0, 0, 3, 0, 0, 4}).Draw(t, "global"))}
	if rapid.IntRange(0, 4).Draw(t, "src") == 0 {
		c.Src = 1
	}
	pl := buildPool(a, b)
	idxBoth, idxReal := withIndex(pl.bothCont), withIndex(pl.real)
	nf := rapid.SampledFrom([]int{1, 1, 1, 2, 2, 3}).Draw(t, "nfields")
	var prev [][]string
	for i := 0; i < nf; i++ {
		segs := genWildPath(t, pl, idxBoth, idxReal, prev)
		prev = append(prev, segs)
		c.Fields = append(c.Fields, FieldOpt{Path: spellWild(t, segs),
			Policy: rapid.SampledFrom([]model.Policy{model.Append, model.Replace, model.Prepend, model.Default}).Draw(t, "fieldpolicy")})
	}
	return c
}

var subWild = runlog.Register(&runlog.Sub[WCase]{
	Name: "element-wildcard",
	Rule: "field paths with the element wildcard `*`. Tree A: an object over {a,b,c,d} with 1-2 lists of containers planted (lists of objects, of lists, of lists of lists, mixed; 1-3 elements per level), 1 in 4 such a list at the top level; B a mutation of A (1 in 10 independent); global policy one of 5 (merge in 2 of 3 cases: lists are merged index-wise only then); B as generic data or (1/5) a *Config; 1-3 field options, policy one of 4. Paths: a real path of A/B through list indices (70%; mostly one that is a container in both trees) with one or more of its index components turned into `*` (the others stay explicit indices), so `*` stands last (x.*.*, elements of a list, incl. lists of lists x.*.*.*), in the middle (x.*.y), first (*.x) or alone (top-level list: `*` and `*.*`), on 1-3 levels; plain container paths and their non-existing elements (10%); a `*` in the place of a name (10%); arbitrary paths over {*,a,b,c,0} (10%); later options relate to earlier ones (same path, a field inside, its elements / the enclosing node, a `*` turned into an index or back). Spelling: the marker `.*` that Field*Values appends itself is written in 1 of 3 paths where it is optional (always where the path ends in the element wildcard: the marker is required there). Oracle (reading decision: `*` = every index the lists at that place have in A or B): (1) the library's result equals the library's result under the expanded options (each option repeated, in place, for every index combination; no option at all if the wildcard names nothing); (2) it equals the field-policy model under the expanded options; (3) options that name nothing leave the global-only result. Not asserted (classed): an explicit index option at a place where another option has `*` (precedence undefined), an option for a list next to a `*` option for its elements. Non-trivial: some option with `*` names a node that is a container in both trees, its policy differs from the global one and the result differs from the global-only merge. Distinct: hash of the whole case.",
	Gen:  genWild,
	Run:  runWild,
})

func TestElementWildcard(t *testing.T) { subWild.Check(t, 12000, 1000000) }
