package c16

import (
	"fmt"
	"testing"

	"pgregory.net/rapid"
	"verif/harness/internal/runlog"
)

func TestDbg(t *testing.T) {
	tot, leak, fail := 0, 0, 0
	rapid.Check(t, func(rt *rapid.T) {
		c := genCase(rt)
		tot++
		opts, _ := parseOpts(c.Fields)
		if indexLeak(opts) {
			leak++
		}
		if err := runCase(c, &runlog.R{}); err != nil {
			fail++
			if fail < 4 {
				fmt.Println(err)
			}
		}
	})
	fmt.Println("total", tot, "leak class", leak, "failing", fail)
}
