package c20

// Sub-check 2: random spellings from a grammar of Go integer literals and
// near misses, in random layouts.

import (
	"strconv"
	"strings"
	"testing"

	"pgregory.net/rapid"

	"verif/harness/internal/runlog"
)

func pick(t *rapid.T, label string, n int) int { return rapid.IntRange(0, n-1).Draw(t, label) }

// genMagnitude draws the absolute value of a literal.
func genMagnitude(t *rapid.T) uint64 {
	switch pick(t, "magclass", 12) {
	case 0, 1, 2, 3, 4:
		return uint64(rapid.IntRange(0, 40).Draw(t, "mag"))
	case 5, 6:
		return uint64(rapid.IntRange(0, 300).Draw(t, "mag"))
	case 7:
		return uint64(rapid.IntRange(1020, 1030).Draw(t, "mag"))
	case 8:
		// merging a list costs the library time quadratic in its length: keep long lists rare
		if pick(t, "long", 2) == 0 {
			return uint64(rapid.IntRange(0, 2500).Draw(t, "mag"))
		}
		return uint64(rapid.IntRange(0, 300).Draw(t, "mag"))
	case 9:
		return []uint64{1<<63 - 2, 1<<63 - 1, 1 << 63, 1<<63 + 1, 1<<64 - 1, 1 << 62, 1 << 32, 1<<31 - 1}[pick(t, "edge", 8)]
	case 10:
		return rapid.Uint64().Draw(t, "mag")
	default:
		return uint64(rapid.IntRange(0, 1<<20).Draw(t, "mag"))
	}
}

// genLiteral renders a (usually) well-formed Go integer literal.
func genLiteral(t *rapid.T) string {
	mag := genMagnitude(t)
	var prefix, digits string
	switch pick(t, "base", 8) {
	case 0, 1, 2:
		digits = strconv.FormatUint(mag, 10)
	case 3, 4:
		prefix, digits = "0x", strconv.FormatUint(mag, 16)
		if rapid.Bool().Draw(t, "upperdigits") {
			digits = strings.ToUpper(digits)
		}
	case 5:
		prefix, digits = "0o", strconv.FormatUint(mag, 8)
	case 6:
		prefix, digits = "0", strconv.FormatUint(mag, 8)
	default:
		prefix, digits = "0b", strconv.FormatUint(mag, 2)
	}
	if len(prefix) == 2 && pick(t, "upperprefix", 4) == 0 {
		prefix = strings.ToUpper(prefix)
	}
	if prefix != "" && pick(t, "zeros", 5) == 0 {
		digits = strings.Repeat("0", rapid.IntRange(1, 3).Draw(t, "nzeros")) + digits
	}
	if pick(t, "underscores", 4) == 0 {
		// legal positions: between two digits, or between the prefix and the first digit
		var b strings.Builder
		for i := 0; i < len(digits); i++ {
			if (i > 0 || prefix != "") && pick(t, "us", 3) == 0 {
				b.WriteByte('_')
			}
			b.WriteByte(digits[i])
		}
		digits = b.String()
	}
	sign := []string{"", "", "", "", "+", "-", "-"}[pick(t, "sign", 7)]
	return sign + prefix + digits
}

var junk = []string{" ", "_", "__", "a", "g", "x", "e1", ".0", ".", "-", "+", "0", "8", "9", "2", "z", "\t", "０", "١", "०", "0x", "0b", "0o", "1", ",", " ", "p0", "E", "f", "F", "o", "b", "\n"}

// mutate applies one near-miss edit.
func mutate(t *rapid.T, s string) string {
	pos := func(label string, n int) int {
		if n <= 0 {
			return 0
		}
		return rapid.IntRange(0, n).Draw(t, label)
	}
	switch pick(t, "mutation", 9) {
	case 0: // insert junk anywhere
		i := pos("at", len(s))
		return s[:i] + junk[pick(t, "junk", len(junk))] + s[i:]
	case 1: // junk in front
		return junk[pick(t, "junk", len(junk))] + s
	case 2: // junk behind
		return s + junk[pick(t, "junk", len(junk))]
	case 3: // delete one byte
		if s == "" {
			return s
		}
		i := pos("at", len(s)-1)
		return s[:i] + s[i+1:]
	case 4: // double one byte
		if s == "" {
			return s
		}
		i := pos("at", len(s)-1)
		return s[:i+1] + s[i:]
	case 5: // replace one byte by junk
		if s == "" {
			return s
		}
		i := pos("at", len(s)-1)
		return s[:i] + junk[pick(t, "junk", len(junk))] + s[i+1:]
	case 6: // leading zero in front of a decimal: turns it into an octal literal (or a non-literal)
		if strings.HasPrefix(s, "-") || strings.HasPrefix(s, "+") {
			return s[:1] + "0" + s[1:]
		}
		return "0" + s
	case 7: // second sign
		return []string{"-", "+"}[pick(t, "sign2", 2)] + s
	default: // keep the prefix, drop the digits
		for _, p := range []string{"0x", "0X", "0b", "0B", "0o", "0O"} {
			if i := strings.Index(s, p); i >= 0 {
				return s[:i+2]
			}
		}
		return ""
	}
}

func genSpelling(t *rapid.T) string {
	s := genLiteral(t)
	if pick(t, "nearmiss", 3) == 0 {
		s = mutate(t, s)
		if pick(t, "nearmiss2", 4) == 0 {
			s = mutate(t, s)
		}
	}
	// byte edits may cut a multi-byte digit in two; cases must be valid UTF-8
	s = strings.ToValidUTF8(s, "")
	return s
}

var (
	fillSegs = []string{"a", "b", "0", "1", "2", "a", "b"}
	oddSeps  = []string{"_", "x", "X", "-", "+", "/", "::", "0", "b", "e"}
)

func genPathPart(t *rapid.T, label string, n int) []string {
	out := make([]string, n)
	for i := range out {
		out[i] = fillSegs[pick(t, label, len(fillSegs))]
	}
	return out
}

func genCase(t *rapid.T) Case {
	c := Case{NumKeys: []string{"unset", "unset", "off", "on", "on"}[pick(t, "numkeys", 5)]}
	switch pick(t, "sepclass", 10) {
	case 0, 1:
		c.Sep = ""
	case 2:
		c.Sep = oddSeps[pick(t, "oddsep", len(oddSeps))]
	default:
		c.Sep = "."
	}
	c.Build = []string{"map", "map", "imap", "struct", "set", "set"}[pick(t, "build", 6)]

	glue := c.Sep
	if glue == "" {
		glue = "." // without PathSep a dot is just a character of the name
	}
	spell := genSpelling(t)
	npre, npost := 0, 0
	switch pick(t, "layout", 8) {
	case 0, 1, 2: // single segment
	case 3:
		npost = 1
	case 4:
		npre = 1
	case 5:
		npre, npost = 1, 1
	default:
		npre, npost = rapid.IntRange(0, 2).Draw(t, "npre"), rapid.IntRange(0, 2).Draw(t, "npost")
	}
	pre, post := "", ""
	if p := genPathPart(t, "pre", npre); len(p) > 0 {
		pre = strings.Join(p, glue) + glue
	}
	if p := genPathPart(t, "post", npost); len(p) > 0 {
		post = glue + strings.Join(p, glue)
	}
	// EscapePath in 1/3 of the cases; in 1/8 the key is written in brackets
	// (one segment under EscapePath, an ordinary path otherwise)
	c.Escape = pick(t, "escape", 3) == 2
	switch pick(t, "bracket", 16) {
	case 0:
		pre, post = "["+pre, post+"]"
	case 1:
		spell = "[" + spell + "]"
	}
	c.Entries = []Entry{{Pre: pre, Spell: spell, Post: post, Val: "v"}}

	// siblings in the same node: plain names and, sometimes, a second spelled key
	vals := []string{"x", "y"}
	for i, n := 0, []int{0, 0, 0, 1, 1, 2}[pick(t, "nsiblings", 6)]; i < n; i++ {
		if pick(t, "siblingkind", 3) == 0 {
			c.Entries = append(c.Entries, Entry{Pre: pre, Spell: genSpelling(t), Post: []string{"", post}[pick(t, "sibpost", 2)], Val: vals[i]})
		} else {
			c.Entries = append(c.Entries, Entry{Pre: pre, Spell: []string{"p", "q"}[i], Val: vals[i], Fill: true})
		}
	}

	// MaxIdx: default, small, or hugging the value of the spelling
	v, ok := goInt(spell)
	switch m := pick(t, "maxidxclass", 11); {
	case m <= 1:
		// not given
	case m <= 5 && ok && v >= -3000 && v <= 3000:
		if v < 0 {
			v = -v
		}
		cap := v + int64(rapid.IntRange(-1, 1).Draw(t, "capdelta"))
		if cap < 0 {
			cap = 0
		}
		c.MaxIdx = &cap
	case m == 9:
		cap := []int64{1023, 1024, 1025, 5000, 100, 255}[pick(t, "capconst", 6)]
		c.MaxIdx = &cap
	case m == 10:
		// boundary values of the parameter: MaxInt64 ("no limit"), MaxInt32, their neighbours
		cap := boundaryCaps[pick(t, "capboundary", len(boundaryCaps))]
		c.MaxIdx = &cap
	default:
		cap := int64(rapid.IntRange(0, 16).Draw(t, "cap"))
		c.MaxIdx = &cap
	}
	c.Shadow, c.Order = genShadow(t, c.Sep, c.MaxIdx, c.NumKeys)
	return c
}

var subRandom = runlog.Register(&runlog.Sub[Case]{
	Name: "random-literals",
	Rule: "spelling = random Go integer literal (magnitude biased to 0..40, 1024 neighbourhood, up to 2500, 2^63 neighbourhood, any uint64; base 10 / 0x / 0o / leading 0 / 0b, upper and lower case, extra zeros, legal underscores, optional sign), with probability 1/3 damaged by one or two edits (junk inserted/prepended/appended/substituted: blanks, underscores, letters, out-of-base digits, non-ASCII digits, exponent/fraction, second sign; byte deleted or doubled; leading zero; digits dropped); placed as a single-segment key or inside a path of 1-5 segments whose other segments come from {a,b,0,1,2}; PathSep '.', none, or an unusual one (_ x X - + / :: 0 b e: the spelling itself is then split); 0-2 sibling keys in the same node (plain names or a second spelled key); MaxIdx not given / 0..16 / value-1,value,value+1 of the spelling / {100,255,1023,1024,1025,5000} / a boundary value of the parameter {MaxInt64, MaxInt32, MaxInt64-1, MaxInt32+-1, 2^62, MaxUint32, 2^31} (1/11; a spelling such a cap turns into an index above 1025 is discarded); EnableNumKeys not given/false/true; the option list is a sequence: in 3/5 of the cases the explicit options are preceded by overridden occurrences of themselves (EnableNumKeys with the opposite value, the same value, or both; MaxIdx 0 / cap+-1 / a boundary value / 1024 / 0..16; another PathSep), either all in front (a shared base set) or each directly before its override, the explicit options in canonical or reverse order - the last occurrence counts; EscapePath given in 1/3 of the cases, the key (or the spelling alone) enclosed in brackets in 1/8; write site NewFrom(map[string]), NewFrom(map[interface{}]), NewFrom(struct tags), SetString. Same oracle and non-trivial rule as the grid. Discarded: keys that overlap after classification (same index spelled twice, a path through a leaf), keys that are not expressible at the site. Distinct: hash of the case.",
	Gen:  genCase,
	Run:  runCase,
})

func TestRandomLiterals(t *testing.T) { subRandom.Check(t, 100000, 10000000) }
