package c20

// Option LISTS are sequences: the same option may be given several times (a
// shared base set that a caller overrides). Each option is documented as
// "overwrites"/"sets" its setting, so the LAST occurrence in the list counts.
// A case carries, next to its effective option values, a list of shadow
// options: earlier occurrences (with other values) that the effective ones
// override, and an order code for the arrangement of the list.

import (
	"fmt"
	"math"
	"strconv"
	"strings"

	ucfg "github.com/elastic/go-ucfg"
	"pgregory.net/rapid"

	"verif/harness/internal/runlog"
)

// OptItem is one option of a list. K: sep | maxidx | numkeys | escape.
type OptItem struct {
	K string `json:"k"`
	S string `json:"s,omitempty"`
	N int64  `json:"n,omitempty"`
	B bool   `json:"b,omitempty"`
}

func (it OptItem) String() string {
	switch it.K {
	case "sep":
		return "PathSep(" + strconv.Quote(it.S) + ")"
	case "maxidx":
		return "MaxIdx(" + strconv.FormatInt(it.N, 10) + ")"
	case "numkeys":
		return "EnableNumKeys(" + strconv.FormatBool(it.B) + ")"
	case "escape":
		return "EscapePath()"
	}
	return "?" + it.K
}

func (it OptItem) option() ucfg.Option {
	switch it.K {
	case "sep":
		return ucfg.PathSep(it.S)
	case "maxidx":
		return ucfg.MaxIdx(it.N)
	case "numkeys":
		return ucfg.EnableNumKeys(it.B)
	case "escape":
		return ucfg.EscapePath()
	}
	panic("harness: unknown option kind " + it.K)
}

// baseItems lists the options a case gives explicitly, in the canonical order.
func baseItems(sep string, maxIdx *int64, numKeys string, escape bool) []OptItem {
	var o []OptItem
	if sep != "" {
		o = append(o, OptItem{K: "sep", S: sep})
	}
	if maxIdx != nil {
		o = append(o, OptItem{K: "maxidx", N: *maxIdx})
	}
	switch numKeys {
	case "off":
		o = append(o, OptItem{K: "numkeys", B: false})
	case "on":
		o = append(o, OptItem{K: "numkeys", B: true})
	}
	if escape {
		o = append(o, OptItem{K: "escape"})
	}
	return o
}

// usable: a shadow option counts only if the case gives the same option
// explicitly later (otherwise it would be the effective one), if it is inside
// the documented domain (no negative MaxIdx, no empty separator) and if it is
// not the no-op EscapePath.
func usable(sh OptItem, base []OptItem) bool {
	if sh.K == "escape" || (sh.K == "maxidx" && sh.N < 0) || (sh.K == "sep" && sh.S == "") {
		return false
	}
	for _, b := range base {
		if b.K == sh.K {
			return true
		}
	}
	return false
}

// assemble builds the option list. order bit 0: the explicit options in
// reverse canonical order; bit 1: every shadow option directly in front of the
// option that overrides it (otherwise all shadows first, as a shared base set).
func assemble(base, shadow []OptItem, order int) []OptItem {
	b := append([]OptItem(nil), base...)
	if order&1 != 0 {
		for i, j := 0, len(b)-1; i < j; i, j = i+1, j-1 {
			b[i], b[j] = b[j], b[i]
		}
	}
	var sh []OptItem
	for _, s := range shadow {
		if usable(s, base) {
			sh = append(sh, s)
		}
	}
	if order&2 == 0 {
		return append(sh, b...)
	}
	var out []OptItem
	for _, it := range b {
		for _, s := range sh {
			if s.K == it.K {
				out = append(out, s)
			}
		}
		out = append(out, it)
	}
	return out
}

// effectiveCheck is the harness' own check of "the last one counts": reading
// the assembled list front to back must end at the case's effective values.
func effectiveCheck(items []OptItem, sep string, maxIdx *int64, numKeys string) error {
	gotSep, gotNK := "", "unset"
	var gotMax *int64
	for _, it := range items {
		switch it.K {
		case "sep":
			gotSep = it.S
		case "maxidx":
			v := it.N
			gotMax = &v
		case "numkeys":
			gotNK = map[bool]string{false: "off", true: "on"}[it.B]
		}
	}
	if gotSep != sep || gotNK != numKeys || (gotMax == nil) != (maxIdx == nil) || (gotMax != nil && *gotMax != *maxIdx) {
		return fmt.Errorf("harness: option list %s does not end at the effective values of the case", showItems(items))
	}
	return nil
}

func showItems(items []OptItem) string {
	s := make([]string, len(items))
	for i, it := range items {
		s[i] = it.String()
	}
	return "[" + strings.Join(s, ", ") + "]"
}

func toOptions(items []OptItem) []ucfg.Option {
	var o []ucfg.Option
	for _, it := range items {
		o = append(o, it.option())
	}
	return o
}

// seqClasses records what the option list of a case looks like.
func seqClasses(r *runlog.R, base, shadow []OptItem, order int) {
	n := 0
	for _, s := range shadow {
		if !usable(s, base) {
			continue
		}
		n++
		switch s.K {
		case "numkeys":
			r.Class("optseq: EnableNumKeys(" + strconv.FormatBool(s.B) + ") overridden by a later EnableNumKeys(" + strconv.FormatBool(!s.B) + ")")
			for _, b := range base {
				r.ClassIf(b.K == "numkeys" && b.B == s.B, "optseq: EnableNumKeys given twice with the same value")
			}
		case "maxidx":
			for _, b := range base {
				if b.K == "maxidx" {
					r.ClassIf(s.N > b.N, "optseq: MaxIdx overridden by a later smaller one")
					r.ClassIf(s.N < b.N, "optseq: MaxIdx overridden by a later larger one")
				}
			}
		case "sep":
			r.Class("optseq: PathSep overridden by a later one")
		}
	}
	r.ClassIf(n == 0, "optseq: every option at most once")
	r.ClassIf(n > 1, "optseq: several overridden options")
	r.ClassIf(n > 0 && order&2 == 0, "optseq: overridden options first (shared base set)")
	r.ClassIf(n > 0 && order&2 != 0, "optseq: overridden option directly before the overriding one")
	r.ClassIf(order&1 != 0 && len(base) > 1, "optseq: explicit options in reverse order")
}

// capLen is MaxIdx+1 without overflow.
func capLen(max int64) int64 {
	if max == math.MaxInt64 {
		return max
	}
	return max + 1
}

// materialLimit: an index above it is not built (the list would have to be
// allocated); such cases only exist for the huge boundary values of MaxIdx.
func materialLimit() int64 { return 1025 }

var boundaryCaps = []int64{math.MaxInt64, math.MaxInt32, math.MaxInt64 - 1, math.MaxInt32 + 1, math.MaxInt32 - 1, 1 << 62, math.MaxUint32, 1 << 31}

func capClass(mi *int64) string {
	switch {
	case mi == nil:
		return "maxidx: default"
	case *mi <= 1:
		return "maxidx: " + strconv.FormatInt(*mi, 10)
	case *mi <= 64:
		return "maxidx: 2..64"
	case *mi == math.MaxInt64:
		return "maxidx: MaxInt64"
	case *mi == math.MaxInt64-1:
		return "maxidx: MaxInt64-1"
	case *mi == math.MaxInt32:
		return "maxidx: MaxInt32"
	case *mi > 1<<20:
		return "maxidx: other huge value"
	default:
		return "maxidx: >64"
	}
}

// genShadow draws 0-3 overridden options for the explicit options of a case.
func genShadow(t *rapid.T, sep string, maxIdx *int64, numKeys string) ([]OptItem, int) {
	var sh []OptItem
	if pick(t, "seq", 5) < 2 {
		return nil, 0
	}
	if numKeys != "unset" && pick(t, "shadow-numkeys", 4) != 3 {
		b := numKeys == "on"
		switch pick(t, "shadow-numkeys-kind", 6) {
		case 0: // same value twice
			sh = append(sh, OptItem{K: "numkeys", B: b})
		case 1: // twice overridden
			sh = append(sh, OptItem{K: "numkeys", B: b}, OptItem{K: "numkeys", B: !b})
		default:
			sh = append(sh, OptItem{K: "numkeys", B: !b})
		}
	}
	if maxIdx != nil && pick(t, "shadow-maxidx", 3) != 2 {
		var v int64
		switch pick(t, "shadow-maxidx-kind", 6) {
		case 0:
			v = 0
		case 1:
			v = *maxIdx + 1
			if *maxIdx == math.MaxInt64 {
				v = 0
			}
		case 2:
			v = *maxIdx - 1
		case 3:
			v = boundaryCaps[pick(t, "shadow-cap-boundary", len(boundaryCaps))]
		case 4:
			v = defaultMaxIdx
		default:
			v = int64(rapid.IntRange(0, 16).Draw(t, "shadow-cap"))
		}
		if v >= 0 && v != *maxIdx {
			sh = append(sh, OptItem{K: "maxidx", N: v})
		}
	}
	if sep != "" && pick(t, "shadow-sep", 3) == 0 {
		if s := []string{".", "/", "_", "0", "::"}[pick(t, "shadow-sep-value", 5)]; s != sep {
			sh = append(sh, OptItem{K: "sep", S: s})
		}
	}
	return sh, pick(t, "optorder", 4)
}
