package c20

// Reference model of property C20 (DESIGN.md section 3, model vii), written
// without looking at path.go: an own reader of Go integer literals, the
// classification of path segments, and the tree a set of keys has to produce.

import (
	"fmt"
	"sort"
	"strconv"
	"strings"

	ucfg "github.com/elastic/go-ucfg"
)

const defaultMaxIdx = 1024 // documented default of ucfg.MaxIdx

// goInt reads s as a Go integer literal with optional sign, the way
// strconv.ParseInt(s, 0, 64) is documented: base from the prefix after the
// sign (0b, 0o or a bare leading 0, 0x, else 10), underscores only between
// digits or between a base prefix and the first digit, value within int64.
func goInt(s string) (int64, bool) {
	if s == "" {
		return 0, false
	}
	neg := false
	t := s
	if t[0] == '+' || t[0] == '-' {
		neg = t[0] == '-'
		t = t[1:]
	}
	if t == "" {
		return 0, false
	}
	base := uint64(10)
	digits := t
	prevDigit := false // may an underscore follow here?
	if t[0] == '0' {
		prevDigit = true // the prefix (or the leading zero) counts as a digit
		switch {
		case len(t) >= 3 && (t[1] == 'b' || t[1] == 'B'):
			base, digits = 2, t[2:]
		case len(t) >= 3 && (t[1] == 'o' || t[1] == 'O'):
			base, digits = 8, t[2:]
		case len(t) >= 3 && (t[1] == 'x' || t[1] == 'X'):
			base, digits = 16, t[2:]
		default:
			base, digits = 8, t[1:]
		}
	}
	var mag uint64
	const maxU = ^uint64(0)
	lastUnderscore := false
	for i := 0; i < len(digits); i++ {
		c := digits[i]
		if c == '_' {
			if !prevDigit {
				return 0, false
			}
			prevDigit, lastUnderscore = false, true
			continue
		}
		var d uint64
		switch {
		case c >= '0' && c <= '9':
			d = uint64(c - '0')
		case c >= 'a' && c <= 'f':
			d = uint64(c-'a') + 10
		case c >= 'A' && c <= 'F':
			d = uint64(c-'A') + 10
		default:
			return 0, false
		}
		if d >= base {
			return 0, false
		}
		if mag > (maxU-d)/base {
			return 0, false // does not even fit 64 bits
		}
		mag = mag*base + d
		prevDigit, lastUnderscore = true, false
	}
	if lastUnderscore {
		return 0, false
	}
	if neg {
		if mag > 1<<63 {
			return 0, false
		}
		return int64(-mag), true // -(1<<63) wraps to MinInt64, as intended
	}
	if mag > 1<<63-1 {
		return 0, false
	}
	return int64(mag), true
}

// plainDecimal: 0 or a digit string without leading zero, sign or underscore.
func plainDecimal(s string) bool {
	if s == "" || (len(s) > 1 && s[0] == '0') {
		return false
	}
	for i := 0; i < len(s); i++ {
		if s[i] < '0' || s[i] > '9' {
			return false
		}
	}
	return true
}

// seg is one classified path segment.
type seg struct {
	name  string
	isIdx bool
	idx   int64
}

// classifyOne is the statement: a segment is a list index exactly when
// numeric keys are not enabled for it and it is an integer literal between 0
// and the maximum index.
func classifyOne(s string, maxIdx int64, numKeys bool) seg {
	if !numKeys {
		if v, ok := goInt(s); ok && v >= 0 && v <= maxIdx {
			return seg{name: s, isIdx: true, idx: v}
		}
	}
	return seg{name: s}
}

// classify splits a key into segments. EnableNumKeys only affects keys that
// consist of a single segment.
func classify(key, sep string, maxIdx int64, numKeys bool) []seg {
	parts := []string{key}
	if sep != "" {
		parts = strings.Split(key, sep)
	}
	en := numKeys && len(parts) == 1
	out := make([]seg, len(parts))
	for i, p := range parts {
		out[i] = classifyOne(p, maxIdx, en)
	}
	return out
}

// ---------------------------------------------------------------------------
// model tree

// mval is a stored value: nil pointer = nil padding, leaf string, or container.
type mval struct {
	leaf bool
	s    string
	sub  *mnode
}

// mnode is a container with a dictionary part and a list part.
type mnode struct {
	dict map[string]*mval
	arr  []*mval
}

func newNode() *mnode { return &mnode{dict: map[string]*mval{}} }

func (n *mnode) names() []string {
	out := make([]string, 0, len(n.dict))
	for k := range n.dict {
		out = append(out, k)
	}
	sort.Strings(out)
	return out
}

var errConflict = fmt.Errorf("keys overlap")

// insert stores val under the classified path. Nil padding counts as absent.
func (n *mnode) insert(path []seg, val string) error {
	cur := n
	for i, sg := range path {
		last := i == len(path)-1
		var old *mval
		if sg.isIdx {
			for int64(len(cur.arr)) <= sg.idx {
				cur.arr = append(cur.arr, nil)
			}
			old = cur.arr[sg.idx]
		} else {
			old = cur.dict[sg.name]
		}
		var nv *mval
		switch {
		case last && old != nil:
			return errConflict
		case last:
			nv = &mval{leaf: true, s: val}
		case old == nil:
			nv = &mval{sub: newNode()}
		case old.leaf:
			return errConflict
		default:
			nv = old
		}
		if sg.isIdx {
			cur.arr[sg.idx] = nv
		} else {
			cur.dict[sg.name] = nv
		}
		cur = nv.sub
	}
	return nil
}

// remove deletes the setting at path: dictionary entries disappear, list
// elements are cut out and the following ones move down.
func (n *mnode) remove(path []seg) bool {
	cur := n
	for i, sg := range path {
		last := i == len(path)-1
		if sg.isIdx {
			if int64(len(cur.arr)) <= sg.idx {
				return false
			}
			if last {
				cur.arr = append(cur.arr[:sg.idx:sg.idx], cur.arr[sg.idx+1:]...)
				return true
			}
			v := cur.arr[sg.idx]
			if v == nil || v.leaf {
				return false
			}
			cur = v.sub
			continue
		}
		v, ok := cur.dict[sg.name]
		if !ok {
			return false
		}
		if last {
			delete(cur.dict, sg.name)
			return true
		}
		if v == nil || v.leaf {
			return false
		}
		cur = v.sub
	}
	return false
}

// longest returns the length of the longest list in the tree.
func (n *mnode) longest() int {
	m := len(n.arr)
	visit := func(v *mval) {
		if v != nil && v.sub != nil {
			if l := v.sub.longest(); l > m {
				m = l
			}
		}
	}
	for _, v := range n.dict {
		visit(v)
	}
	for _, v := range n.arr {
		visit(v)
	}
	return m
}

// render writes a tree in a compact notation: {"name":value,...}[elem,...],
// each part only if it is not empty, runs of nil padding abbreviated.
func (n *mnode) render(b *strings.Builder) {
	names := n.names()
	if len(names) > 0 || len(n.arr) == 0 {
		b.WriteByte('{')
		for i, k := range names {
			if i > 0 {
				b.WriteByte(',')
			}
			b.WriteString(strconv.Quote(k))
			b.WriteByte(':')
			n.dict[k].render(b)
		}
		b.WriteByte('}')
	}
	if len(n.arr) > 0 {
		b.WriteByte('[')
		for i := 0; i < len(n.arr); i++ {
			if i > 0 {
				b.WriteByte(',')
			}
			if n.arr[i] == nil {
				j := i
				for j < len(n.arr) && n.arr[j] == nil {
					j++
				}
				if j-i > 3 {
					fmt.Fprintf(b, "nil*%d", j-i)
					i = j - 1
					continue
				}
			}
			n.arr[i].render(b)
		}
		fmt.Fprintf(b, "]#%d", len(n.arr))
	}
}

func (v *mval) render(b *strings.Builder) {
	switch {
	case v == nil:
		b.WriteString("nil")
	case v.leaf:
		b.WriteString(strconv.Quote(v.s))
	default:
		v.sub.render(b)
	}
}

func (n *mnode) String() string {
	var b strings.Builder
	n.render(&b)
	return b.String()
}

// fromSnapshot converts the stored tree of a config (verif hook) into the
// model's representation; primitives other than strings and nil are rendered
// with their kind so that they can never equal an expected leaf.
func fromSnapshot(s ucfg.VerifNode) *mval {
	switch s.Kind {
	case "sub":
		n := newNode()
		for i, name := range s.Names {
			n.dict[name] = fromSnapshot(s.Dict[i])
		}
		for _, e := range s.Arr {
			n.arr = append(n.arr, fromSnapshot(e))
		}
		return &mval{sub: n}
	case "nil", "<nil interface>":
		return nil
	case "string":
		return &mval{leaf: true, s: s.Prim}
	default:
		return &mval{leaf: true, s: "<" + s.Kind + ">" + s.Prim}
	}
}

// generic returns the value Unpack is documented to produce for an
// interface{} target: map[string]interface{} for dictionaries, []interface{}
// for list-only nodes. ok is false when the node has both parts (the library
// then folds the list into the map under decimal keys; not compared).
func (n *mnode) generic() (out interface{}, ok bool) {
	switch {
	case len(n.dict) > 0 && len(n.arr) > 0:
		return nil, false
	case len(n.arr) > 0:
		return n.genericList()
	default:
		return n.genericDict()
	}
}

func (n *mnode) genericDict() (map[string]interface{}, bool) {
	m := map[string]interface{}{}
	for k, v := range n.dict {
		g, ok := v.generic()
		if !ok {
			return nil, false
		}
		m[k] = g
	}
	return m, true
}

func (n *mnode) genericList() ([]interface{}, bool) {
	l := make([]interface{}, len(n.arr))
	for i, v := range n.arr {
		g, ok := v.generic()
		if !ok {
			return nil, false
		}
		l[i] = g
	}
	return l, true
}

func (v *mval) generic() (interface{}, bool) {
	switch {
	case v == nil:
		return nil, true
	case v.leaf:
		return v.s, true
	default:
		return v.sub.generic()
	}
}
