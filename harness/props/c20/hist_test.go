package c20

// Sub-check 4: histories. The statement's consequence - no key (and no setter
// address) makes a list grow beyond MaxIdx+1 entries - is a claim about every
// state a list can be in, not only about the empty config the other sub-checks
// start from. A case here is an initial config plus a sequence of calls
// (all Set* incl. SetChild, Remove, Merge of a map of keys) through the root
// or a child handle; numbers inside the addresses are written relative to the
// state the call meets ("the current length of the addressed list + d",
// "MaxIdx + d"), so that the boundaries are hit whatever the history was.
// After every call the classification model is applied (where it determines
// the outcome) and the growth invariant is asserted for every list of the
// stored tree.

import (
	"fmt"
	"strconv"
	"strings"
	"testing"

	"pgregory.net/rapid"

	ucfg "github.com/elastic/go-ucfg"

	"verif/harness/internal/runlog"
	"verif/harness/internal/uc"
)

// Ix is a number that is fixed when the call is made.
type Ix struct {
	Base string `json:"base"` // abs | len (entries of the list addressed so far) | cap (MaxIdx of the call)
	Off  int    `json:"off"`
}

// HSeg is one segment of a name: a plain name, or a number written in Form.
type HSeg struct {
	Name string `json:"name,omitempty"`
	Ix   *Ix    `json:"ix,omitempty"`
	Form string `json:"form,omitempty"` // dec | hex | HEX | oct0 | oct | bin | plus | zeros | us | neg
}

// Addr is a (name, idx) pair as the getters and setters take it.
type Addr struct {
	Segs []HSeg `json:"segs,omitempty"` // joined with the separator ("." also when PathSep is not given: then it is one name)
	Idx  *Ix    `json:"idx,omitempty"`  // nil: -1
}

// KV is one key of a map given to NewFrom or Merge. N > 0: the value is a Go
// slice of N strings (not built from keys, so not bounded by MaxIdx); N < 0 is
// relative to MaxIdx as in Op.N; at least one entry.
type KV struct {
	Key []HSeg `json:"key"`
	Val string `json:"val,omitempty"`
	N   int    `json:"n,omitempty"`
}

// Op is one call.
type Op struct {
	Op     string `json:"op"`               // set | remove | merge
	Handle *Addr  `json:"handle,omitempty"` // the call goes through Child(handle) instead of the root
	At     Addr   `json:"at"`
	Kind   string `json:"kind,omitempty"`   // set: string | bool | int | uint | float | child-dict | child-list
	N      int    `json:"n,omitempty"`      // child-list: number of entries (<0 relative to the call's MaxIdx: -1 = MaxIdx-1, -2 = MaxIdx, -3 = MaxIdx+1 (full), -4 = MaxIdx+2)
	Src    []KV   `json:"src,omitempty"`    // merge: the keys of the source map
	Policy string `json:"policy,omitempty"` // merge: "" | replace | append | prepend
	MaxIdx *int64 `json:"maxidx,omitempty"` // this call is made with another MaxIdx than the rest of the history
}

// HistCase is an initial config and a history of calls.
type HistCase struct {
	Sep      string `json:"sep"`
	MaxIdx   *int64 `json:"maxidx"`
	NumKeys  string `json:"numkeys"`
	RootList int    `json:"rootlist,omitempty"` // > 0: the initial config is NewFrom([]string of that length); <0 relative to the cap as in Op.N
	Init     []KV   `json:"init,omitempty"`     // otherwise NewFrom(map of these keys)
	Ops      []Op   `json:"ops"`
	// the option list as a sequence (optseq_test.go): overridden earlier occurrences of the options of every call
	Shadow []OptItem `json:"shadow,omitempty"`
	Order  int       `json:"order,omitempty"`
}

func (c HistCase) opts(over *int64) ([]ucfg.Option, int64) {
	max := int64(defaultMaxIdx)
	mi := c.MaxIdx
	if over != nil {
		mi = over
	}
	if mi != nil {
		max = *mi
	}
	var sh []OptItem
	for _, s := range c.Shadow {
		if s.K != "maxidx" || mi == nil || s.N != *mi {
			sh = append(sh, s)
		}
	}
	return toOptions(assemble(baseItems(c.Sep, mi, c.NumKeys, false), sh, c.Order)), max
}

func relN(n int, max int64) int {
	if n < 0 {
		n = int(max) - n - 2 // -1 -> MaxIdx-1, -2 -> MaxIdx, -3 -> MaxIdx+1 (full), -4 -> MaxIdx+2
		if n < 0 {
			n = 0
		}
	}
	return n
}

func writeNumber(v int64, form string) string {
	u := uint64(v)
	switch form {
	case "hex":
		return "0x" + strconv.FormatUint(u, 16)
	case "HEX":
		return "0X" + strings.ToUpper(strconv.FormatUint(u, 16))
	case "oct0":
		return "0" + strconv.FormatUint(u, 8)
	case "oct":
		return "0o" + strconv.FormatUint(u, 8)
	case "bin":
		return "0b" + strconv.FormatUint(u, 2)
	case "plus":
		return "+" + strconv.FormatUint(u, 10)
	case "zeros":
		return "0x00" + strconv.FormatUint(u, 16)
	case "us":
		return "0x_" + strconv.FormatUint(u, 16)
	case "neg":
		return "-" + strconv.FormatUint(u, 10)
	}
	return strconv.FormatUint(u, 10)
}

// at returns the value stored at a classified path (nil: nothing or nil padding).
func (n *mnode) at(path []seg) *mval {
	cur := &mval{sub: n}
	for _, sg := range path {
		if cur == nil || cur.leaf {
			return nil
		}
		if sg.isIdx {
			if int64(len(cur.sub.arr)) <= sg.idx {
				return nil
			}
			cur = cur.sub.arr[sg.idx]
		} else {
			cur = cur.sub.dict[sg.name]
		}
	}
	return cur
}

func listLen(v *mval) int {
	if v == nil || v.leaf {
		return 0
	}
	return len(v.sub.arr)
}

func (ix Ix) resolve(curLen int, max int64) int64 {
	var v int64
	switch ix.Base {
	case "len":
		v = int64(curLen) + int64(ix.Off)
	case "cap":
		v = max + int64(ix.Off)
	default:
		v = int64(ix.Off)
	}
	if v < 0 {
		v = 0
	}
	return v
}

// resolveSegs writes the segments as strings; numbers relative to "len" look
// at the list of the node the segments before them lead to, starting at base.
func resolveSegs(base *mval, segs []HSeg, sep string, max int64, numKeys bool) []string {
	out := make([]string, len(segs))
	for i, s := range segs {
		if s.Ix == nil {
			out[i] = s.Name
			continue
		}
		curLen := 0
		if s.Ix.Base == "len" && base != nil && !base.leaf {
			key := strings.Join(out[:i], ".")
			var at *mval = base
			if i > 0 {
				at = base.sub.at(classifyKey(key, sep, max, numKeys))
			}
			curLen = listLen(at)
		}
		out[i] = writeNumber(s.Ix.resolve(curLen, max), s.Form)
	}
	return out
}

// classifyKey is classify, with the empty key meaning "no segments".
func classifyKey(key, sep string, max int64, numKeys bool) []seg {
	if key == "" {
		return nil
	}
	return classify(key, sep, max, numKeys)
}

// address is a resolved (name, idx) pair and its classified path.
type address struct {
	name     string
	idx      int
	path     []seg
	explicit bool // the last path element is the explicit idx
}

func (a address) String() string { return fmt.Sprintf("(%q, %d)", a.name, a.idx) }

func resolveAddr(base *mval, a Addr, sep string, max int64, numKeys bool) address {
	name := strings.Join(resolveSegs(base, a.Segs, sep, max, numKeys), ".")
	if sep != "" && sep != "." {
		name = strings.ReplaceAll(name, ".", sep)
	}
	out := address{name: name, idx: -1, path: classifyKey(name, sep, max, numKeys)}
	if a.Idx != nil {
		var at *mval
		if base != nil && !base.leaf {
			at = base.sub.at(out.path)
		}
		v := a.Idx.resolve(listLen(at), max)
		out.idx = int(v)
		out.path = append(append([]seg{}, out.path...), seg{name: strconv.FormatInt(v, 10), isIdx: true, idx: v})
		out.explicit = true
	}
	return out
}

// set stores v at path, replacing what is there and creating (padding) what is
// missing. ok is false when the path runs through a primitive: the statement
// does not say what happens then, nothing is changed.
func (n *mnode) set(path []seg, v *mval) (ok bool) {
	if len(path) == 0 {
		return false
	}
	cur := &mval{sub: n}
	for _, sg := range path[:len(path)-1] {
		if cur.leaf {
			return false
		}
		var next *mval
		if sg.isIdx {
			if int64(len(cur.sub.arr)) > sg.idx {
				next = cur.sub.arr[sg.idx]
			}
		} else {
			next = cur.sub.dict[sg.name]
		}
		if next == nil {
			break // built from here
		}
		cur = next
	}
	if cur.leaf {
		return false
	}
	node := n
	for i, sg := range path {
		last := i == len(path)-1
		var old *mval
		if sg.isIdx {
			for int64(len(node.arr)) <= sg.idx {
				node.arr = append(node.arr, nil)
			}
			old = node.arr[sg.idx]
		} else {
			old = node.dict[sg.name]
		}
		nv := old
		switch {
		case last:
			nv = v
		case old == nil:
			nv = &mval{sub: newNode()}
		}
		if sg.isIdx {
			node.arr[sg.idx] = nv
		} else {
			node.dict[sg.name] = nv
		}
		node = nv.sub
	}
	return true
}

func (v *mval) clone() *mval {
	if v == nil || v.leaf {
		return v
	}
	n := newNode()
	for k, e := range v.sub.dict {
		n.dict[k] = e.clone()
	}
	for _, e := range v.sub.arr {
		n.arr = append(n.arr, e.clone())
	}
	return &mval{sub: n}
}

// norm replaces containers without any entry by nil: whether a merge leaves
// "nothing" as nil or as an empty container is not C20's subject.
func (v *mval) norm() *mval {
	if v == nil || v.leaf {
		return v
	}
	if len(v.sub.dict) == 0 && len(v.sub.arr) == 0 {
		return nil
	}
	n := newNode()
	for k, e := range v.sub.dict {
		n.dict[k] = e.norm()
	}
	for _, e := range v.sub.arr {
		n.arr = append(n.arr, e.norm())
	}
	return &mval{sub: n}
}

func normString(n *mnode) string {
	v := (&mval{sub: n}).norm()
	if v == nil {
		return "{}"
	}
	return v.sub.String()
}

// mergeDefault is the documented default merge: dictionaries by name, lists by
// position, the source's value wins unless both sides are containers (nil
// counts as an empty container).
func mergeDefault(to, from *mnode) {
	for k, v := range from.dict {
		to.dict[k] = mergeValDefault(to.dict[k], v)
	}
	for i, v := range from.arr {
		if i < len(to.arr) {
			to.arr[i] = mergeValDefault(to.arr[i], v)
		} else {
			to.arr = append(to.arr, v.clone())
		}
	}
}

func mergeValDefault(old, v *mval) *mval {
	switch {
	case old == nil || old.leaf:
		return v.clone()
	case v == nil:
		return old
	case v.leaf:
		return v
	}
	mergeDefault(old.sub, v.sub)
	return old
}

// growth compares the lists of two snapshots position by position: no list
// may have become longer than limit entries (a list that was longer before,
// e.g. one made from a Go slice, may keep its length).
func growth(before, after ucfg.VerifNode, limit int, path string) error {
	if len(after.Arr) > len(before.Arr) && len(after.Arr) > limit {
		return fmt.Errorf("the list at %q grew from %d to %d entries", path, len(before.Arr), len(after.Arr))
	}
	for i, name := range after.Names {
		var b ucfg.VerifNode
		for j, bn := range before.Names {
			if bn == name {
				b = before.Dict[j]
			}
		}
		if err := growth(b, after.Dict[i], limit, path+"/"+name); err != nil {
			return err
		}
	}
	for i := range after.Arr {
		var b ucfg.VerifNode
		if i < len(before.Arr) {
			b = before.Arr[i]
		}
		if err := growth(b, after.Arr[i], limit, path+"/#"+strconv.Itoa(i)); err != nil {
			return err
		}
	}
	return nil
}

func buildSource(kvs []KV, base *mval, sep string, max int64, numKeys bool) (m map[string]interface{}, model *mnode, keys []string, slices bool, ok bool) {
	m = map[string]interface{}{}
	model = newNode()
	for _, kv := range kvs {
		key := strings.Join(resolveSegs(base, kv.Key, sep, max, numKeys), ".")
		if sep != "" && sep != "." {
			key = strings.ReplaceAll(key, ".", sep)
		}
		if _, dup := m[key]; dup || key == "" {
			return nil, nil, nil, false, false
		}
		keys = append(keys, key)
		path := classify(key, sep, max, numKeys)
		if kv.N != 0 {
			n := relN(kv.N, max)
			if n < 1 {
				n = 1
			}
			l := make([]string, n)
			sub := newNode()
			for i := range l {
				l[i] = "e" + strconv.Itoa(i)
				sub.arr = append(sub.arr, &mval{leaf: true, s: l[i]})
			}
			m[key] = l
			slices = true
			// insert a placeholder leaf to detect overlaps, then replace it
			if err := model.insert(path, ""); err != nil {
				return nil, nil, nil, false, false
			}
			model.set(path, &mval{sub: sub})
			continue
		}
		m[key] = kv.Val
		if err := model.insert(path, kv.Val); err != nil {
			return nil, nil, nil, false, false // two keys of one map overlap: not this check's subject
		}
	}
	return m, model, keys, slices, true
}

func hasNegLiteral(path []seg) bool {
	for _, s := range path {
		if v, ok := goInt(s.name); ok && v < 0 {
			return true
		}
	}
	return false
}

func runHist(c HistCase, r *runlog.R) error {
	if c.MaxIdx != nil && *c.MaxIdx < 0 {
		r.Discard()
		return nil
	}
	opts, max := c.opts(nil)
	numKeys := c.NumKeys == "on"

	// ---- initial config
	var cfg *ucfg.Config
	root := newNode()
	var err error
	if c.RootList != 0 {
		n := relN(c.RootList, max)
		if n < 1 {
			n = 1
		}
		l := make([]string, n)
		for i := range l {
			l[i] = "e" + strconv.Itoa(i)
			root.arr = append(root.arr, &mval{leaf: true, s: l[i]})
		}
		err = uc.Safe("NewFrom(slice)", func() (err error) { cfg, err = ucfg.NewFrom(l, opts...); return })
		r.Class("init: top-level slice")
	} else {
		src, model, _, slices, ok := buildSource(c.Init, nil, c.Sep, max, numKeys)
		if !ok {
			r.Discard()
			return nil
		}
		root = model
		for _, kv := range c.Init {
			if runlog.IsOpen("D4") && hasNegLiteral(classify(strings.Join(resolveSegs(nil, kv.Key, c.Sep, max, numKeys), "."), c.Sep, max, numKeys)) {
				r.Excluded("D4")
				r.Discard()
				return nil
			}
		}
		err = uc.Safe("NewFrom(map)", func() (err error) { cfg, err = ucfg.NewFrom(src, opts...); return })
		switch {
		case len(c.Init) == 0:
			r.Class("init: empty")
		case slices:
			r.Class("init: map with Go slices")
		default:
			r.Class("init: map of keys")
		}
	}
	if err != nil {
		return fmt.Errorf("initial config (MaxIdx=%d): %v", max, err)
	}
	snap := ucfg.VerifSnapshot(cfg)
	if got, want := fromSnapshot(snap).sub.String(), root.String(); got != want {
		return fmt.Errorf("initial config (MaxIdx=%d, numeric keys %s, sep %q): stored tree differs from the classification model\n got  %s\n want %s", max, c.NumKeys, c.Sep, clip(got), clip(want))
	}

	trail := []string{}
	fullSeen, nt := false, false
	for i, op := range c.Ops {
		opts, max := c.opts(op.MaxIdx)
		limit := int(max) + 1
		r.ClassIf(op.MaxIdx != nil, "op: call with another MaxIdx than the rest of the history")

		// ---- the handle
		h, base := cfg, &mval{sub: root}
		hname := "root"
		if op.Handle != nil {
			ha := resolveAddr(&mval{sub: root}, *op.Handle, c.Sep, max, numKeys)
			target := root.at(ha.path)
			if ha.name == "" && ha.idx < 0 {
				r.Class("handle: empty address, root used")
			} else if target == nil || target.leaf || (ha.explicit && int64(ha.idx) > max) || (runlog.IsOpen("D4") && hasNegLiteral(ha.path)) {
				r.Class("handle: no container there, root used")
			} else {
				var ch *ucfg.Config
				if err := uc.Safe("Child", func() (err error) { ch, err = cfg.Child(ha.name, ha.idx, opts...); return }); err != nil || ch == nil {
					return fmt.Errorf("%s\nstep %d: Child%s (MaxIdx=%d): %v; the model has a container there: %s", strings.Join(trail, "\n"), i, ha, max, err, root)
				}
				h, base, hname = ch, target, "Child"+ha.String()
				r.Class("handle: child")
			}
		}
		before := ucfg.VerifSnapshot(cfg)
		beforeModel := "(not rendered)"
		if max <= 16 {
			beforeModel = root.String()
		}

		switch op.Op {
		case "set", "remove":
			a := resolveAddr(base, op.At, c.Sep, max, numKeys)
			if a.name == "" && a.idx < 0 {
				r.Class("op: empty address, skipped")
				continue
			}
			if runlog.IsOpen("D4") && hasNegLiteral(a.path) {
				r.Excluded("D4")
				continue
			}
			above := a.explicit && int64(a.idx) > max
			if above && runlog.IsOpen("D7") {
				r.Excluded("D7")
				continue
			}
			// the list the last path element addresses
			var parent *mval = base
			if len(a.path) > 1 {
				parent = base.sub.at(a.path[:len(a.path)-1])
			}
			last := a.path[len(a.path)-1]
			plen := listLen(parent)
			if last.isIdx {
				switch {
				case plen == limit:
					r.Class("fill: list exactly full (MaxIdx+1 entries)")
					fullSeen = true
				case plen > limit:
					r.Class("fill: list longer than MaxIdx+1 (from a slice or a larger MaxIdx)")
				case plen == limit-1:
					r.Class("fill: list one short of full")
				case plen == 0:
					r.Class("fill: no list yet")
				default:
					r.Class("fill: list partly filled")
				}
				switch d := last.idx - int64(plen); {
				case d == 0:
					r.Class("idx: == len")
				case d < 0:
					r.Class("idx: < len (replace)")
				default:
					r.Class("idx: > len (padding)")
				}
				if plen >= limit && last.idx >= int64(plen) {
					r.Class("nt: index at or behind the end of a full list")
					nt = true
				}
			} else if v, ok := goInt(last.name); ok && v >= 0 {
				r.Class("last segment: non-negative literal that is a name (above MaxIdx or numeric keys)")
				if plen >= limit {
					nt = true
				}
			}
			if a.explicit {
				r.Class("addr: explicit idx")
			}
			if len(a.path)-map[bool]int{true: 1}[a.explicit] > 1 {
				r.Class("addr: dotted name")
			}

			if op.Op == "remove" {
				call := fmt.Sprintf("step %d: %s.Remove%s [MaxIdx=%d]", i, hname, a, max)
				trail = append(trail, call)
				var removed bool
				err := uc.Safe("Remove", func() (err error) { removed, err = h.Remove(a.name, a.idx, opts...); return })
				if isPanicErr(err) {
					return fmt.Errorf("%s: %v", strings.Join(trail, "\n"), err)
				}
				after := ucfg.VerifSnapshot(cfg)
				// Remove moves the following entries down: no position by position comparison
				if lb, la := longestList(before), longestList(after); la > lb && la > limit {
					return fmt.Errorf("%s\n(returned %v, %v): the longest list had %d entries and now has %d; more than MaxIdx+1 = %d", strings.Join(trail, "\n"), removed, err, lb, la, limit)
				}
				target := base.sub.at(a.path)
				if above || target == nil || !base.sub.remove(a.path) {
					// nothing (or nil padding) there: what Remove does then is C12's subject
					r.Class("op: remove, outcome not determined by C20")
					root = fromSnapshot(after).sub
					continue
				}
				r.Class("op: remove of an existing entry")
				if err != nil || !removed {
					return fmt.Errorf("%s\n= %v, %v; the model has an entry there: %s", strings.Join(trail, "\n"), removed, err, beforeModel)
				}
				if got, want := fromSnapshot(after).sub.String(), root.String(); got != want {
					return fmt.Errorf("%s\nstored tree differs from the model\n got  %s\n want %s", strings.Join(trail, "\n"), clip(got), clip(want))
				}
				continue
			}

			// ---- set
			var val *mval
			var call func() error
			desc := ""
			childLongest := 0
			switch op.Kind {
			case "bool":
				val, desc = &mval{leaf: true, s: "<bool>true"}, "SetBool(true)"
				call = func() error { return h.SetBool(a.name, a.idx, true, opts...) }
			case "int":
				val, desc = &mval{leaf: true, s: "<int>-5"}, "SetInt(-5)"
				call = func() error { return h.SetInt(a.name, a.idx, -5, opts...) }
			case "uint":
				val, desc = &mval{leaf: true, s: "<uint>7"}, "SetUint(7)"
				call = func() error { return h.SetUint(a.name, a.idx, 7, opts...) }
			case "float":
				val, desc = &mval{leaf: true, s: "<float>" + fmt.Sprintf("%x", 1.5)}, "SetFloat(1.5)"
				call = func() error { return h.SetFloat(a.name, a.idx, 1.5, opts...) }
			case "child-dict":
				sub := newNode()
				sub.dict["k"] = &mval{leaf: true, s: "v"}
				val, desc = &mval{sub: sub}, "SetChild({k: v})"
				ch, err := ucfg.NewFrom(map[string]interface{}{"k": "v"}, opts...)
				if err != nil {
					return fmt.Errorf("harness: %v", err)
				}
				call = func() error { return h.SetChild(a.name, a.idx, ch, opts...) }
			case "child-list":
				n := relN(op.N, max)
				sub := newNode()
				l := make([]string, n)
				for j := range l {
					l[j] = "c" + strconv.Itoa(j)
					sub.arr = append(sub.arr, &mval{leaf: true, s: l[j]})
				}
				val, desc = &mval{sub: sub}, fmt.Sprintf("SetChild(list of %d from a slice)", n)
				childLongest = n
				ch, err := ucfg.NewFrom(l, opts...)
				if err != nil {
					return fmt.Errorf("harness: %v", err)
				}
				call = func() error { return h.SetChild(a.name, a.idx, ch, opts...) }
				r.ClassIf(n == limit, "op: SetChild of a list that is exactly full")
				r.ClassIf(n > limit, "op: SetChild of a list longer than MaxIdx+1")
			default:
				s := "v" + strconv.Itoa(i)
				val, desc = &mval{leaf: true, s: s}, fmt.Sprintf("SetString(%q)", s)
				call = func() error { return h.SetString(a.name, a.idx, s, opts...) }
			}
			r.Class("op: " + strings.SplitN(desc, "(", 2)[0])
			trail = append(trail, fmt.Sprintf("step %d: %s.%s at %s [MaxIdx=%d]", i, hname, desc, a, max))
			err := uc.Safe("Set", call)
			if isPanicErr(err) {
				return fmt.Errorf("%s: %v", strings.Join(trail, "\n"), err)
			}
			after := ucfg.VerifSnapshot(cfg)
			lim := limit
			if childLongest > lim {
				lim = childLongest // the attached list was not made by keys
			}
			if e := growth(before, after, lim, ""); e != nil {
				return fmt.Errorf("%s\n(returned %s): %v; more than MaxIdx+1 = %d\n before %s\n after  %s", strings.Join(trail, "\n"), errText(err), e, limit, clip(beforeModel), clip(fromSnapshot(after).sub.String()))
			}
			if above {
				// an explicit idx above the cap: rejected, or (the statement does not exclude it) an entry of a
				// list that is already that long is replaced; growth was excluded above
				r.Class("op: explicit idx above MaxIdx")
				r.ClassIf(err != nil, "explicit idx above MaxIdx rejected")
				r.ClassIf(err == nil, "explicit idx above MaxIdx accepted (existing entry)")
				root = fromSnapshot(after).sub
				continue
			}
			if !base.sub.set(a.path, val) {
				r.Class("op: path runs through a primitive, outcome not determined by C20")
				root = fromSnapshot(after).sub
				continue
			}
			if err != nil {
				return fmt.Errorf("%s\nfailed: %v\nthe address is %s and every index is within [0, MaxIdx]; model before: %s", strings.Join(trail, "\n"), err, describe(a.name, a.path), clip(beforeModel))
			}
			if got, want := fromSnapshot(after).sub.String(), root.String(); got != want {
				return fmt.Errorf("%s\n%s: stored tree differs from the classification model\n got  %s\n want %s", strings.Join(trail, "\n"), describe(a.name, a.path), clip(got), clip(want))
			}
			var has bool
			if err := uc.Safe("Has", func() (err error) { has, err = h.Has(a.name, a.idx, opts...); return }); err != nil || !has {
				return fmt.Errorf("%s\nsucceeded but Has%s = %v, %v", strings.Join(trail, "\n"), a, has, err)
			}
			if val.leaf && !strings.HasPrefix(val.s, "<") {
				var s string
				if err := uc.Safe("String", func() (err error) { s, err = h.String(a.name, a.idx, opts...); return }); err != nil || s != val.s {
					return fmt.Errorf("%s\nsucceeded but String%s = %q, %v", strings.Join(trail, "\n"), a, s, err)
				}
			}

		case "merge":
			src, model, keys, _, ok := buildSource(op.Src, base, c.Sep, max, numKeys)
			if !ok || len(keys) == 0 {
				r.Class("op: merge source with overlapping keys, skipped")
				continue
			}
			neg := false
			for _, k := range keys {
				neg = neg || hasNegLiteral(classify(k, c.Sep, max, numKeys))
			}
			if neg && runlog.IsOpen("D4") {
				r.Excluded("D4")
				continue
			}
			mopts := opts
			lim := limit
			switch op.Policy {
			case "replace":
				mopts = append(append([]ucfg.Option{}, opts...), ucfg.ReplaceValues)
			case "append":
				mopts = append(append([]ucfg.Option{}, opts...), ucfg.AppendValues)
			case "prepend":
				mopts = append(append([]ucfg.Option{}, opts...), ucfg.PrependValues)
			}
			trail = append(trail, fmt.Sprintf("step %d: %s.Merge(map with keys %q) [MaxIdx=%d, policy %q]", i, hname, keys, max, op.Policy))
			r.Class("op: Merge, policy " + map[bool]string{true: "default", false: op.Policy}[op.Policy == ""])
			full, atCap := false, false
			for _, k := range keys {
				p := classify(k, c.Sep, max, numKeys)
				for j, sg := range p {
					node := base.sub.at(p[:j])
					if listLen(node) >= limit {
						full = true
						if v, ok := goInt(sg.name); ok && v >= max {
							atCap = true
						}
					}
				}
			}
			r.ClassIf(full, "merge: a key runs through a full list")
			r.ClassIf(atCap, "nt: merge key with a literal at or above MaxIdx inside a full list")
			nt = nt || atCap
			fullSeen = fullSeen || full
			err := uc.Safe("Merge", func() error { return h.Merge(src, mopts...) })
			if isPanicErr(err) {
				return fmt.Errorf("%s: %v", strings.Join(trail, "\n"), err)
			}
			after := ucfg.VerifSnapshot(cfg)
			if op.Policy == "append" || op.Policy == "prepend" {
				// these policies add the source's list (at most MaxIdx+1 entries, being made from keys) to the target's
				lim = -1
			}
			if lim >= 0 {
				if e := growth(before, after, lim, ""); e != nil {
					return fmt.Errorf("%s\n(returned %s): %v; more than MaxIdx+1 = %d\n before %s\n after  %s", strings.Join(trail, "\n"), errText(err), e, limit, clip(beforeModel), clip(fromSnapshot(after).sub.String()))
				}
			} else if lb, la := longestList(before), longestList(after); la > lb+limit {
				// these policies move entries, so there is no position by position comparison
				return fmt.Errorf("%s\n(returned %s): the longest list had %d entries and now has %d: it grew by more than the MaxIdx+1 = %d entries a list made from keys can have",
					strings.Join(trail, "\n"), errText(err), lb, la, limit)
			}
			if op.Policy != "" {
				root = fromSnapshot(after).sub
				continue
			}
			if err != nil {
				return fmt.Errorf("%s\nfailed: %v; the source alone builds %s", strings.Join(trail, "\n"), err, model)
			}
			mergeDefault(base.sub, model)
			if got, want := normString(fromSnapshot(after).sub), normString(root); got != want {
				return fmt.Errorf("%s\nstored tree differs from merging the classified source %s into %s\n got  %s\n want %s", strings.Join(trail, "\n"), model, clip(beforeModel), clip(got), clip(want))
			}
			root = fromSnapshot(after).sub // nil and {} are told apart from here on as the library stores them
		default:
			return fmt.Errorf("harness: unknown op %q", op.Op)
		}
	}

	// ---- bookkeeping
	r.NonTrivialIf(nt)
	r.ClassIf(fullSeen, "history reaches a full list")
	switch {
	case c.MaxIdx == nil:
		r.Class("maxidx: default")
	default:
		r.Class("maxidx: " + strconv.FormatInt(max, 10))
	}
	r.Class("numkeys: " + c.NumKeys)
	r.ClassIf(c.Sep == "", "sep: none")
	seqClasses(r, baseItems(c.Sep, c.MaxIdx, c.NumKeys, false), c.Shadow, c.Order)
	return nil
}

func isPanicErr(err error) bool { return err != nil && strings.Contains(err.Error(), "panicked") }

func errText(err error) string {
	if err == nil {
		return "<nil>"
	}
	return err.Error()
}

// ---------------------------------------------------------------------------
// generator

func hpick(t *rapid.T, label string, n int) int {
	// single bits: uniform, unlike rapid's integer generators that favour the bounds
	bits := 3
	for 1<<(bits-3) < n {
		bits++
	}
	v := 0
	for i := 0; i < bits; i++ {
		v <<= 1
		if rapid.Bool().Draw(t, label) {
			v |= 1
		}
	}
	return v % n
}

var forms = []string{"dec", "dec", "dec", "dec", "dec", "dec", "hex", "HEX", "oct0", "oct", "bin", "plus", "zeros", "us", "neg"}

func genIx(t *rapid.T) *Ix {
	switch k := hpick(t, "ixbase", 10); {
	case k < 5:
		return &Ix{Base: "len", Off: []int{-1, 0, 0, 0, 0, 1, 1, 2}[hpick(t, "lenoff", 8)]}
	case k < 7:
		return &Ix{Base: "cap", Off: []int{-1, 0, 0, 1, 1, 2}[hpick(t, "capoff", 6)]}
	default:
		return &Ix{Base: "abs", Off: hpick(t, "abs", 4)}
	}
}

func genNumSeg(t *rapid.T) HSeg {
	return HSeg{Ix: genIx(t), Form: forms[hpick(t, "form", len(forms))]}
}

var listNames = []string{"l", "l", "l", "m"}

// genSegs draws the name part of an address: mostly the list "l" (so that a
// history works on one list and fills it), sometimes below or beside it.
// inList: the call goes through a handle that is a list itself.
func genSegs(t *rapid.T, inList bool) []HSeg {
	if inList {
		switch hpick(t, "shape", 10) {
		case 0, 1, 2, 3:
			return nil
		case 4, 5, 6:
			return []HSeg{genNumSeg(t)}
		case 7:
			return []HSeg{genNumSeg(t), {Name: "k"}}
		case 8:
			return []HSeg{genNumSeg(t), genNumSeg(t)}
		default:
			return []HSeg{{Name: "k"}}
		}
	}
	l := HSeg{Name: listNames[hpick(t, "list", len(listNames))]}
	switch hpick(t, "shape", 16) {
	case 0, 1, 2, 3, 4:
		return []HSeg{l}
	case 5, 6, 7, 8, 9:
		return []HSeg{l, genNumSeg(t)}
	case 10:
		return []HSeg{l, genNumSeg(t), {Name: "k"}}
	case 11:
		return []HSeg{l, genNumSeg(t), genNumSeg(t)}
	case 12:
		return []HSeg{genNumSeg(t)}
	case 13:
		return []HSeg{genNumSeg(t), {Name: "k"}}
	case 14:
		return []HSeg{{Name: "m"}, l, genNumSeg(t)}
	default:
		return []HSeg{l, {Name: "k"}}
	}
}

func genAddr(t *rapid.T, inList bool) Addr {
	a := Addr{Segs: genSegs(t, inList)}
	n := 3
	if len(a.Segs) == 0 {
		n = 10 // the empty name needs an idx
	} else if len(a.Segs) == 1 && a.Segs[0].Ix == nil {
		n = 8 // a bare list name: mostly with an explicit idx
	}
	if hpick(t, "explicit", 10) < n {
		a.Idx = genIx(t)
	}
	return a
}

// genRemoveAddr prefers entries that exist.
func genRemoveAddr(t *rapid.T, inList bool) Addr {
	ix := &Ix{Base: "len", Off: -1}
	switch hpick(t, "rmidx", 10) {
	case 0, 1, 2, 3:
		ix = &Ix{Base: "abs", Off: hpick(t, "abs", 3)}
	case 4:
		ix = &Ix{Base: "len"}
	case 5:
		ix = &Ix{Base: "cap", Off: hpick(t, "capoff", 2)}
	}
	switch {
	case inList && hpick(t, "byname", 2) == 0:
		return Addr{Segs: []HSeg{{Ix: ix, Form: forms[hpick(t, "form", len(forms))]}}}
	case inList:
		return Addr{Idx: ix}
	case hpick(t, "byname", 2) == 0:
		return Addr{Segs: []HSeg{{Name: "l"}, {Ix: ix, Form: forms[hpick(t, "form", len(forms))]}}}
	}
	return Addr{Segs: []HSeg{{Name: "l"}}, Idx: ix}
}

var setKinds = []string{"string", "string", "string", "string", "bool", "int", "uint", "float", "child-dict", "child-list", "child-list"}

// genSrc draws the keys of a merge source: mostly keys that reach into the list.
func genSrc(t *rapid.T, n int, inList bool) []KV {
	var out []KV
	for i := 0; i < n; i++ {
		var segs []HSeg
		for len(segs) == 0 || (len(segs) == 1 && segs[0].Ix == nil && segs[0].Name != "k" && hpick(t, "keepbare", 4) != 0) {
			segs = genSegs(t, inList)
		}
		out = append(out, KV{Key: segs, Val: "s" + strconv.Itoa(i)})
	}
	return out
}

func genHist(t *rapid.T) HistCase {
	c := HistCase{Sep: ".", NumKeys: []string{"unset", "unset", "off", "off", "on"}[hpick(t, "numkeys", 5)]}
	if hpick(t, "nosep", 8) == 7 {
		c.Sep = ""
	}
	big := false
	switch k := hpick(t, "cap", 64); {
	case k == 63:
		// the documented default, not given
		big = true
	case k == 62:
		v := int64(1024)
		c.MaxIdx, big = &v, true
	case k >= 58:
		v := int64(7)
		c.MaxIdx = &v
	default:
		v := int64(k % 5) // 0..4
		c.MaxIdx = &v
	}
	max := int64(defaultMaxIdx)
	if c.MaxIdx != nil {
		max = *c.MaxIdx
	}
	// the initial config: often a list that is full or nearly so
	fillTo := func(label string) int { // number of entries relative to the cap: MaxIdx-1 .. MaxIdx+2 (see Op.N)
		return -[]int{1, 2, 2, 3, 3, 3, 4}[hpick(t, label, 7)]
	}
	switch k := hpick(t, "init", 10); {
	case k == 0:
		// empty
	case k == 1:
		c.RootList = fillTo("rootfill")
	case k <= 4 || big:
		// a Go slice under "l" (the only cheap way to fill a list up to a large cap)
		c.Init = append(c.Init, KV{Key: []HSeg{{Name: "l"}}, N: fillTo("slicefill")})
		if hpick(t, "second", 3) == 0 {
			c.Init = append(c.Init, KV{Key: []HSeg{{Name: "m"}, {Name: "l"}}, N: fillTo("slicefill2")})
		}
	default:
		// keys l.0 .. l.k-1, written in any form
		n := int(max) + 1 - []int{0, 0, 0, 1, 1, 2}[hpick(t, "keyfill", 6)]
		for i := 0; i < n; i++ {
			c.Init = append(c.Init, KV{Key: []HSeg{{Name: "l"}, {Ix: &Ix{Base: "abs", Off: i}, Form: forms[hpick(t, "form", len(forms)-1)]}}, Val: "i" + strconv.Itoa(i)})
		}
		if hpick(t, "other", 3) == 0 {
			c.Init = append(c.Init, KV{Key: []HSeg{{Name: "m"}, {Name: "k"}}, Val: "x"})
		}
	}
	nops := 2 + hpick(t, "nops", 9)
	if big {
		nops = 1 + hpick(t, "nopsbig", 4)
	}
	var second *int64
	if !big && hpick(t, "secondcap", 8) == 7 {
		v := int64(hpick(t, "cap2", 6))
		second = &v
	}
	for i := 0; i < nops; i++ {
		var op Op
		inList := false
		if hpick(t, "handle", 10) >= 7 {
			h := Addr{Segs: []HSeg{{Name: "l"}}}
			inList = true
			switch hpick(t, "hshape", 10) {
			case 0:
				h.Idx = &Ix{Base: "len", Off: -1}
			case 1:
				h.Segs, inList = []HSeg{{Name: "m"}}, false
			case 2:
				h.Segs = append(h.Segs, HSeg{Ix: &Ix{Base: "len", Off: -1}, Form: forms[hpick(t, "form", len(forms)-1)]})
			}
			op.Handle = &h
		}
		switch k := hpick(t, "op", 20); {
		case k < 14:
			op.Op, op.Kind = "set", setKinds[hpick(t, "kind", len(setKinds))]
			if op.Kind == "child-list" {
				op.N = -[]int{2, 3, 3, 4}[hpick(t, "childfill", 4)]
				if hpick(t, "smallchild", 4) == 0 && !big {
					op.N = hpick(t, "childn", 3)
				}
			}
			op.At = genAddr(t, inList)
		case k < 16:
			op.Op, op.At = "remove", genRemoveAddr(t, inList)
		default:
			op.Op = "merge"
			op.Src = genSrc(t, 1+hpick(t, "nkeys", 3), inList)
			op.Policy = []string{"", "", "", "", "replace", "append", "prepend"}[hpick(t, "policy", 7)]
		}
		if second != nil && hpick(t, "usesecond", 3) == 0 {
			op.MaxIdx = second
		}
		c.Ops = append(c.Ops, op)
	}
	c.Shadow, c.Order = genShadow(t, c.Sep, c.MaxIdx, c.NumKeys)
	return c
}

var subHist = runlog.Register(&runlog.Sub[HistCase]{
	Name: "histories",
	Rule: "an initial config (empty; NewFrom(map) of keys l.0 .. l.k-1 written in any integer form with k in MaxIdx-1..MaxIdx+1; a Go slice of MaxIdx-1..MaxIdx+2 strings under l, optionally a second one under m.l; a top-level slice of that size) followed by 2-10 calls (1-4 for the large caps) through the root (70%) or through a fresh Child handle (l mostly; (l, len-1), l.<len-1>, m; the root if there is no container at that address): 70% setters (SetString 4/11, SetBool, SetInt, SetUint, SetFloat, SetChild of {k: v}, SetChild of a list made from a slice with MaxIdx..MaxIdx+2 or 0..2 entries), 10% Remove, 20% Merge of a map with 1-3 keys (default policy 4/7, ReplaceValues, AppendValues, PrependValues). Addresses: name shapes l, l.<n>, l.<n>.k, l.<n>.<n>, <n>, <n>.k, m.l.<n>, l.k (through a list handle: the empty name, <n>, <n>.k, <n>.<n>, k), with an explicit idx in 30% (80% for a bare list name, always for the empty name); Remove addresses prefer existing entries (len-1, 0..2). Every number <n>/idx is fixed when the call is made: the CURRENT length of the list addressed so far + {-1,0,0,0,0,1,1,2} (50%), MaxIdx + {-1,0,0,1,1,2} (20%) or 0..3 (30%); a number inside a name is written as decimal (6/15) or 0x / 0X / leading-0 octal / 0o / 0b / +n / 0x00n / 0x_n / -n. Options for all calls: MaxIdx 0..4 (85%), 7, 1024 given or the default not given; PathSep '.' (7/8) or none; EnableNumKeys not given/false/true; in 1/8 of the histories a third of the calls use another MaxIdx (0..5) than the rest; in 3/5 of the histories the option list of every call is a sequence in which the explicit options are preceded by overridden occurrences of themselves (EnableNumKeys with the opposite value, another MaxIdx incl. the boundary values up to MaxInt64, another PathSep; all in front or each directly before its override; canonical or reverse order): the last occurrence counts. Oracle after EVERY call: (1) growth invariant on the whole stored tree (verif hook), list by list at the same position: no list has become longer than MaxIdx+1 entries of the call (a list that was longer before - from a slice or a larger MaxIdx - may keep its length; SetChild may attach the list it was given; under Append/PrependValues only: the longest list grows by at most the MaxIdx+1 entries of one source list); no panic; (2) the classification model: the address is split at the separator, every segment classified (index iff literal in [0,MaxIdx], numeric keys only for single-segment names), the explicit idx appended as an index; if no index exceeds MaxIdx and the path does not run through a primitive, the call must succeed and the stored tree must equal the model's (value stored, missing nodes created, lists padded with nil), Has (and String for strings) must find the value at the same address; Remove of an existing entry must return true and cut it out; Merge with the default policy must equal merging the classified source tree (names, lists by position); an explicit idx above MaxIdx may be rejected or replace an entry of a list that is already that long. Where C20 does not determine the outcome (path through a primitive, Remove of nothing, other merge policies) the model continues from the stored tree. Classes: fill level of the addressed list relative to MaxIdx+1, idx relative to its length. Non-trivial: a call addresses index >= len of a list that holds >= MaxIdx+1 entries, or puts a literal >= MaxIdx as a key into such a list. Distinct: hash of the case.",
	Gen:  genHist,
	Run:  runHist,
})

func TestHistories(t *testing.T) { subHist.Check(t, 20000, 2000000) }
