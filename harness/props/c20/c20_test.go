// Package c20 decides property C20: numeric path segments index lists only
// within [0, MaxIdx].
//
// A case is a handful of keys (one of them spelled like, or almost like, a Go
// integer literal), an option set (PathSep, MaxIdx, EnableNumKeys, EscapePath)
// and a use site (refs_test.go adds the site "name inside a reference"). The keys are fed to the library through that site; the stored tree,
// the public structure queries, Unpack and the path-addressed getters must
// then agree with the classification model of model_test.go. The option set is
// passed as a LIST in which an option may occur several times (the last
// occurrence counts, optseq_test.go); MaxIdx includes the boundary values of
// its parameter type (MaxInt32, MaxInt64-1, MaxInt64).
package c20

import (
	"fmt"
	"math"
	"reflect"
	"sort"
	"strconv"
	"strings"
	"testing"

	ucfg "github.com/elastic/go-ucfg"

	"verif/harness/internal/runlog"
	"verif/harness/internal/uc"
)

// Entry is one key/value pair. The key is Pre+Spell+Post; Spell is the part
// under test, Pre/Post place it inside a longer path.
type Entry struct {
	Pre   string `json:"pre,omitempty"`
	Spell string `json:"spell"`
	Post  string `json:"post,omitempty"`
	Val   string `json:"val"`
	Fill  bool   `json:"fill,omitempty"` // plain sibling key, not counted in the class histogram
}

// Key returns the complete key.
func (e Entry) Key() string { return e.Pre + e.Spell + e.Post }

// Case is one configuration of keys, options and use site.
type Case struct {
	Entries []Entry `json:"entries"`
	Sep     string  `json:"sep"`              // "" = PathSep not given
	MaxIdx  *int64  `json:"maxidx"`           // null = MaxIdx not given (documented default 1024)
	NumKeys string  `json:"numkeys"`          // unset | off | on
	Escape  bool    `json:"escape,omitempty"` // EscapePath(): a path written as [..] is one segment
	Build   string  `json:"build"`            // map | imap | struct | set
	Layout  string  `json:"layout,omitempty"` // label for the class histogram only
	// the option list as a sequence (optseq_test.go): earlier occurrences of the explicit options, overridden by them
	Shadow []OptItem `json:"shadow,omitempty"`
	Order  int       `json:"order,omitempty"`
}

func (c Case) items() []OptItem {
	return assemble(baseItems(c.Sep, c.MaxIdx, c.NumKeys, c.Escape), c.Shadow, c.Order)
}

func (c Case) opts() []ucfg.Option { return toOptions(c.items()) }

func (c Case) cap() int64 {
	if c.MaxIdx != nil {
		return *c.MaxIdx
	}
	return defaultMaxIdx
}

func clip(s string) string {
	if len(s) > 600 {
		return s[:300] + " … " + s[len(s)-250:]
	}
	return s
}

// tagable: can the key be written as the name part of a struct tag?
func tagable(key string) bool {
	return key != "" && !strings.Contains(key, ",")
}

// structType builds struct{ F0 string `config:"<key0>"`; F1 ... }.
func structType(keys []string) reflect.Type {
	fs := make([]reflect.StructField, len(keys))
	for i, k := range keys {
		fs[i] = reflect.StructField{
			Name: "F" + strconv.Itoa(i),
			Type: reflect.TypeOf(""),
			Tag:  reflect.StructTag(`config:` + strconv.Quote(k)),
		}
	}
	return reflect.StructOf(fs)
}

func describe(key string, segs []seg) string {
	var b strings.Builder
	fmt.Fprintf(&b, "key %q =", key)
	for _, s := range segs {
		if s.isIdx {
			fmt.Fprintf(&b, " [index %d from %q]", s.idx, s.name)
		} else {
			fmt.Fprintf(&b, " [name %q]", s.name)
		}
	}
	return b.String()
}

// longestList walks the stored tree and returns the longest list found.
func longestList(s ucfg.VerifNode) int {
	m := len(s.Arr)
	for _, c := range s.Dict {
		if l := longestList(c); l > m {
			m = l
		}
	}
	for _, c := range s.Arr {
		if l := longestList(c); l > m {
			m = l
		}
	}
	return m
}

func spellClass(e Entry, c Case) (cls string, form string, nontrivial bool) {
	if c.Sep != "" && strings.Contains(e.Spell, c.Sep) {
		return "spelling contains the separator", "", false
	}
	v, ok := goInt(e.Spell)
	single := c.Sep == "" || !strings.Contains(e.Key(), c.Sep) || (c.Escape && escapedPath.MatchString(e.Key()))
	max := c.cap()
	switch {
	case !ok:
		cls = "name: no integer literal"
	case c.NumKeys == "on" && single:
		cls = "name: literal, numeric keys enabled"
	case v < 0:
		cls = "name: negative literal"
	case v > max:
		cls = "name: literal above MaxIdx"
	default:
		cls = "index"
	}
	if !ok {
		return cls, "", false
	}
	t := strings.TrimLeft(e.Spell, "+-")
	switch {
	case len(t) >= 2 && (t[1] == 'x' || t[1] == 'X'):
		form = "hex"
	case len(t) >= 2 && (t[1] == 'b' || t[1] == 'B'):
		form = "binary"
	case len(t) >= 2 && (t[1] == 'o' || t[1] == 'O'):
		form = "octal 0o"
	case len(t) >= 2 && t[0] == '0':
		form = "octal 0 (leading zero)"
	default:
		form = "decimal"
	}
	if t != e.Spell {
		form += ", signed"
	}
	if strings.Contains(t, "_") {
		form += ", underscore"
	}
	// DESIGN.md NT: parses as an integer under base-0 rules but is not a plain
	// decimal in [0, MaxIdx], or lies within +-1 of the cap.
	nontrivial = !(plainDecimal(e.Spell) && v >= 0 && v <= max) || (v >= max-1 && (max == math.MaxInt64 || v <= max+1))
	return cls, form, nontrivial
}

func runCase(c Case, r *runlog.R) error {
	if len(c.Entries) == 0 || (c.MaxIdx != nil && *c.MaxIdx < 0) {
		r.Discard() // negative MaxIdx is not documented: not part of the checked domain
		return nil
	}
	max, numKeys, opts := c.cap(), c.NumKeys == "on", c.opts()
	if err := effectiveCheck(c.items(), c.Sep, c.MaxIdx, c.NumKeys); err != nil {
		return err
	}

	// ---- model
	root := newNode()
	segs := make([][]seg, len(c.Entries))
	keys := make([]string, len(c.Entries))
	seen := map[string]bool{}
	for i, e := range c.Entries {
		k := e.Key()
		if seen[k] {
			r.Discard()
			return nil
		}
		seen[k] = true
		keys[i] = k
		segs[i] = classifyEsc(k, c.Sep, max, numKeys, c.Escape)
		for _, s := range segs[i] {
			// self-check of the model's literal reader against the standard library
			v1, ok1 := goInt(s.name)
			v2, err2 := strconv.ParseInt(s.name, 0, 64)
			if ok1 != (err2 == nil) || (ok1 && v1 != v2) {
				return fmt.Errorf("harness: the model's literal reader disagrees with strconv.ParseInt on %q: (%d,%v) vs (%d,%v)", s.name, v1, ok1, v2, err2)
			}
		}
		if runlog.IsOpen("D4") {
			// known finding D4 open: negative literals are constructed away
			for _, s := range segs[i] {
				if v, ok := goInt(s.name); ok && v < 0 && !(numKeys && len(segs[i]) == 1) {
					r.Excluded("D4")
					r.Discard()
					return nil
				}
			}
		}
		for _, s := range segs[i] {
			if s.isIdx && s.idx > materialLimit() {
				r.Class("discarded: index above 1025 under a huge MaxIdx, list not materialised")
				r.Discard()
				return nil
			}
		}
		if err := root.insert(segs[i], e.Val); err != nil {
			r.Discard() // two keys name the same setting or one runs through the other
			return nil
		}
	}
	if int64(root.longest()) > capLen(max) {
		return fmt.Errorf("harness: model produced a list longer than MaxIdx+1")
	}

	// ---- use site (write direction)
	var cfg *ucfg.Config
	var err error
	switch c.Build {
	case "map":
		m := map[string]interface{}{}
		for _, e := range c.Entries {
			m[e.Key()] = e.Val
		}
		err = uc.Safe("NewFrom(map)", func() (err error) { cfg, err = ucfg.NewFrom(m, opts...); return })
	case "imap":
		m := map[interface{}]interface{}{}
		for _, e := range c.Entries {
			m[e.Key()] = e.Val
		}
		err = uc.Safe("NewFrom(map[interface{}])", func() (err error) { cfg, err = ucfg.NewFrom(m, opts...); return })
	case "struct":
		for _, k := range keys {
			if !tagable(k) {
				r.Discard() // empty tag names fall back to the field name, commas start the tag options
				return nil
			}
		}
		v := reflect.New(structType(keys)).Elem()
		for i, e := range c.Entries {
			v.Field(i).SetString(e.Val)
		}
		err = uc.Safe("NewFrom(struct)", func() (err error) { cfg, err = ucfg.NewFrom(v.Interface(), opts...); return })
	case "set":
		cfg = ucfg.New()
		for _, e := range c.Entries {
			k := e.Key()
			if k == "" {
				r.Discard() // an empty name means "address by idx" for the setters
				return nil
			}
			if err = uc.Safe("SetString", func() error { return cfg.SetString(k, -1, e.Val, opts...) }); err != nil {
				break
			}
		}
	default:
		return fmt.Errorf("harness: unknown build site %q", c.Build)
	}
	what := make([]string, len(keys))
	for i := range keys {
		what[i] = describe(keys[i], segs[i])
	}
	expl := strings.Join(what, "; ") + fmt.Sprintf(" (MaxIdx=%d, numeric keys %s, EscapePath %v, sep %q, site %s, option list %s)", max, c.NumKeys, c.Escape, c.Sep, c.Build, showItems(c.items()))
	if err != nil {
		return fmt.Errorf("%s: the keys were not accepted: %v", expl, err)
	}

	// ---- stored structure
	snap := ucfg.VerifSnapshot(cfg)
	if l := longestList(snap); int64(l) > capLen(max) {
		return fmt.Errorf("%s: a list with %d entries exists, more than MaxIdx+1 = %d", expl, l, capLen(max))
	}
	want := root.String()
	if got := fromSnapshot(snap).sub.String(); got != want {
		return fmt.Errorf("%s: stored tree differs from the classification model\n got  %s\n want %s", expl, clip(got), clip(want))
	}
	if d, a := cfg.IsDict(), cfg.IsArray(); d != (len(root.dict) > 0) || a != (len(root.arr) > 0) {
		return fmt.Errorf("%s: IsDict=%v IsArray=%v, model root has %d names and %d list entries", expl, d, a, len(root.dict), len(root.arr))
	}
	if n, err := cfg.CountField(""); err != nil || n != len(root.dict)+len(root.arr) {
		return fmt.Errorf("%s: CountField(\"\") = %d, %v; want %d", expl, n, err, len(root.dict)+len(root.arr))
	}
	fields := cfg.GetFields()
	sort.Strings(fields)
	if names := root.names(); !(len(fields) == 0 && len(names) == 0) && !reflect.DeepEqual(fields, names) {
		return fmt.Errorf("%s: GetFields = %q, want %q", expl, fields, names)
	}

	// ---- read direction under the same options: Unpack
	if len(root.dict) > 0 {
		if wantM, ok := root.genericDict(); ok {
			var m map[string]interface{}
			if err := uc.Safe("Unpack(map)", func() error { return cfg.Unpack(&m, opts...) }); err != nil {
				return fmt.Errorf("%s: Unpack into a map failed: %v", expl, err)
			}
			// a root with both parts: Unpack into a map is only asked to deliver the named part;
			// whether it also shows the list under decimal keys is not asserted
			for k := range m {
				if _, named := wantM[k]; !named && len(root.arr) > 0 && plainDecimal(k) {
					if i, err := strconv.Atoi(k); err == nil && i < len(root.arr) {
						delete(m, k)
					}
				}
			}
			if !reflect.DeepEqual(m, wantM) {
				return fmt.Errorf("%s: Unpack into a map\n got  %s\n want %s", expl, clip(fmt.Sprintf("%#v", m)), clip(fmt.Sprintf("%#v", wantM)))
			}
		} else {
			r.Class("unpack: nested node with both parts, generic comparison skipped")
		}
	}
	if len(root.arr) > 0 {
		if wantL, ok := root.genericList(); ok {
			var l []interface{}
			if err := uc.Safe("Unpack(list)", func() error { return cfg.Unpack(&l, opts...) }); err != nil {
				return fmt.Errorf("%s: Unpack into a list failed: %v", expl, err)
			}
			if !reflect.DeepEqual(l, wantL) {
				return fmt.Errorf("%s: Unpack into a list\n got  %s\n want %s", expl, clip(fmt.Sprintf("%#v", l)), clip(fmt.Sprintf("%#v", wantL)))
			}
		}
	}
	allTagable := true
	for _, k := range keys {
		allTagable = allTagable && tagable(k)
	}
	if allTagable {
		p := reflect.New(structType(keys))
		if err := uc.Safe("Unpack(struct)", func() error { return cfg.Unpack(p.Interface(), opts...) }); err != nil {
			return fmt.Errorf("%s: Unpack into a struct whose tags are the keys failed: %v", expl, err)
		}
		for i, e := range c.Entries {
			if got := p.Elem().Field(i).String(); got != e.Val {
				return fmt.Errorf("%s: Unpack into a struct: the field tagged %q received %q, want %q", expl, keys[i], got, e.Val)
			}
		}
	} else {
		r.Class("read: struct tag not expressible")
	}

	// ---- read direction: getter and Has by name
	for i, e := range c.Entries {
		k := keys[i]
		if k == "" {
			r.Class("read: empty name, getter skipped")
			continue
		}
		var s string
		if err := uc.Safe("String", func() (err error) { s, err = cfg.String(k, -1, opts...); return }); err != nil || s != e.Val {
			return fmt.Errorf("%s: String(%q, -1) = %q, %v; want %q", expl, k, s, err, e.Val)
		}
		var has bool
		if err := uc.Safe("Has", func() (err error) { has, err = cfg.Has(k, -1, opts...); return }); err != nil || !has {
			return fmt.Errorf("%s: Has(%q, -1) = %v, %v; want true", expl, k, has, err)
		}
	}

	// ---- Remove by name (first key), then the rest must be where the model says
	if k := keys[0]; k != "" {
		var removed bool
		if err := uc.Safe("Remove", func() (err error) { removed, err = cfg.Remove(k, -1, opts...); return }); err != nil || !removed {
			return fmt.Errorf("%s: Remove(%q, -1) = %v, %v; want true", expl, k, removed, err)
		}
		if !root.remove(segs[0]) {
			return fmt.Errorf("harness: model cannot remove %q", k)
		}
		var has bool
		if err := uc.Safe("Has", func() (err error) { has, err = cfg.Has(k, -1, opts...); return }); err != nil {
			return fmt.Errorf("%s: Has(%q, -1) after Remove failed: %v", expl, k, err)
		}
		// the position may be taken by a later element of the same list that moved down
		// (if that element is nil padding, Has is not asserted: whether a nil entry "exists" is not C20's business)
		if wantHas, padding := modelHas(root, segs[0]); !padding && has != wantHas {
			return fmt.Errorf("%s: Has(%q, -1) after Remove = %v, want %v", expl, k, has, wantHas)
		}
		want := root.String()
		if got := fromSnapshot(ucfg.VerifSnapshot(cfg)).sub.String(); got != want {
			return fmt.Errorf("%s: stored tree after Remove(%q) differs from the model\n got  %s\n want %s", expl, k, clip(got), clip(want))
		}
	}

	// ---- bookkeeping
	nt := false
	for _, e := range c.Entries {
		if e.Fill {
			continue
		}
		cls, form, n := spellClass(e, c)
		r.Class("class: " + cls)
		if form != "" {
			r.Class("form: " + form)
		}
		nt = nt || n
	}
	r.NonTrivialIf(nt)
	r.Class("site: " + c.Build)
	if c.Layout != "" {
		r.Class("layout: " + c.Layout)
	}
	r.Class("numkeys: " + c.NumKeys)
	r.ClassIf(c.Escape && numKeys, "escapepath: given, numeric keys on")
	r.ClassIf(c.Escape && !numKeys, "escapepath: given, numeric keys not on")
	for _, k := range keys {
		r.ClassIf(c.Escape && escapedPath.MatchString(k), "escapepath: a key escaped with brackets (one segment)")
	}
	r.Class(capClass(c.MaxIdx))
	seqClasses(r, baseItems(c.Sep, c.MaxIdx, c.NumKeys, c.Escape), c.Shadow, c.Order)
	if c.Sep != "" && c.Sep != "." {
		r.Class("sep: unusual")
	}
	r.ClassIf(len(c.Entries) > 1, "several keys")
	return nil
}

// modelHas: does a value exist at path? padding reports that the path ends at
// (or runs through) a nil list element.
func modelHas(n *mnode, path []seg) (has, padding bool) {
	cur := n
	for i, sg := range path {
		var v *mval
		if sg.isIdx {
			if int64(len(cur.arr)) <= sg.idx {
				return false, false
			}
			v = cur.arr[sg.idx]
			if v == nil {
				return false, true
			}
		} else {
			v = cur.dict[sg.name]
			if v == nil {
				return false, false
			}
		}
		if i == len(path)-1 {
			return true, false
		}
		if v.leaf {
			return false, false
		}
		cur = v.sub
	}
	return false, false
}

// ---------------------------------------------------------------------------
// sub-check 1: the exhaustive grid

var gridSpellings = []string{
	// plain decimals around every cap of the grid
	"0", "1", "2", "3", "6", "7", "8", "9", "10", "1023", "1024", "1025", "1999", "2000", "2001", "4999", "5000", "5001", "65536",
	// signs
	"+0", "+1", "+7", "+8", "+1024", "+1025", "+2000", "+2001", "+5000", "+5001", "-0", "-1", "-2", "-7", "-8", "-1024", "-1025", "-2000", "-5000",
	"+-1", "-+1", "--1", "++1", "+", "-", "1-", "1+",
	// leading zeros (octal under base-0 rules)
	"00", "01", "07", "007", "08", "09", "010", "0010", "02000", "02001", "03720", "03721", "011610", "011611", "-01", "-00", "+07",
	// hex
	"0x0", "0x1", "0X1", "0x7", "0x8", "0x1f", "0X1F", "0x3ff", "0x400", "0x401", "0x7d0", "0X7D1", "0x1388", "0x1389", "-0x1", "+0x1", "-0x0",
	"0x", "0X", "0xg", "0x 1", "x1", "0x7fffffffffffffff", "0x8000000000000000", "-0x8000000000000000", "-0x8000000000000001", "0xffffffffffffffff",
	// octal with 0o
	"0o0", "0o1", "0o7", "0O7", "0o10", "0o2000", "0o2001", "0o3720", "0o3721", "0o11610", "0o8", "0o", "-0o1", "+0o1",
	// binary
	"0b0", "0b1", "0B1", "0B11", "0b111", "0b1000", "0b10000000000", "0b10000000001", "0b11111010000", "0b11111010001", "0b2", "0b", "-0b1",
	// underscores
	"1_0", "1__0", "_1", "1_", "0_1", "0_7", "0_", "0x_1", "0x1_f", "0x__1", "0x1_", "0_x1", "1_024", "1_025", "2_000", "2_0_0_1", "5_000", "0b_1", "0o_7", "_", "-_1", "-1_0", "+1_0",
	// blanks
	" 1", "1 ", "1 0", " ", "\t1", "1\n",
	// floats and other number-like strings
	"1.0", "0.0", "1.", ".5", "1e1", "1E1", "1e", "0x1p0", "Inf", "NaN",
	// empty, separators
	"", ".", "..",
	// non-ASCII digits
	"०", "١", "１", "1０", "²",
	// the int64 boundary
	"9223372036854775806", "9223372036854775807", "9223372036854775808", "-9223372036854775807", "-9223372036854775808", "-9223372036854775809",
	"18446744073709551615", "18446744073709551616", "99999999999999999999", "0777777777777777777777", "01000000000000000000000",
	// ordinary names and near misses
	"a", "z", "1a", "a1", "0a", "true", "nil", "[0]", "[1]", "1,2", "0,", "$1", "${0}",
	// bracketed texts: one segment under EscapePath
	"[a.b]", "[0.1]", "[1.z]", "[]", "[0].[1]",
}

type layout struct {
	name      string
	sep       string
	pre, post string
	fillPre   string // prefix of the two sibling keys, "-" = none
}

var gridLayouts = []layout{
	{"sole key, no separator", "", "", "", "-"},
	{"sole key, separator set", ".", "", "", "-"},
	{"one of several keys, no separator", "", "", "", ""},
	{"one of several keys, separator set", ".", "", "", ""},
	{"first path segment", ".", "", ".z", "-"},
	{"middle path segment", ".", "a.", ".z", "-"},
	{"last path segment", ".", "a.", "", "-"},
	{"last path segment next to named siblings", ".", "a.", "", "a."},
	{"first path segment next to named siblings", ".", "", ".z", ""},
}

func i64(v int64) *int64 { return &v }

// gridMaxIdx: the library merges a list in time quadratic in its length
// (fields.append re-allocates per element), so the large cap is 2000 in the
// quick tier; the thorough tier adds 5000.
func gridMaxIdx() []*int64 {
	caps := []*int64{nil, i64(0), i64(1), i64(7), i64(2000)}
	if runlog.Thorough() {
		caps = append(caps, i64(5000))
	}
	return caps
}

// gridCaps: the caps of the grid sub-check: the small ones plus the boundary
// values of the MaxIdx parameter (spellings above 1025 that such a cap turns
// into indices are discarded: the list is not materialised).
func gridCaps() []*int64 {
	return append(gridMaxIdx(), i64(math.MaxInt32), i64(math.MaxInt64-1), i64(math.MaxInt64))
}

// seqVariants: the option-list variants of one grid combination: every
// explicit option once more in front, with another value, overridden.
func seqVariants(c Case) []Case {
	var out []Case
	add := func(sh []OptItem, order int) {
		v := c
		v.Shadow, v.Order = sh, order
		out = append(out, v)
	}
	var all []OptItem
	if c.NumKeys != "unset" {
		sh := []OptItem{{K: "numkeys", B: c.NumKeys != "on"}}
		add(sh, 0)
		all = append(all, sh...)
	}
	if c.MaxIdx != nil {
		other := int64(0)
		switch {
		case *c.MaxIdx == 0:
			other = 2000
		case *c.MaxIdx == 7:
			other = math.MaxInt64
		case *c.MaxIdx == math.MaxInt64:
			other = 7
		}
		sh := []OptItem{{K: "maxidx", N: other}}
		add(sh, 2)
		all = append(all, sh...)
	}
	if c.Sep != "" {
		sh := []OptItem{{K: "sep", S: "/"}}
		add(sh, 0)
		all = append(all, sh...)
	}
	if len(all) > 1 {
		add(all, 1)
		add(all, 3)
	}
	return out
}

func enumGrid(yield func(Case) bool) {
	n := 0
	for _, sp := range gridSpellings {
		for _, lay := range gridLayouts {
			for _, mi := range gridCaps() {
				for _, nk := range []string{"unset", "off", "on"} {
					for _, build := range []string{"map", "struct", "set", "map+escape", "struct+escape", "set+escape"} {
						esc := strings.HasSuffix(build, "+escape")
						build = strings.TrimSuffix(build, "+escape")
						// EscapePath: in the quick tier only at the map site and for two caps
						if esc && !runlog.Thorough() && (build != "map" || (mi != nil && *mi != 7)) {
							continue
						}
						c := Case{Sep: lay.sep, MaxIdx: mi, NumKeys: nk, Escape: esc, Build: build, Layout: lay.name}
						c.Entries = []Entry{{Pre: lay.pre, Spell: sp, Post: lay.post, Val: "v"}}
						if lay.fillPre != "-" {
							c.Entries = append(c.Entries,
								Entry{Pre: lay.fillPre, Spell: "p", Val: "x", Fill: true},
								Entry{Pre: lay.fillPre, Spell: "q", Val: "y", Fill: true})
						}
						if !yield(c) {
							return
						}
						// the option list as a sequence: one rotating variant per combination (quick tier: struct site
						// every third, none with EscapePath); thorough tier: every variant at the map site
						vs := seqVariants(c)
						if len(vs) > 0 && !(runlog.Thorough() && build == "map" && !esc) {
							n++
							if esc || (!runlog.Thorough() && build == "struct" && n%3 != 0) {
								continue
							}
							vs = vs[n%len(vs) : n%len(vs)+1]
						}
						for _, v := range vs {
							if !yield(v) {
								return
							}
						}
					}
				}
			}
		}
	}
}

var subGrid = runlog.Register(&runlog.Sub[Case]{
	Name: "grid",
	Rule: fmt.Sprintf("full product of %d key spellings (decimal, signs, -0, 0x/0X, 0o, 0b, leading zeros, underscores, cap-1/cap/cap+1 of every MaxIdx of the grid in several bases, +-2^63 neighbours, blanks, 1.0, 1e1, empty, non-ASCII digits, plain names) x 9 layouts (sole key / one of several keys with and without PathSep, first / middle / last dotted segment, with and without named siblings in the same node) x MaxIdx {not given, 0, 1, 7, 2000, MaxInt32, MaxInt64-1, MaxInt64; thorough tier also 5000} x EnableNumKeys {not given, false, true} x write site {NewFrom(map), NewFrom(struct with the key as tag name), SetString by name} x EscapePath {not given, given (quick tier: given only at the map site with MaxIdx not given or 7)} x option-list variant {every option once; EnableNumKeys(opposite value) earlier in the list; MaxIdx(another value: 0, 7, 2000 or MaxInt64) directly before the effective one; PathSep(/) earlier; all of these together in front of the explicit options in reverse order / each directly before its override - the LAST occurrence of an option counts; one rotating variant per combination (quick tier: struct site every third; none with EscapePath), thorough tier: all applicable variants at the map site}; every built config is read back through Unpack (map, list, struct with the same tag names), String, Has and Remove by name under the same options. Oracle: own base-0 literal reader + classification (index iff literal, 0<=v<=MaxIdx, numeric keys not enabled for a single-segment key; under EscapePath a key written as [..] is one segment, otherwise EscapePath changes nothing) => expected stored tree, compared with the stored tree (verif hook), IsDict/IsArray/CountField/GetFields, Unpack and getters; no list longer than MaxIdx+1. Non-trivial: the spelling parses as an integer under base-0 rules and is not a plain decimal inside [0,MaxIdx], or lies within 1 of the cap. Discarded: struct site with an empty key or a comma, setter with an empty name, spellings equal to a sibling, spellings that a huge MaxIdx turns into an index above 1025 (the list is not materialised). Negative MaxIdx is not documented and not generated.", len(gridSpellings)),
	Enum: enumGrid,
	Run:  runCase,
})

func TestGrid(t *testing.T) { subGrid.Enumerate(t, true) }

// ---------------------------------------------------------------------------
// sub-check 3: explicit idx argument of a setter (D7 is C07's finding; here only
// the consequence stated by C20 is asserted: no list beyond MaxIdx+1 entries)

type IdxCase struct {
	Name   string `json:"name"`
	Idx    int    `json:"idx"`
	Sep    string `json:"sep"`
	MaxIdx *int64 `json:"maxidx"`
	Setter string `json:"setter"` // string | bool | child
}

func enumIdx(yield func(IdxCase) bool) {
	for _, name := range []string{"", "a", "a.b", "1.a", "0x2"} {
		for _, mi := range append(gridMaxIdx(), negativeCaps...) {
			max := int64(defaultMaxIdx)
			if mi != nil {
				max = *mi
			}
			seen := map[int64]bool{}
			idxs := []int64{0, 1, max - 1, max, max + 1, max + 2, 2*max + 3}
			if max < 0 {
				// a negative MaxIdx leaves no index at all: lists must not grow, whatever the idx
				idxs = []int64{0, 1, 2, 7, 1000, 1024, 2000, 3000}
			}
			for _, idx := range idxs {
				if idx < 0 || seen[idx] {
					continue
				}
				seen[idx] = true
				for _, setter := range []string{"string", "bool", "child"} {
					if !yield(IdxCase{Name: name, Idx: int(idx), Sep: ".", MaxIdx: mi, Setter: setter}) {
						return
					}
				}
			}
		}
	}
}

// negativeCaps: MaxIdx values below zero. "Between 0 and the configured
// maximum index" is an empty range then: no segment and no explicit idx is a
// list index, so no call may make a list grow (MaxIdx+1 <= 0 entries).
var negativeCaps = []*int64{i64(-1), i64(-2), i64(-1025), i64(math.MinInt64)}

func runIdx(c IdxCase, r *runlog.R) error {
	if c.Idx < 0 {
		r.Discard()
		return nil
	}
	max := int64(defaultMaxIdx)
	opts := []ucfg.Option{}
	if c.Sep != "" {
		opts = append(opts, ucfg.PathSep(c.Sep))
	}
	if c.MaxIdx != nil {
		max = *c.MaxIdx
		opts = append(opts, ucfg.MaxIdx(max))
	}
	if int64(c.Idx) > max && runlog.IsOpen("D7") {
		r.Excluded("D7")
		r.Discard()
		return nil
	}
	cfg := ucfg.New()
	err := uc.Safe("Set*", func() error {
		switch c.Setter {
		case "bool":
			return cfg.SetBool(c.Name, c.Idx, true, opts...)
		case "child":
			return cfg.SetChild(c.Name, c.Idx, ucfg.MustNewFrom(map[string]interface{}{"k": "v"}), opts...)
		default:
			return cfg.SetString(c.Name, c.Idx, "v", opts...)
		}
	})
	if err != nil && strings.Contains(err.Error(), "panicked") {
		return fmt.Errorf("Set(%q, %d) with MaxIdx=%d: %v", c.Name, c.Idx, max, err)
	}
	r.NonTrivialIf(int64(c.Idx) >= max-1)
	r.ClassIf(max < 0, "negative MaxIdx: no idx may make a list grow")
	limit := capLen(max)
	if limit < 0 {
		limit = 0
	}
	if l := longestList(ucfg.VerifSnapshot(cfg)); int64(l) > limit {
		return fmt.Errorf("Set(%q, idx=%d) with MaxIdx=%d (error: %v) left a list of %d entries, more than MaxIdx+1", c.Name, c.Idx, max, err, l)
	}
	if err != nil {
		// whether an explicit idx beyond the cap is an error is C07's and C12's business
		r.Class("explicit idx rejected")
		return nil
	}
	r.Class("explicit idx accepted")
	var has bool
	if err := uc.Safe("Has", func() (err error) { has, err = cfg.Has(c.Name, c.Idx, opts...); return }); err != nil || !has {
		return fmt.Errorf("Set(%q, idx=%d) with MaxIdx=%d succeeded but Has = %v, %v", c.Name, c.Idx, max, has, err)
	}
	return nil
}

var subIdx = runlog.Register(&runlog.Sub[IdxCase]{
	Name: "explicit-idx",
	Rule: "names {empty, a, a.b, 1.a, 0x2} x MaxIdx {not given, 0, 1, 7, 2000 (+5000 thorough); negative: -1, -2, -1025, MinInt64 - the range [0, MaxIdx] is empty then, idx {0, 1, 2, 7, 1000, 1024, 2000, 3000} and no list may grow at all} x explicit idx {0, 1, cap-1, cap, cap+1, cap+2, 2cap+3} x setter {SetString, SetBool, SetChild} on an empty config. Only the consequence stated by C20 is asserted: whatever the call returns, no list has more than MaxIdx+1 entries afterwards (and an accepted value is found by Has). Non-trivial: idx >= cap-1 (always for a negative cap).",
	Enum: enumIdx,
	Run:  runIdx,
})

func TestExplicitIdx(t *testing.T) { subIdx.Enumerate(t, true) }

func TestReplay(t *testing.T) { runlog.ReplayMain(t) }
