package c20

import (
	"math"
	"fmt"
	"reflect"
	"regexp"
	"strconv"
	"strings"
	"testing"

	ucfg "github.com/elastic/go-ucfg"
	"pgregory.net/rapid"

	"verif/harness/internal/runlog"
	"verif/harness/internal/uc"
)

// The statement speaks of "a path segment or key" wherever one is used. The
// name inside a reference ${...} is one more such use site, next to map keys,
// dotted segments, struct tags and getter/setter names: whether its segments
// are indices or names is decided by the same rule under the same options.
// This file adds that site in every reference form
//
//	${N}   ${N:default}   ${N:+alternative}   ${N:?message}   ${${M}} with M holding N
//
// and adds the option EscapePath (a path written as [..] is one segment) to
// the option combinations. The oracle is the statement applied twice: the key
// that created a setting addresses that setting again (so all forms must find
// its value), and for any other name the reference finds exactly what the
// getter with the same name and options finds (differential: String(name)).

// RefCase is one key, an option set and a write site; all reference forms are
// part of the same configuration.
type RefCase struct {
	Pre     string `json:"pre,omitempty"`
	Spell   string `json:"spell"`
	Post    string `json:"post,omitempty"`
	Sibl    string `json:"sibl"` // "-" none, else the prefix of the two plain sibling keys p and q
	Sep     string `json:"sep"`
	MaxIdx  *int64 `json:"maxidx"`
	NumKeys string `json:"numkeys"` // unset | off | on
	Escape  bool   `json:"escape,omitempty"`
	Build   string `json:"build"` // map | struct | set
	Layout  string `json:"layout,omitempty"`
	// the option list as a sequence (optseq_test.go)
	Shadow []OptItem `json:"shadow,omitempty"`
	Order  int       `json:"order,omitempty"`
}

func (c RefCase) key() string { return c.Pre + c.Spell + c.Post }

func (c RefCase) cap() int64 {
	if c.MaxIdx != nil {
		return *c.MaxIdx
	}
	return defaultMaxIdx
}

func (c RefCase) opts() []ucfg.Option {
	o := Case{Sep: c.Sep, MaxIdx: c.MaxIdx, NumKeys: c.NumKeys, Escape: c.Escape, Shadow: c.Shadow, Order: c.Order}.opts()
	return append(o, ucfg.VarExp)
}

var escapedPath = regexp.MustCompile(`^\[.*\]$`)

// classifyEsc is classify with the documented meaning of EscapePath: a path
// enclosed in brackets is not split.
func classifyEsc(key, sep string, maxIdx int64, numKeys, escape bool) []seg {
	if escape && escapedPath.MatchString(key) {
		return []seg{classifyOne(key, maxIdx, numKeys)}
	}
	return classify(key, sep, maxIdx, numKeys)
}

// refName: can the text be written as the name of a reference? `$`, `:` and
// `}` are syntax inside ${...}; an empty name is an empty expansion.
func refName(s string) bool { return s != "" && !strings.ContainsAny(s, "$:}") }

type refProbe struct {
	what string // which name is referenced
	name string
	tag  string // prefix of the settings holding the reference forms
}

var refForms = []struct{ suffix, form string }{
	{"p", "${N}"}, {"d", "${N:default}"}, {"a", "${N:+alt}"}, {"e", "${N:?message}"}, {"i", "${${M}}"},
}

func refText(form, name, holder string) string {
	switch form {
	case "${N}":
		return "${" + name + "}"
	case "${N:default}":
		return "${" + name + ":dflt}"
	case "${N:+alt}":
		return "${" + name + ":+alt}"
	case "${N:?message}":
		return "${" + name + ":?msg-of-the-case}"
	default:
		return "${${" + holder + "}}"
	}
}

func runRef(c RefCase, r *runlog.R) error {
	key := c.key()
	if (c.MaxIdx != nil && *c.MaxIdx < 0) || !refName(key) {
		r.Discard() // not expressible as a reference name
		return nil
	}
	max, numKeys, opts := c.cap(), c.NumKeys == "on", c.opts()
	segs := classifyEsc(key, c.Sep, max, numKeys, c.Escape)
	for _, s := range segs {
		if s.isIdx && s.idx > materialLimit() {
			r.Class("discarded: index above 1025 under a huge MaxIdx, list not materialised")
			r.Discard()
			return nil
		}
	}
	if runlog.IsOpen("D4") {
		for _, s := range segs {
			if v, ok := goInt(s.name); ok && v < 0 && !(numKeys && len(segs) == 1) {
				r.Excluded("D4")
				r.Discard()
				return nil
			}
		}
	}

	// the names that are referenced: the key itself, another spelling of the
	// same number (where the key's spelling is a literal), a name nobody set
	probes := []refProbe{{"the key itself", key, "r"}}
	if v, ok := goInt(c.Spell); ok {
		if alt := c.Pre + strconv.FormatInt(v, 10) + c.Post; alt != key && refName(alt) {
			probes = append(probes, refProbe{"the decimal spelling of the key's number", alt, "s"})
		}
	}
	if absent := c.Pre + "nope" + c.Post; absent != key {
		probes = append(probes, refProbe{"a name that was not set", absent, "t"})
	}

	// ---- settings: the key (with its siblings) and the reference forms, all at the top level
	type kv struct{ k, v string }
	own := []kv{{key, "v"}}
	if c.Sibl != "-" {
		own = append(own, kv{c.Sibl + "p", "x"}, kv{c.Sibl + "q", "y"})
	}
	var refs []kv
	for _, p := range probes {
		refs = append(refs, kv{p.tag + "n", p.name})
		for _, f := range refForms {
			refs = append(refs, kv{p.tag + f.suffix, refText(f.form, p.name, p.tag+"n")})
		}
	}
	seen := map[string]bool{}
	for _, e := range append(append([]kv{}, own...), refs...) {
		if seen[e.k] {
			r.Discard() // the key collides with a name the harness uses
			return nil
		}
		seen[e.k] = true
	}
	// keys that overlap after classification (an unusual separator splits the
	// spelling itself, so the key's path can run through a sibling's leaf, or
	// two keys can name the same setting): rejecting such a map is documented
	// behaviour and not this check's subject
	{
		probe := newNode()
		for _, e := range append(append([]kv{}, own...), refs...) {
			ks := classifyEsc(e.k, c.Sep, max, numKeys, c.Escape)
			big := false
			for _, s := range ks {
				big = big || (s.isIdx && s.idx > materialLimit())
			}
			if big {
				continue
			}
			if probe.insert(ks, e.v) == errConflict {
				r.Class("discarded: keys overlap after classification")
				r.Discard()
				return nil
			}
		}
	}
	asMap := func(l []kv) map[string]interface{} {
		m := map[string]interface{}{}
		for _, e := range l {
			m[e.k] = e.v
		}
		return m
	}
	var cfg *ucfg.Config
	var err error
	switch c.Build {
	case "map":
		err = uc.Safe("NewFrom(map)", func() (err error) { cfg, err = ucfg.NewFrom(asMap(append(own, refs...)), opts...); return })
	case "struct":
		all := append(own, refs...)
		keys := make([]string, len(all))
		for i, e := range all {
			if !tagable(e.k) {
				r.Discard()
				return nil
			}
			keys[i] = e.k
		}
		v := reflect.New(structType(keys)).Elem()
		for i, e := range all {
			v.Field(i).SetString(e.v)
		}
		err = uc.Safe("NewFrom(struct)", func() (err error) { cfg, err = ucfg.NewFrom(v.Interface(), opts...); return })
	case "set":
		// the key through the setter, the references merged in afterwards
		cfg = ucfg.New()
		for _, e := range own {
			e := e
			if err = uc.Safe("SetString", func() error { return cfg.SetString(e.k, -1, e.v, opts...) }); err != nil {
				break
			}
		}
		if err == nil {
			err = uc.Safe("Merge(references)", func() error { return cfg.Merge(asMap(refs), opts...) })
		}
	default:
		return fmt.Errorf("harness: unknown build site %q", c.Build)
	}
	expl := fmt.Sprintf("%s (MaxIdx=%d, numeric keys %s, EscapePath %v, sep %q, site %s)", describe(key, segs), max, c.NumKeys, c.Escape, c.Sep, c.Build)
	if err != nil {
		return fmt.Errorf("%s: the settings were not accepted: %v", expl, err)
	}

	// ---- the key addresses the setting it created (getter, same options)
	var s string
	if err := uc.Safe("String", func() (err error) { s, err = cfg.String(key, -1, opts...); return }); err != nil || s != "v" {
		return fmt.Errorf("%s: String(%q, -1) = %q, %v; want \"v\"", expl, key, s, err)
	}

	// ---- every reference form finds what the getter with the same name finds
	for _, p := range probes {
		var gv string
		gerr := uc.Safe("String", func() (err error) { gv, err = cfg.String(p.name, -1, opts...); return })
		if isPanicErr(gerr) {
			return fmt.Errorf("%s: String(%q, -1): %v", expl, p.name, gerr)
		}
		found := gerr == nil
		if !found {
			// an error of the getter means "nothing there" only if Has agrees; a
			// container or a nil entry at that name is not a string, but it exists
			var has bool
			herr := uc.Safe("Has", func() (err error) { has, err = cfg.Has(p.name, -1, opts...); return })
			if isPanicErr(herr) {
				return fmt.Errorf("%s: Has(%q, -1): %v", expl, p.name, herr)
			}
			if herr == nil && has {
				r.Class("other spelling of the number: addresses a container or nil entry (forms not asserted)")
				continue
			}
		}
		switch p.tag {
		case "r":
			// checked above: found with "v"
		case "t":
			if found {
				return fmt.Errorf("%s: String(%q, -1) = %q, but nothing was set under that name", expl, p.name, gv)
			}
		}
		if found && gv == "" {
			continue // an empty value: ${N:d} documents the default for it; not generated
		}
		for _, f := range refForms {
			tag := p.tag + f.suffix
			text := refText(f.form, p.name, p.tag+"n")
			var got string
			rerr := uc.Safe("String", func() (err error) { got, err = cfg.String(tag, -1, opts...); return })
			if isPanicErr(rerr) {
				return fmt.Errorf("%s: reading %q = %q: %v", expl, tag, text, rerr)
			}
			getter := fmt.Sprintf("String(%q, -1) = %q, %s", p.name, gv, errText(gerr))
			var want string
			wantErr := false
			switch {
			case found && f.form == "${N:+alt}":
				want = "alt"
			case found:
				want = gv
			case f.form == "${N:default}":
				want = "dflt"
			case f.form == "${N:+alt}":
				want = ""
			default:
				wantErr = true
			}
			if wantErr {
				if rerr == nil {
					return fmt.Errorf("%s: the reference %s (%s, form %s) yields %q, but the getter with the same name and options finds nothing: %s", expl, text, p.what, f.form, got, getter)
				}
				continue
			}
			if rerr != nil || got != want {
				return fmt.Errorf("%s: the reference %s (%s, form %s) yields %q, %s; want %q, because the getter with the same name and options gives %s", expl, text, p.what, f.form, got, errText(rerr), want, getter)
			}
		}
		if p.tag == "s" {
			r.ClassIf(found, "other spelling of the number: addresses a setting (same index)")
			r.ClassIf(!found, "other spelling of the number: addresses nothing (the key is a name)")
		}
	}

	// ---- the same through Unpack: a struct whose tags are the settings that hold references to the key
	{
		tags := []string{"rp", "rd", "ra", "re", "ri"}
		p := reflect.New(structType(tags))
		if err := uc.Safe("Unpack(struct)", func() error { return cfg.Unpack(p.Interface(), opts...) }); err != nil {
			return fmt.Errorf("%s: Unpack of the settings that refer to the key failed: %v", expl, err)
		}
		for i, tag := range tags {
			want := "v"
			if tag == "ra" {
				want = "alt"
			}
			if got := p.Elem().Field(i).String(); got != want {
				return fmt.Errorf("%s: Unpack: the setting %q = %q came out as %q, want %q", expl, tag, refText(refForms[i].form, key, "rn"), got, want)
			}
		}
	}

	// ---- bookkeeping
	e := Entry{Pre: c.Pre, Spell: c.Spell, Post: c.Post}
	cls, form, nt := spellClass(e, Case{Sep: c.Sep, MaxIdx: c.MaxIdx, NumKeys: c.NumKeys})
	if c.Escape && escapedPath.MatchString(key) {
		cls, nt = "name: path escaped with brackets (one segment)", true
		r.ClassIf(c.Sep != "" && strings.Contains(key, c.Sep), "escaped path that contains the separator")
	}
	r.Class("class: " + cls)
	if form != "" {
		r.Class("form: " + form)
	}
	r.NonTrivialIf(nt)
	r.Class("site: " + c.Build)
	if c.Layout != "" {
		r.Class("layout: " + c.Layout)
	}
	r.Class("numkeys: " + c.NumKeys)
	r.Class("escapepath: " + strconv.FormatBool(c.Escape))
	r.ClassIf(len(segs) > 1, "reference name with several segments")
	r.ClassIf(len(segs) == 1, "reference name with a single segment")
	// the combinations in which EnableNumKeys and EscapePath differ: a mix-up of the two is visible
	r.ClassIf(numKeys != c.Escape && len(segs) == 1 && cls != "name: no integer literal", "numkeys != escapepath on a single-segment literal")
	r.Class(capClass(c.MaxIdx))
	seqClasses(r, baseItems(c.Sep, c.MaxIdx, c.NumKeys, c.Escape), c.Shadow, c.Order)
	if c.Sep != "" && c.Sep != "." {
		r.Class("sep: unusual")
	}
	return nil
}

// ---------------------------------------------------------------------------
// the grid of reference names

var refSpellings = []string{
	// plain decimals around the caps of this grid
	"0", "1", "2", "5", "6", "7", "8", "9", "1023", "1024", "1025",
	// signs
	"+0", "+1", "+7", "+8", "-0", "-1", "-7", "+1024", "+1025", "+-1", "+", "-",
	// leading zeros, hex, octal, binary, underscores
	"00", "01", "07", "010", "08", "02000", "02001", "0x0", "0x1", "0X7", "0x8", "0x400", "0x401", "-0x1", "0x", "0xg",
	"0o7", "0o10", "0o2000", "0o2001", "0o8", "0b1", "0b111", "0b1000", "0b2", "1_0", "0_7", "_1", "1_", "1_024", "1_025",
	// blanks, floats, non-ASCII digits, the int64 boundary
	" 1", "1 ", "1.0", "1e1", ".", "１", "9223372036854775807", "9223372036854775808", "-9223372036854775808",
	// ordinary names and near misses
	"a", "1a", "true", "1,2",
	// bracketed: one segment under EscapePath
	"[0]", "[1]", "[a]", "[a.b]", "[0.1]", "[1.z]", "[a.0]", "[]", "[0", "0]", "[0].[1]", "[[0]]", "[a][0]",
}

func gridRefMaxIdx() []*int64 {
	caps := []*int64{nil, i64(0), i64(7), i64(math.MaxInt64)}
	if runlog.Thorough() {
		caps = append(caps, i64(1), i64(2000), i64(math.MaxInt32), i64(math.MaxInt64-1))
	}
	return caps
}

func enumRefs(yield func(RefCase) bool) {
	n := 0
	for _, sp := range refSpellings {
		for _, lay := range gridLayouts {
			for _, mi := range gridRefMaxIdx() {
				for _, nk := range []string{"unset", "off", "on"} {
					for _, esc := range []bool{false, true} {
						builds := []string{"map", "struct", "set"}
						if !runlog.Thorough() {
							// quick tier: the write site of the key rotates (it is the grid sub-check's dimension), map always
							n++
							builds = []string{"map", builds[1+n%2]}
						}
						for _, build := range builds {
							c := RefCase{Pre: lay.pre, Spell: sp, Post: lay.post, Sibl: lay.fillPre, Sep: lay.sep, MaxIdx: mi, NumKeys: nk, Escape: esc, Build: build, Layout: lay.name}
							if !yield(c) {
								return
							}
							// the option list as a sequence (map site): one rotating variant, thorough tier all
							if build != "map" {
								continue
							}
							vs := seqVariants(Case{Sep: c.Sep, MaxIdx: c.MaxIdx, NumKeys: c.NumKeys})
							if !runlog.Thorough() && len(vs) > 0 {
								vs = vs[n%len(vs) : n%len(vs)+1]
							}
							for _, v := range vs {
								c.Shadow, c.Order = v.Shadow, v.Order
								if !yield(c) {
									return
								}
							}
						}
					}
				}
			}
		}
	}
}

var subRefs = runlog.Register(&runlog.Sub[RefCase]{
	Name: "references",
	Rule: fmt.Sprintf("use site `name inside a reference`: full product of %d spellings (decimals around the caps, signs, leading zeros, hex/octal/binary, underscores, blanks, floats, non-ASCII digits, the int64 boundary, plain names, and bracketed texts such as [0] [a.b] [0.1] [0].[1]) x the 9 layouts of the grid (sole key / one of several keys with and without PathSep, first / middle / last dotted segment, with and without named siblings) x MaxIdx {not given, 0, 7, MaxInt64; thorough tier also 1, 2000, MaxInt32, MaxInt64-1} x EnableNumKeys {not given, false, true} x EscapePath {not given, given} x option-list variant at the map site {every option once; one (thorough: every) variant of the grid's list with overridden earlier occurrences of EnableNumKeys / MaxIdx / PathSep} x write site of the key {NewFrom(map) and, alternating in the quick tier, NewFrom(struct tags) / SetString followed by Merge of the references; thorough: all three}; always with VarExp. The configuration holds the key with value v and, at the top level, settings with ALL reference forms ${N}, ${N:dflt}, ${N:+alt}, ${N:?msg}, ${${M}} (M a setting holding N) for three names N: the key itself, the decimal spelling of the key's number (if the spelling is another one), and a name nobody set. Oracle: String(key) finds v (the key addresses the setting it created, under EscapePath too), and for every N every form yields exactly what the getter String(N, -1) with the same options says: found s => s, s, alt, s, s; not found => error, dflt, empty, error, error (the error text is not C20's business); the settings referring to the key are also read through Unpack into a struct. Names containing $ : } or empty are not expressible in a reference and discarded. Non-trivial: as in the grid, or a bracket-escaped path under EscapePath.", len(refSpellings)),
	Enum: enumRefs,
	Run:  runRef,
})

func TestReferences(t *testing.T) { subRefs.Enumerate(t, true) }

// ---------------------------------------------------------------------------
// random reference names: the generator of random-literals, plus EscapePath
// and bracketing

func genRef(t *rapid.T) RefCase {
	b := genCase(t)
	e := b.Entries[0]
	c := RefCase{Pre: e.Pre, Spell: e.Spell, Post: e.Post, Sibl: "-", Sep: b.Sep, MaxIdx: b.MaxIdx, NumKeys: b.NumKeys, Build: b.Build, Shadow: b.Shadow, Order: b.Order}
	if c.Build == "imap" {
		c.Build = "map"
	}
	if len(b.Entries) > 1 {
		c.Sibl = e.Pre
	}
	c.Escape = pick(t, "escape", 2) == 1
	switch pick(t, "bracket", 6) {
	case 0: // the whole key in brackets
		c.Pre, c.Post = "["+c.Pre, c.Post+"]"
	case 1: // only the spelling
		c.Spell = "[" + c.Spell + "]"
	}
	return c
}

var subRandRefs = runlog.Register(&runlog.Sub[RefCase]{
	Name: "random-references",
	Rule: "use site `name inside a reference` with the key generator of random-literals (random Go integer literals, 1/3 damaged, single segment or inside a path of 1-5 segments, PathSep '.', none or unusual, MaxIdx not given / small / hugging the value / constants / boundary values up to MaxInt64, EnableNumKeys not given/false/true, option lists with overridden earlier occurrences in 3/5, write site map/struct/set), EscapePath given in half of the cases, in 1/6 the whole key and in 1/6 the spelling alone enclosed in brackets (on top of the 1/8 bracketed keys of that generator). Same configuration (all five reference forms for the key itself, the decimal spelling of its number, a name nobody set) and same oracle as `references`: every form yields what the getter with the same name and options finds. Distinct: hash of the case.",
	Gen:  genRef,
	Run:  runRef,
})

func TestRandomReferences(t *testing.T) { subRandRefs.Check(t, 20000, 1000000) }
