package c11

import (
	"fmt"
	"regexp"
	"strconv"
	"strings"
	"time"

	ucfg "github.com/elastic/go-ucfg"

	"verif/harness/internal/runlog"
)

// Typed readers: one read operation per kind of value a reader may ask for. Each reads the same settings (stored
// strings, numbers, bools, references to them, list elements) through the getter of its kind and through Unpack into
// targets of its kind. A reader of one kind must not leave anything behind for a reader of another kind.

type fA[T any] struct {
	V T `config:"a"`
}
type fB[T any] struct {
	V T `config:"b"`
}
type fOX[T any] struct {
	O struct {
		X T `config:"x"`
	} `config:"o"`
}
type fL[T any] struct {
	L []T `config:"l"`
}
type fTRef[T any] struct {
	T struct {
		Ref T `config:"ref"`
	} `config:"t"`
}
type fTLi[T any] struct {
	T struct {
		Li []T `config:"li"`
	} `config:"t"`
}

type flag bool

type addr struct {
	name string
	idx  int
}

var typedAddrs = []addr{{"a", -1}, {"b", -1}, {"r", -1}, {"o.x", -1}, {"l", 0}, {"l", 1}, {"t.num", -1}, {"t.ref", -1}, {"t.li", 1}}

func showErr(err error) string {
	if err == nil {
		return ""
	}
	return "!" + err.Error()
}

// typedOp: T is the main target type of the kind, T2 a second one (narrower, so that range checks are exercised);
// get is the getter of the kind (nil: the kind has none).
func typedOp[T, T2 any](name string, get func(c *ucfg.Config, name string, idx int, o []ucfg.Option) (interface{}, error)) readOp {
	return readOp{name, func(c *ucfg.Config, o []ucfg.Option) string {
		var b strings.Builder
		if get != nil {
			for _, a := range typedAddrs {
				v, err := get(c, a.name, a.idx, o)
				fmt.Fprintf(&b, "%s.%d=%v%s;", a.name, a.idx, v, showErr(err))
			}
		}
		var ta fA[T]
		err := c.Unpack(&ta, o...)
		fmt.Fprintf(&b, "A=%v%s;", ta.V, showErr(err))
		var tb fB[T]
		err = c.Unpack(&tb, o...)
		fmt.Fprintf(&b, "B=%v%s;", tb.V, showErr(err))
		var tx fOX[T]
		err = c.Unpack(&tx, o...)
		fmt.Fprintf(&b, "OX=%v%s;", tx.O.X, showErr(err))
		var tl fL[T]
		err = c.Unpack(&tl, o...)
		fmt.Fprintf(&b, "L=%v%s;", tl.L, showErr(err))
		var tr fTRef[T]
		err = c.Unpack(&tr, o...)
		fmt.Fprintf(&b, "TRef=%v%s;", tr.T.Ref, showErr(err))
		var ti fTLi[T]
		err = c.Unpack(&ti, o...)
		fmt.Fprintf(&b, "TLi=%v%s;", ti.T.Li, showErr(err))
		var sb fB[T2]
		err = c.Unpack(&sb, o...)
		fmt.Fprintf(&b, "B2=%v%s;", sb.V, showErr(err))
		var sr fTRef[T2]
		err = c.Unpack(&sr, o...)
		fmt.Fprintf(&b, "TRef2=%v%s;", sr.T.Ref, showErr(err))
		return b.String()
	}}
}

var typedOps = []readOp{
	typedOp[int64, int8]("typed-int", func(c *ucfg.Config, n string, i int, o []ucfg.Option) (interface{}, error) {
		return c.Int(n, i, o...)
	}),
	typedOp[uint64, uint16]("typed-uint", func(c *ucfg.Config, n string, i int, o []ucfg.Option) (interface{}, error) {
		return c.Uint(n, i, o...)
	}),
	typedOp[float64, float32]("typed-float", func(c *ucfg.Config, n string, i int, o []ucfg.Option) (interface{}, error) {
		return c.Float(n, i, o...)
	}),
	typedOp[bool, flag]("typed-bool", func(c *ucfg.Config, n string, i int, o []ucfg.Option) (interface{}, error) {
		return c.Bool(n, i, o...)
	}),
	typedOp[string, interface{}]("typed-string", func(c *ucfg.Config, n string, i int, o []ucfg.Option) (interface{}, error) {
		return c.String(n, i, o...)
	}),
	typedOp[time.Duration, int]("typed-duration", nil),
	typedOp[*regexp.Regexp, uint8]("typed-regexp", nil),
}

// numericClass describes how the parsers of the kinds read the text of a stored string.
func numericClass(s string) string {
	i, ierr := strconv.ParseInt(s, 0, 64)
	u, uerr := strconv.ParseUint(s, 0, 64)
	f, ferr := strconv.ParseFloat(s, 64)
	_, berr := strconv.ParseBool(s)
	switch {
	case ierr == nil && (ferr != nil || f != float64(i)):
		return "integer-and-float-parsers-disagree"
	case ierr == nil && ferr == nil:
		return "integer-and-float-parsers-agree"
	case uerr == nil && ierr != nil:
		_ = u
		return "unsigned-only"
	case ferr == nil:
		return "float-only"
	case berr == nil:
		return "bool-only"
	}
	return "no-number"
}

// ---- the config as merge source of a destination that is written to afterwards ----

var dstNames = []string{"a", "b", "r", "n", "l", "e", "k", "t", "o", "o.z", "m", "m.q"}
var dstKinds = []string{"missing", "string", "reference", "int", "nil", "object", "list", "reference-to-object"}
var polNames = []string{"default", "ReplaceValues", "AppendValues", "PrependValues", "ReplaceValues+FieldMergeValues(o,m)", "AppendValues+FieldReplaceValues(l)+FieldPrependValues(o.z)"}
var inNames = []string{"config", "map{w: config}", "map{w: [config]}"}

func dstKind(cs Case, name string) int {
	for i, n := range dstNames {
		if n == name && i < len(cs.Dst) {
			k := cs.Dst[i]
			if k < 0 {
				k = -k
			}
			// the names with settings below them draw from a longer range: the surplus means object (o, m, m.q) or
			// list (o.z), so that the nested names are reached often
			if k >= len(dstKinds) && k < len(dstKinds)+4 && (name == "o" || name == "m" || name == "m.q") {
				return 5
			}
			if k >= len(dstKinds) && k < len(dstKinds)+4 && name == "o.z" {
				return 6
			}
			return k % len(dstKinds)
		}
	}
	return 0
}

func dstTree(cs Case) map[string]interface{} {
	tree := map[string]interface{}{}
	val := func(name string) (interface{}, bool) {
		switch dstKind(cs, name) {
		case 1:
			return "dv", true
		case 2:
			return "${other}", true
		case 3:
			return 7, true
		case 4:
			return nil, true
		case 5:
			m := map[string]interface{}{"dk": 1}
			switch name {
			case "o":
				m["x"] = "dx"
				if v, ok := valNested(cs, "o.z"); ok {
					m["z"] = v
				}
			case "m":
				m["p"] = "dp"
				if v, ok := valNested(cs, "m.q"); ok {
					m["q"] = v
				}
			}
			return m, true
		case 6:
			return []interface{}{"d0", "${other}", "d2"}, true
		case 7:
			return "${dobj}", true
		}
		return nil, false
	}
	for _, n := range dstNames {
		if strings.Contains(n, ".") {
			continue
		}
		if v, ok := val(n); ok {
			tree[n] = v
		}
	}
	return tree
}

func valNested(cs Case, name string) (interface{}, bool) {
	switch dstKind(cs, name) {
	case 1:
		return "dv", true
	case 2:
		return "${other}", true
	case 3:
		return 7, true
	case 4:
		return nil, true
	case 5:
		return map[string]interface{}{"dk": 1, "l": "no list", "1": "one"}, true
	case 6:
		return []interface{}{"d0", "${other}", "d2"}, true
	case 7:
		return "${dobj}", true
	}
	return nil, false
}

func polOpts(pol int) []ucfg.Option {
	switch pol {
	case 1:
		return []ucfg.Option{ucfg.ReplaceValues}
	case 2:
		return []ucfg.Option{ucfg.AppendValues}
	case 3:
		return []ucfg.Option{ucfg.PrependValues}
	case 4:
		return []ucfg.Option{ucfg.ReplaceValues, ucfg.FieldMergeValues("o", "m", "w.o", "w.m")}
	case 5:
		return []ucfg.Option{ucfg.AppendValues, ucfg.FieldReplaceValues("l", "w.l"), ucfg.FieldPrependValues("o.z", "w.o.z")}
	}
	return nil
}

// mergeThenWrite: the config is merged into a destination that holds primitives, references, nil, objects or lists
// under the names of the config's settings; then only the destination is written to (Set*, Merge of more data, Remove,
// writes through child handles, everywhere below the merged names). The caller compares the state of the config (the
// merge source) before and after. wopts builds the options of the destination (an Env of its own: a write through a
// reference of the destination into the Env would be a write to the destination's environment, not to the source).
func mergeThenWrite(cs Case, wopts func() []ucfg.Option) readOp {
	return readOp{"merge-then-write-destination", func(c *ucfg.Config, o []ucfg.Option) string {
		wo := wopts()
		pol := cs.Pol % len(polNames)
		if pol < 0 {
			pol = 0
		}
		in := cs.In % len(inNames)
		if in < 0 {
			in = 0
		}
		tree := dstTree(cs)
		top := map[string]interface{}{"other": "x", "dobj": map[string]interface{}{"dk": 1}}
		prefix := ""
		var from interface{} = c
		wrap := func(v interface{}) interface{} { return v }
		switch in {
		case 0:
			for k, v := range tree {
				top[k] = v
			}
		case 1:
			top["w"] = tree
			prefix = "w."
			wrap = func(v interface{}) interface{} { return map[string]interface{}{"w": v} }
		case 2:
			top["w"] = []interface{}{tree}
			prefix = "w.0."
			wrap = func(v interface{}) interface{} { return map[string]interface{}{"w": []interface{}{v}} }
		}
		from = wrap(c)
		d, err := ucfg.NewFrom(top, wo...)
		if err != nil {
			return "NewFrom(destination): " + err.Error()
		}
		var out []string
		note := func(what string, err error) {
			if err != nil {
				out = append(out, what+": "+err.Error())
			}
		}
		po := append(polOpts(pol), o...)
		note("Merge", d.Merge(from, po...))

		// --- from here on only the destination is written to ---
		for _, n := range []string{"a", "b", "r", "n", "e", "t", "o", "m", "m.q", "m.p", "o.x", "o.y", "t.num"} {
			note("Set "+n, d.SetString(prefix+n+".w2", -1, "w", wo...))
		}
		for _, n := range []string{"l", "k", "o.z", "m.q.l", "t.li"} {
			cnt, _ := d.CountField(prefix+n, wo...)
			for i := 0; i < cnt && i < 8; i++ {
				note("Set "+n, d.SetString(fmt.Sprintf("%s%s.%d.w2", prefix, n, i), -1, "w", wo...))
			}
			note("SetInt "+n, d.SetInt(prefix+n, 0, 42, wo...))
			if cnt > 1 {
				note("SetBool "+n, d.SetBool(prefix+n, cnt-1, true, wo...))
			}
		}
		for _, n := range []string{"o", "e", "m", "t", "l", "k"} {
			ch, err := d.Child(prefix+n, -1, wo...)
			if err != nil {
				continue
			}
			if ch.IsArray() {
				note("child SetFloat "+n, ch.SetFloat("", 1, 0.5, wo...))
			} else {
				note("child SetBool "+n, ch.SetBool("w3", -1, true, wo...))
			}
		}
		w1 := func() map[string]interface{} { return map[string]interface{}{"w1": 1} }
		more := map[string]interface{}{
			"a": w1(), "n": w1(), "e": w1(),
			"o": map[string]interface{}{"w1": 1, "y": w1(), "z": []interface{}{"w", w1(), "w", w1()}},
			"m": map[string]interface{}{"w1": 1, "p": w1(), "q": map[string]interface{}{"w1": 1, "l": []interface{}{5, 6, 7}}},
			"l": []interface{}{w1(), w1(), w1()}, "k": []interface{}{w1()},
			"t": map[string]interface{}{"w1": 1, "li": []interface{}{w1(), w1()}},
		}
		note("Merge more", d.Merge(wrap(more), append(polOpts(pol), wo...)...))
		for _, n := range []string{"o.x", "o.z.1.k", "e.w1", "m.q.l", "t.ref", "o.w2"} {
			_, err := d.Remove(prefix+n, -1, wo...)
			note("Remove "+n, err)
		}
		for _, n := range []string{"o.z", "l", "k", "t.li"} {
			_, err := d.Remove(prefix+n, 0, wo...)
			note("Remove "+n+"[0]", err)
		}
		var m map[string]interface{}
		err = d.Unpack(&m, wo...)
		return strings.Join(out, "; ") + " => " + show(m, err)
	}}
}

// classes records what the typed readers and the merge-then-write read met in this case.
func classes(cs Case, r *runlog.R) {
	seen := map[string]bool{}
	for i := 0; i < 9 && i < len(cs.Leaves); i++ {
		if i == 4 {
			continue // o.y is not read by the typed readers
		}
		switch v := leaves[cs.Leaves[i]%len(leaves)].(type) {
		case string:
			if strings.Contains(v, "${") {
				seen["typed-readers-meet:reference-or-splice"] = true
			} else {
				seen["typed-readers-meet-string:"+numericClass(v)] = true
				if i == 7 {
					seen["typed-readers-meet-string-through-reference:"+numericClass(v)] = true
				}
			}
		case nil:
		default:
			seen[fmt.Sprintf("typed-readers-meet-stored:%T", v)] = true
		}
	}
	for k := range seen {
		r.Class(k)
	}
	if len(cs.Dst) == 0 {
		return
	}
	pol := cs.Pol % len(polNames)
	r.Class("merge-policy=" + polNames[pol])
	r.Class("merge-input=" + inNames[cs.In%len(inNames)])
	under := map[string]bool{}
	oObj, mObj := dstKind(cs, "o") == 5, dstKind(cs, "m") == 5
	for _, n := range []string{"l", "e", "k", "t", "o", "o.z", "m", "m.q"} {
		if n == "o.z" && !oObj || n == "m.q" && !mObj {
			continue
		}
		what := "object"
		if n == "l" || n == "k" || n == "o.z" {
			what = "list"
		}
		switch dstKind(cs, n) {
		case 1, 3:
			under["destination-holds-primitive-where-source-holds-"+what] = true
		case 2, 7:
			under["destination-holds-reference-where-source-holds-"+what] = true
		case 4:
			under["destination-holds-nil-where-source-holds-"+what] = true
		case 5:
			if what == "list" {
				under["destination-holds-object-where-source-holds-list"] = true
			}
		case 6:
			if what == "object" {
				under["destination-holds-list-where-source-holds-object"] = true
			}
		}
	}
	if dstKind(cs, "o") == 5 && dstKind(cs, "o.z") == 6 {
		under["destination-list-holds-reference-at-the-index-of-a-source-object"] = true
	}
	for k := range under {
		r.Class(k)
	}
	if len(under) > 0 && (pol == 0 || pol == 2 || pol == 3 || pol == 5) {
		r.Class("type-change-under-a-merging-policy")
	}
}
