// Package c11 decides property C11: reads are pure, so concurrent readers are
// safe. The test binary is built with -race; a race report makes the worker
// exit at once (GORACE=halt_on_error=1, set by the driver) and the driver
// attributes it to the journaled case and confirms it alone.
package c11

import (
	"fmt"
	"reflect"
	"sort"
	"strings"
	"sync"
	"testing"

	ucfg "github.com/elastic/go-ucfg"
	"github.com/elastic/go-ucfg/diff"
	"github.com/elastic/go-ucfg/parse"
	"pgregory.net/rapid"

	"verif/harness/internal/canon"
	"verif/harness/internal/runlog"
)

type readOp struct {
	name string
	f    func(c *ucfg.Config, opts []ucfg.Option) string
}

type target struct {
	A interface{}   `config:"a"`
	B string        `config:"b"`
	O *ucfg.Config  `config:"o"`
	N *ucfg.Config  `config:"n"`
	L []interface{} `config:"l"`
}

// captured holds sub-configs captured from settings that may be references to objects
type captured struct {
	O *ucfg.Config            `config:"o"`
	R *ucfg.Config            `config:"r"`
	A *ucfg.Config            `config:"a"`
	E *ucfg.Config            `config:"e"`
	M map[string]*ucfg.Config `config:"m"`
}

func show(v interface{}, err error) string {
	if err != nil {
		return "error: " + err.Error()
	}
	return canon.Show(v)
}

var readOps = []readOp{
	{"unpack-map", func(c *ucfg.Config, o []ucfg.Option) string {
		var m map[string]interface{}
		err := c.Unpack(&m, o...)
		return show(m, err)
	}},
	{"unpack-struct", func(c *ucfg.Config, o []ucfg.Option) string {
		var st target
		err := c.Unpack(&st, o...)
		return fmt.Sprint(canon.Show(st.A), st.B, st.O != nil, st.N != nil, len(st.L), err)
	}},
	{"captured-config", func(c *ucfg.Config, o []ucfg.Option) string {
		// a *Config field captures a sub-config; reading through it is a read of the shared config as well
		var st target
		if err := c.Unpack(&st, o...); err != nil || st.O == nil {
			return fmt.Sprint(err)
		}
		var m map[string]interface{}
		err := st.O.Unpack(&m, o...)
		return show(m, err) + st.O.Path(".") + fmt.Sprint(st.O.Parent() != nil)
	}},
	{"unpack-twice-into-captured", func(c *ucfg.Config, o []ucfg.Option) string {
		// the same target unpacked twice, under a list policy: the second Unpack meets the configs the first one
		// captured (possibly the shared ones a reference leads to); the source must not change
		out := ""
		for _, pol := range []ucfg.Option{ucfg.AppendValues, ucfg.PrependValues, ucfg.ReplaceValues} {
			var st captured
			oo := append([]ucfg.Option{pol}, o...)
			err1 := c.Unpack(&st, oo...)
			err2 := c.Unpack(&st, oo...)
			n := -1
			if st.O != nil {
				n, _ = st.O.CountField("z")
			}
			out += fmt.Sprint(err1, err2, n, "|")
		}
		return out
	}},
	{"merge-source-next-to-dotted-keys", func(c *ucfg.Config, o []ucfg.Option) string {
		// the config (and children of it, one of them empty) embedded in an input whose other keys address
		// settings below them
		d := ucfg.New()
		in := map[string]interface{}{"w": c, "w.zz": 1, "w.o.added": true}
		if e, err := c.Child("e", -1, o...); err == nil {
			in["e"] = e
			in["e.add"] = true
		}
		if oc, err := c.Child("o", -1, o...); err == nil {
			in["q"] = map[string]interface{}{"o": oc}
			in["q.o.z.5"] = "x"
		}
		err := d.Merge(in, o...)
		_, err2 := ucfg.NewFrom(in, o...)
		return fmt.Sprint(err, err2, sorted(d.GetFields()))
	}},
	{"string", func(c *ucfg.Config, o []ucfg.Option) string {
		s, err := c.String("a", -1, o...)
		return fmt.Sprint(s, err)
	}},
	{"int", func(c *ucfg.Config, o []ucfg.Option) string {
		s, err := c.Int("b", -1, o...)
		return fmt.Sprint(s, err)
	}},
	{"uint-float-bool", func(c *ucfg.Config, o []ucfg.Option) string {
		u, e1 := c.Uint("r", -1, o...)
		f, e2 := c.Float("b", -1, o...)
		b, e3 := c.Bool("a", -1, o...)
		return fmt.Sprint(u, e1, f, e2, b, e3)
	}},
	{"child", func(c *ucfg.Config, o []ucfg.Option) string {
		ch, err := c.Child("o", -1, o...)
		if err != nil {
			return fmt.Sprint(err)
		}
		var m map[string]interface{}
		err = ch.Unpack(&m, o...)
		return fmt.Sprint(ch.Path("."), sorted(ch.GetFields()), show(m, err))
	}},
	{"child-of-reference", func(c *ucfg.Config, o []ucfg.Option) string {
		ch, err := c.Child("r", -1, o...)
		if err != nil {
			return fmt.Sprint(err)
		}
		var m map[string]interface{}
		err = ch.Unpack(&m, o...)
		return show(m, err)
	}},
	{"child-of-nil", func(c *ucfg.Config, o []ucfg.Option) string { _, err := c.Child("n", -1, o...); return fmt.Sprint(err) }},
	{"child-idx", func(c *ucfg.Config, o []ucfg.Option) string {
		ch, err := c.Child("l", 0, o...)
		if err != nil {
			return fmt.Sprint(err)
		}
		return fmt.Sprint(ch.Path("."), ch.IsDict(), ch.IsArray())
	}},
	{"has", func(c *ucfg.Config, o []ucfg.Option) string {
		ok, err := c.Has("o.x", -1, o...)
		return fmt.Sprint(ok, err)
	}},
	{"has-idx", func(c *ucfg.Config, o []ucfg.Option) string {
		ok, err := c.Has("l", 1, o...)
		return fmt.Sprint(ok, err)
	}},
	{"count-l", func(c *ucfg.Config, o []ucfg.Option) string {
		n, err := c.CountField("l", o...)
		return fmt.Sprint(n, err)
	}},
	{"count-a", func(c *ucfg.Config, o []ucfg.Option) string {
		n, err := c.CountField("a", o...)
		return fmt.Sprint(n, err)
	}},
	{"fields", func(c *ucfg.Config, o []ucfg.Option) string {
		f := c.GetFields()
		return fmt.Sprint(len(f), c.HasField("a"), c.IsDict(), c.IsArray())
	}},
	{"path", func(c *ucfg.Config, o []ucfg.Option) string {
		return c.Path(".") + "|" + c.PathOf("x", ".") + fmt.Sprint(c.Parent() == nil)
	}},
	{"flattened-keys", func(c *ucfg.Config, o []ucfg.Option) string { return fmt.Sprint(c.FlattenedKeys(o...)) }},
	{"diff", func(c *ucfg.Config, o []ucfg.Option) string {
		d := diff.CompareConfigs(c, c, o...)
		return fmt.Sprint(d.HasChanged())
	}},
	{"merge-source", func(c *ucfg.Config, o []ucfg.Option) string {
		d := ucfg.New()
		err := d.Merge(c, o...)
		err2 := d.Merge(map[string]interface{}{"w": c, "l": []interface{}{c}}, append([]ucfg.Option{ucfg.AppendValues}, o...)...)
		var m map[string]interface{}
		err3 := d.Unpack(&m, o...)
		// ... into a destination that has lists of its own, under the list policies (the options of the reader may
		// name fields)
		d3 := ucfg.MustNewFrom(map[string]interface{}{"k": []interface{}{"d0", "d1"}, "l": []interface{}{"dl"}, "m": map[string]interface{}{"q": map[string]interface{}{"l": []int{9}}}})
		err6 := d3.Merge(c, append([]ucfg.Option{ucfg.PrependValues}, o...)...)
		err7 := d3.Merge(c, append([]ucfg.Option{ucfg.AppendValues}, o...)...)
		var m3 map[string]interface{}
		err8 := d3.Unpack(&m3, o...)
		defer func() { _, _, _ = err6, err7, err8 }()
		// ... and with options that concern the destination only (provenance, policies)
		d2 := ucfg.New()
		err4 := d2.Merge(c, append([]ucfg.Option{ucfg.MetaData(ucfg.Meta{Source: "merge.yml"}), ucfg.PrependValues}, o...)...)
		err5 := d2.Merge(c, append([]ucfg.Option{ucfg.MetaData(ucfg.Meta{Source: "again.yml"}), ucfg.ReplaceValues}, o...)...)
		return fmt.Sprint(err, err2, show(m, err3), err4, err5, err6, err7, show(m3, err8))
	}},
	{"newfrom-source", func(c *ucfg.Config, o []ucfg.Option) string {
		d, err := ucfg.NewFrom(struct {
			C *ucfg.Config `config:"c"`
		}{c}, o...)
		if err != nil {
			return fmt.Sprint(err)
		}
		_, err2 := ucfg.NewFrom(c, append([]ucfg.Option{ucfg.MetaData(ucfg.Meta{Source: "new.yml"})}, o...)...)
		return fmt.Sprint(sorted(d.GetFields()), err2)
	}},
}

// GetFields enumerates a map; its order is not part of the result
func sorted(s []string) []string {
	out := append([]string(nil), s...)
	sort.Strings(out)
	return out
}

var leaves = []interface{}{"${b}", "x${b}", "${robj}", "${rlist}", "${rs}-${rs}", "${o}", "${l}", "${zz:d}", "${a}", 5, "s", nil, true, "${o.x}", "${l.0}", "${n}", "${robj.y}", "${env1}", "${b:+alt}", 1.5,
	// from firstNumeric on: texts that the integer, unsigned, float, bool, duration parsers read differently (base
	// prefixes, leading zeros, exponents, signs, blanks, underscores), the same through references / the resolver /
	// splices, and primitives of every stored kind (read by getters and typed targets of the other kinds)
	"0640", "0x1F", "${t.num}", "1e3", -3, " 7", "+5", "${rnum}", "-3", "0b101", uint64(1) << 63, "true", "1", "0${b}", "1.5", "2s", 2.0, "0o17",
	"1_000", false, "NaN", "9223372036854775808", "T", "", "-0", "0x1p4", "1.0", "007", "${t.li.0}", "a.*[", "1h", "0.5"}

const firstNumeric = 20

// Case: which leaf goes where, how many goroutines, how the goroutines are staggered.
type Case struct {
	Leaves  []int `json:"leaves"` // 7 indices into the leaf pool: a b r o.x o.y l.0 l.1
	G       int   `json:"g"`
	Rounds  int   `json:"rounds"`
	Stagger int   `json:"stagger"`
	// readers use different options: every reader is one (operation, option variant) pair; VOrder is the order in
	// which the variants are first used. One is a spelling of the number 1 used as the name of a struct field and
	// as getter name: how a name is parsed depends on the options of the read (EnableNumKeys, MaxIdx, EscapePath).
	VOrder []int  `json:"vorder,omitempty"`
	One    string `json:"one,omitempty"`
	// KOrder is the order in which the typed readers (one per kind: integer, unsigned, float, bool, string, duration,
	// regexp) first read the shared config. Leaves 7 and 8 (t.num, t.li.0) are drawn from the numeric half of the pool.
	KOrder []int `json:"korder,omitempty"`
	// the destination of the merge-then-write read: Dst[i] is the kind of value (dstKinds) the destination holds under
	// dstNames[i] before the config is merged into it, Pol the merge policy, In how the config is handed to Merge
	Dst []int `json:"dst,omitempty"`
	Pol int   `json:"pol,omitempty"`
	In  int   `json:"in,omitempty"`
}

// option variants on top of the options the config was built with
var variantNames = []string{"base", "EnableNumKeys", "MaxIdx(0)", "EscapePath", "FieldReplaceValues(l)", "FieldReplaceValues(l)+FieldAppendValues(k)"}

// Option values that are created once and shared by all readers (and by all cases of the process)
var (
	fieldOptA = ucfg.FieldReplaceValues("l")
	fieldOptB = ucfg.FieldAppendValues("k", "m.q.l")
)

func variant(base []ucfg.Option, v int) []ucfg.Option {
	o := append([]ucfg.Option(nil), base...)
	switch v {
	case 1:
		o = append(o, ucfg.EnableNumKeys(true))
	case 2:
		o = append(o, ucfg.MaxIdx(0))
	case 3:
		o = append(o, ucfg.EscapePath())
	case 4:
		o = append(o, fieldOptA)
	case 5:
		o = append(o, fieldOptA, fieldOptB)
	}
	return o
}

// namedFields reads the fixed list k: [k0, k1, k2] and the object o through struct fields whose names parse
// differently under the option variants, and through the getters with the same names and options: a struct field
// named N reads the setting the getters find under the name N.
func namedFields(one string) readOp {
	return readOp{"named-fields", func(c *ucfg.Config, o []ucfg.Option) string {
		var out []string
		kc, err := c.Child("k", -1, o...)
		if err != nil {
			return "Child(k): " + err.Error()
		}
		for _, tc := range []struct {
			cfg  *ucfg.Config
			name string
		}{{kc, one}, {kc, "2"}, {c, "k." + one}, {c, "[k." + one + "]"}, {c, "k.[" + one + "]"}, {c, "[k]"}} {
			typ := reflect.StructOf([]reflect.StructField{{Name: "V", Type: reflect.TypeOf(""), Tag: reflect.StructTag(fmt.Sprintf(`config:"%s"`, tc.name))}})
			to := reflect.New(typ)
			uerr := tc.cfg.Unpack(to.Interface(), o...)
			field := to.Elem().Field(0).String()
			if uerr != nil {
				field = "error"
			}
			gv, gerr := tc.cfg.String(tc.name, -1, o...)
			getter := gv
			if gerr != nil {
				getter = "error"
				if e, ok := gerr.(ucfg.Error); ok && e.Reason() == ucfg.ErrMissing {
					getter = "" // a missing setting leaves the field at its zero value
				}
			}
			if field != getter {
				out = append(out, fmt.Sprintf("MISMATCH: the struct field named %q holds %q (%v), the String getter with the same name and options yields %q (%v)", tc.name, field, uerr, getter, gerr))
			}
			out = append(out, tc.name+"="+field)
		}
		return strings.Join(out, "; ")
	}}
}

func genCase(t *rapid.T) Case {
	c := Case{G: rapid.IntRange(2, 8).Draw(t, "g"), Rounds: rapid.IntRange(1, 3).Draw(t, "rounds"), Stagger: rapid.IntRange(1, 7).Draw(t, "stagger")}
	for i := 0; i < 7; i++ {
		c.Leaves = append(c.Leaves, rapid.IntRange(0, len(leaves)-1).Draw(t, "leaf"))
	}
	c.VOrder = rapid.Permutation([]int{0, 1, 2, 3, 4, 5}).Draw(t, "vorder")
	c.One = rapid.SampledFrom([]string{"", "+"}).Draw(t, "sign") + rapid.SampledFrom([]string{"", "0", "0x", "0X", "0b", "0B", "0o", "0O"}).Draw(t, "base") +
		strings.Repeat("0", rapid.IntRange(0, 12).Draw(t, "zeros")) + "1"
	for i := 0; i < 2; i++ {
		c.Leaves = append(c.Leaves, rapid.IntRange(firstNumeric, len(leaves)-1).Draw(t, "numleaf"))
	}
	c.KOrder = rapid.Permutation([]int{0, 1, 2, 3, 4, 5, 6}).Draw(t, "korder")
	for _, n := range dstNames {
		hi := len(dstKinds) - 1
		if n == "o" || n == "m" || n == "o.z" || n == "m.q" {
			hi += 4 // see dstKind
		}
		c.Dst = append(c.Dst, rapid.IntRange(0, hi).Draw(t, "dst"))
	}
	c.Pol = rapid.IntRange(0, len(polNames)-1).Draw(t, "pol")
	c.In = rapid.IntRange(0, len(inNames)-1).Draw(t, "in")
	return c
}

func state(c *ucfg.Config) string { return ucfg.VerifFingerprint(c, true) + ucfg.VerifDeepHash(c) }

// mkOpts: the options a configuration is built and read with; the Env is a configuration of its own per call
func mkOpts() (*ucfg.Config, []ucfg.Option) {
	res := ucfg.Resolve(func(name string) (string, parse.Config, error) {
		switch name {
		case "robj":
			return "{x: 1, y: [1, 2]}", parse.DefaultConfig, nil
		case "rlist":
			return "p,q", parse.DefaultConfig, nil
		case "rs":
			return "sv", parse.DefaultConfig, nil
		case "rnum":
			return "0x10", parse.NoopConfig, nil
		}
		return "", parse.DefaultConfig, ucfg.ErrMissing
	})
	env := ucfg.MustNewFrom(map[string]interface{}{"env1": map[string]interface{}{"e": 1}})
	opts := []ucfg.Option{ucfg.PathSep("."), ucfg.VarExp, res, ucfg.Env(env)}
	return env, opts
}

// build constructs the configuration of a case (every call yields an identical, independent one), its Env and the
// options it was built with.
func build(cs Case) (*ucfg.Config, *ucfg.Config, []ucfg.Option, error) {
	leaf := func(i int) interface{} {
		if i >= len(cs.Leaves) {
			return "0640"
		}
		k := cs.Leaves[i] % len(leaves)
		if k < 0 {
			k = 0
		}
		return leaves[k]
	}
	env, opts := mkOpts()
	tree := map[string]interface{}{
		"a": leaf(0), "b": leaf(1), "r": leaf(2), "n": nil,
		"o": map[string]interface{}{"x": leaf(3), "y": leaf(4), "z": []interface{}{1, map[string]interface{}{"k": leaf(4)}}},
		"l": []interface{}{leaf(5), leaf(6)},
		"e": map[string]interface{}{},
		"m": map[string]interface{}{"p": "${o}", "q": map[string]interface{}{"l": []int{1, 2}}},
		"k": []interface{}{"k0", "k1", "k2", "k3", "k4", "k5"},
		"t": map[string]interface{}{"num": leaf(7), "ref": "${t.num}", "li": []interface{}{leaf(8), "${t.num}"}},
	}
	c, err := ucfg.NewFrom(tree, opts...)
	if err != nil {
		return nil, nil, nil, fmt.Errorf("NewFrom failed: %v", err)
	}
	// the list k had elements removed: its storage has room behind the last element
	for i := 0; i < 3; i++ {
		if _, err := c.Remove("k", 3, opts...); err != nil {
			return nil, nil, nil, fmt.Errorf("Remove failed: %v", err)
		}
	}
	return c, env, opts, nil
}

func runCase(cs Case, r *runlog.R) error {
	if len(cs.Leaves) < 7 {
		r.Discard()
		return nil
	}
	c, env, opts, err := build(cs)
	if err != nil {
		return err
	}
	dynamic := false
	for i := 0; i < 7; i++ {
		if s, ok := leaves[cs.Leaves[i]%len(leaves)].(string); ok && len(s) > 1 && (s[0] == '$' || s[1] == '$') {
			dynamic = true
		}
	}
	// deterministic half: every single read leaves every bit of state reachable from the config unchanged
	before := state(c)
	envBefore := state(env)
	one := cs.One
	if one == "" {
		one = "1"
	}
	ops := append(append([]readOp(nil), readOps...), namedFields(one))
	firstExtra := len(ops)
	// the typed readers, in the order of the case
	korder := cs.KOrder
	if len(korder) == 0 {
		korder = []int{0, 1, 2, 3, 4, 5, 6}
	}
	for _, k := range korder {
		if k >= 0 && k < len(typedOps) {
			ops = append(ops, typedOps[k])
		}
	}
	ops = append(ops, mergeThenWrite(cs, func() []ucfg.Option {
		_, wo := mkOpts()
		return wo
	}))
	mtw := len(ops) - 1
	vorder := cs.VOrder
	if len(vorder) == 0 {
		vorder = []int{0}
	}
	type reader struct {
		op    int
		v     int
		opts  []ucfg.Option
		alone string
	}
	var readers []reader
	for _, v := range vorder {
		vo := variant(opts, v)
		for i, op := range ops {
			switch {
			case v == 0:
			case i == 0 || i == 1 || i == firstExtra-1: // the two Unpack operations and the named fields: all variants
			case v >= 4 && i < len(readOps) && readOps[i].name == "merge-source", v == 5 && i == mtw: // field options: also as merge source
			default:
				continue
			}
			rd := reader{op: i, v: v, opts: vo}
			rd.alone = op.f(c, vo)
			if after := state(c); after != before {
				return fmt.Errorf("read %q (%s) modified the config:\n--- before\n%s\n--- after\n%s", op.name, variantNames[v], before, after)
			}
			if strings.Contains(rd.alone, "MISMATCH") {
				return fmt.Errorf("read %q with options %s (variants used before, in this order: %v): %s", op.name, variantNames[v], vorder, rd.alone)
			}
			// the result relation: what the reader obtains from the shared config, after all the readers before it,
			// is what it obtains running alone on a fresh identical configuration (the typed readers and the
			// merge-then-write always, of the others every eighth, rotating with the case)
			if i >= firstExtra || (i+len(readers)+cs.Stagger)%8 == 0 {
				fc, _, fo, err := build(cs)
				if err != nil {
					return err
				}
				if fresh := op.f(fc, variant(fo, v)); fresh != rd.alone {
					return fmt.Errorf("read %q (%s) depends on the reads before it: on the shared config it obtains\n%q\nalone on a fresh identical configuration\n%q", op.name, variantNames[v], rd.alone, fresh)
				}
			}
			readers = append(readers, rd)
		}
	}
	// once more, in the reverse order of variants: no read depends on which reads came before it
	for k := len(readers) - 1; k >= 0; k-- {
		rd := readers[k]
		if again := ops[rd.op].f(c, rd.opts); again != rd.alone {
			return fmt.Errorf("read %q (%s) is not repeatable: first %q then %q", ops[rd.op].name, variantNames[rd.v], rd.alone, again)
		}
	}
	if after := state(c); after != before {
		return fmt.Errorf("the reads, repeated in reverse order, modified the config:\n--- before\n%s\n--- after\n%s", before, after)
	}
	if after := state(env); after != envBefore {
		return fmt.Errorf("reads modified the Env config")
	}
	// concurrent half (the binary is built with -race)
	g := cs.G
	if g < 2 {
		g = 2
	}
	if g > 8 {
		g = 8
	}
	var wg sync.WaitGroup
	var mu sync.Mutex
	var diffs []string
	start := make(chan struct{})
	for k := 0; k < g; k++ {
		wg.Add(1)
		go func(k int) {
			defer wg.Done()
			<-start
			for round := 0; round < cs.Rounds; round++ {
				for i := range readers {
					rd := readers[(i+k*cs.Stagger)%len(readers)]
					if round > 0 && rd.op >= firstExtra {
						continue // the typed readers and the merge-then-write run one round
					}
					if got := ops[rd.op].f(c, rd.opts); got != rd.alone {
						mu.Lock()
						diffs = append(diffs, fmt.Sprintf("%s (%s): with other readers running %q, alone %q", ops[rd.op].name, variantNames[rd.v], got, rd.alone))
						mu.Unlock()
					}
				}
			}
		}(k)
	}
	close(start)
	wg.Wait()
	if len(diffs) > 0 {
		return fmt.Errorf("a concurrent reader obtained a different result: %s", diffs[0])
	}
	if after := state(c); after != before {
		return fmt.Errorf("concurrent reads modified the config")
	}
	r.NonTrivialIf(dynamic)
	r.Class(fmt.Sprintf("goroutines=%d", g))
	classes(cs, r)
	return nil
}

var subReads = runlog.Register(&runlog.Sub[Case]{
	Name:    "pure-reads",
	Rule:    "configs over settings a, b, r, n(nil), o{x,y,z}, l[2], t{num, ref -> t.num, li[leaf, -> t.num]} whose leaves are drawn from 52 values: references, splices, repeated uses, resolver values that parse into objects and lists, references to objects/lists/nil, Env-provided objects, defaults, stored primitives of every kind (int, negative int, uint64 above MaxInt64, float, integer-valued float, both bools, nil) and strings that the integer/unsigned/float/bool/duration/regexp parsers read differently (leading zeros, 0x/0b/0o prefixes, exponents, hex floats, signs, blanks, underscores, NaN, overflowing int64, empty, durations, an invalid regexp), also behind references, the resolver and splices (t.num and t.li.0 always come from this numeric half). 31 read operations: Unpack generic/typed/with captured *Config fields, all getters, Child incl. of references/nil/list elements, Has, CountField, GetFields, Path/PathOf/Parent, FlattenedKeys, CompareConfigs, use as Merge/NewFrom source; seven typed readers (integer, unsigned, float, bool, string, duration, regexp: the getter of the kind at 9 addresses plus Unpack into single-field targets of the kind and of a narrower type, slices included), first run in a per-case order of kinds, so that every stored kind and every numeric-looking string is read by readers of all other kinds before and after one another; and merge-then-write: the config (directly, below a map key, inside a list) is merged under one of six policies (default, replace, append, prepend, replace + FieldMergeValues, append + FieldReplaceValues/FieldPrependValues) into a destination that holds, per name of the source (a b r n l e k t o o.z m m.q), nothing / a string / an int / a ${reference} / nil / an object / a list / a reference to an object, and then ONLY THE DESTINATION is written to everywhere below the merged names (SetString/SetInt/SetBool by path and index incl. appended list elements, writes through Child handles, a second Merge of more data, Remove by name and index). Sequentially: the stored tree incl. addresses (hook fingerprint) and a reflective deep hash of everything reachable from the config are identical before and after every single read (so a merge source is unchanged after the destination was written to), each read is repeatable in reverse order, and the result relation is explicit: the typed readers and merge-then-write (and a rotating eighth of the others) must obtain on the shared config, after all readers before them, exactly what they obtain alone on a fresh identical configuration. Then 2-8 goroutines run all reads 1-3 times (typed readers and merge-then-write once) in staggered order under the race detector; each result must equal the result obtained alone. Classes: what the typed readers meet (stored kinds; strings by how the parsers agree), merge policy/input, which non-object kinds the destination holds where the source holds objects/lists. Non-trivial: the config holds at least one dynamic value (every goroutine evaluates it). Distinct: hash of the case.",
	Gen:     genCase,
	Run:     runCase,
	Journal: true,
})

func TestPureReads(t *testing.T) { subReads.Check(t, 1500, 130000) }

func TestReplay(t *testing.T) { runlog.ReplayMain(t) }
