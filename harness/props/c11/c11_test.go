// Package c11 decides property C11: reads are pure, so concurrent readers are
// safe. The test binary is built with -race; a race report makes the worker
// exit at once (GORACE=halt_on_error=1, set by the driver) and the driver
// attributes it to the journaled case and confirms it alone.
package c11

import (
	"fmt"
	"reflect"
	"sort"
	"strings"
	"sync"
	"testing"

	ucfg "github.com/elastic/go-ucfg"
	"github.com/elastic/go-ucfg/diff"
	"github.com/elastic/go-ucfg/parse"
	"pgregory.net/rapid"

	"verif/harness/internal/canon"
	"verif/harness/internal/runlog"
)

type readOp struct {
	name string
	f    func(c *ucfg.Config, opts []ucfg.Option) string
}

type target struct {
	A interface{}   `config:"a"`
	B string        `config:"b"`
	O *ucfg.Config  `config:"o"`
	N *ucfg.Config  `config:"n"`
	L []interface{} `config:"l"`
}

// captured holds sub-configs captured from settings that may be references to objects
type captured struct {
	O *ucfg.Config            `config:"o"`
	R *ucfg.Config            `config:"r"`
	A *ucfg.Config            `config:"a"`
	E *ucfg.Config            `config:"e"`
	M map[string]*ucfg.Config `config:"m"`
}

func show(v interface{}, err error) string {
	if err != nil {
		return "error: " + err.Error()
	}
	return canon.Show(v)
}

var readOps = []readOp{
	{"unpack-map", func(c *ucfg.Config, o []ucfg.Option) string {
		var m map[string]interface{}
		err := c.Unpack(&m, o...)
		return show(m, err)
	}},
	{"unpack-struct", func(c *ucfg.Config, o []ucfg.Option) string {
		var st target
		err := c.Unpack(&st, o...)
		return fmt.Sprint(canon.Show(st.A), st.B, st.O != nil, st.N != nil, len(st.L), err)
	}},
	{"captured-config", func(c *ucfg.Config, o []ucfg.Option) string {
		// a *Config field captures a sub-config; reading through it is a read of the shared config as well
		var st target
		if err := c.Unpack(&st, o...); err != nil || st.O == nil {
			return fmt.Sprint(err)
		}
		var m map[string]interface{}
		err := st.O.Unpack(&m, o...)
		return show(m, err) + st.O.Path(".") + fmt.Sprint(st.O.Parent() != nil)
	}},
	{"unpack-twice-into-captured", func(c *ucfg.Config, o []ucfg.Option) string {
		// the same target unpacked twice, under a list policy: the second Unpack meets the configs the first one
		// captured (possibly the shared ones a reference leads to); the source must not change
		out := ""
		for _, pol := range []ucfg.Option{ucfg.AppendValues, ucfg.PrependValues, ucfg.ReplaceValues} {
			var st captured
			oo := append([]ucfg.Option{pol}, o...)
			err1 := c.Unpack(&st, oo...)
			err2 := c.Unpack(&st, oo...)
			n := -1
			if st.O != nil {
				n, _ = st.O.CountField("z")
			}
			out += fmt.Sprint(err1, err2, n, "|")
		}
		return out
	}},
	{"merge-source-next-to-dotted-keys", func(c *ucfg.Config, o []ucfg.Option) string {
		// the config (and children of it, one of them empty) embedded in an input whose other keys address
		// settings below them
		d := ucfg.New()
		in := map[string]interface{}{"w": c, "w.zz": 1, "w.o.added": true}
		if e, err := c.Child("e", -1, o...); err == nil {
			in["e"] = e
			in["e.add"] = true
		}
		if oc, err := c.Child("o", -1, o...); err == nil {
			in["q"] = map[string]interface{}{"o": oc}
			in["q.o.z.5"] = "x"
		}
		err := d.Merge(in, o...)
		_, err2 := ucfg.NewFrom(in, o...)
		return fmt.Sprint(err, err2, sorted(d.GetFields()))
	}},
	{"string", func(c *ucfg.Config, o []ucfg.Option) string { s, err := c.String("a", -1, o...); return fmt.Sprint(s, err) }},
	{"int", func(c *ucfg.Config, o []ucfg.Option) string { s, err := c.Int("b", -1, o...); return fmt.Sprint(s, err) }},
	{"uint-float-bool", func(c *ucfg.Config, o []ucfg.Option) string {
		u, e1 := c.Uint("r", -1, o...)
		f, e2 := c.Float("b", -1, o...)
		b, e3 := c.Bool("a", -1, o...)
		return fmt.Sprint(u, e1, f, e2, b, e3)
	}},
	{"child", func(c *ucfg.Config, o []ucfg.Option) string {
		ch, err := c.Child("o", -1, o...)
		if err != nil {
			return fmt.Sprint(err)
		}
		var m map[string]interface{}
		err = ch.Unpack(&m, o...)
		return fmt.Sprint(ch.Path("."), sorted(ch.GetFields()), show(m, err))
	}},
	{"child-of-reference", func(c *ucfg.Config, o []ucfg.Option) string {
		ch, err := c.Child("r", -1, o...)
		if err != nil {
			return fmt.Sprint(err)
		}
		var m map[string]interface{}
		err = ch.Unpack(&m, o...)
		return show(m, err)
	}},
	{"child-of-nil", func(c *ucfg.Config, o []ucfg.Option) string { _, err := c.Child("n", -1, o...); return fmt.Sprint(err) }},
	{"child-idx", func(c *ucfg.Config, o []ucfg.Option) string {
		ch, err := c.Child("l", 0, o...)
		if err != nil {
			return fmt.Sprint(err)
		}
		return fmt.Sprint(ch.Path("."), ch.IsDict(), ch.IsArray())
	}},
	{"has", func(c *ucfg.Config, o []ucfg.Option) string { ok, err := c.Has("o.x", -1, o...); return fmt.Sprint(ok, err) }},
	{"has-idx", func(c *ucfg.Config, o []ucfg.Option) string { ok, err := c.Has("l", 1, o...); return fmt.Sprint(ok, err) }},
	{"count-l", func(c *ucfg.Config, o []ucfg.Option) string { n, err := c.CountField("l", o...); return fmt.Sprint(n, err) }},
	{"count-a", func(c *ucfg.Config, o []ucfg.Option) string { n, err := c.CountField("a", o...); return fmt.Sprint(n, err) }},
	{"fields", func(c *ucfg.Config, o []ucfg.Option) string {
		f := c.GetFields()
		return fmt.Sprint(len(f), c.HasField("a"), c.IsDict(), c.IsArray())
	}},
	{"path", func(c *ucfg.Config, o []ucfg.Option) string {
		return c.Path(".") + "|" + c.PathOf("x", ".") + fmt.Sprint(c.Parent() == nil)
	}},
	{"flattened-keys", func(c *ucfg.Config, o []ucfg.Option) string { return fmt.Sprint(c.FlattenedKeys(o...)) }},
	{"diff", func(c *ucfg.Config, o []ucfg.Option) string {
		d := diff.CompareConfigs(c, c, o...)
		return fmt.Sprint(d.HasChanged())
	}},
	{"merge-source", func(c *ucfg.Config, o []ucfg.Option) string {
		d := ucfg.New()
		err := d.Merge(c, o...)
		err2 := d.Merge(map[string]interface{}{"w": c, "l": []interface{}{c}}, append([]ucfg.Option{ucfg.AppendValues}, o...)...)
		var m map[string]interface{}
		err3 := d.Unpack(&m, o...)
		// ... into a destination that has lists of its own, under the list policies (the options of the reader may
		// name fields)
		d3 := ucfg.MustNewFrom(map[string]interface{}{"k": []interface{}{"d0", "d1"}, "l": []interface{}{"dl"}, "m": map[string]interface{}{"q": map[string]interface{}{"l": []int{9}}}})
		err6 := d3.Merge(c, append([]ucfg.Option{ucfg.PrependValues}, o...)...)
		err7 := d3.Merge(c, append([]ucfg.Option{ucfg.AppendValues}, o...)...)
		var m3 map[string]interface{}
		err8 := d3.Unpack(&m3, o...)
		defer func() { _, _, _ = err6, err7, err8 }()
		// ... and with options that concern the destination only (provenance, policies)
		d2 := ucfg.New()
		err4 := d2.Merge(c, append([]ucfg.Option{ucfg.MetaData(ucfg.Meta{Source: "merge.yml"}), ucfg.PrependValues}, o...)...)
		err5 := d2.Merge(c, append([]ucfg.Option{ucfg.MetaData(ucfg.Meta{Source: "again.yml"}), ucfg.ReplaceValues}, o...)...)
		return fmt.Sprint(err, err2, show(m, err3), err4, err5, err6, err7, show(m3, err8))
	}},
	{"newfrom-source", func(c *ucfg.Config, o []ucfg.Option) string {
		d, err := ucfg.NewFrom(struct {
			C *ucfg.Config `config:"c"`
		}{c}, o...)
		if err != nil {
			return fmt.Sprint(err)
		}
		_, err2 := ucfg.NewFrom(c, append([]ucfg.Option{ucfg.MetaData(ucfg.Meta{Source: "new.yml"})}, o...)...)
		return fmt.Sprint(sorted(d.GetFields()), err2)
	}},
}

// GetFields enumerates a map; its order is not part of the result
func sorted(s []string) []string {
	out := append([]string(nil), s...)
	sort.Strings(out)
	return out
}

var leaves = []interface{}{"${b}", "x${b}", "${robj}", "${rlist}", "${rs}-${rs}", "${o}", "${l}", "${zz:d}", "${a}", 5, "s", nil, true, "${o.x}", "${l.0}", "${n}", "${robj.y}", "${env1}", "${b:+alt}", 1.5}

// Case: which leaf goes where, how many goroutines, how the goroutines are staggered.
type Case struct {
	Leaves  []int `json:"leaves"` // 7 indices into the leaf pool: a b r o.x o.y l.0 l.1
	G       int   `json:"g"`
	Rounds  int   `json:"rounds"`
	Stagger int   `json:"stagger"`
	// readers use different options: every reader is one (operation, option variant) pair; VOrder is the order in
	// which the variants are first used. One is a spelling of the number 1 used as the name of a struct field and
	// as getter name: how a name is parsed depends on the options of the read (EnableNumKeys, MaxIdx, EscapePath).
	VOrder []int  `json:"vorder,omitempty"`
	One    string `json:"one,omitempty"`
}

// option variants on top of the options the config was built with
var variantNames = []string{"base", "EnableNumKeys", "MaxIdx(0)", "EscapePath", "FieldReplaceValues(l)", "FieldReplaceValues(l)+FieldAppendValues(k)"}

// Option values that are created once and shared by all readers (and by all cases of the process)
var (
	fieldOptA = ucfg.FieldReplaceValues("l")
	fieldOptB = ucfg.FieldAppendValues("k", "m.q.l")
)

func variant(base []ucfg.Option, v int) []ucfg.Option {
	o := append([]ucfg.Option(nil), base...)
	switch v {
	case 1:
		o = append(o, ucfg.EnableNumKeys(true))
	case 2:
		o = append(o, ucfg.MaxIdx(0))
	case 3:
		o = append(o, ucfg.EscapePath())
	case 4:
		o = append(o, fieldOptA)
	case 5:
		o = append(o, fieldOptA, fieldOptB)
	}
	return o
}

// namedFields reads the fixed list k: [k0, k1, k2] and the object o through struct fields whose names parse
// differently under the option variants, and through the getters with the same names and options: a struct field
// named N reads the setting the getters find under the name N.
func namedFields(one string) readOp {
	return readOp{"named-fields", func(c *ucfg.Config, o []ucfg.Option) string {
		var out []string
		kc, err := c.Child("k", -1, o...)
		if err != nil {
			return "Child(k): " + err.Error()
		}
		for _, tc := range []struct {
			cfg  *ucfg.Config
			name string
		}{{kc, one}, {kc, "2"}, {c, "k." + one}, {c, "[k." + one + "]"}, {c, "k.[" + one + "]"}, {c, "[k]"}} {
			typ := reflect.StructOf([]reflect.StructField{{Name: "V", Type: reflect.TypeOf(""), Tag: reflect.StructTag(fmt.Sprintf(`config:"%s"`, tc.name))}})
			to := reflect.New(typ)
			uerr := tc.cfg.Unpack(to.Interface(), o...)
			field := to.Elem().Field(0).String()
			if uerr != nil {
				field = "error"
			}
			gv, gerr := tc.cfg.String(tc.name, -1, o...)
			getter := gv
			if gerr != nil {
				getter = "error"
				if e, ok := gerr.(ucfg.Error); ok && e.Reason() == ucfg.ErrMissing {
					getter = "" // a missing setting leaves the field at its zero value
				}
			}
			if field != getter {
				out = append(out, fmt.Sprintf("MISMATCH: the struct field named %q holds %q (%v), the String getter with the same name and options yields %q (%v)", tc.name, field, uerr, getter, gerr))
			}
			out = append(out, tc.name+"="+field)
		}
		return strings.Join(out, "; ")
	}}
}

func genCase(t *rapid.T) Case {
	c := Case{G: rapid.IntRange(2, 8).Draw(t, "g"), Rounds: rapid.IntRange(1, 3).Draw(t, "rounds"), Stagger: rapid.IntRange(1, 7).Draw(t, "stagger")}
	for i := 0; i < 7; i++ {
		c.Leaves = append(c.Leaves, rapid.IntRange(0, len(leaves)-1).Draw(t, "leaf"))
	}
	c.VOrder = rapid.Permutation([]int{0, 1, 2, 3, 4, 5}).Draw(t, "vorder")
	c.One = rapid.SampledFrom([]string{"", "+"}).Draw(t, "sign") + rapid.SampledFrom([]string{"", "0", "0x", "0X", "0b", "0B", "0o", "0O"}).Draw(t, "base") +
		strings.Repeat("0", rapid.IntRange(0, 12).Draw(t, "zeros")) + "1"
	return c
}

func state(c *ucfg.Config) string { return ucfg.VerifFingerprint(c, true) + ucfg.VerifDeepHash(c) }

func runCase(cs Case, r *runlog.R) error {
	if len(cs.Leaves) < 7 {
		r.Discard()
		return nil
	}
	leaf := func(i int) interface{} { return leaves[cs.Leaves[i]%len(leaves)] }
	res := ucfg.Resolve(func(name string) (string, parse.Config, error) {
		switch name {
		case "robj":
			return "{x: 1, y: [1, 2]}", parse.DefaultConfig, nil
		case "rlist":
			return "p,q", parse.DefaultConfig, nil
		case "rs":
			return "sv", parse.DefaultConfig, nil
		}
		return "", parse.DefaultConfig, ucfg.ErrMissing
	})
	env := ucfg.MustNewFrom(map[string]interface{}{"env1": map[string]interface{}{"e": 1}})
	opts := []ucfg.Option{ucfg.PathSep("."), ucfg.VarExp, res, ucfg.Env(env)}
	tree := map[string]interface{}{
		"a": leaf(0), "b": leaf(1), "r": leaf(2), "n": nil,
		"o": map[string]interface{}{"x": leaf(3), "y": leaf(4), "z": []interface{}{1, map[string]interface{}{"k": leaf(4)}}},
		"l": []interface{}{leaf(5), leaf(6)},
		"e": map[string]interface{}{},
		"m": map[string]interface{}{"p": "${o}", "q": map[string]interface{}{"l": []int{1, 2}}},
		"k": []interface{}{"k0", "k1", "k2", "k3", "k4", "k5"},
	}
	c, err := ucfg.NewFrom(tree, opts...)
	if err != nil {
		return fmt.Errorf("NewFrom failed: %v", err)
	}
	// the list k had elements removed: its storage has room behind the last element
	for i := 0; i < 3; i++ {
		if _, err := c.Remove("k", 3, opts...); err != nil {
			return fmt.Errorf("Remove failed: %v", err)
		}
	}
	dynamic := false
	for i := 0; i < 7; i++ {
		if s, ok := leaf(i).(string); ok && len(s) > 1 && (s[0] == '$' || s[1] == '$') {
			dynamic = true
		}
	}
	// deterministic half: every single read leaves every bit of state reachable from the config unchanged
	before := state(c)
	envBefore := state(env)
	one := cs.One
	if one == "" {
		one = "1"
	}
	ops := append(append([]readOp(nil), readOps...), namedFields(one))
	vorder := cs.VOrder
	if len(vorder) == 0 {
		vorder = []int{0}
	}
	type reader struct {
		op    int
		v     int
		opts  []ucfg.Option
		alone string
	}
	var readers []reader
	for _, v := range vorder {
		vo := variant(opts, v)
		for i, op := range ops {
			if v != 0 && i != 0 && i != 1 && i < len(readOps) && !(v >= 4 && readOps[i].name == "merge-source") {
				continue // the other variants run the two Unpack operations and the named fields (the variants with
				// field options also the use as merge source)
			}
			rd := reader{op: i, v: v, opts: vo}
			rd.alone = op.f(c, vo)
			if after := state(c); after != before {
				return fmt.Errorf("read %q (%s) modified the config:\n--- before\n%s\n--- after\n%s", op.name, variantNames[v], before, after)
			}
			if strings.Contains(rd.alone, "MISMATCH") {
				return fmt.Errorf("read %q with options %s (variants used before, in this order: %v): %s", op.name, variantNames[v], vorder, rd.alone)
			}
			readers = append(readers, rd)
		}
	}
	// once more, in the reverse order of variants: no read depends on which reads came before it
	for k := len(readers) - 1; k >= 0; k-- {
		rd := readers[k]
		if again := ops[rd.op].f(c, rd.opts); again != rd.alone {
			return fmt.Errorf("read %q (%s) is not repeatable: first %q then %q", ops[rd.op].name, variantNames[rd.v], rd.alone, again)
		}
	}
	if after := state(env); after != envBefore {
		return fmt.Errorf("reads modified the Env config")
	}
	// concurrent half (the binary is built with -race)
	g := cs.G
	if g < 2 {
		g = 2
	}
	if g > 8 {
		g = 8
	}
	var wg sync.WaitGroup
	var mu sync.Mutex
	var diffs []string
	start := make(chan struct{})
	for k := 0; k < g; k++ {
		wg.Add(1)
		go func(k int) {
			defer wg.Done()
			<-start
			for round := 0; round < cs.Rounds; round++ {
				for i := range readers {
					rd := readers[(i+k*cs.Stagger)%len(readers)]
					if got := ops[rd.op].f(c, rd.opts); got != rd.alone {
						mu.Lock()
						diffs = append(diffs, fmt.Sprintf("%s (%s): with other readers running %q, alone %q", ops[rd.op].name, variantNames[rd.v], got, rd.alone))
						mu.Unlock()
					}
				}
			}
		}(k)
	}
	close(start)
	wg.Wait()
	if len(diffs) > 0 {
		return fmt.Errorf("a concurrent reader obtained a different result: %s", diffs[0])
	}
	if after := state(c); after != before {
		return fmt.Errorf("concurrent reads modified the config")
	}
	r.NonTrivialIf(dynamic)
	r.Class(fmt.Sprintf("goroutines=%d", g))
	return nil
}

var subReads = runlog.Register(&runlog.Sub[Case]{
	Name:    "pure-reads",
	Rule:    "configs over settings a, b, r, n(nil), o{x,y}, l[2] whose leaves are drawn from 20 values (references, splices, repeated uses, resolver values that parse into objects and lists, references to objects/lists/nil, Env-provided objects, defaults, plain primitives); 22 read operations (Unpack generic/typed/with captured *Config fields, all getters, Child incl. of references/nil/list elements, Has, CountField, GetFields, Path/PathOf/Parent, FlattenedKeys, CompareConfigs, use as Merge/NewFrom source). Sequentially: the stored tree incl. addresses (hook fingerprint) and a reflective deep hash of everything reachable are identical before and after every single read, and each read is repeatable. Then 2-8 goroutines run all reads 1-3 times in staggered order under the race detector; each result must equal the result obtained alone. Non-trivial: the config holds at least one dynamic value (every goroutine evaluates it). Distinct: hash of the case.",
	Gen:     genCase,
	Run:     runCase,
	Journal: true,
})

func TestPureReads(t *testing.T) { subReads.Check(t, 3000, 200000) }

func TestReplay(t *testing.T) { runlog.ReplayMain(t) }
