package c18

// Sub-check "faults": the clause "the *WithFile loaders behave like their
// in-memory counterparts while attaching the file name so that errors about a
// setting mention the file it was read from", for every kind of error Unpack
// can raise about a setting and every position the setting can have.
//
// The oracle is differential and needs no model of the conversions: the same
// bytes are loaded from memory and from a file, both configs are unpacked into
// the same target, and the two results must be equal up to the source
// annotation, which must be present (and name this file only) on the file
// side and absent on the memory side.

import (
	"errors"
	"fmt"
	"os"
	"reflect"
	"regexp"
	"strconv"
	"strings"
	"testing"
	"time"

	ucfg "github.com/elastic/go-ucfg"
	"pgregory.net/rapid"

	"verif/harness/internal/canon"
	"verif/harness/internal/gen"
	"verif/harness/internal/runlog"
	"verif/harness/internal/uc"
)

// FCase is one settings tree, the way it is spelled and loaded, and one fault.
type FCase struct {
	Doc     *gen.Tree `json:"doc"`               // logical settings (top-level object or list); R&1 on a non-empty container: its entries are spelled joined with the enclosing key ("a.b", "a.0") when PathSep is on
	Style   int       `json:"style,omitempty"`   // as in Case
	Opts    int       `json:"opts,omitempty"`    // bit 0 PathSep("."), bit 1 VarExp (forced for reference faults)
	Kind    int       `json:"kind,omitempty"`    // fault kind, see fault* constants
	Pos     int       `json:"pos,omitempty"`     // selects the setting among the eligible ones
	Leaf    int       `json:"leaf,omitempty"`    // target type of the setting
	Var     int       `json:"var,omitempty"`     // validator / reference form / array length / extra field
	Wrap    int       `json:"wrap,omitempty"`    // bit i: step i of the path is typed as map / array instead of struct field / slice
	Generic bool      `json:"generic,omitempty"` // unpack the whole document into map[string]interface{} / []interface{} instead of the typed path
}

const (
	faultConv      = iota // the setting is unpacked into a field of some other type
	faultValidate         // the setting is unpacked into a field of its own type with a validate tag
	faultRequired         // the object at the position lacks a required setting
	faultArrSize          // the list at the position is unpacked into an array of another length
	faultRef              // the setting is replaced by a reference (missing, cyclic, failing, of another type); needs VarExp
	faultGetter           // the setting is read with a typed getter of another type (Bool, Int, Uint, Float, String, Child, CountField)
	faultRefGetter        // faultRef, read with a typed getter
	nFaultKinds
)

var faultKindNames = [...]string{"conversion", "validator", "required setting missing", "array size", "reference", "typed getter", "reference read with a typed getter"}

var getterNames = [...]string{"Bool", "Int", "Uint", "Float", "String", "Child", "CountField"}

// getter reads the setting name/idx with getter g and renders the value.
func getter(c *ucfg.Config, g int, name string, idx int, opts []ucfg.Option) (string, error) {
	switch g {
	case 0:
		v, err := c.Bool(name, idx, opts...)
		return fmt.Sprint(v), err
	case 1:
		v, err := c.Int(name, idx, opts...)
		return fmt.Sprint(v), err
	case 2:
		v, err := c.Uint(name, idx, opts...)
		return fmt.Sprint(v), err
	case 3:
		v, err := c.Float(name, idx, opts...)
		return fmt.Sprint(v), err
	case 4:
		v, err := c.String(name, idx, opts...)
		return v, err
	case 5:
		v, err := c.Child(name, idx, opts...)
		if err != nil || v == nil {
			return "", err
		}
		d, err := uc.Dump(v, opts...)
		return canon.Show(d), err
	}
	// CountField takes no index: with one, the enclosing list is counted
	v, err := c.CountField(name, opts...)
	return fmt.Sprint(v), err
}

type leafSpec struct {
	name string
	t    reflect.Type
}

var leafSpecs = []leafSpec{
	{"int", reflect.TypeOf(int(0))},
	{"string", tString},
	{"bool", tBool},
	{"uint", reflect.TypeOf(uint(0))},
	{"int8", reflect.TypeOf(int8(0))},
	{"float64", tFloat64},
	{"Duration", reflect.TypeOf(time.Duration(0))},
	{"*Regexp", reflect.TypeOf((*regexp.Regexp)(nil))},
	{"[]int", reflect.TypeOf([]int(nil))},
	{"[2]int", reflect.TypeOf([2]int{})},
	{"map[string]int", reflect.TypeOf(map[string]int(nil))},
	{"struct", reflect.TypeOf(struct {
		X int `config:"x"`
	}{})},
	{"interface{}", tIface},
	{"[]interface{}", reflect.TypeOf([]interface{}(nil))},
	{"map[string]interface{}", reflect.TypeOf(map[string]interface{}(nil))},
	{"*int", reflect.TypeOf((*int)(nil))},
	{"uint8", reflect.TypeOf(uint8(0))},
	{"[]string", reflect.TypeOf([]string(nil))},
	{"map[int]int", reflect.TypeOf(map[int]int(nil))},
	{"chan int", reflect.TypeOf((chan int)(nil))},
	{"Unpacker that rejects", reflect.TypeOf(rejectAny{})},
	{"StringUnpacker that rejects", reflect.TypeOf(rejectString{})},
	{"ConfigUnpacker that rejects", reflect.TypeOf(rejectConfig{})},
	{"struct whose Validate fails", reflect.TypeOf(invalidStruct{})},
	{"string type whose Validate fails", reflect.TypeOf(invalidString(""))},
	{"*struct whose Validate fails", reflect.TypeOf((*invalidStruct)(nil))},
}

// application types that reject every setting
var errRejected = errors.New("rejected by the application")

type rejectAny struct{ seen bool }

func (r *rejectAny) Unpack(interface{}) error { return errRejected }

type rejectString struct{ seen bool }

func (r *rejectString) Unpack(string) error { return errRejected }

type rejectConfig struct{ seen bool }

func (r *rejectConfig) Unpack(*ucfg.Config) error { return errRejected }

type invalidStruct struct {
	X interface{} `config:"x"`
}

func (invalidStruct) Validate() error { return errRejected }

type invalidString string

func (invalidString) Validate() error { return errRejected }

var validateTags = []string{"required", "nonzero", "positive", "min=1000000", "max=-1000000", "min=1", "max=0", "nonzero,positive", "required,min=7"}

var requiredLeaf = []leafSpec{
	{"string", tString},
	{"int", reflect.TypeOf(int(0))},
	{"[]int", reflect.TypeOf([]int(nil))},
	{"map[string]int", reflect.TypeOf(map[string]int(nil))},
	{"*int", reflect.TypeOf((*int)(nil))},
	{"Duration", reflect.TypeOf(time.Duration(0))},
	{"interface{}", tIface},
	{"*Regexp", reflect.TypeOf((*regexp.Regexp)(nil))},
}

const (
	refMissing = iota
	refSelf
	refSelfSpliced
	refLoop    // -> helper setting that refers to itself
	refBack    // -> helper setting that refers back (cycle of two)
	refFailMsg // ${missing:?msg}
	refOther   // -> helper string setting (a conversion fault behind a reference for non-string targets)
	refDefault // ${missing:dflt}: no fault
	refChain   // -> helper -> missing
	nRefForms
)

var refFormNames = [...]string{"missing", "self", "self spliced into text", "to a self-referencing setting", "cycle of two", "${x:?msg}", "to a string setting", "${x:default}", "chain to missing"}

const (
	helperLoop  = "zloop"
	helperBack  = "zback"
	helperStr   = "zstr"
	helperChain = "zchain"
	absentKey   = "zabsent"
)

// ---------------------------------------------------------------------------
// positions in the logical tree

type fpos struct {
	path    []step
	node    *gen.Tree
	lens    []int // for list steps: the length of the list the step indexes
	created bool  // the node is not in the input: the library creates it while splitting a dotted key
	inner   bool  // created, and the enclosing node is created too (a key of three or more segments)
	joined  bool  // the setting's own key is a dotted one
}

// spelledJoined reports whether the entries of container n are written joined
// with the key that leads to n. parentJoins: n's key is a (part of a) key of a
// physical object, i.e. n's parent is an object or a joined list.
func spelledJoined(n *gen.Tree, pathSep, parentJoins bool) bool {
	return pathSep && parentJoins && n.IsCont() && len(n.Vals) > 0 && n.R&1 == 1
}

func positions(doc *gen.Tree, pathSep bool) []fpos {
	var out []fpos
	var walk func(n *gen.Tree, path []step, lens []int, parentJoins, parentCreated, keyJoined bool)
	walk = func(n *gen.Tree, path []step, lens []int, parentJoins, parentCreated, keyJoined bool) {
		j := len(path) > 0 && spelledJoined(n, pathSep, parentJoins)
		out = append(out, fpos{path: append([]step(nil), path...), node: n, lens: append([]int(nil), lens...), created: j, inner: j && parentCreated, joined: keyJoined})
		for i, v := range n.Vals {
			switch n.K {
			case "obj":
				walk(v, append(path, step{key: n.Keys[i], idx: -1}), append(lens, 0), true, j, j)
			case "list":
				walk(v, append(path, step{idx: i}), append(lens, len(n.Vals)), j, j, j)
			}
		}
	}
	walk(doc, nil, nil, false, false, false)
	return out
}

// spell writes the logical tree the way the case spells it.
func spell(n *gen.Tree, pathSep bool) *gen.Tree {
	switch n.K {
	case "obj":
		out := gen.Obj()
		for i, k := range n.Keys {
			emit(out, k, n.Vals[i], pathSep)
		}
		return out
	case "list":
		out := gen.List()
		for _, v := range n.Vals {
			out.Vals = append(out.Vals, spell(v, pathSep))
		}
		return out
	}
	c := n.Clone()
	c.R = 0
	return c
}

func emit(out *gen.Tree, key string, child *gen.Tree, pathSep bool) {
	if !spelledJoined(child, pathSep, true) {
		out.Put(key, spell(child, pathSep))
		return
	}
	for i, v := range child.Vals {
		seg := strconv.Itoa(i)
		if child.K == "obj" {
			seg = child.Keys[i]
		}
		emit(out, key+"."+seg, v, pathSep)
	}
}

func refPath(path []step) string {
	parts := make([]string, len(path))
	for i, s := range path {
		if s.idx >= 0 {
			parts[i] = strconv.Itoa(s.idx)
		} else {
			parts[i] = s.key
		}
	}
	return strings.Join(parts, ".")
}

func nodeAt(doc *gen.Tree, path []step) (parent *gen.Tree, slot int) {
	n := doc
	for i, s := range path {
		slot = s.idx
		if s.idx < 0 {
			for j, k := range n.Keys {
				if k == s.key {
					slot = j
				}
			}
		}
		if i == len(path)-1 {
			return n, slot
		}
		n = n.Vals[slot]
	}
	return nil, 0
}

// ---------------------------------------------------------------------------
// the target type

func field(name string, t reflect.Type, key, validate string) reflect.StructField {
	tag := "config:" + strconv.Quote(key)
	if validate != "" {
		tag += " validate:" + strconv.Quote(validate)
	}
	return reflect.StructField{Name: name, Type: t, Tag: reflect.StructTag(tag)}
}

// wrapType types the path down to the position: an object step is a struct
// with the single field on the path (or a map, wrap bit set), a list step a
// slice (or an array of the list's length). The validate tag goes onto the
// innermost object step, which is then always a struct field.
func wrapType(p fpos, t reflect.Type, validate string, wrap int) (reflect.Type, []string) {
	var shape []string
	tagged := validate == ""
	for i := len(p.path) - 1; i >= 0; i-- {
		alt := wrap>>uint(i)&1 == 1
		if s := p.path[i]; s.idx >= 0 {
			if alt {
				t = reflect.ArrayOf(p.lens[i], t)
				shape = append(shape, "array")
			} else {
				t = reflect.SliceOf(t)
				shape = append(shape, "slice")
			}
		} else if alt && tagged {
			t = reflect.MapOf(tString, t)
			shape = append(shape, "map")
		} else {
			v := ""
			if !tagged {
				v, tagged = validate, true
			}
			t = reflect.StructOf([]reflect.StructField{field("F", t, s.key, v)})
			shape = append(shape, "struct")
		}
	}
	return t, shape
}

// ---------------------------------------------------------------------------
// the oracle

func errText(err error) string {
	if err == nil {
		return "<nil>"
	}
	if e, ok := err.(ucfg.Error); ok {
		return e.Message()
	}
	return err.Error()
}

func sourceNote(file string) string { return " (source:'" + file + "')" }

// checkSourced compares what a config loaded from memory and one loaded from
// file report for the same operation. must decides from the memory-side message
// whether the error has to name the file.
func checkSourced(what, file string, em, ef error, must func(msg string) bool) error {
	for _, e := range []error{em, ef} {
		if isPanic(e) {
			return e
		}
	}
	if (em == nil) != (ef == nil) {
		return fmt.Errorf("%s: in-memory config gives %q, config from file %q", what, errText(em), errText(ef))
	}
	if em == nil {
		return nil
	}
	tm, tf := errText(em), errText(ef)
	if strings.Contains(tm, "(source:'") {
		return fmt.Errorf("%s: the error of the config loaded from memory names a source: %s", what, firstLine(tm))
	}
	n := strings.Count(tf, "(source:'")
	if n != strings.Count(tf, sourceNote(file)[1:]) {
		return fmt.Errorf("%s: the error of the config loaded from %s names another source: %s", what, file, firstLine(tf))
	}
	if demanded := must != nil && must(tm); demanded && n == 0 {
		return fmt.Errorf("%s: the error of the config loaded from file does not mention the file:\n got  %s\n want it to contain %s", what, firstLine(tf), sourceNote(file)[1:])
	}
	if stripped := strings.ReplaceAll(tf, sourceNote(file), ""); stripped != tm {
		return fmt.Errorf("%s: file and in-memory config report different errors:\n memory %s\n file   %s", what, firstLine(tm), firstLine(tf))
	}
	return nil
}

var errPathRe = regexp.MustCompile(`(?:accessing|in field) '([^']*)'`)

// aboutReadSetting decides whether an error message is about a setting that
// was read from the document: the setting its path names exists and is not
// null, or it is the required setting of the "required" fault, missing
// directly inside an object that exists, is not null and is not the root (the
// error is about that object, which was read from the file). Errors raised for
// the root object ("accessing config", a missing top-level setting), for a
// null setting, for other absent settings (e.g. an absent struct-typed field
// whose Validate method fails) and for settings below a null or absent one are
// about nothing the file contains - the root config is created by New and
// filled by Merge and has no source of its own, and null is read like an
// absent setting (reading decision 1): both outcomes are accepted. known is
// false if the message names no path.
func aboutReadSetting(doc *gen.Tree, msg string) (demanded, known bool) {
	ms := errPathRe.FindAllStringSubmatch(msg, -1)
	if len(ms) == 0 {
		return false, false
	}
	path := ms[len(ms)-1][1]
	if path == "" {
		return false, true
	}
	n := doc
	segs := strings.Split(path, ".")
	for i, s := range segs {
		var next *gen.Tree
		switch n.K {
		case "obj":
			next = n.Get(s)
		case "list":
			if j, err := strconv.Atoi(s); err == nil && j >= 0 && j < len(n.Vals) {
				next = n.Vals[j]
			}
		default:
			return false, true // below a primitive: not asserted
		}
		if next == nil {
			// missing: demanded for the required setting the fault asks for, if the enclosing container is not the root
			return i == len(segs)-1 && i > 0 && s == absentKey, true
		}
		if next.K == "nil" {
			return false, true // null, or below null: not asserted
		}
		n = next
	}
	return true, true
}

func hasRegexp(t reflect.Type) bool {
	switch t.Kind() {
	case reflect.Ptr, reflect.Slice, reflect.Array, reflect.Map:
		return hasRegexp(t.Elem())
	case reflect.Struct:
		if t == reflect.TypeOf(regexp.Regexp{}) {
			return true
		}
		for i := 0; i < t.NumField(); i++ {
			if hasRegexp(t.Field(i).Type) {
				return true
			}
		}
	}
	return false
}

type faultPlan struct {
	doc          *gen.Tree // logical document including the fault's edits
	target       reflect.Type
	what         string
	sourceOption bool // the fault is raised for the root object: the source is not demanded (used when the message names no path)
	openFinding  bool // the case is in the class of an open finding: the source is not demanded
	getter       int  // >= 0: read with this typed getter instead of Unpack
	name         string
	idx          int
	classes      []string
}

func planFault(c FCase, r *runlog.R) (*faultPlan, bool) {
	pathSep := c.Opts&1 != 0
	kind := ((c.Kind % nFaultKinds) + nFaultKinds) % nFaultKinds
	all := positions(c.Doc, pathSep)
	var elig []fpos
	for _, p := range all {
		switch kind {
		case faultConv, faultValidate, faultRef:
			if len(p.path) > 0 {
				elig = append(elig, p)
			}
		case faultGetter, faultRefGetter:
			// a getter names the setting by a path (PathSep) or by a top-level name, optionally with a final index
			if c.Doc.K == "obj" && len(p.path) > 0 && (pathSep || len(p.path) == 1 || len(p.path) == 2 && p.path[1].idx >= 0) {
				elig = append(elig, p)
			}
		case faultRequired:
			if p.node.K == "obj" {
				elig = append(elig, p)
			}
		case faultArrSize:
			if p.node.K == "list" {
				elig = append(elig, p)
			}
		}
	}
	// the root object only when nothing else is eligible, or every eighth time
	if len(elig) > 1 && len(elig[0].path) == 0 && abs(c.Pos)/64%8 != 0 {
		elig = elig[1:]
	}
	if len(elig) == 0 {
		return nil, false
	}
	p := elig[abs(c.Pos)%len(elig)]
	pl := &faultPlan{doc: c.Doc, getter: -1}
	isGetter := kind == faultGetter || kind == faultRefGetter
	if kind == faultRefGetter {
		kind = faultRef
	}
	leaf := leafSpecs[abs(c.Leaf)%len(leafSpecs)]
	validate := ""
	wrap := c.Wrap
	if isGetter {
		pl.getter = abs(c.Leaf) % len(getterNames)
		leaf = leafSpec{"the getter " + getterNames[pl.getter], tIface}
		pl.name, pl.idx = refPath(p.path), -1
		if last := p.path[len(p.path)-1]; last.idx >= 0 && (!pathSep || c.Wrap&1 == 1) {
			pl.name, pl.idx = refPath(p.path[:len(p.path)-1]), last.idx
		}
		if segs := len(p.path); pl.getter == 6 && (pl.idx < 0 && segs > 1 || segs > 2) {
			pl.getter = 4 // CountField looks up a top-level name only (it does not split paths): String instead
		}
		pl.classes = append(pl.classes, "getter "+getterNames[pl.getter])
	}
	switch kind {
	case faultGetter:
		pl.what = fmt.Sprintf("the %s at %s read with %s(%q, %d)", p.node.K, pathString(p.path), getterNames[pl.getter], pl.name, pl.idx)
	case faultConv:
		pl.what = fmt.Sprintf("the %s at %s unpacked into %s", p.node.K, pathString(p.path), leaf.name)
		pl.classes = append(pl.classes, "target "+leaf.name)
	case faultValidate:
		var st shapeStats
		leaf = leafSpec{"its own type", shapeType(p.node, &st)}
		if p.node.K == "obj" {
			leaf.t = reflect.TypeOf(map[string]interface{}(nil))
		} else if p.node.K == "list" {
			leaf.t = reflect.TypeOf([]interface{}(nil))
		}
		validate = validateTags[abs(c.Var)%len(validateTags)]
		pl.what = fmt.Sprintf("the %s at %s unpacked into a field tagged validate:%q", p.node.K, pathString(p.path), validate)
		pl.classes = append(pl.classes, "validate:"+validate)
	case faultRequired:
		rl := requiredLeaf[abs(c.Leaf)%len(requiredLeaf)]
		fs := []reflect.StructField{}
		if c.Var&1 == 1 && len(p.node.Keys) > 0 && tagSafe(p.node.Keys[0]) {
			fs = append(fs, field("E", tIface, p.node.Keys[0], ""))
		}
		tag := "required"
		if c.Var&2 == 2 {
			tag = "nonzero,required"
		}
		fs = append(fs, field("M", rl.t, absentKey, tag))
		if c.Var&4 == 4 && len(p.node.Keys) > 1 && tagSafe(p.node.Keys[1]) {
			fs = append(fs, field("L", tIface, p.node.Keys[1], ""))
		}
		leaf = leafSpec{"struct with a required " + rl.name, reflect.StructOf(fs)}
		pl.what = fmt.Sprintf("the object at %s unpacked into a struct with a required %s setting %q it does not have", pathString(p.path), rl.name, absentKey)
		pl.sourceOption = len(p.path) == 0
		pl.classes = append(pl.classes, "required "+rl.name)
	case faultArrSize:
		n := len(p.node.Vals) + 1 + c.Var&1
		if c.Var&2 == 2 && len(p.node.Vals) > 1 {
			n = len(p.node.Vals) - 1
		}
		leaf = leafSpec{fmt.Sprintf("[%d]interface{}", n), reflect.ArrayOf(n, tIface)}
		pl.what = fmt.Sprintf("the list of %d at %s unpacked into %s", len(p.node.Vals), pathString(p.path), leaf.name)
		pl.sourceOption = len(p.path) == 0
	case faultRef:
		form := abs(c.Var) % nRefForms
		self := refPath(p.path)
		nameable := len(p.path) == 1 || pathSep
		rootObj := c.Doc.K == "obj"
		if (form == refSelf || form == refSelfSpliced) && !nameable {
			form = refLoop
		}
		if form == refBack && !nameable {
			form = refLoop
		}
		if !rootObj && (form == refLoop || form == refBack || form == refOther || form == refChain) {
			form = refMissing
		}
		doc := c.Doc.Clone()
		var text string
		switch form {
		case refMissing:
			text = "${" + absentKey + "}"
		case refSelf:
			text = "${" + self + "}"
		case refSelfSpliced:
			text = "x${" + self + "}y"
		case refLoop:
			text = "${" + helperLoop + "}"
			doc.Put(helperLoop, gen.Str("${"+helperLoop+"}"))
		case refBack:
			text = "${" + helperBack + "}"
			doc.Put(helperBack, gen.Str("${"+self+"}"))
		case refFailMsg:
			text = "${" + absentKey + ":?boom}"
		case refOther:
			text = "${" + helperStr + "}"
			doc.Put(helperStr, gen.Str("text"))
		case refDefault:
			text = "${" + absentKey + ":dflt}"
		case refChain:
			text = "${" + helperChain + "}"
			doc.Put(helperChain, gen.Str("${"+absentKey+"}"))
		}
		parent, slot := nodeAt(doc, p.path)
		parent.Vals[slot] = gen.Str(text)
		pl.doc = doc
		pl.what = fmt.Sprintf("the setting at %s replaced by the reference %q (%s) and unpacked into %s", pathString(p.path), text, refFormNames[form], leaf.name)
		if isGetter {
			pl.what = fmt.Sprintf("the setting at %s replaced by the reference %q (%s) and read with %s(%q, %d)", pathString(p.path), text, refFormNames[form], getterNames[pl.getter], pl.name, pl.idx)
		}
		pl.classes = append(pl.classes, "reference "+refFormNames[form])
		// D56: a failing reference unpacked into a slice or array is reported with the
		// metadata of the enclosing object, and the root object has none
		if k := leaf.t.Kind(); len(p.path) == 1 && (k == reflect.Slice || k == reflect.Array) && !c.Generic {
			if openD56() {
				r.Excluded("D56")
				pl.openFinding = true
			}
		}
		if isGetter {
			pl.classes = append(pl.classes, "reference read with a getter")
		} else if c.Generic {
			pl.classes = append(pl.classes, "reference into a generic target (whole document)")
		} else if leaf.t == tIface || leaf.name == "[]interface{}" || leaf.name == "map[string]interface{}" {
			pl.classes = append(pl.classes, "reference into a generic target (field)")
		} else {
			pl.classes = append(pl.classes, "reference into a typed target")
		}
	}
	if isGetter {
		pl.target = tIface
	} else if kind == faultRef && c.Generic {
		if c.Doc.K == "obj" {
			pl.target = reflect.TypeOf(map[string]interface{}(nil))
		} else {
			pl.target = reflect.TypeOf([]interface{}(nil))
		}
		pl.what = strings.Replace(pl.what, "unpacked into "+leaf.name, "the whole document unpacked into a generic target", 1)
	} else {
		var shape []string
		pl.target, shape = wrapType(p, leaf.t, validate, wrap)
		seen := map[string]bool{}
		for _, s := range shape {
			if !seen[s] {
				seen[s] = true
				pl.classes = append(pl.classes, "path typed with "+s)
			}
		}
	}
	if isGetter && kind == faultRef {
		kind = faultRefGetter
	}
	pl.classes = append(pl.classes, "kind: "+faultKindNames[kind])
	switch {
	case len(p.path) == 0:
		pl.classes = append(pl.classes, "position: root")
	case p.inner:
		pl.classes = append(pl.classes, "position: created object/list below a created one (key of 3+ segments)")
	case p.created:
		pl.classes = append(pl.classes, "position: created object/list (outermost segment of a dotted key)")
	case p.joined:
		pl.classes = append(pl.classes, "position: value of a dotted key")
	case p.node.IsCont():
		pl.classes = append(pl.classes, "position: container in the input")
	default:
		pl.classes = append(pl.classes, "position: leaf in the input")
	}
	pl.classes = append(pl.classes, fmt.Sprintf("position depth %d", len(p.path)))
	return pl, true
}

// openD56: finding D56 is open (its class is constructed away; strict otherwise).
func openD56() bool { return runlog.IsOpen("D56") }

func abs(i int) int {
	if i < 0 {
		if i == -i {
			return 0
		}
		return -i
	}
	return i
}

func spellingClass(doc *gen.Tree, pathSep bool) string {
	joined, nested := 0, 0
	for _, p := range positions(doc, pathSep) {
		if len(p.path) == 0 || !p.node.IsCont() || len(p.node.Vals) == 0 {
			continue
		}
		if p.created {
			joined++
		} else if p.path[len(p.path)-1].idx < 0 {
			nested++
		}
	}
	switch {
	case joined == 0:
		return "spelling: nested"
	case nested == 0:
		return "spelling: dotted"
	}
	return "spelling: mixed"
}

func runFault(c FCase, r *runlog.R) error {
	if c.Doc == nil || (c.Doc.K != "obj" && c.Doc.K != "list") {
		r.Discard()
		return nil
	}
	kind := ((c.Kind % nFaultKinds) + nFaultKinds) % nFaultKinds
	isRef := kind == faultRef || kind == faultRefGetter
	if isRef {
		c.Opts |= 2
	}
	pathSep := c.Opts&1 != 0
	pl, ok := planFault(c, r)
	if !ok {
		r.Discard()
		return nil
	}
	text, err := render(spell(pl.doc, pathSep), c.Style)
	if err != nil {
		return fmt.Errorf("harness: encoding/json cannot write the document: %v", err)
	}
	for _, l := range loaders {
		if _, err := l.dec(text); err != nil {
			r.Discard() // not valid in all three syntaxes
			return nil
		}
	}
	file, err := writeDoc(text)
	defer os.Remove(file)
	if err != nil {
		return fmt.Errorf("harness: cannot write the document: %v", err)
	}
	opts := optsOf(c.Opts)
	fail := func(err error) error {
		return fmt.Errorf("%s, %v\ndocument: %s", optsName(c.Opts), err, clip(text))
	}

	var reported [3]bool
	var loadFailed [3]bool
	demandedSeen, optionalSeen := false, false
	must := func(msg string) bool {
		d, known := aboutReadSetting(pl.doc, msg)
		if !known {
			d = !pl.sourceOption
		}
		if d && pl.openFinding {
			d = false
		}
		if d {
			demandedSeen = true
		} else {
			optionalSeen = true
		}
		return d
	}
	for i, l := range loaders {
		l := l
		var mem, fil *ucfg.Config
		em := uc.Safe(l.name+".NewConfig", func() (err error) { mem, err = l.mem(text, opts...); return })
		ef := uc.Safe(l.name+".NewConfigWithFile", func() (err error) { fil, err = l.file(file, opts...); return })
		// errors of the load itself are not about one setting: the root object has no source of its own
		if err := checkSourced(l.name+": loading", file, em, ef, nil); err != nil {
			return fail(err)
		}
		if em != nil {
			loadFailed[i] = true
			continue
		}
		// the generic view of both
		gm, egm := uc.Dump(mem, opts...)
		gf, egf := uc.Dump(fil, opts...)
		if !isRef {
			if egm != nil {
				return fail(fmt.Errorf("%s.NewConfig + generic Unpack fails on a document without references: %v", l.name, egm))
			}
		}
		if err := checkSourced(l.name+": generic Unpack", file, egm, egf, must); err != nil {
			return fail(err)
		}
		if egm == nil && !sameStage(gm, nil, gf, nil, true) {
			return fail(fmt.Errorf("%s: file and in-memory config unpack to different generic data:\n memory %s\n file   %s", l.name, describe(gm, nil), describe(gf, nil)))
		}
		// the fault
		if pl.getter >= 0 {
			var vm, vf string
			um := uc.Safe(getterNames[pl.getter], func() (err error) { vm, err = getter(mem, pl.getter, pl.name, pl.idx, opts); return })
			uf := uc.Safe(getterNames[pl.getter], func() (err error) { vf, err = getter(fil, pl.getter, pl.name, pl.idx, opts); return })
			if err := checkSourced(l.name+": "+pl.what, file, um, uf, must); err != nil {
				return fail(err)
			}
			if um == nil && vm != vf {
				return fail(fmt.Errorf("%s: %s: file and in-memory config give different values:\n memory %s\n file   %s", l.name, pl.what, vm, vf))
			}
			reported[i] = um != nil
			continue
		}
		tm, tf := reflect.New(pl.target), reflect.New(pl.target)
		um := uc.Safe("Unpack", func() error { return mem.Unpack(tm.Interface(), opts...) })
		uf := uc.Safe("Unpack", func() error { return fil.Unpack(tf.Interface(), opts...) })
		if err := checkSourced(l.name+": "+pl.what, file, um, uf, must); err != nil {
			return fail(err)
		}
		if um == nil && !hasRegexp(pl.target) && !reflect.DeepEqual(tm.Elem().Interface(), tf.Elem().Interface()) {
			return fail(fmt.Errorf("%s: %s: file and in-memory config unpack to different values:\n memory %#v\n file   %#v", l.name, pl.what, tm.Elem().Interface(), tf.Elem().Interface()))
		}
		reported[i] = um != nil
	}
	if loadFailed[0] != loadFailed[1] || loadFailed[2] != loadFailed[1] {
		return fail(fmt.Errorf("the front-ends disagree on loading (yaml, json, hjson failed: %v)", loadFailed))
	}
	if loadFailed[1] {
		r.Class("outcome: load fails in all three")
		return nil
	}
	if reported[0] != reported[1] || reported[2] != reported[1] {
		return fail(fmt.Errorf("%s: the front-ends disagree (yaml, json, hjson report an error: %v)", pl.what, reported))
	}

	for _, l := range pl.classes {
		r.Class(l)
	}
	if reported[1] {
		if demandedSeen {
			r.Class("outcome: error about a setting read from the file (source demanded)")
		}
		if optionalSeen {
			r.Class("outcome: error about the root object or a null/absent setting (source not demanded)")
		}
	} else {
		r.Class("outcome: target accepted")
	}
	r.Class(spellingClass(pl.doc, pathSep))
	r.Class("options: " + optsName(c.Opts))
	r.Class("top-level " + c.Doc.K)
	// non-trivial: an error was reported about a setting below the top level or spelled with a dotted key
	r.NonTrivialIf(reported[1] && demandedSeen)
	return nil
}

// ---------------------------------------------------------------------------
// generator

var (
	fKeys    = []string{"a", "b", "c", "d", "name", "server", "tls", "cert", "k1", "x_y", "Key", "a b", "é", "k:v", "#c", "yes"}
	fStrings = []string{"text", "s", "", "yes", "12", "1.5", "zz", "((", "5s", "true", "a b", "-3", "0", "a: b", "[1]", "off", "1h", "0x10"}
	fInts    = []int64{0, 1, -1, 2, 7, 42, -42, 127, 128, 255, 256, 300, -300, 999999, -999999}
	fFloats  = []float64{0.5, -0.5, 1.5, -2.25, 1e-3, 255.5, 1e10 + 0.5}
)

type fgen struct{ width int }

// spelling: two thirds of the containers are written joined into dotted keys (where PathSep and the enclosing container allow it)
func spelling(t *rapid.T) int {
	if pick(t, 3, "spelling") == 0 {
		return 0
	}
	return 1
}

func (g *fgen) value(t *rapid.T, depth int) *gen.Tree {
	// containers: three fifths of the values two or more levels above the bottom, half one level above it
	hi := 17
	switch {
	case depth <= 0:
		hi = 6
	case depth == 1:
		hi = 13
	}
	switch k := pick(t, hi+1, "kind"); {
	case k == 0:
		return gen.Nil()
	case k == 1:
		return gen.Bool(rapid.Bool().Draw(t, "b"))
	case k <= 3:
		if pick(t, 4, "float") == 0 {
			return gen.Float(rapid.SampledFrom(fFloats).Draw(t, "f"))
		}
		if pick(t, 3, "edge") == 0 {
			return gen.Int(rapid.Int64Range(-2000, 2000).Draw(t, "i"))
		}
		return gen.Int(rapid.SampledFrom(fInts).Draw(t, "ei"))
	case k <= 6:
		return gen.Str(rapid.SampledFrom(fStrings).Draw(t, "s"))
	case k <= 10 || k >= 14 && k <= 16:
		return g.obj(t, depth, 0)
	default:
		return g.list(t, depth)
	}
}

func (g *fgen) obj(t *rapid.T, depth, min int) *gen.Tree {
	o := gen.Obj()
	o.R = spelling(t)
	n := min + pick(t, g.width-min+1, "nkeys")
	for i := 0; i < n; i++ {
		k := rapid.SampledFrom(fKeys).Draw(t, "key")
		if o.Get(k) == nil {
			o.Put(k, g.value(t, depth-1))
		}
	}
	return o
}

func (g *fgen) list(t *rapid.T, depth int) *gen.Tree {
	l := gen.List()
	l.R = spelling(t)
	n := pick(t, g.width+1, "len")
	same := rapid.Bool().Draw(t, "same")
	for i := 0; i < n; i++ {
		var e *gen.Tree
		if same && i > 0 {
			first := l.Vals[0]
			if first.K == "obj" {
				e = gen.Obj()
				e.R = spelling(t)
				for j, k := range first.Keys {
					if first.Vals[j].IsCont() {
						e.Put(k, g.value(t, depth-2))
					} else {
						e.Put(k, first.Vals[j].Clone())
					}
				}
			} else if first.IsCont() {
				e = g.value(t, depth-1)
			} else {
				e = first.Clone()
			}
		} else {
			e = g.value(t, depth-1)
		}
		l.Vals = append(l.Vals, e)
	}
	return l
}

func genFault(t *rapid.T) FCase {
	g := &fgen{width: runlog.Pick(4, 5)}
	c := FCase{
		Style:   pick(t, 4, "style"),
		Opts:    rapid.SampledFrom([]int{1, 1, 1, 3, 3, 0, 2}).Draw(t, "opts"),
		Kind:    rapid.SampledFrom([]int{faultConv, faultConv, faultValidate, faultRequired, faultRequired, faultArrSize, faultRef, faultRef, faultRef, faultGetter, faultRefGetter}).Draw(t, "kind"),
		Pos:     pick(t, 512, "pos"),
		Leaf:    pick(t, len(leafSpecs), "leaf"),
		Var:     pick(t, 72, "var"),
		Generic: pick(t, 3, "generic") == 0,
	}
	if pick(t, 3, "wrapped") == 0 {
		c.Wrap = pick(t, 32, "wrap")
	}
	depth := runlog.Pick(4, 5)
	if pick(t, 6, "toplist") == 0 {
		c.Doc = g.list(t, depth)
		c.Doc.R = 0
	} else {
		c.Doc = g.obj(t, depth, 1)
		c.Doc.R = 0
	}
	return c
}

var subFaults = runlog.Register(&runlog.Sub[FCase]{
	Name: "faults",
	Rule: "A settings tree (top-level object or list, depth <= 4/5, width <= 3/4; keys from a pool of plain and YAML-significant names; strings, small integers, fractions, booleans, nulls, empty containers) is written as JSON in one of 4 styles and - when PathSep(\".\") is among the options - with every non-empty container spelled either nested or joined into dotted keys (\"a.b.c\", \"a.0.b\"; per container, so documents are nested, dotted or mixed), then loaded by yaml/json/hjson NewConfig and NewConfigWithFile with the case's options (none, PathSep, VarExp, both). One fault is injected at a position drawn from all settings of the logical tree, including objects and lists that exist only because a dotted key was split: (conversion) the setting unpacked into one of 26 target types (numbers, bool, string, Duration, *Regexp, slices, arrays, maps incl. map[int]int, structs, chan, interface{}, pointers, application types whose Unpack / StringUnpacker / ConfigUnpacker / Validate method rejects everything); (validator) into its own type under one of 9 validate tags; (required) the object at the position unpacked into a struct with a required/nonzero setting it lacks; (array size) the list unpacked into an array of another length; (typed getter) the setting read with Bool/Int/Uint/Float/String/Child/CountField by path or by name and index; (reference, VarExp) the setting replaced by a reference that is missing, refers to itself (alone or spliced into text), to a self-referencing setting, back through a second setting, fails with ${x:?msg}, leads through a chain to a missing one, or names a string setting - unpacked into a typed target, an interface{} field or with the whole document into map[string]interface{}/[]interface{}, or read with a typed getter. The path to the position is typed with single-field structs and slices, or maps and arrays. Oracle (differential, no model of the conversions): for each front-end the config loaded from memory and the one loaded from file agree on loading, on the generic view and on the fault: both succeed with deeply equal values or both fail, the file-side message minus \" (source:'<file>')\" equals the memory-side message, the memory side names no source, the file side names no other source, and names its file at least once unless the error is raised for the root object (required setting missing at the top level, array size of a top-level list; the root config is created by New and filled by Merge, it has no source of its own). The three front-ends agree on whether the fault is reported. Discarded: documents a third-party decoder rejects, cases without an eligible position. Non-trivial: an error was reported and the source demanded. Distinct: hash of the whole case.",
	Gen:  genFault,
	Run:  runFault,
	// cyclic references: a changed library may recurse without bound, which kills the worker
	Journal: true,
})

func TestFaults(t *testing.T) { subFaults.Check(t, 20000, 1200000) }
