package c18

// Sub-check "rejections": the verdict of the LOAD itself. A document that is
// valid in all three syntaxes may still be refused by the library under the
// options given - two of its keys name the same setting once names are split
// at the path separator or read as list indices, a setting is used both as a
// value and as an object, a string is no well-formed expression under VarExp,
// the top level is no container. "Refused at load time" is a result like any
// other: every way of loading the same bytes with the same options must
// produce it identically.
//
// The oracle needs no model of what collides: per front-end the bytes are
// loaded five ways - NewConfig, NewConfig with MetaData{Source: file},
// NewConfigWithFile, and ucfg.NewFrom on the value the front-end's decoder
// returns, without and with that MetaData (the front-ends are documented to
// decode and hand the value to the library) - and the results are compared:
// the three ways that attach the file are indistinguishable (error type,
// Reason, Class, Path, Message, trace; data), so are the two that do not; the
// file side differs from the memory side exactly by " (source:'<file>')" in
// messages, which a typed load-time refusal always carries (it is an error
// about a setting of that file) and which never names anything else; the three
// front-ends agree with each other.

import (
	"fmt"
	"os"
	"path/filepath"
	"reflect"
	"regexp"
	"strconv"
	"strings"
	"testing"

	ucfg "github.com/elastic/go-ucfg"
	"pgregory.net/rapid"

	"verif/harness/internal/canon"
	"verif/harness/internal/gen"
	"verif/harness/internal/runlog"
	"verif/harness/internal/uc"
)

// RCase is one document, the way it is written, and the options of its second load (the first is without options).
type RCase struct {
	Doc    *gen.Tree `json:"doc"`              // the document as written (keys are physical keys); any JSON value at the top
	Style  int       `json:"style,omitempty"`  // as in Case
	Opts   ROpts     `json:"opts"`             //
	Target int       `json:"target,omitempty"` // selects the typed target every setting is forced into after a successful load
	File   int       `json:"file,omitempty"`   // how the file is named and how its path is spelled, see writeDocNamed
}

// ROpts is an option set as data; build makes fresh option values of it for every call.
type ROpts struct {
	Sep     string `json:"sep,omitempty"`     // non-empty: PathSep(Sep)
	VarExp  bool   `json:"varexp,omitempty"`  //
	NumKeys bool   `json:"numkeys,omitempty"` // EnableNumKeys(true)
	MaxIdx  int    `json:"maxidx,omitempty"`  // > 0: MaxIdx(MaxIdx-1)
	Escape  bool   `json:"escape,omitempty"`  // EscapePath()
	Resolve int    `json:"resolve,omitempty"` // 1 ResolveNOOP, 2 Env(config), 3 ResolveEnv (only with VarExp)
}

func (o ROpts) build() []ucfg.Option {
	var out []ucfg.Option
	if o.Sep != "" {
		out = append(out, ucfg.PathSep(o.Sep))
	}
	if o.VarExp {
		out = append(out, ucfg.VarExp)
	}
	if o.NumKeys {
		out = append(out, ucfg.EnableNumKeys(true))
	}
	if o.MaxIdx > 0 {
		out = append(out, ucfg.MaxIdx(int64(o.MaxIdx-1)))
	}
	if o.Escape {
		out = append(out, ucfg.EscapePath())
	}
	switch o.Resolve {
	case 1:
		out = append(out, ucfg.ResolveNOOP)
	case 2:
		out = append(out, hOption(hEnv))
	case 3:
		out = append(out, ucfg.ResolveEnv)
	}
	return out
}

func (o ROpts) none() bool { return o == ROpts{} }

func (o ROpts) String() string {
	if o.none() {
		return "no options"
	}
	var p []string
	if o.Sep != "" {
		p = append(p, fmt.Sprintf("PathSep(%q)", o.Sep))
	}
	if o.VarExp {
		p = append(p, "VarExp")
	}
	if o.NumKeys {
		p = append(p, "EnableNumKeys(true)")
	}
	if o.MaxIdx > 0 {
		p = append(p, fmt.Sprintf("MaxIdx(%d)", o.MaxIdx-1))
	}
	if o.Escape {
		p = append(p, "EscapePath()")
	}
	if o.Resolve > 0 && o.Resolve <= 3 {
		p = append(p, [...]string{"", "ResolveNOOP", "Env(config)", "ResolveEnv"}[o.Resolve])
	}
	return strings.Join(p, "+")
}

func withSource(file string, opts []ucfg.Option) []ucfg.Option {
	return append([]ucfg.Option{ucfg.MetaData(ucfg.Meta{Source: file})}, opts...)
}

// ---------------------------------------------------------------------------
// the verdict of a load

var sentinelReasons = []struct {
	err  error
	name string
}{
	{ucfg.ErrMissing, "ErrMissing"}, {ucfg.ErrNoParse, "ErrNoParse"}, {ucfg.ErrCyclicReference, "ErrCyclicReference"},
	{ucfg.ErrDuplicateValidator, "ErrDuplicateValidator"}, {ucfg.ErrTypeNoArray, "ErrTypeNoArray"}, {ucfg.ErrTypeMismatch, "ErrTypeMismatch"},
	{ucfg.ErrKeyTypeNotString, "ErrKeyTypeNotString"}, {ucfg.ErrIndexOutOfRange, "ErrIndexOutOfRange"}, {ucfg.ErrPointerRequired, "ErrPointerRequired"},
	{ucfg.ErrArraySizeMismatch, "ErrArraySizeMismatch"}, {ucfg.ErrExpectedObject, "ErrExpectedObject"}, {ucfg.ErrNilConfig, "ErrNilConfig"},
	{ucfg.ErrNilValue, "ErrNilValue"}, {ucfg.ErrTODO, "ErrTODO"}, {ucfg.ErrDuplicateKey, "ErrDuplicateKey"}, {ucfg.ErrOverflow, "ErrOverflow"},
	{ucfg.ErrNegative, "ErrNegative"}, {ucfg.ErrZeroValue, "ErrZeroValue"}, {ucfg.ErrRequired, "ErrRequired"}, {ucfg.ErrEmpty, "ErrEmpty"},
	{ucfg.ErrArrayEmpty, "ErrArrayEmpty"}, {ucfg.ErrMapEmpty, "ErrMapEmpty"}, {ucfg.ErrRegexEmpty, "ErrRegexEmpty"}, {ucfg.ErrStringEmpty, "ErrStringEmpty"},
	{ucfg.ErrConfig, "ErrConfig"}, {ucfg.ErrImplementation, "ErrImplementation"}, {ucfg.ErrUnknown, "ErrUnknown"},
}

// errID names an error value carried inside a ucfg.Error: the sentinel it is identical to, else its type and text.
func errID(e error) string {
	if e == nil {
		return "<nil>"
	}
	if reflect.TypeOf(e).Comparable() {
		for _, s := range sentinelReasons {
			if e == s.err {
				return "ucfg." + s.name
			}
		}
	}
	return fmt.Sprintf("%T(%q)", e, e.Error())
}

// lverdict is everything a caller can observe about the error of a load (comparable with ==).
type lverdict struct {
	OK     bool
	Type   string // Go type of the error value
	Typed  bool   // it is a ucfg.Error
	Reason string
	Class  string
	Path   string
	Msg    string // Message() of a ucfg.Error, Error() otherwise
	Trace  bool   // a stack trace is attached
}

func verdictOf(err error) lverdict {
	if err == nil {
		return lverdict{OK: true}
	}
	v := lverdict{Type: fmt.Sprintf("%T", err)}
	if e, ok := err.(ucfg.Error); ok {
		v.Typed, v.Reason, v.Class, v.Path, v.Msg, v.Trace = true, errID(e.Reason()), errID(e.Class()), e.Path(), e.Message(), e.Trace() != ""
		return v
	}
	v.Msg = err.Error()
	return v
}

func (v lverdict) String() string {
	switch {
	case v.OK:
		return "loads"
	case !v.Typed:
		return fmt.Sprintf("fails with a %s that is no ucfg.Error: %q", v.Type, firstLine(v.Msg))
	}
	tr := ""
	if v.Trace {
		tr = ", with stack trace"
	}
	return fmt.Sprintf("fails with %s{Reason: %s, Class: %s, Path: %q, Message: %q%s}", v.Type, v.Reason, v.Class, v.Path, firstLine(v.Msg), tr)
}

var numberNameRe = regexp.MustCompile(`'(?:u?int|float)(?:8|16|32|64)?'`)

// numberNames hides the one difference between the decoders that is there by design: YAML reads integers as int,
// JSON and HJSON read every number as float64, and messages name the type found.
func numberNames(s string) string { return numberNameRe.ReplaceAllString(s, "'number'") }

// ---------------------------------------------------------------------------
// loading one document in every way

type way struct {
	name   string
	load   func() (*ucfg.Config, error)
	cfg    *ucfg.Config
	err    error
	v      lverdict
	data   interface{}
	derr   error
	dumped bool
}

const (
	wMem      = iota // <front-end>.NewConfig(bytes, opts...)
	wMemMeta         // <front-end>.NewConfig(bytes, MetaData{Source: file}, opts...)
	wFile            // <front-end>.NewConfigWithFile(file, opts...)
	wFrom            // ucfg.NewFrom(value decoded from the bytes by the front-end's decoder, opts...)
	wFromMeta        // ucfg.NewFrom(value, MetaData{Source: file}, opts...)
	nWays
)

func waysOf(l loader, text []byte, file string, o ROpts) *[nWays]way {
	from := func(meta bool) func() (*ucfg.Config, error) {
		return func() (*ucfg.Config, error) {
			d, err := l.dec(text)
			if err != nil {
				return nil, fmt.Errorf("harness: the %s decoder rejects the text on a later call: %v", l.name, err)
			}
			opts := o.build()
			if meta {
				opts = withSource(file, opts)
			}
			return ucfg.NewFrom(d, opts...)
		}
	}
	return &[nWays]way{
		wMem:      {name: l.name + ".NewConfig(bytes, opts...)", load: func() (*ucfg.Config, error) { return l.mem(text, o.build()...) }},
		wMemMeta:  {name: l.name + ".NewConfig(bytes, MetaData{Source: file}, opts...)", load: func() (*ucfg.Config, error) { return l.mem(text, withSource(file, o.build())...) }},
		wFile:     {name: l.name + ".NewConfigWithFile(file, opts...)", load: func() (*ucfg.Config, error) { return l.file(file, o.build()...) }},
		wFrom:     {name: "ucfg.NewFrom(value decoded by the " + l.name + " decoder, opts...)", load: from(false)},
		wFromMeta: {name: "ucfg.NewFrom(value decoded by the " + l.name + " decoder, MetaData{Source: file}, opts...)", load: from(true)},
	}
}

func (w *way) run() error {
	w.err = uc.Safe(w.name, func() (err error) { w.cfg, err = w.load(); return })
	if isPanic(w.err) {
		return w.err
	}
	if w.err == nil && w.cfg == nil {
		return fmt.Errorf("%s returned neither a config nor an error", w.name)
	}
	w.v = verdictOf(w.err)
	return nil
}

func (w *way) dump(o ROpts) error {
	if w.dumped || w.err != nil {
		return nil
	}
	w.dumped = true
	w.data, w.derr = uc.Dump(w.cfg, o.build()...)
	if isPanic(w.derr) {
		return w.derr
	}
	return nil
}

const confirmRuns = 32

// orderDependent: two loads refuse the document for a duplicate setting name but report different names. If the
// document defines several settings twice, which one is reported first is not the subject of this property (the
// library walks Go maps there): both loads are repeated, and the difference is accepted if the two sets of
// reports seen have a report in common.
func orderDependent(a, b *way, norm func(lverdict) lverdict) bool {
	dup := "ucfg.ErrDuplicateKey"
	if !a.v.Typed || !b.v.Typed || a.v.Reason != dup || b.v.Reason != dup {
		return false
	}
	x, y := norm(a.v), norm(b.v)
	x.Path, x.Msg, y.Path, y.Msg = "", "", "", ""
	if x != y {
		return false
	}
	seen := [2]map[lverdict]bool{{}, {}}
	for i := 0; i < confirmRuns; i++ {
		for j, w := range []*way{a, b} {
			var err error
			uc.Safe(w.name, func() error { _, err = w.load(); return nil })
			seen[j][norm(verdictOf(err))] = true
		}
	}
	for v := range seen[0] {
		if seen[1][v] {
			return true
		}
	}
	return false
}

func equalDump(a, b interface{}) bool { return canon.EqualData(a, b) || canon.EqualSplit(a, b) }

// sameLoad: the two ways are the same load as far as a caller can tell.
func sameLoad(a, b *way, o ROpts, v *verdict) error {
	id := func(x lverdict) lverdict { return x }
	if a.v != b.v {
		if orderDependent(a, b, id) {
			v.class("several duplicate names, which one is reported varies from run to run (accepted)")
			return nil
		}
		return fmt.Errorf("two ways of loading the same bytes with the same options and source give different results:\n %s\n   %s\n %s\n   %s", a.name, a.v, b.name, b.v)
	}
	if !a.v.OK {
		return nil
	}
	for _, w := range []*way{a, b} {
		if err := w.dump(o); err != nil {
			return err
		}
	}
	if (a.derr == nil) != (b.derr == nil) || a.derr != nil && verdictOf(a.derr) != verdictOf(b.derr) {
		return fmt.Errorf("two ways of loading the same bytes with the same options and source unpack differently (generic target):\n %s\n   %s\n %s\n   %s", a.name, describe(nil, a.derr), b.name, describe(nil, b.derr))
	}
	if a.derr == nil && !equalDump(a.data, b.data) {
		return fmt.Errorf("two ways of loading the same bytes with the same options and source hold different data:\n %s\n   %s\n %s\n   %s", a.name, describe(a.data, nil), b.name, describe(b.data, nil))
	}
	return nil
}

// sourcedLoad: mem is a load without source, fil the load of the same bytes from file. They differ by the source note only.
func sourcedLoad(mem, fil *way, file string, v *verdict) (err error) {
	note := sourceNote(file)
	strip := func(x lverdict) lverdict { x.Msg = strings.ReplaceAll(x.Msg, note, ""); return x }
	defer func() {
		if err != nil {
			err = fmt.Errorf("%v\n %s\n   %s\n %s\n   %s", err, mem.name, mem.v, fil.name, fil.v)
		}
	}()
	if strings.Contains(mem.v.Msg, "(source:'") {
		return fmt.Errorf("a load from memory without MetaData reports a source")
	}
	if n := strings.Count(fil.v.Msg, "(source:'"); n != strings.Count(fil.v.Msg, note[1:]) {
		return fmt.Errorf("the load from %s reports another source", file)
	}
	if mem.v.OK != fil.v.OK {
		return fmt.Errorf("loading from memory and loading the same bytes from file disagree")
	}
	if fil.v.OK {
		return nil
	}
	// a typed refusal is about a setting of the document: it names the file the document was read from
	if fil.v.Typed && !strings.Contains(fil.v.Msg, note[1:]) {
		return fmt.Errorf("the document is refused at load time, and the error of the file loader does not mention the file (want it to contain %s)", note[1:])
	}
	if strip(fil.v) != mem.v {
		if orderDependent(mem, fil, strip) {
			v.class("several duplicate names, which one is reported varies from run to run (accepted)")
			return nil
		}
		return fmt.Errorf("loading from memory and loading the same bytes from file fail differently (beyond the source note)")
	}
	return nil
}

// acrossFrontEnds: the same bytes through two front-ends (loads from memory).
func acrossFrontEnds(a, b *way, o ROpts, v *verdict) error {
	norm := func(x lverdict) lverdict { x.Msg = numberNames(x.Msg); return x }
	if norm(a.v) != norm(b.v) {
		if orderDependent(a, b, norm) {
			v.class("several duplicate names, which one is reported varies from run to run (accepted)")
			return nil
		}
		return fmt.Errorf("the front-ends disagree on loading a document valid in all three syntaxes:\n %s\n   %s\n %s\n   %s", a.name, a.v, b.name, b.v)
	}
	if !a.v.OK {
		return nil
	}
	for _, w := range []*way{a, b} {
		if err := w.dump(o); err != nil {
			return err
		}
	}
	// (canon.EqualSplit alone is no function of the data when two names of one object spell the same index, e.g. "3" and "03" under EnableNumKeys)
	if (a.derr == nil) != (b.derr == nil) || a.derr != nil && kind(a.derr) != kind(b.derr) || a.derr == nil && !equalDump(a.data, b.data) {
		return fmt.Errorf("the front-ends unpack a document valid in all three syntaxes to different generic data:\n %s\n   %s\n %s\n   %s", a.name, describe(a.data, a.derr), b.name, describe(b.data, b.derr))
	}
	return nil
}

// ---------------------------------------------------------------------------
// after a successful load: every setting forced into a type most settings do not have

var forcedTargets = []reflect.Type{
	reflect.TypeOf(map[string]int(nil)),
	reflect.TypeOf(map[string]map[string]bool(nil)),
	reflect.TypeOf([]int(nil)),
	reflect.TypeOf(map[string][]map[string][2]int(nil)),
	reflect.TypeOf([]map[string]int(nil)),
	reflect.TypeOf(map[string]map[string]map[string]int(nil)),
}

// settingAt reports whether the dotted path names a setting of the dumped data that is not null.
func settingAt(data interface{}, path string) bool {
	if path == "" {
		return false
	}
	cur := data
	for _, s := range strings.Split(path, ".") {
		switch x := cur.(type) {
		case map[string]interface{}:
			n, ok := x[s]
			if !ok {
				return false
			}
			cur = n
		case []interface{}:
			i, err := strconv.Atoi(s)
			if err != nil || i < 0 || i >= len(x) {
				return false
			}
			cur = x[i]
		default:
			return false
		}
	}
	return cur != nil
}

// ---------------------------------------------------------------------------
// what the document contains (classes only; no assertion depends on it)

type nameModel struct{ o ROpts }

var bracketed = regexp.MustCompile(`^\[.*\]$`)

func (m nameModel) field(s string, numKeys bool) string {
	max := int64(1024)
	if m.o.MaxIdx > 0 {
		max = int64(m.o.MaxIdx - 1)
	}
	if !numKeys {
		if i, err := strconv.ParseInt(s, 0, 64); err == nil && i >= 0 && i <= max {
			return "#" + strconv.FormatInt(i, 10)
		}
	}
	return "=" + s
}

func (m nameModel) segs(k string) []string {
	if m.o.Sep == "" || m.o.Escape && bracketed.MatchString(k) {
		return []string{m.field(k, m.o.NumKeys)}
	}
	parts := strings.Split(k, m.o.Sep)
	nk := m.o.NumKeys && len(parts) == 1
	for i, p := range parts {
		parts[i] = m.field(p, nk)
	}
	return parts
}

type rInfo struct {
	overlapDepth int // deepest object (0 = top) with two keys that name the same setting or a setting inside the other; -1 none
	overlaps     int
	refs         int // strings containing "${"
	refDepth     int // depth of the deepest such string
	depth        int
}

func rAnalyse(doc *gen.Tree, o ROpts) rInfo {
	in := rInfo{overlapDepth: -1, refDepth: -1, depth: doc.Depth()}
	m := nameModel{o}
	doc.Walk(nil, func(path []string, n *gen.Tree) {
		switch n.K {
		case "str":
			if strings.Contains(n.S, "${") {
				in.refs++
				if len(path) > in.refDepth {
					in.refDepth = len(path)
				}
			}
		case "obj":
			ss := make([][]string, len(n.Keys))
			for i, k := range n.Keys {
				ss[i] = m.segs(k)
				for _, p := range ss[:i] {
					if isPrefix(p, ss[i]) {
						in.overlaps++
						if len(path) > in.overlapDepth {
							in.overlapDepth = len(path)
						}
					}
				}
			}
		}
	})
	return in
}

func reasonClass(v lverdict) string {
	switch {
	case v.OK:
		return "loads"
	case !v.Typed:
		return "refused: untyped error"
	case strings.HasPrefix(v.Reason, "ucfg.Err"):
		return "refused: " + strings.TrimPrefix(v.Reason, "ucfg.")
	case strings.Contains(v.Msg, "parsing splice"):
		return "refused: malformed expression"
	}
	return "refused: other reason"
}

func depthLabel(d int) string {
	if d >= 3 {
		return "3+"
	}
	return strconv.Itoa(d)
}

// ---------------------------------------------------------------------------
// the file and its name

var (
	fileNames     = []string{"c18-doc-%d.cfg", "c18 doc %d.yml", "c18-%%d%%s%%!-%d.json", "c18-é日本-%d.hjson", "c18-doc-%d", "c18-'q'-%d.cfg", "c18: #%d.yaml", "c18-(source)-%d.conf"}
	fileSpellings = []string{"absolute", "absolute with /./", "absolute with //", "absolute with dir/../dir", "relative to the working directory"}
)

// writeDocNamed writes the document into the work directory under one of several kinds of names and returns the
// path spelled in one of several ways; that spelling is the name the loaders get, so it is the source they record.
func writeDocNamed(text []byte, sel int) (path string, spelling int, err error) {
	e := runlog.Env()
	sel = abs(sel)
	base := fmt.Sprintf(fileNames[sel%len(fileNames)], fileSeq.Add(1))
	base = fmt.Sprintf("p%d-s%d-%s", os.Getpid(), e.Shard, base)
	dir := filepath.Clean(e.OutDir)
	clean := filepath.Join(dir, base)
	if err := os.WriteFile(clean, text, 0o644); err != nil {
		return clean, 0, err
	}
	spelling = sel / len(fileNames) % len(fileSpellings)
	path = clean
	switch spelling {
	case 1:
		path = dir + "/./" + base
	case 2:
		path = dir + "//" + base
	case 3:
		path = dir + "/../" + filepath.Base(dir) + "/" + base
	case 4:
		if wd, err := os.Getwd(); err == nil {
			if rel, err := filepath.Rel(wd, clean); err == nil {
				path = rel
			}
		}
	}
	if _, err := os.Stat(path); err != nil {
		path, spelling = clean, 0 // e.g. the work directory is reached through a symbolic link
	}
	return path, spelling, nil
}

// ---------------------------------------------------------------------------
// the oracle

func runReject(c RCase, r *runlog.R) error {
	if c.Doc == nil {
		r.Discard()
		return nil
	}
	text, err := render(c.Doc, c.Style)
	if err != nil {
		return fmt.Errorf("harness: encoding/json cannot write the document: %v", err)
	}
	// precondition: valid in all three syntaxes (the three decoders accept the text and read the same data)
	var raw [3]interface{}
	for i, l := range loaders {
		d, err := l.dec(text)
		if err != nil {
			r.Discard()
			return nil
		}
		raw[i] = d
	}
	for i := range loaders {
		if !canon.EqualData(raw[i], raw[1]) {
			r.Discard()
			return nil
		}
	}
	file, spelling, err := writeDocNamed(text, c.File)
	defer os.Remove(file)
	if err != nil {
		return fmt.Errorf("harness: cannot write the document: %v", err)
	}

	var v verdict
	sets := []ROpts{{}}
	if !c.Opts.none() {
		sets = append(sets, c.Opts)
	}
	refused := false
	for si, o := range sets {
		fail := func(err error) error {
			return fmt.Errorf("%s: %v\nfile: %s\ndocument: %s", o, err, file, clip(text))
		}
		in := rAnalyse(c.Doc, o)
		refsLive := o.VarExp && in.refs > 0
		var ws [3]*[nWays]way
		for i, l := range loaders {
			ws[i] = waysOf(l, text, file, o)
			for j := range ws[i] {
				if err := ws[i][j].run(); err != nil {
					return fail(err)
				}
			}
		}
		for i, l := range loaders {
			w := ws[i]
			// the file loader is the in-memory loader plus the source, and both hand the decoded value to the library
			if err := sameLoad(&w[wMemMeta], &w[wFile], o, &v); err != nil {
				return fail(err)
			}
			if err := sameLoad(&w[wFromMeta], &w[wFile], o, &v); err != nil {
				return fail(err)
			}
			if err := sameLoad(&w[wFrom], &w[wMem], o, &v); err != nil {
				return fail(err)
			}
			if err := sourcedLoad(&w[wMem], &w[wFile], file, &v); err != nil {
				return fail(err)
			}
			if !w[wMem].v.OK {
				continue
			}
			// loaded: generic view and one forced typed target, memory against file
			for _, j := range []int{wMem, wFile} {
				if err := w[j].dump(o); err != nil {
					return fail(err)
				}
			}
			if !refsLive && w[wMem].derr != nil {
				return fail(fmt.Errorf("%s + generic Unpack fails on a document without references: %v", w[wMem].name, w[wMem].derr))
			}
			if err := checkSourced(l.name+": generic Unpack", file, w[wMem].derr, w[wFile].derr, nil); err != nil {
				return fail(err)
			}
			if w[wMem].derr == nil && !equalDump(w[wMem].data, w[wFile].data) {
				return fail(fmt.Errorf("%s: file and in-memory config unpack to different generic data:\n memory %s\n file   %s", l.name, describe(w[wMem].data, nil), describe(w[wFile].data, nil)))
			}
			ft := forcedTargets[abs(c.Target)%len(forcedTargets)]
			demanded := false
			must := func(msg string) bool {
				// an error about a setting that exists in the loaded config and is not null is about a setting read from
				// the file; with live references the failing value may be one of an Env config or a resolver
				if refsLive || w[wMem].derr != nil {
					return false
				}
				ms := errPathRe.FindAllStringSubmatch(msg, -1)
				if len(ms) == 0 {
					return false
				}
				demanded = settingAt(w[wMem].data, ms[len(ms)-1][1])
				return demanded
			}
			tm, tf := reflect.New(ft), reflect.New(ft)
			um := uc.Safe("Unpack", func() error { return w[wMem].cfg.Unpack(tm.Interface(), o.build()...) })
			uf := uc.Safe("Unpack", func() error { return w[wFile].cfg.Unpack(tf.Interface(), o.build()...) })
			if err := checkSourced(fmt.Sprintf("%s: every setting forced into %v", l.name, ft), file, um, uf, must); err != nil {
				return fail(err)
			}
			if um == nil && !reflect.DeepEqual(tm.Elem().Interface(), tf.Elem().Interface()) {
				return fail(fmt.Errorf("%s: unpacked into %v, file and in-memory config give different values:\n memory %#v\n file   %#v", l.name, ft, tm.Elem().Interface(), tf.Elem().Interface()))
			}
			if i == 1 && si == len(sets)-1 {
				switch {
				case um == nil:
					v.class("loaded, forced target: accepted")
				case demanded:
					v.class("loaded, forced target: error about a setting read from the file (source demanded)")
				default:
					v.class("loaded, forced target: error, source not demanded (root, null/absent setting, live references)")
				}
			}
		}
		for _, i := range []int{0, 2} {
			if err := acrossFrontEnds(&ws[1][wMem], &ws[i][wMem], o, &v); err != nil {
				return fail(err)
			}
		}

		// classes of this load
		which := "case options"
		if o.none() {
			which = "no options"
		}
		res := ws[1][wMem].v
		v.class("%s: %s", which, reasonClass(res))
		if !res.OK {
			refused = true
			if res.Typed {
				v.class("refusal compared (type, Reason, Class, Path, Message, source) over 15 loads")
			}
			if in.overlapDepth >= 0 && res.Reason != "ucfg.ErrTypeMismatch" && !strings.Contains(res.Msg, "parsing splice") {
				v.class("refused: deepest object with overlapping names at depth %s", depthLabel(in.overlapDepth))
			}
			if strings.Contains(res.Msg, "parsing splice") {
				v.class("refused: malformed expression, deepest ${ at depth %s", depthLabel(in.refDepth))
			}
		} else if in.overlaps > 0 {
			v.class("%s: overlapping names load (merged)", which)
		}
		if si == len(sets)-1 {
			switch {
			case in.overlaps == 0:
				v.class("doc: no overlapping names under the case options")
			case in.overlaps == 1:
				v.class("doc: one pair of overlapping names")
			default:
				v.class("doc: several pairs of overlapping names")
			}
			if refsLive {
				v.class("doc: live ${ strings")
			}
		}
	}

	for _, l := range v.classes {
		r.Class(l)
	}
	o := c.Opts
	r.Class(fmt.Sprintf("opt PathSep: %q", o.Sep))
	r.ClassIf(o.VarExp, "opt VarExp")
	r.ClassIf(o.NumKeys, "opt EnableNumKeys")
	r.ClassIf(o.MaxIdx > 0, "opt MaxIdx")
	r.ClassIf(o.Escape, "opt EscapePath")
	r.ClassIf(o.Resolve > 0, "opt resolver/Env")
	r.ClassIf(o.none(), "second load skipped (case has no options)")
	if c.Doc.IsCont() {
		r.Class("top-level " + c.Doc.K)
	} else {
		r.Class("top-level scalar")
	}
	r.Class("depth " + depthLabel(c.Doc.Depth()))
	r.Class("file path " + fileSpellings[spelling])
	r.Class("file name like " + fmt.Sprintf(fileNames[abs(c.File)%len(fileNames)], 1))
	// non-trivial: the library refused the document at load time under at least one of the option sets
	r.NonTrivialIf(refused)
	return nil
}

// ---------------------------------------------------------------------------
// generator

var (
	rNames = []string{"a", "b", "c", "A", "srv", "x", "B"}
	// spellings of one list index each (strconv.ParseInt with base 0: leading zeros are octal, signs, prefixes and underscores are allowed)
	rIndexes = [][]string{
		{"0", "00", "-0", "+0", "0x0"},
		{"1", "01", "+1", "0x1", "0b1", "0o1"},
		{"2", "02", "0x2", "+2"},
		{"3", "03"},
		{"8", "010", "0x8", "0o10"},
		{"10", "1_0", "012", "0xa", "0XA"},
		{"1024", "0x400", "02000"},
		{"1025", "0x401"},
		{"-1", "-01"},
		{"08", "1e0", "0x", "1.0"}, // no integer literals
	}
	rPlain   = []string{"text", "s", "", "12", "yes", "a b", "1.5", "a.b", "0", "true", "x/y"}
	rDollars = []string{"$", "5$", "$$", "a$b", "}", "${a}}", "$ {a}", "$a"}
	rGood    = []string{"${a}", "${b}", "${a.b}", "${srv.x}", "${0}", "${a.0}", "x${a}y", "${zz:dflt}", "${zz}", "${e1}", "${e2}", "${e2.x}", "${a:${b}}", "$${a}", "${zz:?boom}", "${a:+alt}", "${c} and ${b}", "${A}", "${x.a.b}", "${" + envVarName + "}"}
	rBad     = []string{"${", "${a", "costs 5$ ${", "${a:", "x ${a:${b}", "${${a}", "${a}${", "${}", "${ }", "${a b", "${a.", "${:", "$${${", "text ${", "${a:?", "${a:${", "}${", "${a}${b", "${{a}", "${a:-${b}"}
	rInts    = []int64{0, 1, -1, 2, 3, 7, -3, 42, 255, 999999, -999999}
	rFloats  = []float64{0.5, -2.25, 1.5, 2.5, 1e-3}
)

type rgen struct {
	sep    string // joins the segments of generated keys
	exprs  bool   // strings are often ${...} expressions
	escape bool
	width  int
}

func (g *rgen) seg(t *rapid.T) string {
	if pick(t, 5, "segkind") < 3 {
		return rapid.SampledFrom(rNames).Draw(t, "name")
	}
	grp := rIndexes[pick(t, 6, "idxgroup")]
	if pick(t, 12, "rareidx") == 0 {
		grp = rIndexes[pick(t, len(rIndexes), "idxgroup2")]
	}
	if pick(t, 2, "canonical") == 0 {
		return grp[0]
	}
	return grp[pick(t, len(grp), "spelling")]
}

func (g *rgen) join(t *rapid.T, segs []string) string {
	sep := g.sep
	if pick(t, 12, "dotjoin") == 0 {
		sep = "."
	}
	k := strings.Join(segs, sep)
	if g.escape && pick(t, 6, "bracket") == 0 {
		k = "[" + k + "]"
	}
	return k
}

func (g *rgen) key(t *rapid.T) string {
	n := 1
	switch k := pick(t, 10, "nsegs"); {
	case k >= 8:
		n = 3
	case k >= 5:
		n = 2
	}
	segs := make([]string, n)
	for i := range segs {
		segs[i] = g.seg(t)
		if pick(t, 40, "emptyseg") == 0 {
			segs[i] = ""
		}
	}
	return g.join(t, segs)
}

// respell writes the same name differently: another literal for the same index, the other letter case.
func respell(t *rapid.T, s string) string {
	for _, grp := range rIndexes[:len(rIndexes)-1] {
		for _, sp := range grp {
			if sp == s {
				return grp[pick(t, len(grp), "alias")]
			}
		}
	}
	if u := strings.ToUpper(s); u != s {
		return u
	}
	return strings.ToLower(s)
}

// derived makes a key out of a sibling: a name inside the sibling's setting, another spelling of it, or an enclosing name.
func (g *rgen) derived(t *rapid.T, o *gen.Tree) string {
	j := pick(t, len(o.Keys), "sibling")
	base, val := o.Keys[j], o.Vals[j]
	segs := strings.Split(base, g.sep)
	switch k := pick(t, 8, "derive"); {
	case k <= 4: // inside the sibling
		next := g.seg(t)
		switch {
		case val.K == "obj" && len(val.Keys) > 0 && pick(t, 4, "hit") != 0:
			inner := strings.Split(val.Keys[pick(t, len(val.Keys), "innerkey")], g.sep)
			n := 1 + pick(t, len(inner), "innersegs")
			if pick(t, 4, "respellinner") == 0 {
				inner[0] = respell(t, inner[0])
			}
			return base + g.sep + strings.Join(inner[:n], g.sep)
		case val.K == "list" && pick(t, 4, "hit") != 0:
			next = strconv.Itoa(pick(t, len(val.Vals)+1, "index"))
			if pick(t, 3, "respellidx") == 0 {
				next = respell(t, next)
			}
		case !val.IsCont() && pick(t, 3, "idx0") == 0:
			next = rIndexes[pick(t, 2, "idx01")][0] // index 0 of a primitive is the primitive
		}
		return base + g.sep + next
	case k <= 6: // another spelling
		i := pick(t, len(segs), "respellseg")
		segs[i] = respell(t, segs[i])
		return strings.Join(segs, g.sep)
	default: // an enclosing name
		if len(segs) > 1 {
			return strings.Join(segs[:len(segs)-1], g.sep)
		}
		return base + g.sep + g.seg(t)
	}
}

func (g *rgen) str(t *rapid.T) string {
	if g.exprs {
		switch pick(t, 8, "expr") {
		case 0, 1, 2:
			return rapid.SampledFrom(rGood).Draw(t, "good")
		case 3, 4:
			return rapid.SampledFrom(rBad).Draw(t, "bad")
		case 5:
			return rapid.SampledFrom(rDollars).Draw(t, "dollar")
		}
	} else if pick(t, 16, "straydollar") == 0 {
		return rapid.SampledFrom(append(append([]string{}, rDollars...), rBad...)).Draw(t, "stray")
	}
	return rapid.SampledFrom(rPlain).Draw(t, "plain")
}

func (g *rgen) prim(t *rapid.T) *gen.Tree {
	switch k := pick(t, 10, "prim"); {
	case k == 0:
		return gen.Nil()
	case k == 1:
		return gen.Bool(rapid.Bool().Draw(t, "b"))
	case k <= 3:
		return gen.Int(rapid.SampledFrom(rInts).Draw(t, "i"))
	case k == 4:
		return gen.Float(rapid.SampledFrom(rFloats).Draw(t, "f"))
	default:
		return gen.Str(g.str(t))
	}
}

func (g *rgen) value(t *rapid.T, depth int) *gen.Tree {
	// containers: three fifths of the values two or more levels above the bottom, two fifths one level above it
	hi := 14
	switch {
	case depth <= 0:
		hi = 5
	case depth == 1:
		hi = 9
	}
	switch k := pick(t, hi+1, "kind"); {
	case k <= 5:
		return g.prim(t)
	case k <= 7 || k >= 10 && k <= 12:
		return g.obj(t, depth, 0)
	default:
		return g.list(t, depth)
	}
}

func (g *rgen) obj(t *rapid.T, depth, min int) *gen.Tree {
	o := gen.Obj()
	n := min + pick(t, g.width-min+1, "nkeys")
	for i := 0; i < n; i++ {
		k := ""
		if len(o.Keys) > 0 && pick(t, 5, "derived") < 2 {
			k = g.derived(t, o)
		} else {
			k = g.key(t)
		}
		if o.Get(k) == nil {
			o.Put(k, g.value(t, depth-1))
		}
	}
	return o
}

func (g *rgen) list(t *rapid.T, depth int) *gen.Tree {
	l := gen.List()
	n := pick(t, g.width+1, "len")
	for i := 0; i < n; i++ {
		l.Vals = append(l.Vals, g.value(t, depth-1))
	}
	return l
}

func genReject(t *rapid.T) RCase {
	c := RCase{Style: pick(t, 4, "style"), Target: pick(t, len(forcedTargets), "target")}
	if pick(t, 2, "plainfile") != 0 {
		c.File = pick(t, len(fileNames)*len(fileSpellings), "file")
	}
	o := &c.Opts
	o.Sep = rapid.SampledFrom([]string{".", "", ".", "/", ".", "::", ".", ""}).Draw(t, "sep")
	o.VarExp = pick(t, 5, "varexp") < 2
	o.NumKeys = pick(t, 6, "numkeys") == 0
	if pick(t, 5, "maxidx") == 0 {
		o.MaxIdx = rapid.SampledFrom([]int{1, 2, 3, 9, 2001}).Draw(t, "maxidxv")
	}
	o.Escape = pick(t, 6, "escape") == 0
	if o.VarExp {
		o.Resolve = rapid.SampledFrom([]int{0, 0, 0, 1, 2, 3}).Draw(t, "resolve")
	}
	g := &rgen{sep: o.Sep, exprs: o.VarExp || pick(t, 6, "exprs") == 0, escape: o.Escape || pick(t, 10, "brackets") == 0, width: runlog.Pick(4, 5)}
	if g.sep == "" {
		g.sep = "."
	}
	depth := runlog.Pick(3, 4)
	switch k := pick(t, 20, "top"); {
	case k == 0 && pick(t, 2, "scalar") == 0:
		c.Doc = g.prim(t)
	case k <= 4:
		c.Doc = g.list(t, depth)
	default:
		c.Doc = g.obj(t, depth, 1)
	}
	return c
}

var subReject = runlog.Register(&runlog.Sub[RCase]{
	Name: "rejections",
	Rule: "Documents built to be REFUSED AT LOAD TIME or to come close (any JSON value at the top: object, list, 4 % scalars; depth <= 3/4, width <= 4/5): keys of 1-3 segments over a small pool of names (incl. case variants a/A, b/B) and of spellings of list indices (0 00 -0 +0 0x0, 1 01 +1 0x1 0b1 0o1, 8 010 0x8, 10 1_0 012 0xa, 1024/1025 around the default index limit, -1, non-literals like 08), joined with the case's path separator (or '.' when it has none, rarely '.' next to another separator), rarely with empty segments or written [in.brackets]; two fifths of the keys of an object are DERIVED from a sibling: a name inside the sibling's setting (a key of the sibling object incl. re-spelled, an index of the sibling list incl. one past its end, index 0/1 of a primitive), another spelling of the sibling (other index literal, other letter case), or an enclosing name; so dotted-vs-nested, value-vs-object, equal-index and case collisions occur at every depth, below lists and inside objects that are themselves spelled with dotted keys. Values: nulls, booleans, small integers, fractions, plain strings, and - always under VarExp, sometimes without - well-formed ${...} expressions (references to settings of the document, to an Env config, an OS variable, missing names, defaults, alternatives, ${x:?msg}, nested, escaped) and malformed ones (20 forms: unterminated, nested unterminated, empty, trailing '${' ...), lone '$' texts. Written once with encoding/json in one of 4 styles into a file whose NAME varies (plain, blanks, %-verbs, quotes, colon/#, '(source)', unicode, no extension) and whose PATH is spelled absolute, with /./, //, dir/../dir or relative to the working directory; that spelling is what the loaders get. Loaded without options and with the case's option set: PathSep \".\" (half), none, \"/\", \"::\"; VarExp (2/5) with ResolveNOOP / Env(config) / ResolveEnv; EnableNumKeys(true); MaxIdx 0,1,2,8,2000; EscapePath() - fresh option values for every call. Discarded: documents a third-party decoder rejects or the three decoders read differently. Oracle (differential, no model of what collides): per front-end the bytes are loaded five ways - NewConfig, NewConfig with MetaData{Source: file}, NewConfigWithFile, ucfg.NewFrom(value returned by the front-end's decoder) without and with that MetaData - i.e. 15 loads per option set. (a) NewConfigWithFile, NewConfig+MetaData and NewFrom+MetaData are indistinguishable: all load or all fail with the same Go error type, ucfg.Error-ness, Reason (sentinel identity or type and text), Class, Path, Message and trace presence; loaded configs dump to equal generic data (or the same Unpack error). (b) the same for NewConfig and NewFrom without MetaData. (c) NewConfigWithFile against NewConfig: both load or both fail; the memory side names no source; the file side names no source other than the path as passed; a refusal that is a ucfg.Error (it is about a setting of the document: duplicate name, value used as object, malformed expression, a dotted key below a setting that refers to itself, unsupported top-level type) contains (source:'<path as passed>'); file-side verdict with the source note removed equals the memory-side verdict in every component. (d) the three front-ends give the same verdict (messages compared after replacing the number type names 'int'/'uint'/'float', the one difference the decoders have by design) and, when they load, equal generic data or the same kind of Unpack error. (e) after a successful load, memory and file config agree on the generic dump and on ONE forced typed target (map[string]int, map[string]map[string]bool, []int, map[string][]map[string][2]int, []map[string]int, map[string]map[string]map[string]int): same values, or the same message up to the source note, which must be present when the message's path names a setting that exists in the dump and is not null (not demanded with live references: the failing value may come from an Env config or resolver). When two refusals differ only in WHICH duplicate name they report, both loads are repeated 32 times and the difference is accepted iff the two sets of reports intersect (the library walks a Go map when two objects given for one name are merged; several collisions in them are reported in varying order; counted as a class). Non-trivial: the library refused the document at load time under at least one of the two option sets. Distinct: hash of the whole case.",
	Gen:  genReject,
	Run:  runReject,
	// expressions and references are evaluated while loading (a dotted key below a reference): a changed library may recurse without bound
	Journal: true,
})

func TestRejections(t *testing.T) { subReject.Check(t, 12000, 800000) }
