package c18

// Sub-check "references": documents with references whose lists name the same
// setting in several elements, loaded with VarExp through the three front-ends
// and unpacked into generic and into shape-derived typed targets.

import (
	"fmt"
	"os"
	"reflect"
	"regexp"
	"strconv"
	"strings"
	"testing"

	ucfg "github.com/elastic/go-ucfg"
	"pgregory.net/rapid"

	"verif/harness/internal/canon"
	"verif/harness/internal/gen"
	"verif/harness/internal/runlog"
	"verif/harness/internal/uc"
)

// RefCase is one document with references and the way it is written and loaded.
type RefCase struct {
	Doc   *gen.Tree `json:"doc"`             // top-level object or list; strings may hold ${path} / ${path:default}
	Style int       `json:"style,omitempty"` // see Case.Style
	Sep   bool      `json:"sep,omitempty"`   // PathSep(".") next to VarExp
	Files bool      `json:"files,omitempty"` // also load through the *WithFile loaders
}

// ---------------------------------------------------------------------------
// the reference model: every setting is a read of its own; a reference names a
// setting by its full path from the root; a string that is exactly one
// reference is the referenced value, any other string with references is the
// text with the values spliced in, read again as a scalar

var refRe = regexp.MustCompile(`\$\{([^}:]*)(?::([^}]*))?\}`)

const (
	stOK = iota
	stMissing
	stCyclic
)

type refModel struct {
	root    *gen.Tree
	sep     bool
	missing bool // a reference without default names no setting
	cyclic  bool // a reference is reached again while it is being resolved
	unknown bool // something the model does not decide (default next to a cycle, reference to a container or null)
	chained bool // a referenced setting is itself a reference
	deflt   bool // a default was used
}

func (m *refModel) lookup(path string) *gen.Tree {
	parts := []string{path}
	if m.sep {
		parts = strings.Split(path, ".")
	}
	n := m.root
	for _, p := range parts {
		switch n.K {
		case "obj":
			if n = n.Get(p); n == nil {
				return nil
			}
		case "list":
			i, err := strconv.Atoi(p)
			if err != nil || i < 0 || i >= len(n.Vals) {
				return nil
			}
			n = n.Vals[i]
		default:
			// a path that continues below a scalar or a reference (the library treats a scalar as a list of one): not decided here
			m.unknown = true
			return nil
		}
	}
	return n
}

func (m *refModel) ref(path string, active []string) (*gen.Tree, int) {
	for _, a := range active {
		if a == path {
			return nil, stCyclic
		}
	}
	n := m.lookup(path)
	if n == nil {
		return nil, stMissing
	}
	switch {
	case n.K == "str" && strings.Contains(n.S, "${"):
		m.chained = true
		return m.str(n.S, append(append([]string(nil), active...), path))
	case n.IsCont() || n.K == "nil":
		m.unknown = true
	}
	return n.Clone(), stOK
}

func scalarText(n *gen.Tree) (string, bool) {
	switch n.K {
	case "str":
		return n.S, true
	case "int":
		return strconv.FormatInt(n.I, 10), true
	case "bool":
		return strconv.FormatBool(n.B), true
	}
	return "", false
}

func parseScalar(s string) *gen.Tree {
	if i, err := strconv.ParseInt(s, 10, 64); err == nil {
		return gen.Int(i)
	}
	switch s {
	case "true":
		return gen.Bool(true)
	case "false":
		return gen.Bool(false)
	}
	return gen.Str(s)
}

func (m *refModel) str(s string, active []string) (*gen.Tree, int) {
	locs := refRe.FindAllStringSubmatchIndex(s, -1)
	if len(locs) == 0 {
		return gen.Str(s), stOK
	}
	if len(locs) == 1 && locs[0][0] == 0 && locs[0][1] == len(s) && locs[0][4] < 0 {
		return m.ref(s[locs[0][2]:locs[0][3]], active)
	}
	var b strings.Builder
	pos := 0
	for _, l := range locs {
		b.WriteString(s[pos:l[0]])
		pos = l[1]
		v, st := m.ref(s[l[2]:l[3]], active)
		if st != stOK && l[4] >= 0 {
			if st == stCyclic {
				m.unknown = true
			}
			m.deflt = true
			b.WriteString(s[l[4]:l[5]])
			continue
		}
		if st != stOK {
			return nil, st
		}
		txt, ok := scalarText(v)
		if !ok {
			m.unknown = true
		}
		b.WriteString(txt)
	}
	b.WriteString(s[pos:])
	return parseScalar(b.String()), stOK
}

// resolve returns the subtree with every reference replaced by its value.
func (m *refModel) resolve(n *gen.Tree) *gen.Tree {
	switch n.K {
	case "str":
		v, st := m.str(n.S, nil)
		switch st {
		case stMissing:
			m.missing = true
			return gen.Nil()
		case stCyclic:
			m.cyclic = true
			return gen.Nil()
		}
		return v
	case "obj":
		o := gen.Obj()
		for i, k := range n.Keys {
			o.Put(k, m.resolve(n.Vals[i]))
		}
		return o
	case "list":
		l := gen.List()
		for _, v := range n.Vals {
			l.Vals = append(l.Vals, m.resolve(v))
		}
		return l
	}
	return n.Clone()
}

func (m *refModel) outcome() string {
	switch {
	case m.unknown:
		return "not decided by the model"
	case m.missing && m.cyclic:
		return "missing and cyclic"
	case m.missing:
		return "missing"
	case m.cyclic:
		return "cyclic"
	}
	return "resolved"
}

// ---------------------------------------------------------------------------
// what the lists of the document look like

type refShape struct {
	lists        int
	repeatExact  bool // a direct element that is exactly ${x}, and a LATER element of the same list that resolves x again
	repeatOther  bool // two elements of one list resolve the same x, none of the earlier ones being exactly ${x}
	twiceInOne   bool // one string names the same setting twice
	where, forms map[string]bool
}

func namesIn(n *gen.Tree, into map[string]bool) {
	n.Walk(nil, func(_ []string, e *gen.Tree) {
		if e.K == "str" {
			for _, m := range refRe.FindAllStringSubmatch(e.S, -1) {
				into[m[1]] = true
			}
		}
	})
}

func formOf(s string) string {
	ms := refRe.FindAllStringSubmatchIndex(s, -1)
	switch {
	case len(ms) == 0:
		return ""
	case len(ms) == 1 && ms[0][0] == 0 && ms[0][1] == len(s) && ms[0][4] < 0:
		return "exactly ${x}"
	case len(ms) == 1 && ms[0][0] == 0 && ms[0][1] == len(s):
		return "${x:default}"
	case len(ms) == 1 && ms[0][4] >= 0:
		return "${x:default} inside a longer string"
	case len(ms) == 1:
		return "${x} inside a longer string"
	}
	return "several references in one string"
}

func shapeOfRefs(doc *gen.Tree) refShape {
	sh := refShape{where: map[string]bool{}, forms: map[string]bool{}}
	var walk func(n *gen.Tree, depth int, inList bool)
	walk = func(n *gen.Tree, depth int, inList bool) {
		switch n.K {
		case "str":
			if f := formOf(n.S); f != "" {
				sh.forms[f] = true
				seen := map[string]bool{}
				for _, m := range refRe.FindAllStringSubmatch(n.S, -1) {
					if seen[m[1]] {
						sh.twiceInOne = true
					}
					seen[m[1]] = true
				}
			}
		case "obj":
			for _, v := range n.Vals {
				walk(v, depth+1, false)
			}
		case "list":
			refs := map[string]bool{}
			namesIn(n, refs)
			if len(refs) > 0 {
				sh.lists++
				switch {
				case depth == 0:
					sh.where["the document itself (top-level list)"] = true
				case inList:
					sh.where["list inside a list"] = true
				case depth == 1:
					sh.where["value of a top-level key"] = true
				default:
					sh.where["below the top level"] = true
				}
			}
			exact := map[string]bool{}
			earlier := map[string]bool{}
			for _, e := range n.Vals {
				cur := map[string]bool{}
				namesIn(e, cur)
				if e.K == "obj" && len(cur) > 0 {
					sh.where["list of objects"] = true
				}
				for x := range cur {
					if exact[x] {
						sh.repeatExact = true
					} else if earlier[x] {
						sh.repeatOther = true
					}
				}
				for x := range cur {
					earlier[x] = true
				}
				if e.K == "str" && formOf(e.S) == "exactly ${x}" {
					for x := range cur {
						exact[x] = true
					}
				}
				walk(e, depth+1, true)
			}
		}
	}
	walk(doc, 0, false)
	return sh
}

// ---------------------------------------------------------------------------
// the oracle

type refTarget struct {
	name    string
	typ     reflect.Type // nil: uc.Dump (map[string]interface{} / []interface{})
	generic bool
	body    bool      // reads the section "body" only
	want    *gen.Tree // what the model expects (nil: not decided)
	status  string    // model outcome of the part the target reads
	unwrap  bool      // the result is a one-field struct around the value
}

type refRes struct {
	v   interface{}
	err error
}

func bodyField(t reflect.Type) reflect.Type {
	return reflect.StructOf([]reflect.StructField{{Name: "B", Type: t, Tag: `config:"body"`}})
}

func unpackRef(cfg *ucfg.Config, tg *refTarget, opts []ucfg.Option) (r refRes) {
	if tg.typ == nil {
		r.v, r.err = uc.Dump(cfg, opts...)
		return r
	}
	out := reflect.New(tg.typ)
	r.err = uc.Safe("Unpack", func() error { return cfg.Unpack(out.Interface(), opts...) })
	if r.err == nil {
		if tg.unwrap {
			r.v = plainOf(out.Elem().Field(0))
		} else {
			r.v = plainOf(out.Elem())
		}
	}
	return r
}

func reasonOf(err error) error {
	// a fault found while a container is converted is wrapped: the reason of the outer error is the inner error
	for i := 0; i < 8; i++ {
		e, ok := err.(ucfg.Error)
		if !ok {
			return err
		}
		err = e.Reason()
	}
	return err
}

func runRefCase(c RefCase, r *runlog.R) error {
	if c.Doc == nil || !c.Doc.IsCont() {
		r.Discard()
		return nil
	}
	text, err := render(c.Doc, c.Style)
	if err != nil {
		return fmt.Errorf("harness: encoding/json cannot write the document: %v", err)
	}
	fail := func(format string, a ...interface{}) error {
		return fmt.Errorf("%s\noptions: %s\ndocument: %s", fmt.Sprintf(format, a...), optsName(refOptSet(c)), clip(text))
	}
	opts := optsOf(refOptSet(c))

	// model
	whole := &refModel{root: c.Doc, sep: c.Sep}
	wantWhole := whole.resolve(c.Doc)
	var st shapeStats
	targets := []*refTarget{
		{name: "generic (map[string]interface{} / []interface{})", generic: true, status: whole.outcome()},
		{name: "typed (derived from the shape)", status: whole.outcome()},
	}
	if whole.outcome() == "resolved" {
		targets[0].want, targets[1].want = wantWhole, wantWhole
		targets[1].typ = shapeType(wantWhole, &st)
	} else {
		targets[1].typ = shapeType(c.Doc, &st)
	}
	var bodyM *refModel
	if body := c.Doc.Get("body"); c.Doc.K == "obj" && body != nil {
		bodyM = &refModel{root: c.Doc, sep: c.Sep}
		wantBody := bodyM.resolve(body)
		g := &refTarget{name: "generic section (interface{} field)", generic: true, body: true, typ: bodyField(tIface), unwrap: true, status: bodyM.outcome()}
		t := &refTarget{name: "typed section (struct field derived from the shape)", body: true, unwrap: true, status: bodyM.outcome()}
		if bodyM.outcome() == "resolved" {
			g.want, t.want = wantBody, wantBody
			t.typ = bodyField(shapeType(wantBody, &st))
		} else {
			t.typ = bodyField(shapeType(body, &st))
		}
		targets = append(targets, g, t)
	}

	// loads
	type refWay struct {
		name string
		load func() (*ucfg.Config, error)
	}
	var ways []refWay
	for _, l := range loaders {
		l := l
		ways = append(ways, refWay{l.name + ".NewConfig", func() (*ucfg.Config, error) { return l.mem(text, opts...) }})
	}
	if c.Files {
		file, err := writeDoc(text)
		defer os.Remove(file)
		if err != nil {
			return fmt.Errorf("harness: cannot write the document: %v", err)
		}
		for _, l := range loaders {
			l := l
			ways = append(ways, refWay{l.name + ".NewConfigWithFile", func() (*ucfg.Config, error) { return l.file(file, opts...) }})
		}
	}
	res := make([][]refRes, len(ways))
	for wi, w := range ways {
		var cfg *ucfg.Config
		lerr := uc.Safe(w.name, func() (err error) { cfg, err = w.load(); return })
		if lerr != nil || cfg == nil {
			return fail("%s refuses a document whose references are all well-formed: %v", w.name, lerr)
		}
		res[wi] = make([]refRes, len(targets))
		for ti, tg := range targets {
			x := unpackRef(cfg, tg, opts)
			res[wi][ti] = x
			if isPanic(x.err) {
				return fail("%s, %s: %v", w.name, tg.name, x.err)
			}
			// the model's verdict
			switch tg.status {
			case "resolved":
				if x.err != nil {
					return fail("%s, %s target: every reference names an existing setting by its full path and no setting refers to itself, but Unpack fails: %v", w.name, tg.name, x.err)
				}
				if !canon.EqualSplit(x.v, tg.want.Go()) {
					return fail("%s, %s target: a reference does not yield the value of the setting it names:\n got  %s\n want %s", w.name, tg.name, canon.Show(x.v), canon.Show(tg.want.Go()))
				}
			case "cyclic":
				if x.err == nil {
					return fail("%s, %s target: a setting that refers to itself unpacks: %s", w.name, tg.name, canon.Show(x.v))
				}
				if reasonOf(x.err) != ucfg.ErrCyclicReference {
					return fail("%s, %s target: a setting that refers to itself (and no other fault) is not reported as a cyclic reference: %v", w.name, tg.name, x.err)
				}
			case "missing":
				if x.err == nil {
					return fail("%s, %s target: a reference without default to a setting that does not exist unpacks: %s", w.name, tg.name, canon.Show(x.v))
				}
				if reasonOf(x.err) != ucfg.ErrMissing {
					return fail("%s, %s target: a reference to a setting that does not exist (and no other fault) is not reported as missing: %v", w.name, tg.name, x.err)
				}
			case "missing and cyclic":
				if x.err == nil {
					return fail("%s, %s target: a document with an unresolvable reference unpacks: %s", w.name, tg.name, canon.Show(x.v))
				}
			}
		}
		// generic and typed target of the same part agree
		for ti := 0; ti+1 < len(targets); ti += 2 {
			g, t := res[wi][ti], res[wi][ti+1]
			if targets[ti].status == "not decided by the model" {
				continue // the typed target is derived from the unresolved shape and may be unable to hold the data
			}
			if (g.err == nil) != (t.err == nil) {
				return fail("%s: the %s target and the %s target disagree on one document:\n generic %s\n typed   %s", w.name, targets[ti].name, targets[ti+1].name, describe(g.v, g.err), describe(t.v, t.err))
			}
			if g.err == nil && targets[ti].status == "resolved" && !canon.EqualSplit(g.v, t.v) {
				return fail("%s: the %s target and the %s target hold different data:\n generic %s\n typed   %s", w.name, targets[ti].name, targets[ti+1].name, canon.Show(g.v), canon.Show(t.v))
			}
		}
	}
	// the front-ends (and the file loaders) agree with json.NewConfig
	for wi := range ways {
		for ti, tg := range targets {
			a, b := res[1][ti], res[wi][ti]
			same := (a.err == nil) == (b.err == nil)
			if same && a.err == nil {
				same = canon.EqualSplit(a.v, b.v)
			} else if same && (tg.status == "cyclic" || tg.status == "missing") {
				same = kind(a.err) == kind(b.err)
			}
			if !same {
				return fail("%s and %s disagree on the %s target:\n %s\n %s", ways[1].name, ways[wi].name, tg.name, describe(a.v, a.err), describe(b.v, b.err))
			}
		}
	}

	// classes
	sh := shapeOfRefs(c.Doc)
	switch {
	case sh.repeatExact:
		r.Class("repeat: an element exactly ${x}, x resolved again by a LATER element of the same list")
	case sh.repeatOther:
		r.Class("repeat: x resolved by several elements of one list, no earlier one exactly ${x}")
	default:
		r.Class("repeat: none within one list")
	}
	if sh.twiceInOne {
		r.Class("same reference twice in one string")
	}
	for w := range sh.where {
		r.Class("list with references: " + w)
	}
	for f := range sh.forms {
		r.Class("form: " + f)
	}
	if whole.chained {
		r.Class("form: reference to a setting that is itself a reference")
	}
	if whole.deflt {
		r.Class("form: default used (setting missing)")
	}
	r.Class("outcome (whole document): " + whole.outcome())
	if bodyM != nil {
		r.Class("outcome (section body): " + bodyM.outcome())
	}
	if whole.outcome() == "resolved" {
		r.Class("resolved values asserted against the model")
	}
	tk := "targets: generic + typed"
	if len(targets) == 4 {
		tk += " + interface{} field + typed field"
	}
	if st.structs > 0 {
		tk += ", struct"
	}
	if st.slices > 0 {
		tk += ", slice"
	}
	r.Class(tk)
	r.Class("options: " + optsName(refOptSet(c)))
	if c.Files {
		r.Class("six loaders")
	} else {
		r.Class("three in-memory loaders")
	}
	r.Class("top-level " + c.Doc.K)
	r.NonTrivialIf(sh.repeatExact || sh.repeatOther)
	return nil
}

func refOptSet(c RefCase) int {
	if c.Sep {
		return 3
	}
	return 2
}

// ---------------------------------------------------------------------------
// generator

var (
	// strings that the library reads back as the same string when they are the result of a splice
	refWords    = []string{"db-1.internal", "alpha", "h1", "node_a", "srv/x", "v", "Beta", "é"}
	refDefaults = []string{"dflt", "d0", "7", "fallback"}
)

type refGen struct {
	pool []string
	hot  string
}

func (g *refGen) name(t *rapid.T) string {
	if pick(t, 4, "other") == 0 {
		return g.pool[pick(t, len(g.pool), "poolname")]
	}
	return g.hot
}

func (g *refGen) elem(t *rapid.T) string {
	v := g.name(t)
	switch pick(t, 14, "form") {
	case 0, 1, 2, 3, 4, 5:
		return "${" + v + "}"
	case 6:
		return "p-${" + v + "}"
	case 7:
		return "${" + v + "}-s"
	case 8:
		return "a${" + v + "}b${" + v + "}"
	case 9:
		return "${" + v + "}${" + v + "}"
	case 10:
		return "${" + v + ":" + rapid.SampledFrom(refDefaults).Draw(t, "dflt") + "}"
	case 11:
		return rapid.SampledFrom(refWords).Draw(t, "plain")
	case 12:
		return "${" + v + "} and ${" + g.name(t) + "}"
	default:
		return "pre ${" + v + ":" + rapid.SampledFrom(refDefaults).Draw(t, "dflt") + "} post"
	}
}

func (g *refGen) flat(t *rapid.T) *gen.Tree {
	l := gen.List()
	for i, n := 0, 1+pick(t, 4, "len"); i < n; i++ {
		l.Vals = append(l.Vals, gen.Str(g.elem(t)))
	}
	return l
}

// nested: a list whose elements are lists (or a mix of lists and strings)
func (g *refGen) nested(t *rapid.T) *gen.Tree {
	l := gen.List()
	mixed := pick(t, 2, "mixed") == 0
	for i, n := 0, 1+pick(t, 3, "nlen"); i < n; i++ {
		if mixed && pick(t, 2, "strelem") == 0 {
			l.Vals = append(l.Vals, gen.Str(g.elem(t)))
		} else {
			l.Vals = append(l.Vals, g.flat(t))
		}
	}
	return l
}

// objs: a list of objects whose fields refer to settings
func (g *refGen) objs(t *rapid.T) *gen.Tree {
	l := gen.List()
	withList := pick(t, 3, "objlist") == 0
	mixed := pick(t, 4, "objmixed") == 0
	for i, n := 0, 1+pick(t, 3, "olen"); i < n; i++ {
		if mixed && pick(t, 2, "strelem") == 0 {
			l.Vals = append(l.Vals, gen.Str(g.elem(t)))
			continue
		}
		o := gen.Obj().Put("h", gen.Str(g.elem(t)))
		if pick(t, 2, "p") == 0 {
			o.Put("p", gen.Str(g.elem(t)))
		}
		if withList {
			o.Put("hs", g.flat(t))
		}
		l.Vals = append(l.Vals, o)
	}
	return l
}

func (g *refGen) anyList(t *rapid.T) *gen.Tree {
	switch pick(t, 6, "listkind") {
	case 0, 1, 2:
		return g.flat(t)
	case 3, 4:
		return g.nested(t)
	}
	return g.objs(t)
}

func sub(o *gen.Tree, k string) *gen.Tree {
	if s := o.Get(k); s != nil && s.K == "obj" {
		return s
	}
	s := gen.Obj()
	o.Put(k, s)
	return s
}

func genRefCase(t *rapid.T) RefCase {
	c := RefCase{Style: pick(t, 4, "style"), Sep: pick(t, 3, "sep") != 0, Files: pick(t, 4, "files") == 0}
	word := func() *gen.Tree { return gen.Str(rapid.SampledFrom(refWords).Draw(t, "word")) }
	g := &refGen{}
	if pick(t, 6, "toplist") == 0 {
		// the document is a list: its first elements are plain settings, named by their position
		doc := gen.List(word())
		g.pool = []string{"0"}
		if pick(t, 2, "second") == 0 {
			if pick(t, 3, "secondint") == 0 {
				doc.Vals = append(doc.Vals, gen.Int(int64(rapid.IntRange(0, 9999).Draw(t, "n"))))
			} else {
				doc.Vals = append(doc.Vals, word())
			}
			g.pool = append(g.pool, "1")
		}
		if pick(t, 12, "miss") == 0 {
			g.pool = append(g.pool, "9")
		}
		if pick(t, 12, "self") == 0 {
			g.pool = append(g.pool, strconv.Itoa(len(doc.Vals)))
		}
		g.hot = g.pool[pick(t, len(g.pool), "hot")]
		for i, n := 0, 1+pick(t, 4, "items"); i < n; i++ {
			switch pick(t, 5, "item") {
			case 0, 1, 2:
				doc.Vals = append(doc.Vals, gen.Str(g.elem(t)))
			case 3:
				doc.Vals = append(doc.Vals, g.anyList(t))
			default:
				doc.Vals = append(doc.Vals, gen.Obj().Put("h", gen.Str(g.elem(t))).Put("hs", g.flat(t)))
			}
		}
		c.Doc = doc
		return c
	}

	doc := gen.Obj().Put("x", word())
	g.pool = []string{"x"}
	if pick(t, 2, "y") == 0 {
		doc.Put("y", word())
		g.pool = append(g.pool, "y")
	}
	if pick(t, 3, "n") == 0 {
		doc.Put("n", gen.Int(int64(rapid.IntRange(0, 9999).Draw(t, "nv"))))
		g.pool = append(g.pool, "n")
	}
	if pick(t, 5, "t") == 0 {
		doc.Put("t", gen.Bool(rapid.Bool().Draw(t, "tv")))
		g.pool = append(g.pool, "t")
	}
	if pick(t, 3, "sec") == 0 {
		doc.Put("sec", gen.Obj().Put("k", word()).Put("m", gen.Int(int64(rapid.IntRange(0, 99).Draw(t, "mv")))))
		if c.Sep || pick(t, 4, "secnosep") == 0 {
			g.pool = append(g.pool, "sec.k", "sec.m")
		}
	}
	if pick(t, 3, "r1") == 0 {
		doc.Put("r1", gen.Str("${"+g.pool[pick(t, len(g.pool), "r1to")]+"}"))
		g.pool = append(g.pool, "r1")
		if pick(t, 2, "r2") == 0 {
			doc.Put("r2", gen.Str(rapid.SampledFrom([]string{"${r1}", "${r1}", "via-${r1}", "${r1:d0}"}).Draw(t, "r2form")))
			g.pool = append(g.pool, "r2")
		}
	}
	switch pick(t, 20, "cycle") {
	case 0:
		doc.Put("cy", gen.Str("${cy}"))
		g.pool = append(g.pool, "cy")
	case 1:
		doc.Put("c1", gen.Str("${c2}")).Put("c2", gen.Str(rapid.SampledFrom([]string{"${c1}", "p-${c1}"}).Draw(t, "c2form")))
		g.pool = append(g.pool, "c1")
	}
	if pick(t, 14, "miss") == 0 {
		g.pool = append(g.pool, "missing")
	}
	if c.Sep && pick(t, 4, "sibling") == 0 {
		// an element of a list of the document (may not exist, may be the element itself)
		g.pool = append(g.pool, rapid.SampledFrom([]string{"body.hosts.0", "hosts.0", "body.hosts.1", "body.nl.0.0", "body.objs.0.h"}).Draw(t, "sib"))
	}
	g.hot = g.pool[pick(t, len(g.pool), "hot")]

	for i, n := 0, 1+pick(t, 3, "places"); i < n; i++ {
		switch pick(t, 8, "place") {
		case 0:
			doc.Put("hosts", g.anyList(t))
		case 1, 2:
			sub(doc, "body").Put("hosts", g.flat(t))
		case 3:
			sub(sub(doc, "body"), "deep").Put("hosts", g.anyList(t))
		case 4, 5:
			sub(doc, "body").Put("nl", g.nested(t))
		case 6:
			sub(doc, "body").Put("objs", g.objs(t))
		default:
			sub(doc, "body").Put("one", gen.Str(g.elem(t)))
		}
	}
	c.Doc = doc
	return c
}

var subRefs = runlog.Register(&runlog.Sub[RefCase]{
	Name: "references",
	Rule: "Documents with well-formed references, written with encoding/json in one of 4 styles and loaded with VarExp (with and without PathSep(\".\")) through yaml/json/hjson NewConfig and, for a quarter of the cases, NewConfigWithFile. Top-level object: plain settings (strings that read back as themselves, small integers, a boolean, a nested section), optionally settings that are themselves references (one or two hops, also spliced / with default), a setting referring to itself or a pair referring to each other (1 in 10), plus 1-3 lists placed as the value of a top-level key, in the section body, deeper, as a list of lists, or as a list of objects (fields h/p and an inner list hs); or the document is a list whose first elements are plain and are named by position. List elements draw from: exactly ${x}; ${x} inside a longer string (prefix, suffix); the same reference twice in one string; two references; ${x:default} alone and inside text; plain text. One 'hot' name per document is used by 3 of 4 references so that lists repeat it; other names: the other settings, a path into the nested section (mostly with PathSep), an element of a list of the document (sibling or the element itself), a name that does not exist. Model: every setting is a read of its own; a string that is exactly ${path} is the value of the setting at that full path from the root (followed through settings that are references); other strings splice the values (default if the setting is missing) and are read again as integer/boolean/string; a path reached again while it is resolved is cyclic. Asserted per loader: all references resolvable -> the generic target (map[string]interface{} / []interface{}), the typed target derived from the shape of the resolved document (object->struct, homogeneous list->typed slice), an interface{} field for the section body and a typed field for it all unpack and hold exactly the model's values; only cyclic faults -> all targets fail with Reason ErrCyclicReference; only missing -> ErrMissing; both -> all fail; in all these cases the generic and the typed target of the same part agree on success/failure, and all loaders agree with json.NewConfig per target (values, or error kind for single-fault documents). Documents the model does not decide (default next to a cycle, reference to a container or null, path continuing below a scalar or a reference) are only compared between loaders. Non-trivial: some list has two elements resolving the same setting. Distinct: hash of the whole case.",
	Gen:  genRefCase,
	Run:  runRefCase,
})

func TestReferences(t *testing.T) { subRefs.Check(t, 6000, 300000) }
