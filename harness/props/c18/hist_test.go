package c18

// Sub-check "histories": several loads in a row through the three front-ends,
// from files and from memory, that share ONE option slice (windows of one
// backing array, with or without spare capacity) and the option values in it.
// Every load must behave like a load of the same bytes from memory with
// freshly built options, and a config keeps naming the file it was read from
// whatever is loaded afterwards.

import (
	"fmt"
	"os"
	"reflect"
	"strings"
	"testing"
	"unsafe"

	ucfg "github.com/elastic/go-ucfg"
	"github.com/elastic/go-ucfg/parse"
	"pgregory.net/rapid"

	"verif/harness/internal/gen"
	"verif/harness/internal/runlog"
	"verif/harness/internal/uc"
)

// HCase is a history of loads.
type HCase struct {
	Docs    []*gen.Tree `json:"docs"`            // logical documents (top-level objects), spelled like FCase.Doc; document i lives in file i
	Style   int         `json:"style,omitempty"` // as in Case
	Backing []int       `json:"backing"`         // ids of the options appended one by one to the shared slice, see hOption
	Spare   int         `json:"spare,omitempty"` // 0: capacity as append grows it; 1: none (cap == len); n >= 2: allocated with n-1 spare slots
	Steps   []HStep     `json:"steps"`
}

// HStep is one load.
type HStep struct {
	Loader       int  `json:"loader"`                  // 0 yaml, 1 json, 2 hjson
	File         bool `json:"file,omitempty"`          // NewConfigWithFile instead of NewConfig
	Doc          int  `json:"doc"`                     // which file (or the bytes currently in it)
	Lo           int  `json:"lo,omitempty"`            // the options passed are backing[lo:hi] (taken modulo the length; hi >= lo)
	Hi           int  `json:"hi,omitempty"`            //
	Rewrite      int  `json:"rewrite,omitempty"`       // > 0: the file is first rewritten with the text of document (doc+rewrite) mod n
	UnpackShared bool `json:"unpack_shared,omitempty"` // Unpack also receives the shared window (else freshly built options)
}

const (
	hPathSep = iota
	hVarExp
	hResolveEnv
	hResolveNOOP
	hEnv
	hResolve
	nHOptions
)

var hOptionNames = [...]string{"PathSep(\".\")", "VarExp", "ResolveEnv", "ResolveNOOP", "Env(cfg)", "Resolve(fn)"}

const envVarName = "C18_VERIF_ENVVAR"

func init() { os.Setenv(envVarName, "from-os-env") }

func hOption(id int) ucfg.Option {
	switch ((id % nHOptions) + nHOptions) % nHOptions {
	case hPathSep:
		return ucfg.PathSep(".")
	case hVarExp:
		return ucfg.VarExp
	case hResolveEnv:
		return ucfg.ResolveEnv
	case hResolveNOOP:
		return ucfg.ResolveNOOP
	case hEnv:
		return ucfg.Env(ucfg.MustNewFrom(map[string]interface{}{"e1": "from-env-config", "e2": map[string]interface{}{"x": 7}}))
	default:
		return ucfg.Resolve(func(name string) (string, parse.Config, error) {
			if name == "r1" {
				return "from-resolver", parse.NoopConfig, nil
			}
			return "", parse.NoopConfig, ucfg.ErrMissing
		})
	}
}

func hOptions(ids []int) []ucfg.Option {
	out := make([]ucfg.Option, 0, len(ids))
	for _, id := range ids {
		out = append(out, hOption(id))
	}
	return out[:len(out):len(out)]
}

// funcID identifies a function value (the closure object, not only its code).
func funcID(o ucfg.Option) uintptr { return *(*uintptr)(unsafe.Pointer(&o)) }

// hostile targets: every setting is converted into something most settings are not
var hostileTargets = []reflect.Type{
	reflect.TypeOf(map[string]int(nil)),
	reflect.TypeOf(map[string]map[string]bool(nil)),
	reflect.TypeOf(map[string][]map[string][2]int(nil)),
}

// view is everything observed about one loaded config.
type view struct {
	loadErr string
	data    interface{}
	dataErr string
	faults  []string
}

func observe(cfg *ucfg.Config, loadErr error, opts []ucfg.Option) (v view, panicked error) {
	if isPanic(loadErr) {
		return v, loadErr
	}
	if loadErr != nil {
		v.loadErr = errText(loadErr)
		return v, nil
	}
	d, err := uc.Dump(cfg, opts...)
	if isPanic(err) {
		return v, err
	}
	v.data = d
	if err != nil {
		v.dataErr = errText(err)
	}
	for _, t := range hostileTargets {
		to := reflect.New(t)
		err := uc.Safe("Unpack", func() error { return cfg.Unpack(to.Interface(), opts...) })
		if isPanic(err) {
			return v, err
		}
		if err == nil {
			v.faults = append(v.faults, "<nil>")
		} else {
			v.faults = append(v.faults, errText(err))
		}
	}
	return v, nil
}

func (v *view) texts() []string {
	return append([]string{v.loadErr, v.dataErr}, v.faults...)
}

// sameView: got (loaded from file if file != "", with the shared options) against want (the same bytes from memory, fresh options).
func sameView(got, want *view, file string) error {
	names := []string{"load", "generic Unpack", "Unpack into map[string]int", "Unpack into map[string]map[string]bool", "Unpack into map[string][]map[string][2]int"}
	gt, wt := got.texts(), want.texts()
	for i := range gt {
		g := gt[i]
		if file != "" {
			if strings.Count(g, "(source:'") != strings.Count(g, sourceNote(file)[1:]) {
				return fmt.Errorf("%s: the error names a file other than the one the config was loaded from (%s): %s", names[i], file, firstLine(g))
			}
			g = strings.ReplaceAll(g, sourceNote(file), "")
		} else if strings.Contains(g, "(source:'") {
			return fmt.Errorf("%s: the error of a config loaded from memory names a source: %s", names[i], firstLine(g))
		}
		if g != wt[i] {
			return fmt.Errorf("%s differs from a load of the same bytes with freshly built options:\n shared options %s\n fresh options  %s", names[i], firstLine(orOK(gt[i])), firstLine(orOK(wt[i])))
		}
	}
	if got.loadErr == "" && got.dataErr == "" && !sameStage(got.data, nil, want.data, nil, true) {
		return fmt.Errorf("generic data differs from a load of the same bytes with freshly built options:\n shared options %s\n fresh options  %s", describe(got.data, nil), describe(want.data, nil))
	}
	return nil
}

func orOK(s string) string {
	if s == "" {
		return "ok"
	}
	return s
}

func runHistory(c HCase, r *runlog.R) error {
	if len(c.Docs) == 0 || len(c.Steps) == 0 {
		r.Discard()
		return nil
	}
	// the documents; PathSep spelling is used in all of them: loads without PathSep see dotted keys as plain names
	texts := make([][]byte, len(c.Docs))
	for i, d := range c.Docs {
		if d == nil || d.K != "obj" {
			r.Discard()
			return nil
		}
		t, err := render(spell(d, true), c.Style)
		if err != nil {
			return fmt.Errorf("harness: encoding/json cannot write the document: %v", err)
		}
		for _, l := range loaders {
			if _, err := l.dec(t); err != nil {
				r.Discard()
				return nil
			}
		}
		texts[i] = t
	}
	files := make([]string, len(texts))
	content := make([]int, len(texts)) // which document each file holds now
	for i, t := range texts {
		f, err := writeDoc(t)
		if f != "" {
			defer os.Remove(f)
		}
		if err != nil {
			return fmt.Errorf("harness: cannot write the document: %v", err)
		}
		files[i], content[i] = f, i
	}

	// the shared slice
	var backing []ucfg.Option
	if c.Spare >= 2 {
		backing = make([]ucfg.Option, 0, len(c.Backing)+c.Spare-1)
	}
	for _, id := range c.Backing {
		backing = append(backing, hOption(id))
	}
	if c.Spare == 1 {
		backing = backing[:len(backing):len(backing)]
	}
	ids := make([]uintptr, len(backing))
	for i, o := range backing {
		ids[i] = funcID(o)
	}

	describeStep := func(i int) string {
		var b strings.Builder
		for j := 0; j <= i; j++ {
			s := c.Steps[j]
			lo, hi := window(s, len(backing))
			how := "NewConfig"
			if s.File {
				how = "NewConfigWithFile"
			}
			fmt.Fprintf(&b, "\n  step %d: %s.%s(document %d, shared[%d:%d]...)", j, loaders[mod(s.Loader, 3)].name, how, mod(s.Doc, len(texts)), lo, hi)
		}
		var names []string
		for _, id := range c.Backing {
			names = append(names, hOptionNames[mod(id, nHOptions)])
		}
		fmt.Fprintf(&b, "\n  shared = %v, len %d, cap %d", names, len(backing), cap(backing))
		return b.String()
	}

	type kept struct {
		cfg  *ucfg.Config
		opts []ucfg.Option
		view view
		file string
		step int
		refs bool // the document has references
	}
	var keep []kept
	sawFile, sawSpare, sawReuse, fileThenOther := false, false, false, false
	seen := map[string]bool{}
	for si, s := range c.Steps {
		l := loaders[mod(s.Loader, 3)]
		fi := mod(s.Doc, len(texts))
		if s.Rewrite > 0 {
			content[fi] = mod(fi+s.Rewrite, len(texts))
			if err := os.WriteFile(files[fi], texts[content[fi]], 0o644); err != nil {
				return fmt.Errorf("harness: cannot rewrite the document: %v", err)
			}
			seen["file rewritten between loads"] = true
		}
		text := texts[content[fi]]
		lo, hi := window(s, len(backing))
		shared := backing[lo:hi] // capacity reaches to the end of the backing array
		fresh := hOptions(c.Backing[lo:hi])
		if cap(shared) > len(shared) {
			sawSpare = true
		}
		if si > 0 {
			sawReuse = true
		}
		if sawFile {
			fileThenOther = true
		}

		var cfg, ref *ucfg.Config
		var err error
		file := ""
		if s.File {
			file = files[fi]
			err = uc.Safe(l.name+".NewConfigWithFile", func() (e error) { cfg, e = l.file(file, shared...); return })
			sawFile = true
		} else {
			err = uc.Safe(l.name+".NewConfig", func() (e error) { cfg, e = l.mem(text, shared...); return })
		}
		refErr := uc.Safe(l.name+".NewConfig", func() (e error) { ref, e = l.mem(text, fresh...); return })

		uopts := fresh
		if s.UnpackShared {
			uopts = backing[lo:hi]
		}
		got, p := observe(cfg, err, uopts)
		if p != nil {
			return fmt.Errorf("%v%s", p, describeStep(si))
		}
		want, p := observe(ref, refErr, hOptions(c.Backing[lo:hi]))
		if p != nil {
			return fmt.Errorf("%v%s", p, describeStep(si))
		}
		if err := sameView(&got, &want, file); err != nil {
			return fmt.Errorf("step %d: %v\nhistory:%s\ndocument: %s", si, err, describeStep(si), clip(text))
		}
		if err == nil {
			keep = append(keep, kept{cfg, hOptions(c.Backing[lo:hi]), want, file, si, strings.Contains(string(text), "${")})
		}
		// the caller's slice is the caller's
		for i, o := range backing {
			if funcID(o) != ids[i] {
				return fmt.Errorf("step %d changed element %d of the option slice of its caller\nhistory:%s", si, i, describeStep(si))
			}
		}
		if got.loadErr != "" {
			seen["a load fails"] = true
		} else if got.dataErr != "" {
			seen["a generic Unpack fails (reference)"] = true
		}
		for _, f := range got.faults {
			if f != "<nil>" && file != "" && strings.Contains(f, sourceNote(file)) {
				seen["hostile target: error names the step's file"] = true
				break
			}
		}
	}
	// configs loaded earlier still report what they reported (and name their own file)
	for _, k := range keep {
		again, p := observe(k.cfg, nil, k.opts)
		if p != nil {
			return p
		}
		if err := sameView(&again, &k.view, k.file); err != nil {
			return fmt.Errorf("the config of step %d, read again after the whole history: %v\nhistory:%s", k.step, err, describeStep(len(c.Steps)-1))
		}
	}

	for _, l := range []string{"file rewritten between loads", "a load fails", "a generic Unpack fails (reference)", "hostile target: error names the step's file"} {
		r.ClassIf(seen[l], l)
	}
	// all configs of the history merged into one: an error about a setting that exactly one of them has names the
	// file that config was read from (none if it was loaded from memory)
	if len(keep) >= 2 {
		merged := ucfg.New()
		plain := true
		for _, k := range keep {
			for _, f := range k.cfg.GetFields() {
				if strings.Contains(f, ".") {
					plain = false // a dotted name (loaded without PathSep): the first segment of an error path is ambiguous
				}
			}
			if k.refs {
				plain = false // a reference is evaluated in the merged config: the statement does not say whose setting fails
			}
			if err := uc.Safe("Merge", func() error { return merged.Merge(k.cfg) }); err != nil {
				return fmt.Errorf("merging the config of step %d into an empty config fails: %v\nhistory:%s", k.step, err, describeStep(len(c.Steps)-1))
			}
		}
		for _, t := range hostileTargets[:2] {
			to := reflect.New(t)
			err := uc.Safe("Unpack", func() error { return merged.Unpack(to.Interface()) })
			if isPanic(err) {
				return err
			}
			if err == nil {
				continue
			}
			msg := errText(err)
			// whatever is named is a file of the history
			rest := msg
			for _, k := range keep {
				if k.file != "" {
					rest = strings.ReplaceAll(rest, sourceNote(k.file), "")
				}
			}
			if strings.Contains(rest, "(source:'") {
				return fmt.Errorf("merged config: the error names a source that is none of the merged files: %s\nhistory:%s", firstLine(msg), describeStep(len(c.Steps)-1))
			}
			ms := errPathRe.FindAllStringSubmatch(msg, -1)
			if !plain || len(ms) == 0 {
				continue
			}
			top := strings.SplitN(ms[len(ms)-1][1], ".", 2)[0]
			var owners []kept
			for _, k := range keep {
				if k.cfg.HasField(top) {
					owners = append(owners, k)
				}
			}
			if len(owners) != 1 {
				continue
			}
			seen["merged config: error about a setting only one config has"] = true
			o := owners[0]
			if o.file == "" && strings.Contains(msg, "(source:'") {
				return fmt.Errorf("merged config: the setting %q comes from the config of step %d, loaded from memory, but the error names a source: %s\nhistory:%s", top, o.step, firstLine(msg), describeStep(len(c.Steps)-1))
			}
			if o.file != "" && (!strings.Contains(msg, sourceNote(o.file)) || strings.Count(msg, "(source:'") != strings.Count(msg, sourceNote(o.file)[1:])) {
				return fmt.Errorf("merged config: the setting %q was read from %s (step %d), the error does not name that file (only): %s\nhistory:%s", top, o.file, o.step, firstLine(msg), describeStep(len(c.Steps)-1))
			}
		}
	}
	r.ClassIf(seen["merged config: error about a setting only one config has"], "merged config: error about a setting only one config has")
	r.Class(fmt.Sprintf("steps: %d", len(c.Steps)))
	r.Class(fmt.Sprintf("shared options: %d", len(backing)))
	if cap(backing) > len(backing) {
		r.Class("backing array with spare capacity")
	}
	r.ClassIf(sawSpare, "a window with spare capacity behind it")
	r.ClassIf(sawFile, "file load")
	r.ClassIf(fileThenOther, "file load followed by another load")
	r.ClassIf(sawReuse, "slice reused")
	for id := 0; id < nHOptions; id++ {
		for _, b := range c.Backing {
			if mod(b, nHOptions) == id {
				r.Class("option " + hOptionNames[id])
				break
			}
		}
	}
	r.NonTrivialIf(fileThenOther && sawSpare && len(backing) > 0)
	return nil
}

func mod(i, n int) int { return ((i % n) + n) % n }

// window maps a step's bounds onto the backing array.
func window(s HStep, n int) (lo, hi int) {
	if n == 0 {
		return 0, 0
	}
	lo, hi = mod(s.Lo, n+1), mod(s.Hi, n+1)
	if lo > hi {
		lo, hi = hi, lo
	}
	return lo, hi
}

// ---------------------------------------------------------------------------
// generator

var hRefs = []string{"${e1}", "${e2.x}", "${r1}", "${" + envVarName + "}", "${name}", "${a}", "${" + absentKey + "}", "${" + absentKey + ":dflt}", "x${e1}y", "${server.tls}", "${a.b}", "$${a}", "${b}"}

func genHistory(t *rapid.T) HCase {
	g := &fgen{width: 3}
	var c HCase
	c.Style = pick(t, 4, "style")
	nd := 1 + pick(t, 3, "ndocs")
	for i := 0; i < nd; i++ {
		d := g.obj(t, 3, 1)
		d.R = 0
		// a few references
		if pick(t, 3, "refs") == 0 {
			n := 1 + pick(t, 2, "nrefs")
			for j := 0; j < n; j++ {
				k := rapid.SampledFrom(fKeys).Draw(t, "refkey")
				d.Put(k, gen.Str(rapid.SampledFrom(hRefs).Draw(t, "ref")))
			}
		}
		c.Docs = append(c.Docs, d)
	}
	nb := pick(t, 7, "nopts")
	for i := 0; i < nb; i++ {
		// PathSep and VarExp are what documents react to most
		c.Backing = append(c.Backing, rapid.SampledFrom([]int{hPathSep, hPathSep, hVarExp, hVarExp, hResolveEnv, hResolveNOOP, hEnv, hResolve}).Draw(t, "opt"))
	}
	c.Spare = rapid.SampledFrom([]int{0, 0, 0, 1, 2, 3, 5}).Draw(t, "spare")
	ns := 2 + pick(t, 5, "nsteps")
	for i := 0; i < ns; i++ {
		s := HStep{Loader: pick(t, 3, "loader"), File: pick(t, 5, "file") < 3, Doc: pick(t, nd, "doc"), UnpackShared: rapid.Bool().Draw(t, "unpackshared")}
		switch pick(t, 4, "window") {
		case 0, 1:
			s.Lo, s.Hi = 0, nb
		case 2:
			s.Lo, s.Hi = 0, pick(t, nb+1, "hi")
		default:
			s.Lo, s.Hi = pick(t, nb+1, "lo"), pick(t, nb+1, "hi")
		}
		if s.File && pick(t, 6, "rewrite") == 0 {
			s.Rewrite = 1 + pick(t, 2, "rewriteto")
		}
		c.Steps = append(c.Steps, s)
	}
	return c
}

var subHist = runlog.Register(&runlog.Sub[HCase]{
	Name: "histories",
	Rule: "1-3 documents (settings trees as in 'faults', spelled with dotted keys per container, some settings replaced by references to the document, to an Env config, a Resolve function, an OS environment variable, a missing name) live in one file each. ONE option slice is built by appending 0-6 options (PathSep, VarExp, ResolveEnv, ResolveNOOP, Env(cfg), Resolve(fn)) one by one - capacity as append grows it, exactly the length, or allocated with 1-4 spare slots - and 2-6 loads in a row (front-end, file or memory, which document, optionally rewriting the file first with another document) each receive a window shared[lo:hi] of it (whole slice half of the time), so windows have spare capacity behind them that may hold options later loads use. Oracle: every load is compared with yaml/json/hjson NewConfig of the same bytes with freshly built options of the same kinds: same load error, canonically equal generic data, same error text for the generic Unpack and for three hostile typed targets (map[string]int, map[string]map[string]bool, map[string][]map[string][2]int), where the file side may differ only by \" (source:'<file of this step>')\" notes, may name no other file, and the memory side names no source; Unpack receives the shared window or fresh options. After every load the elements of the caller's slice are identical (same function values) to what the caller put there. After the whole history every config loaded on the way is observed again and must report exactly what it reported before (it names its own file, not one loaded later); then all of them are merged into one empty config and unpacked into two of the hostile targets: any source named is a file of the history, and - documents without references and without unsplit dotted names - an error about a top-level setting that exactly one of the configs has names the file that config was read from (none if it came from memory). Non-trivial: a file load is followed by another load, and a window with spare capacity was passed. Distinct: hash of the whole case.",
	Gen:  genHistory,
	Run:  runHistory,
})

func TestHistories(t *testing.T) { subHist.Check(t, 5000, 300000) }
