// Package c18 decides property C18: the YAML, JSON and HJSON front-ends agree
// on every document that is valid in all three syntaxes, and the *WithFile
// loaders behave like the in-memory loaders while recording the file name so
// that errors about a setting mention it.
package c18

import (
	"bytes"
	ejson "encoding/json"
	"fmt"
	"math"
	"os"
	"path/filepath"
	"reflect"
	"sort"
	"strconv"
	"strings"
	"sync/atomic"
	"testing"
	"unicode/utf8"

	ucfg "github.com/elastic/go-ucfg"
	"github.com/elastic/go-ucfg/hjson"
	"github.com/elastic/go-ucfg/json"
	"github.com/elastic/go-ucfg/yaml"
	hjsondec "gopkg.in/hjson/hjson-go.v3"
	yamldec "gopkg.in/yaml.v2"
	"pgregory.net/rapid"

	"verif/harness/internal/canon"
	"verif/harness/internal/gen"
	"verif/harness/internal/runlog"
	"verif/harness/internal/uc"
)

// Case is one document together with the way it is written and loaded.
type Case struct {
	Doc   *gen.Tree `json:"doc"`             // top-level object or list; numbers are "int" (|i| <= 2^53) and "float" nodes
	Style int       `json:"style,omitempty"` // 0 compact, 1 indented by two spaces, 2 compact without HTML escaping, 3 indented by one space without HTML escaping
	Opts  int       `json:"opts,omitempty"`  // option set of the second load (the first is always without options): bit 0 PathSep("."), bit 1 VarExp
	Fault int       `json:"fault,omitempty"` // selects the setting (string, object or list) that is unpacked into an int field
}

const maxExact = int64(1) << 53

// ---------------------------------------------------------------------------
// the three front-ends and the third-party decoders behind them

type loader struct {
	name string
	mem  func([]byte, ...ucfg.Option) (*ucfg.Config, error)
	file func(string, ...ucfg.Option) (*ucfg.Config, error)
	dec  func([]byte) (interface{}, error)
}

var loaders = []loader{
	{"yaml", yaml.NewConfig, yaml.NewConfigWithFile, func(b []byte) (v interface{}, err error) { err = yamldec.Unmarshal(b, &v); return }},
	{"json", json.NewConfig, json.NewConfigWithFile, func(b []byte) (v interface{}, err error) { err = ejson.Unmarshal(b, &v); return }},
	{"hjson", hjson.NewConfig, hjson.NewConfigWithFile, func(b []byte) (v interface{}, err error) { err = hjsondec.Unmarshal(b, &v); return }},
}

func optsOf(set int) []ucfg.Option {
	var o []ucfg.Option
	if set&1 != 0 {
		o = append(o, ucfg.PathSep("."))
	}
	if set&2 != 0 {
		o = append(o, ucfg.VarExp)
	}
	return o
}

func optsName(set int) string {
	return [...]string{"no options", "PathSep(\".\")", "VarExp", "PathSep(\".\")+VarExp"}[set&3]
}

// render serialises the document once with encoding/json.
func render(doc *gen.Tree, style int) ([]byte, error) {
	v := doc.Go()
	switch style & 3 {
	case 0:
		return ejson.Marshal(v)
	case 1:
		return ejson.MarshalIndent(v, "", "  ")
	}
	var buf bytes.Buffer
	enc := ejson.NewEncoder(&buf)
	enc.SetEscapeHTML(false)
	if style&3 == 3 {
		enc.SetIndent("", " ")
	}
	if err := enc.Encode(v); err != nil {
		return nil, err
	}
	return buf.Bytes(), nil
}

// ---------------------------------------------------------------------------
// what the document contains

const yamlSignificant = ":#-[]{},&*!|>'\"%@`"

var yamlWords = map[string]bool{"yes": true, "no": true, "null": true, "~": true, "true": true, "false": true, "on": true, "off": true, "y": true, "n": true}

type docInfo struct {
	depth      int
	yamlSig    bool // a string value or key with a YAML-significant character, a YAML word or leading/trailing blanks
	fracExp    bool // a number whose JSON spelling has a fraction or an exponent
	dottedKey  bool // a key containing '.'
	dollar     bool // a string value containing '$'
	refs       int  // string values containing "${"
	unstable   bool // an integral number whose decimal rendering differs between int and float64 (|x| >= 1e6, or -0)
	outOfRange bool // an integer beyond +-2^53, or an integral float between 2^53 and 1e21 (JSON writes it as an integer literal)
	badNumber  bool // NaN or Inf (not JSON-expressible)
	strings    int
}

func isYAMLSig(s string) bool {
	if strings.ContainsAny(s, yamlSignificant) || yamlWords[strings.ToLower(s)] {
		return true
	}
	return s != "" && (s[0] == ' ' || s[len(s)-1] == ' ' || s[0] == '\t' || s[len(s)-1] == '\t')
}

func analyse(doc *gen.Tree) docInfo {
	in := docInfo{depth: doc.Depth()}
	doc.Walk(nil, func(_ []string, n *gen.Tree) {
		switch n.K {
		case "obj":
			for _, k := range n.Keys {
				if strings.Contains(k, ".") {
					in.dottedKey = true
				}
				if isYAMLSig(k) {
					in.yamlSig = true
				}
			}
		case "str":
			in.strings++
			if isYAMLSig(n.S) {
				in.yamlSig = true
			}
			if strings.Contains(n.S, "$") {
				in.dollar = true
			}
			if strings.Contains(n.S, "${") {
				in.refs++
			}
		case "int":
			if (n.I > maxExact || n.I < -maxExact) && !exactInt(n.I) {
				in.outOfRange = true
			}
			if n.I >= 1000000 || n.I <= -1000000 {
				in.unstable = true
			}
		case "uint":
			if n.U > uint64(maxExact) && !exactUint(n.U) {
				in.outOfRange = true
			}
			if n.U >= 1000000 {
				in.unstable = true
			}
		case "float":
			f := n.FloatVal()
			if math.IsNaN(f) || math.IsInf(f, 0) {
				in.badNumber = true
				return
			}
			a := math.Abs(f)
			if integralExact(f) {
				if a >= 1e6 || (f == 0 && math.Signbit(f)) {
					in.unstable = true
				}
			} else {
				in.fracExp = true
				if f == math.Trunc(f) && a < 1e21 {
					in.outOfRange = true
				}
			}
		}
	})
	return in
}

// exactInt / exactUint: the integer is exactly representable as float64, so the decoders that read numbers as
// float64 (JSON, HJSON) and the one that reads integers exactly (YAML) obtain the same value.
func exactInt(i int64) bool {
	f := float64(i)
	return f >= -9223372036854775808 && f < 9223372036854775808 && int64(f) == i
}

func exactUint(u uint64) bool {
	f := float64(u)
	return f < 18446744073709551616 && uint64(f) == u
}

// integralExact reports whether encoding/json writes f as an integer literal
// that every decoder can represent exactly (|f| <= 2^53).
func integralExact(f float64) bool {
	return f == math.Trunc(f) && math.Abs(f) <= float64(maxExact)
}

// ---------------------------------------------------------------------------
// keys: what a key means to the library

// segs normalises a key into path segments the way the library classifies
// them: an integer literal within [0, 1024] is an index, anything else a name.
func segs(k string, split bool) []string {
	parts := []string{k}
	if split {
		parts = strings.Split(k, ".")
	}
	for i, p := range parts {
		if v, err := strconv.ParseInt(p, 0, 64); err == nil && v >= 0 && v <= 1024 {
			parts[i] = "#" + strconv.FormatInt(v, 10)
		} else {
			parts[i] = "=" + p
		}
	}
	return parts
}

// negativeIndex reports whether a segment of the key is a negative integer
// literal (out of the statement's scope here: C20/C07 own that class, D4).
func negativeIndex(k string) bool {
	for _, p := range append(strings.Split(k, "."), k) {
		if v, err := strconv.ParseInt(p, 0, 64); err == nil && v < 0 {
			return true
		}
	}
	return false
}

func isPrefix(a, b []string) bool {
	if len(a) > len(b) {
		a, b = b, a
	}
	for i := range a {
		if a[i] != b[i] {
			return false
		}
	}
	return true
}

// overlaps reports whether two keys of one object address the same setting or
// one addresses a setting inside the other, with or without a path separator.
func overlaps(a, b string) bool {
	return isPrefix(segs(a, false), segs(b, false)) || isPrefix(segs(a, true), segs(b, true))
}

// keysIndependent reports whether no two keys of any object of the document overlap and none has a negative index segment.
func keysIndependent(doc *gen.Tree) bool {
	ok := true
	doc.Walk(nil, func(_ []string, n *gen.Tree) {
		if n.K != "obj" {
			return
		}
		for i, k := range n.Keys {
			if negativeIndex(k) {
				ok = false
			}
			for _, o := range n.Keys[:i] {
				if overlaps(k, o) {
					ok = false
				}
			}
		}
	})
	return ok
}

func numericKey(k string) bool {
	_, err := strconv.ParseInt(k, 0, 64)
	return err == nil
}

// tagSafe reports whether a key can be the name in a `config:"..."` struct tag
// and is looked up as a name.
func tagSafe(k string) bool {
	return k != "" && utf8.ValidString(k) && !strings.ContainsAny(k, ",.") && !numericKey(k)
}

// ---------------------------------------------------------------------------
// typed targets derived from the document's shape

var (
	tIface   = reflect.TypeOf((*interface{})(nil)).Elem()
	tInt64   = reflect.TypeOf(int64(0))
	tFloat64 = reflect.TypeOf(float64(0))
	tString  = reflect.TypeOf("")
	tBool    = reflect.TypeOf(false)
	tNilPtr  = reflect.TypeOf((*int64)(nil))
)

type shapeStats struct{ structs, slices, maps int }

func sortedIdx(keys []string) []int {
	idx := make([]int, len(keys))
	for i := range idx {
		idx[i] = i
	}
	sort.Slice(idx, func(a, b int) bool { return keys[idx[a]] < keys[idx[b]] })
	return idx
}

// shapeType: object -> struct (field per key, tagged with the key) when every
// key can be a tag name, else map[string]T / map[string]interface{};
// list -> []T when all elements have one type, else []interface{}; integral
// number -> int64, other number -> float64; null -> *int64.
func shapeType(n *gen.Tree, st *shapeStats) reflect.Type {
	switch n.K {
	case "nil":
		return tNilPtr
	case "bool":
		return tBool
	case "int", "uint":
		if (n.K == "int" && (n.I > maxExact || n.I < -maxExact)) || (n.K == "uint" && n.U > uint64(maxExact)) {
			return tFloat64 // large exactly representable integers: no overflow verdicts are compared
		}
		return tInt64
	case "float":
		if integralExact(n.FloatVal()) {
			return tInt64
		}
		return tFloat64
	case "str":
		return tString
	case "obj":
		safe := true
		for _, k := range n.Keys {
			if !tagSafe(k) {
				safe = false
			}
		}
		if safe {
			var fs []reflect.StructField
			for fi, i := range sortedIdx(n.Keys) {
				fs = append(fs, reflect.StructField{
					Name: "F" + strconv.Itoa(fi),
					Type: shapeType(n.Vals[i], st),
					Tag:  reflect.StructTag("config:" + strconv.Quote(n.Keys[i])),
				})
			}
			st.structs++
			return reflect.StructOf(fs)
		}
		st.maps++
		return reflect.MapOf(tString, commonType(n.Vals, st))
	case "list":
		st.slices++
		return reflect.SliceOf(commonType(n.Vals, st))
	}
	panic("bad node kind " + n.K)
}

func commonType(vals []*gen.Tree, st *shapeStats) reflect.Type {
	if len(vals) == 0 {
		return tIface
	}
	t := shapeType(vals[0], st)
	for _, v := range vals[1:] {
		if shapeType(v, st) != t {
			return tIface
		}
	}
	return t
}

// plainOf turns a typed result into generic data (struct -> map keyed by the config name).
func plainOf(v reflect.Value) interface{} {
	switch v.Kind() {
	case reflect.Struct:
		m := map[string]interface{}{}
		for i := 0; i < v.NumField(); i++ {
			name, _ := strconv.Unquote(strings.TrimPrefix(string(v.Type().Field(i).Tag), "config:"))
			m[name] = plainOf(v.Field(i))
		}
		return m
	case reflect.Ptr, reflect.Interface:
		if v.IsNil() {
			return nil
		}
		return plainOf(v.Elem())
	case reflect.Slice:
		out := make([]interface{}, v.Len())
		for i := range out {
			out[i] = plainOf(v.Index(i))
		}
		return out
	case reflect.Map:
		m := map[string]interface{}{}
		it := v.MapRange()
		for it.Next() {
			k := it.Key()
			for k.Kind() == reflect.Interface {
				k = k.Elem()
			}
			m[fmt.Sprint(k.Interface())] = plainOf(it.Value())
		}
		return m
	}
	return v.Interface()
}

// ---------------------------------------------------------------------------
// outcomes

type outcome struct {
	cfg     *ucfg.Config
	loadErr error
	gen     interface{}
	genErr  error
	typ     interface{}
	typErr  error
}

func kind(err error) string {
	if err == nil {
		return "ok"
	}
	if e, ok := err.(ucfg.Error); ok && e.Reason() != nil {
		return fmt.Sprintf("%v: %v", e.Class(), e.Reason())
	}
	return "untyped: " + err.Error()
}

func load(what string, f func() (*ucfg.Config, error), typ reflect.Type, opts []ucfg.Option) (o outcome) {
	o.loadErr = uc.Safe(what, func() (err error) { o.cfg, err = f(); return })
	if o.loadErr == nil && o.cfg == nil {
		o.loadErr = fmt.Errorf("%s returned neither a config nor an error", what)
	}
	if o.loadErr != nil {
		return o
	}
	o.gen, o.genErr = uc.Dump(o.cfg, opts...)
	out := reflect.New(typ)
	o.typErr = uc.Safe("Unpack", func() error { return o.cfg.Unpack(out.Interface(), opts...) })
	if o.typErr == nil {
		o.typ = plainOf(out.Elem())
	}
	return o
}

func isPanic(err error) bool { return err != nil && strings.Contains(err.Error(), " panicked: ") }

// describe renders one stage (data or error) of an outcome.
func describe(v interface{}, err error) string {
	if err != nil {
		return "error: " + firstLine(err.Error())
	}
	return canon.Show(v)
}

func firstLine(s string) string {
	if i := strings.IndexByte(s, '\n'); i >= 0 {
		s = s[:i]
	}
	if len(s) > 300 {
		s = s[:300] + "…"
	}
	return s
}

// sameStage compares one stage of two outcomes. strict: errors must be of the
// same kind; otherwise failing together is enough.
func sameStage(av interface{}, aerr error, bv interface{}, berr error, strict bool) bool {
	if (aerr == nil) != (berr == nil) {
		return false
	}
	if aerr != nil {
		return !strict || kind(aerr) == kind(berr)
	}
	return canon.EqualSplit(av, bv)
}

// genericFails reports whether loading or the generic Unpack failed.
func (o *outcome) genericErr() error {
	if o.loadErr != nil {
		return o.loadErr
	}
	return o.genErr
}

func (o *outcome) typedErr() error {
	if o.loadErr != nil {
		return o.loadErr
	}
	return o.typErr
}

// compare checks two outcomes of the same document; a and b name them.
func compare(a, b string, x, y *outcome, strict bool) error {
	for _, o := range []*outcome{x, y} {
		for _, e := range []error{o.loadErr, o.genErr, o.typErr} {
			if isPanic(e) {
				return e
			}
		}
	}
	if strict {
		// same stage, same kind
		if (x.loadErr == nil) != (y.loadErr == nil) || kind(x.loadErr) != kind(y.loadErr) {
			return fmt.Errorf("%s and %s disagree on loading: %s / %s", a, b, describe(nil, x.loadErr), describe(nil, y.loadErr))
		}
		if x.loadErr != nil {
			return nil
		}
	}
	if !sameStage(x.gen, x.genericErr(), y.gen, y.genericErr(), strict) {
		return fmt.Errorf("%s and %s unpack to different generic data:\n %-6s %s\n %-6s %s", a, b, a, describe(x.gen, x.genericErr()), b, describe(y.gen, y.genericErr()))
	}
	if !sameStage(x.typ, x.typedErr(), y.typ, y.typedErr(), strict) {
		return fmt.Errorf("%s and %s unpack to different typed data:\n %-6s %s\n %-6s %s", a, b, a, describe(x.typ, x.typedErr()), b, describe(y.typ, y.typedErr()))
	}
	return nil
}

// ---------------------------------------------------------------------------
// the conversion fault

type step struct {
	key string
	idx int // >= 0: list position
}

type leaf struct {
	path []step
	what string
}

// faultLeaves lists the settings that cannot be integers — strings that are
// no integer literals, objects with at least one key, lists with at least two
// elements — and are reachable through keys that can be struct tags.
func faultLeaves(n *gen.Tree, path []step, out *[]leaf) {
	add := func(what string) {
		if len(path) > 0 {
			*out = append(*out, leaf{append([]step(nil), path...), what})
		}
	}
	switch n.K {
	case "str":
		if _, err := strconv.ParseInt(n.S, 0, 64); err != nil {
			add(fmt.Sprintf("string %q", n.S))
		}
	case "obj":
		if len(n.Keys) > 0 {
			add("object")
		}
		for i, k := range n.Keys {
			if tagSafe(k) {
				faultLeaves(n.Vals[i], append(path, step{key: k, idx: -1}), out)
			}
		}
	case "list":
		if len(n.Vals) > 1 {
			add("list")
		}
		for i, v := range n.Vals {
			faultLeaves(v, append(path, step{idx: i}), out)
		}
	}
}

// faultType nests, along the path, a struct with the single field on the path
// (objects) or a slice (lists) around an int.
func faultType(path []step) reflect.Type {
	t := reflect.TypeOf(int(0))
	for i := len(path) - 1; i >= 0; i-- {
		if path[i].idx >= 0 {
			t = reflect.SliceOf(t)
		} else {
			t = reflect.StructOf([]reflect.StructField{{Name: "F", Type: t, Tag: reflect.StructTag("config:" + strconv.Quote(path[i].key))}})
		}
	}
	return t
}

func pathString(path []step) string {
	var b strings.Builder
	for _, s := range path {
		if s.idx >= 0 {
			fmt.Fprintf(&b, "[%d]", s.idx)
		} else {
			fmt.Fprintf(&b, ".%q", s.key)
		}
	}
	return b.String()
}

// ---------------------------------------------------------------------------
// the oracle

var fileSeq atomic.Int64

func writeDoc(text []byte) (string, error) {
	e := runlog.Env()
	name := filepath.Join(e.OutDir, fmt.Sprintf("c18-doc-%d-%d-%d.cfg", os.Getpid(), e.Shard, fileSeq.Add(1)))
	return name, os.WriteFile(name, text, 0o644)
}

type verdict struct {
	discard string // non-empty: the document is outside the precondition
	classes []string
}

func (v *verdict) class(format string, a ...interface{}) {
	v.classes = append(v.classes, fmt.Sprintf(format, a...))
}

// checkText is the whole oracle for one document: text is its serialisation,
// doc its structure.
func checkText(text []byte, doc *gen.Tree, optSet, fault int, v *verdict) error {
	in := analyse(doc)
	if doc.K != "obj" && doc.K != "list" {
		v.discard = "top level is not a container"
		return nil
	}
	if in.badNumber || in.outOfRange {
		v.discard = "number outside the JSON-expressible / exactly representable range"
		return nil
	}
	// precondition: valid in all three syntaxes, i.e. the three third-party
	// decoders accept the text and read the same data from it
	var raw [3]interface{}
	for i, l := range loaders {
		d, err := l.dec(text)
		if err != nil {
			v.discard = "rejected by the " + l.name + " decoder"
			return nil
		}
		raw[i] = d
	}
	for i := range loaders {
		if !canon.EqualData(raw[i], raw[1]) {
			v.discard = "the " + loaders[i].name + " decoder reads different data"
			return nil
		}
	}

	file, err := writeDoc(text)
	defer os.Remove(file)
	if err != nil {
		return fmt.Errorf("harness: cannot write the document: %v", err)
	}

	var st shapeStats
	typ := shapeType(doc, &st)
	hostile := in.dottedKey || in.dollar

	sets := []int{0}
	if optSet&3 != 0 {
		if optSet&2 != 0 && in.refs > 0 && in.unstable {
			// a reference spliced into text renders the number; YAML reads an
			// integer where JSON and HJSON read a float64 by design, and the two
			// render differently from 1e6 on
			v.class("skipped: reference next to a number that renders differently as int and float")
		} else {
			sets = append(sets, optSet&3)
		}
	}

	for _, set := range sets {
		opts := optsOf(set)
		// strict: the document has nothing the options could act on, so every
		// load and every generic Unpack succeeds and errors (if any) agree in kind
		strict := set == 0 || (set&1 == 0 || !in.dottedKey) && (set&2 == 0 || !in.dollar)
		var mem, fil [3]outcome
		var memWay, filWay [3]*way
		for i, l := range loaders {
			l := l
			fm := func() (*ucfg.Config, error) { return l.mem(text, opts...) }
			ff := func() (*ucfg.Config, error) { return l.file(file, opts...) }
			mem[i] = load(l.name+".NewConfig", fm, typ, opts)
			fil[i] = load(l.name+".NewConfigWithFile", ff, typ, opts)
			memWay[i] = &way{name: l.name + ".NewConfig(bytes, opts...)", load: fm, err: mem[i].loadErr, v: verdictOf(mem[i].loadErr)}
			filWay[i] = &way{name: l.name + ".NewConfigWithFile(file, opts...)", load: ff, err: fil[i].loadErr, v: verdictOf(fil[i].loadErr)}
		}
		for i, l := range loaders {
			if strict {
				if err := mem[i].genericErr(); err != nil {
					return fmt.Errorf("%s.NewConfig + Unpack (%s) fails on a document valid in all three syntaxes: %v", l.name, optsName(set), err)
				}
			}
			if err := compare(l.name+".NewConfig", l.name+".NewConfigWithFile", &mem[i], &fil[i], strict); err != nil {
				return fmt.Errorf("%s: %v", optsName(set), err)
			}
		}
		for _, i := range []int{0, 2} {
			if err := compare(loaders[1].name, loaders[i].name, &mem[1], &mem[i], strict); err != nil {
				return fmt.Errorf("%s: %v", optsName(set), err)
			}
		}
		// a document the library refuses at load time under these options is refused identically by all six loaders: same
		// error type, Reason, Class, Path and Message, the file loaders adding the source note and nothing else
		if mem[1].loadErr != nil {
			for i := range loaders {
				if err := sourcedLoad(memWay[i], filWay[i], file, v); err != nil {
					return fmt.Errorf("%s: %v", optsName(set), err)
				}
			}
			ro := ROpts{VarExp: set&2 != 0}
			if set&1 != 0 {
				ro.Sep = "."
			}
			for _, i := range []int{0, 2} {
				if err := acrossFrontEnds(memWay[1], memWay[i], ro, v); err != nil {
					return fmt.Errorf("%s: %v", optsName(set), err)
				}
			}
			v.class("refused at load time: %s (verdicts of the six loaders compared)", strings.TrimPrefix(reasonClass(memWay[1].v), "refused: "))
		}
		if !strict {
			if mem[1].genericErr() != nil {
				v.class("hostile: all three fail")
			} else {
				v.class("hostile: all three load")
				if !canon.EqualSplit(mem[1].gen, raw[1]) {
					v.class("hostile: options change the data")
				}
			}
		}
		if mem[1].typedErr() != nil && mem[1].genericErr() == nil {
			v.class("typed target rejected by all three")
		}

		// one conversion fault: the error names the file
		if strict {
			var leaves []leaf
			faultLeaves(doc, nil, &leaves)
			if len(leaves) == 0 {
				if set == 0 {
					v.class("fault: no eligible setting")
				}
				continue
			}
			lf := leaves[((fault%len(leaves))+len(leaves))%len(leaves)]
			ft := faultType(lf.path)
			want := "(source:'" + file + "')"
			for i, l := range loaders {
				to := reflect.New(ft)
				err := uc.Safe("Unpack", func() error { return fil[i].cfg.Unpack(to.Interface(), opts...) })
				if isPanic(err) {
					return err
				}
				if err == nil {
					return fmt.Errorf("%s (%s): unpacking the %s at %s into an int field succeeded", l.name, optsName(set), lf.what, pathString(lf.path))
				}
				if !strings.Contains(err.Error(), want) {
					return fmt.Errorf("%s.NewConfigWithFile (%s): the error for the %s at %s unpacked into an int field does not mention the file:\n got  %s\n want it to contain %s",
						l.name, optsName(set), lf.what, pathString(lf.path), err.Error(), want)
				}
				// the in-memory config fails the same way (without a source)
				tom := reflect.New(ft)
				errm := uc.Safe("Unpack", func() error { return mem[i].cfg.Unpack(tom.Interface(), opts...) })
				if isPanic(errm) {
					return errm
				}
				if errm == nil || kind(errm) != kind(err) {
					return fmt.Errorf("%s (%s): conversion fault at %s: in-memory config gives %q, file config %q", l.name, optsName(set), pathString(lf.path), kind(errm), kind(err))
				}
			}
			if set == 0 {
				v.class("fault: %s at depth %d", strings.SplitN(lf.what, " ", 2)[0], len(lf.path))
			}
		}
	}

	// classes
	v.class("top-level %s", doc.K)
	switch {
	case in.dottedKey && in.dollar:
		v.class("doc: dotted keys and $ values")
	case in.dottedKey:
		v.class("doc: dotted keys")
	case in.dollar:
		v.class("doc: $ values")
	default:
		v.class("doc: plain")
	}
	if hostile && len(sets) > 1 {
		v.class("hostile document loaded with %s", optsName(optSet))
	}
	v.class("second load: %s", optsName(optSet))
	if in.refs > 0 {
		v.class("has ${")
	}
	if st.structs > 0 {
		v.class("typed: struct")
	}
	if st.slices > 0 {
		v.class("typed: slice")
	}
	if st.maps > 0 {
		v.class("typed: map")
	}
	if in.yamlSig {
		v.class("YAML-significant string")
	}
	if in.fracExp {
		v.class("number with fraction/exponent")
	}
	v.class("depth %d", in.depth)
	return nil
}

func nonTrivial(in docInfo) bool { return in.depth >= 2 && (in.yamlSig || in.fracExp) }

func runCase(c Case, r *runlog.R) error {
	if c.Doc == nil {
		r.Discard()
		return nil
	}
	text, err := render(c.Doc, c.Style)
	if err != nil {
		return fmt.Errorf("harness: encoding/json cannot write the document: %v", err)
	}
	var v verdict
	if err := checkText(text, c.Doc, c.Opts, c.Fault, &v); err != nil {
		return fmt.Errorf("%v\ndocument: %s", err, clip(text))
	}
	if v.discard != "" {
		r.Discard()
		return nil
	}
	for _, l := range v.classes {
		r.Class(l)
	}
	r.Class(fmt.Sprintf("style %d", c.Style&3))
	r.NonTrivialIf(nonTrivial(analyse(c.Doc)))
	return nil
}

func clip(b []byte) string {
	if len(b) > 1500 {
		return string(b[:1500]) + "…"
	}
	return string(b)
}

// ---------------------------------------------------------------------------
// generator

var (
	simpleKeys = []string{"a", "b", "c", "d", "e", "name", "k1", "Key", "x_y"}
	oddKeys    = []string{"a b", " a", "a ", "#c", "-", "- a", "y", "yes", "no", "null", "~", "true", "on", "k:v", "k: v", "[x]", "{x}", "x,y",
		"&a", "*a", "!t", "|", ">", "'q'", "\"q\"", "%d", "@h", "`t`", "é", "日本", "😀", "", "0", "1", "2", "00", "0x1", "2000", "1e3", "a/b", "a\\b", "<k>", "?", "a\nb"}
	dottedKeys = []string{"a.b", "a.c", "b.a", "a.b.c", "c.0", "c.1", "d.0.x", ".", "a.", ".a", "a..b", "x.y.z", "é.b", "b.name", "a b.c", "1.a", "0.0"}
	keyRunes   = []rune("abcxyzAZ019_ -#:,[]{}&*!|>'\"%@`/\\<>?=~+()é日😀\t")

	wordStrings = []string{"", "s", "text", "yes", "no", "null", "~", "true", "false", "on", "off", "Yes", "NULL", "1", "12", "1.5", "0x10", "1e3", "-1", ".inf", ".nan", "0o7", "1_000",
		"-", "- a", "a: b", "a:b", "# c", "a #c", "[1]", "[1, 2]", "{a: 1}", "*x", "&x", "!t", "!!str x", "|", ">", "|-", "'", "''", "\"", "\"q\"", "%", "%YAML", "@", "`", "---", "...", "? a",
		" lead", "trail ", "  ", "\ttab", "tab\t", "line\nbreak", "trailing\n", "\r\n", "\\", "\\n", "/", "//c", "/*c*/", "<a&b>", "a,b", ",", "é", "日本", "😀", "\u00a0", "\u2028", "'''", "key: [", "{", "}", "]"}
	rareStrings = []string{"\u0085", "a\u0085b", "\x7f", "\u2029", "\ufeff", "\u0000", "\u001f", "\ufffd", "\u009f"}
	strRunes    = []rune("abcdefxyzABC0123456789 _-:#[]{},&*!|>'\"%@`\\/\n\t<>=~+().?;^é日本😀\u00a0")

	dollarStrings = []string{"$", "a$b", "$$", "$ {a}", "cost: $5", "}$", "$}", "$a", "{$}", "$$$", "a$"}
	refNames      = []string{"a", "b", "c", "d", "name", "a.b", "a.c", "b.a", "c.0", "c.1", "a.b.c", "0", "1", "missing", "a.missing", "x y", ""}
	refForms      = []string{"${%s}", "${%s}", "${%s}", "x${%s}y", "${%s} ", "$${%s}", "${%s:dflt}", "${%s:}", "${%s", "${%s}}", "$${%s", "a,${%s}", "${%s:?msg}", "${%s:+alt}", "${%s:", "${${%s}", "%s ${"}

	edgeInts   = []int64{0, 1, -1, 7, 42, 999999, 1000000, -1000000, 1 << 31, 1<<31 - 1, -(1 << 31), 1 << 32, 1<<53 - 1, 1 << 53, -(1 << 53), 1024, 1025}
	edgeFloats = []float64{0.5, -0.25, 0.1, 1.5, 3.0000000001, 1e21, -1e21, 1e22, 1.5e300, math.MaxFloat64, math.SmallestNonzeroFloat64, 1e-7, -1e-7, 1e-6, 1.0000000000000002,
		math.Copysign(0, -1), 1e6, 123456789, float64(1 << 53), 1e20, 2.5e-5, 1234.5678, 1e100, 6.02214076e23}
)

type genState struct {
	depthMax   int
	width      int
	dotted     bool // keys may contain '.'
	dollar     bool // string values may contain '$'
	refLeft    int  // live references still to be placed
	stableNums bool
}

// pick draws an index in [0, n) almost uniformly (rapid's integer generators
// favour small values); it still shrinks towards 0.
func pick(t *rapid.T, n int, label string) int {
	return int(rapid.Uint64().Draw(t, label) % uint64(n))
}

func (g *genState) key(t *rapid.T) string {
	switch k := pick(t, 12, "keykind"); {
	case k <= 3:
		return rapid.SampledFrom(simpleKeys).Draw(t, "key")
	case k <= 5:
		return rapid.SampledFrom(oddKeys).Draw(t, "oddkey")
	case k <= 9:
		if g.dotted {
			return rapid.SampledFrom(dottedKeys).Draw(t, "dotkey")
		}
		return rapid.SampledFrom(simpleKeys).Draw(t, "key")
	default:
		s := rapid.StringOfN(rapid.SampledFrom(keyRunes), 1, 6, -1).Draw(t, "rndkey")
		if g.dotted && rapid.IntRange(0, 2).Draw(t, "dot") == 0 {
			s += "." + rapid.SampledFrom(simpleKeys).Draw(t, "key")
		}
		return s
	}
}

func (g *genState) str(t *rapid.T) string {
	if g.dollar {
		switch pick(t, 6, "dollar") {
		case 0, 3:
			return rapid.SampledFrom(dollarStrings).Draw(t, "ds")
		case 1, 2:
			if g.refLeft > 0 {
				g.refLeft--
				return fmt.Sprintf(rapid.SampledFrom(refForms).Draw(t, "refform"), rapid.SampledFrom(refNames).Draw(t, "refname"))
			}
		}
	}
	switch k := pick(t, 10, "strkind"); {
	case k <= 4:
		return rapid.SampledFrom(wordStrings).Draw(t, "word")
	case k <= 8:
		return rapid.StringOfN(rapid.SampledFrom(strRunes), 0, 12, -1).Draw(t, "rnd")
	default:
		if pick(t, 40, "rare") == 0 {
			return rapid.SampledFrom(rareStrings).Draw(t, "rarestr")
		}
		// a YAML-significant character in every position class: first, inner, last
		c := string(rapid.SampledFrom([]rune(yamlSignificant)).Draw(t, "sig"))
		return rapid.SampledFrom([]string{c + "a", "a" + c + "b", "a" + c, c + " a", "a " + c, c}).Draw(t, "sigpos")
	}
}

// integers beyond 2^53 that float64 represents exactly (around the limits of int64 and uint64)
var bigExact = []*gen.Tree{gen.Uint(1 << 63), gen.Uint(1<<63 + 2048), gen.Uint(1<<64 - 2048), gen.Int(1 << 62), gen.Int(-(1 << 62)), gen.Int(math.MinInt64),
	gen.Int(1<<53 + 2), gen.Uint(1 << 60), gen.Int(1<<63 - 1024)}

func (g *genState) num(t *rapid.T) *gen.Tree {
	if !g.stableNums && pick(t, 12, "bigexact") == 0 {
		return rapid.SampledFrom(bigExact).Draw(t, "bigexactv").Clone()
	}
	switch pick(t, 6, "numkind") {
	case 0:
		i := rapid.SampledFrom(edgeInts).Draw(t, "edgeint")
		if g.stableNums && (i >= 1000000 || i <= -1000000) {
			i %= 1000000
		}
		return gen.Int(i)
	case 1, 2:
		if g.stableNums {
			return gen.Int(rapid.Int64Range(-999999, 999999).Draw(t, "int"))
		}
		return gen.Int(rapid.Int64Range(-maxExact, maxExact).Draw(t, "int"))
	case 3:
		f := rapid.SampledFrom(edgeFloats).Draw(t, "edgefloat")
		return gen.Float(g.fixFloat(f))
	default:
		return gen.Float(g.fixFloat(rapid.Float64().Draw(t, "float")))
	}
}

// fixFloat maps floats outside the property's domain into it.
func (g *genState) fixFloat(f float64) float64 {
	a := math.Abs(f)
	switch {
	case math.IsNaN(f) || math.IsInf(f, 0):
		return 2.5
	case f == math.Trunc(f) && a > float64(maxExact) && a < 1e21:
		// encoding/json writes these as integer literals beyond 2^53
		return f / 1e21 * 1.0000000001
	case g.stableNums && f == math.Trunc(f) && (a >= 1e6 && a <= float64(maxExact) || f == 0 && math.Signbit(f)):
		return math.Mod(f, 1e6) + 0.5
	}
	return f
}

func (g *genState) value(t *rapid.T, depth int) *gen.Tree {
	// containers: half of the values two or more levels above the bottom, a third one level above it
	hi := 19
	switch {
	case depth <= 0:
		hi = 9
	case depth == 1:
		hi = 14
	}
	switch k := pick(t, hi+1, "kind"); {
	case k == 0:
		return gen.Nil()
	case k == 1:
		return gen.Bool(rapid.Bool().Draw(t, "b"))
	case k <= 4:
		return g.num(t)
	case k <= 9:
		return gen.Str(g.str(t))
	case k <= 12 || k >= 15 && k <= 17:
		return g.obj(t, depth, 0)
	default:
		return g.list(t, depth, 0)
	}
}

func (g *genState) obj(t *rapid.T, depth, min int) *gen.Tree {
	o := gen.Obj()
	n := min + pick(t, g.width-min+1, "nkeys")
	for i := 0; i < n; i++ {
		// keys of one object must address independent settings (see keysIndependent); a few attempts each
		for try := 0; try < 3; try++ {
			k := g.key(t)
			ok := !negativeIndex(k)
			for _, e := range o.Keys {
				if overlaps(k, e) {
					ok = false
				}
			}
			if ok {
				o.Put(k, g.value(t, depth-1))
				break
			}
		}
	}
	return o
}

func (g *genState) list(t *rapid.T, depth, min int) *gen.Tree {
	l := gen.List()
	n := min + pick(t, g.width-min+1, "len")
	mode := rapid.IntRange(0, 3).Draw(t, "listmode") // 0: elements of one kind (typed slices), else anything
	var first *gen.Tree
	for i := 0; i < n; i++ {
		var e *gen.Tree
		if mode == 0 && first != nil {
			switch first.K {
			case "str":
				e = gen.Str(g.str(t))
			case "int", "float":
				e = g.num(t)
			case "bool":
				e = gen.Bool(rapid.Bool().Draw(t, "b"))
			case "obj":
				// same keys, fresh values: often the same struct type
				e = gen.Obj()
				for j, k := range first.Keys {
					if first.Vals[j].IsCont() || rapid.IntRange(0, 3).Draw(t, "samekind") == 0 {
						e.Put(k, g.value(t, depth-2))
					} else {
						e.Put(k, first.Vals[j].Clone())
					}
				}
			default:
				e = g.value(t, depth-1)
			}
		} else {
			e = g.value(t, depth-1)
		}
		if first == nil {
			first = e
		}
		l.Vals = append(l.Vals, e)
	}
	return l
}

func genCase(t *rapid.T) Case {
	g := &genState{depthMax: runlog.Pick(3, 4), width: runlog.Pick(4, 5)}
	c := Case{Style: pick(t, 4, "style"), Fault: rapid.IntRange(0, 15).Draw(t, "fault")}
	switch pick(t, 10, "class") {
	case 0, 1, 2, 3: // plain
		c.Opts = pick(t, 4, "opts")
	case 4, 5:
		g.dotted = true
		c.Opts = rapid.SampledFrom([]int{1, 1, 3, 3, 2, 0}).Draw(t, "opts")
	case 6, 7:
		g.dollar = true
		c.Opts = rapid.SampledFrom([]int{2, 2, 3, 3, 1, 0}).Draw(t, "opts")
	default:
		g.dotted, g.dollar = true, true
		c.Opts = rapid.SampledFrom([]int{3, 3, 3, 1, 2}).Draw(t, "opts")
	}
	if g.dollar {
		// at most one live reference per document: the evaluation of several
		// interdependent references is the subject of C02/C08/C09, not of C18
		g.refLeft = rapid.IntRange(0, 1).Draw(t, "refs")
		g.stableNums = true
	}
	if rapid.IntRange(0, 4).Draw(t, "toplist") == 0 {
		c.Doc = g.list(t, g.depthMax, 1)
	} else {
		c.Doc = g.obj(t, g.depthMax, 2)
	}
	return c
}

var subDocs = runlog.Register(&runlog.Sub[Case]{
	Name: "front-ends",
	Rule: "JSON-expressible documents (top-level object or list, depth <= 3/4, width <= 4/5; strings from YAML words, YAML-significant characters in every position, blanks, escapes, unicode and a wide random alphabet; integers |i| <= 2^53 and larger ones that float64 represents exactly (2^62, 2^63, 2^64-2048, MinInt64 ...), floats incl. exponent spellings, booleans, nulls; keys simple, odd, numeric-looking and — hostile classes — dotted; values — hostile classes — with '$' and at most one ${...} reference) written once with encoding/json in one of 4 styles. Discarded: documents a third-party decoder rejects or on which the three decoders themselves read different data. Oracle: yaml/json/hjson NewConfig and NewConfigWithFile (file under the work directory) without options and with the case's PathSep/VarExp set: generic dump and shape-derived typed target (object->struct, homogeneous list->typed slice, integral->int64, other number->float64) canonically equal across the three and between file and memory; documents the options cannot act on must load and unpack, hostile ones must all load equal or all fail; a document the library refuses at load time under the options (malformed ${ expression) is refused identically by all six loaders: same Go error type, ucfg.Error with the same Reason, Class, Path and Message (number type names aside between front-ends), the file loaders adding (source:'<file>') - which must be there - and nothing else, the in-memory loaders naming no source; one setting that cannot be an integer (a string that is no integer literal, a non-empty object, a list of two or more) unpacked into an int field must fail with (source:'<file>') in the text for all three file loaders and with the same error kind on the in-memory configs. Non-trivial: depth >= 2 and (a string with a YAML-significant character/word/outer blank, or a number with fraction or exponent). Distinct: hash of the whole case.",
	Gen:  genCase,
	Run:  runCase,
})

func TestFrontEnds(t *testing.T) { subDocs.Check(t, 40000, 2400000) }

func TestReplay(t *testing.T) { runlog.ReplayMain(t) }

// ---------------------------------------------------------------------------
// native fuzzing over bytes (thorough tier): all three accept and no options
// => all three agree

// treeOfJSON converts a decoded JSON document (numbers as json.Number) into a
// tree; ok is false if a number is outside the property's domain.
func treeOfJSON(v interface{}) (*gen.Tree, bool) {
	switch x := v.(type) {
	case nil:
		return gen.Nil(), true
	case bool:
		return gen.Bool(x), true
	case string:
		if !utf8.ValidString(x) {
			return nil, false
		}
		return gen.Str(x), true
	case ejson.Number:
		s := x.String()
		if !strings.ContainsAny(s, ".eE") {
			i, err := strconv.ParseInt(s, 10, 64)
			if err != nil || i > maxExact || i < -maxExact {
				return nil, false
			}
			if i == 0 && strings.HasPrefix(s, "-") {
				return gen.Float(math.Copysign(0, -1)), true
			}
			return gen.Int(i), true
		}
		f, err := strconv.ParseFloat(s, 64)
		if err != nil || math.IsInf(f, 0) {
			return nil, false
		}
		// an exponent spelling of an integer beyond 2^53 is read as a float by all three
		return gen.Float(f), true
	case []interface{}:
		l := gen.List()
		for _, e := range x {
			t, ok := treeOfJSON(e)
			if !ok {
				return nil, false
			}
			l.Vals = append(l.Vals, t)
		}
		return l, true
	case map[string]interface{}:
		keys := make([]string, 0, len(x))
		for k := range x {
			keys = append(keys, k)
		}
		sort.Strings(keys)
		o := gen.Obj()
		for _, k := range keys {
			if !utf8.ValidString(k) {
				return nil, false
			}
			t, ok := treeOfJSON(x[k])
			if !ok {
				return nil, false
			}
			o.Put(k, t)
		}
		return o, true
	}
	return nil, false
}

var fuzzSeeds = []string{
	`{"a":1,"b":[true,null,"x"],"c":{"d":1.5e3,"e":"yes"}}`,
	`[{"name":"a: b","v":-0.25},{"name":"# c","v":1e21}]`,
	`{"a b":" lead","k:v":"trail ","-":"- a","~":null,"é":"日本\u2028😀"}`,
	"{\n  \"a\": {\n    \"b\": [\n      1,\n      2\n    ]\n  },\n  \"s\": \"line\\nbreak\\t\\\\ \\\"q\\\" \\u003c\"\n}",
	`{"0":"x","1":{"a":"${a}"},"a.b":"$","c":[[],{}],"n":9007199254740992,"m":-9007199254740992}`,
	`{"a":"[1, 2]","b":"{a: 1}","c":"*x","d":"&x","e":"!t","f":"|","g":">","h":"%","i":"@","j":"` + "`" + `"}`,
	`[]`, `{}`, `[1e-7,0.1,1E+2,-0,0.0]`,
}

func FuzzFrontEnds(f *testing.F) {
	for _, s := range fuzzSeeds {
		f.Add([]byte(s))
	}
	for _, s := range []string{"a: b", "- a", "yes", " # c", "'q' \"q\"", "line\nbreak\ttab", "|\n  x", "&a *a !t %d @h `t`", "{a: [1, 2]}", "\\u0041\\n", "é日本😀\u2028"} {
		f.Add([]byte(s)) // not JSON: used as string content, see below
	}
	f.Fuzz(func(t *testing.T, data []byte) {
		if len(data) > 2048 {
			return
		}
		var doc *gen.Tree
		text := data
		if ejson.Valid(data) {
			dec := ejson.NewDecoder(bytes.NewReader(data))
			dec.UseNumber()
			var v interface{}
			if err := dec.Decode(&v); err != nil {
				return
			}
			var ok bool
			doc, ok = treeOfJSON(v)
			if !ok || !doc.IsCont() || doc.Depth() > 40 {
				return
			}
		} else {
			// bytes that are no JSON document are used as the content of a key and
			// of two strings of a document written by encoding/json, so that the
			// coverage-guided search also explores the string scanners
			if !utf8.Valid(data) {
				return
			}
			s := string(data)
			doc = gen.Obj().Put("k", gen.Str(s)).Put("l", gen.List(gen.Str(s), gen.Obj().Put(s+"x", gen.Bool(true))))
			var err error
			if text, err = render(doc, len(data)&3); err != nil {
				return
			}
		}
		// keys that address the same setting (duplicates after normalisation) or negative indices: C05/C20
		if !keysIndependent(doc) {
			return
		}
		var vd verdict
		if err := checkText(text, doc, 0, len(data), &vd); err != nil {
			t.Fatalf("%v\ndocument: %s", err, clip(text))
		}
	})
}
