package c18

// Sub-check "typed-numbers": the clause "unpack to the same data (numbers
// compared by value) into ... typed targets", over the cross product of number
// magnitudes and target types.
//
// The three front-ends hand numbers to the library in different Go types by
// design: YAML reads an integer literal as int / uint64 and everything else as
// float64, JSON and HJSON read every number as float64. A typed target is
// therefore reached on different conversion paths (integer -> T, unsigned ->
// T, float -> T) which must agree on the outcome for one and the same number:
// all three succeed with the same value, or all three refuse for the same
// reason. The sub-check writes documents whose settings are numbers from the
// whole range - the neighbourhoods of every sized type's limits, of the
// largest number of seconds a time.Duration holds and its multiples (a product
// that wraps around may keep its sign), m*2^n with small offsets, random
// integers of every bit length, fractions next to limits, float32/float64
// extremes - and reads EVERY setting into EVERY target kind (bool, the ten
// sized integer kinds, float32/64, string, time.Duration, interface{}, named
// types), plain, behind pointers, inside structs, maps, slices and arrays, and
// through the five typed getters.
//
// Numbers are restricted to those all three decoders read exactly (|i| <=
// 2^53, larger integers that float64 represents exactly, floats in their
// shortest spelling); this is checked on the decoders' own output and the
// rest is discarded.

import (
	"fmt"
	"math"
	"math/big"
	"os"
	"reflect"
	"strconv"
	"strings"
	"testing"
	"time"

	ucfg "github.com/elastic/go-ucfg"
	"pgregory.net/rapid"

	"verif/harness/internal/canon"
	"verif/harness/internal/gen"
	"verif/harness/internal/runlog"
	"verif/harness/internal/uc"
)

// NCase is one document of numeric settings and the way each is read.
type NCase struct {
	Vals  []NVal `json:"vals"`            // setting k is stored under the key "n<k>"
	Style int    `json:"style,omitempty"` // as in Case
	Opts  int    `json:"opts,omitempty"`  // bit 0 PathSep("."), bit 1 VarExp: given to the loaders and to every read
	File  bool   `json:"file,omitempty"`  // also load through the *WithFile loaders and compare them with the in-memory ones
	// Ref > 0 (only with VarExp, and only if setting Ref-1 is placed directly under its key): the document has one more
	// setting "r": "${n<Ref-1>}", which is read like the setting it refers to
	Ref int `json:"ref,omitempty"`
}

// NVal is one setting.
type NVal struct {
	V     *gen.Tree `json:"v"`               // the value: a number ("int", "uint", "float" node), sometimes a string, bool or null
	Class string    `json:"class,omitempty"` // what the generator aimed at (statistics only)
	Place int       `json:"place,omitempty"` // 0 "n": v   1 "n": {"v": v}   2 "n": [v]   3 "n": [v, v]   4 "n": [{"v": v}]   5 "n.v": v (with PathSep; else like 1)
	Alt   bool      `json:"alt,omitempty"`   // the container of the placement is typed as map / array instead of struct / slice
	Ptr   int       `json:"ptr,omitempty"`   // pointer levels around the target type (0-2)
	Tag   int       `json:"tag,omitempty"`   // validate tag on the outermost field (0: none)
}

var numTags = []string{"", "positive", "nonzero", "min=1", "max=1000"}

type (
	nBool    bool
	nInt     int
	nInt8    int8
	nInt32   int32
	nInt64   int64
	nUint    uint
	nUint16  uint16
	nUint64  uint64
	nFloat32 float32
	nFloat64 float64
	nString  string
)

type numTarget struct {
	name string
	t    reflect.Type
}

var numTargets = []numTarget{
	{"bool", tBool},
	{"int", reflect.TypeOf(int(0))},
	{"int8", reflect.TypeOf(int8(0))},
	{"int16", reflect.TypeOf(int16(0))},
	{"int32", reflect.TypeOf(int32(0))},
	{"int64", tInt64},
	{"uint", reflect.TypeOf(uint(0))},
	{"uint8", reflect.TypeOf(uint8(0))},
	{"uint16", reflect.TypeOf(uint16(0))},
	{"uint32", reflect.TypeOf(uint32(0))},
	{"uint64", reflect.TypeOf(uint64(0))},
	{"float32", reflect.TypeOf(float32(0))},
	{"float64", tFloat64},
	{"string", tString},
	{"time.Duration", reflect.TypeOf(time.Duration(0))},
	{"interface{}", tIface},
	{"named bool", reflect.TypeOf(nBool(false))},
	{"named int", reflect.TypeOf(nInt(0))},
	{"named int8", reflect.TypeOf(nInt8(0))},
	{"named int32", reflect.TypeOf(nInt32(0))},
	{"named int64", reflect.TypeOf(nInt64(0))},
	{"named uint", reflect.TypeOf(nUint(0))},
	{"named uint16", reflect.TypeOf(nUint16(0))},
	{"named uint64", reflect.TypeOf(nUint64(0))},
	{"named float32", reflect.TypeOf(nFloat32(0))},
	{"named float64", reflect.TypeOf(nFloat64(0))},
	{"named string", reflect.TypeOf(nString(""))},
}

var (
	tDuration  = reflect.TypeOf(time.Duration(0))
	tConfigPtr = reflect.TypeOf((*ucfg.Config)(nil))
)

// ---------------------------------------------------------------------------
// document and target types

func nKey(k int) string { return "n" + strconv.Itoa(k) }

func (nv NVal) subtree() *gen.Tree {
	switch nv.Place {
	case 1, 5:
		return gen.Obj().Put("v", nv.V.Clone())
	case 2:
		return gen.List(nv.V.Clone())
	case 3:
		return gen.List(nv.V.Clone(), nv.V.Clone())
	case 4:
		return gen.List(gen.Obj().Put("v", nv.V.Clone()))
	}
	return nv.V.Clone()
}

func (nv NVal) placeName() string {
	names := [...][2]string{{"field", "field"}, {"struct in field", "map in field"}, {"slice of 1", "array of 1"}, {"slice of 2", "array of 2"}, {"slice of structs", "array of structs"},
		{"struct in field, written with a dotted key", "map in field, written with a dotted key"}}
	if nv.Place < 0 || nv.Place >= len(names) {
		return "field"
	}
	if nv.Alt {
		return names[nv.Place][1]
	}
	return names[nv.Place][0]
}

// refTo returns the index of the setting the extra reference setting refers to, or -1.
func (c NCase) refTo() int {
	if c.Opts&2 == 0 || c.Ref <= 0 || c.Ref > len(c.Vals) || c.Vals[c.Ref-1].Place != 0 {
		return -1
	}
	return c.Ref - 1
}

const refKey = "r"

func (c NCase) doc() *gen.Tree {
	d := gen.Obj()
	for k, nv := range c.Vals {
		if nv.Place == 5 && c.Opts&1 != 0 {
			d.Put(nKey(k)+".v", nv.V.Clone())
			continue
		}
		d.Put(nKey(k), nv.subtree())
	}
	if k := c.refTo(); k >= 0 {
		d.Put(refKey, gen.Str("${"+nKey(k)+"}"))
	}
	return d
}

// targetType types the way down to the setting stored under key with leaf type t.
func (nv NVal) targetType(key string, t reflect.Type) reflect.Type {
	for i := 0; i < nv.Ptr%3; i++ {
		t = reflect.PtrTo(t)
	}
	inner := func(t reflect.Type) reflect.Type {
		return reflect.StructOf([]reflect.StructField{field("V", t, "v", "")})
	}
	switch nv.Place {
	case 1, 5:
		if nv.Alt {
			t = reflect.MapOf(tString, t)
		} else {
			t = inner(t)
		}
	case 2, 3:
		if nv.Alt {
			t = reflect.ArrayOf(nv.Place-1, t)
		} else {
			t = reflect.SliceOf(t)
		}
	case 4:
		if nv.Alt {
			t = reflect.ArrayOf(1, inner(t))
		} else {
			t = reflect.SliceOf(inner(t))
		}
	}
	tag := ""
	if nv.Tag > 0 {
		tag = numTags[nv.Tag%len(numTags)]
	}
	return reflect.StructOf([]reflect.StructField{field("F", t, key, tag)})
}

// plainN is plainOf with arrays.
func plainN(v reflect.Value) interface{} {
	if v.Type() == tConfigPtr {
		// an interface{} target may receive a sub-configuration
		if v.IsNil() {
			return nil
		}
		d, err := uc.Dump(v.Interface().(*ucfg.Config))
		if err != nil {
			return "<*ucfg.Config: " + err.Error() + ">"
		}
		return d
	}
	switch v.Kind() {
	case reflect.Struct:
		m := map[string]interface{}{}
		for i := 0; i < v.NumField(); i++ {
			m[v.Type().Field(i).Tag.Get("config")] = plainN(v.Field(i))
		}
		return m
	case reflect.Ptr, reflect.Interface:
		if v.IsNil() {
			return nil
		}
		return plainN(v.Elem())
	case reflect.Slice, reflect.Array:
		out := make([]interface{}, v.Len())
		for i := range out {
			out[i] = plainN(v.Index(i))
		}
		return out
	case reflect.Map:
		m := map[string]interface{}{}
		it := v.MapRange()
		for it.Next() {
			m[fmt.Sprint(it.Key().Interface())] = plainN(it.Value())
		}
		return m
	}
	return v.Interface()
}

// leafValues collects the primitive values of an unpacked target in a fixed order.
func leafValues(v reflect.Value, out *[]reflect.Value) {
	switch v.Kind() {
	case reflect.Ptr, reflect.Interface:
		if !v.IsNil() {
			leafValues(v.Elem(), out)
		}
	case reflect.Struct:
		for i := 0; i < v.NumField(); i++ {
			leafValues(v.Field(i), out)
		}
	case reflect.Slice, reflect.Array:
		for i := 0; i < v.Len(); i++ {
			leafValues(v.Index(i), out)
		}
	case reflect.Map:
		for _, k := range []string{"v"} {
			if e := v.MapIndex(reflect.ValueOf(k)); e.IsValid() {
				leafValues(e, out)
			}
		}
	default:
		*out = append(*out, v)
	}
}

// ---------------------------------------------------------------------------
// what a number is

// numInfo describes the value of a setting.
type numInfo struct {
	isNum    bool
	f        float64 // the value (exact: only numbers float64 represents exactly are generated)
	integral bool
	// unstableText: YAML reads the number as an integer, JSON and HJSON as a float64, and the two render
	// differently as text (from 1e6 on, and -0): text targets are compared for success only
	unstableText bool
}

func infoOf(v *gen.Tree) numInfo {
	var in numInfo
	switch v.K {
	case "int":
		in.isNum, in.f = true, float64(v.I)
	case "uint":
		in.isNum, in.f = true, float64(v.U)
	case "float":
		in.isNum, in.f = true, v.FloatVal()
	default:
		return in
	}
	in.integral = in.f == math.Trunc(in.f)
	a := math.Abs(in.f)
	in.unstableText = in.integral && (a >= 1e6 && a < 1e21 || in.f == 0 && math.Signbit(in.f))
	return in
}

// exactNumber reports whether the three decoders are expected to read the node exactly.
func exactNumber(v *gen.Tree) bool {
	switch v.K {
	case "int":
		return v.I >= -maxExact && v.I <= maxExact || exactInt(v.I)
	case "uint":
		return v.U <= uint64(maxExact) || exactUint(v.U)
	case "float":
		f := v.FloatVal()
		if math.IsNaN(f) || math.IsInf(f, 0) {
			return false
		}
		// encoding/json writes integral floats below 1e21 as integer literals in their shortest digits: beyond
		// 2^53 those digits denote another integer, which YAML reads exactly where it fits 64 bits
		if f == math.Trunc(f) && math.Abs(f) > float64(maxExact) && f >= -9223372036854775808 && f < 18446744073709551616 {
			return false
		}
	}
	return true
}

// numNode is the document node for an exactly representable number.
func numNode(f float64) *gen.Tree {
	if f == math.Trunc(f) && !(f == 0 && math.Signbit(f)) {
		switch {
		case f >= -9223372036854775808 && f < 9223372036854775808:
			return gen.Int(int64(f))
		case f >= 0 && f < 18446744073709551616:
			return gen.Uint(uint64(f))
		}
	}
	return gen.Float(f)
}

// ---------------------------------------------------------------------------
// reads and their comparison

type nread struct {
	val  interface{}
	rv   reflect.Value // typed result (Unpack only)
	err  error
	text bool // the result is text
}

func (r nread) String() string {
	if r.err != nil {
		return "error: " + kind(r.err) + ": " + firstLine(r.err.Error())
	}
	return canon.Show(r.val)
}

const secondNS = 1e9

// sameNumber compares what two front-ends delivered for one read of one setting.
func sameNumber(a, b nread, in numInfo, duration bool) string {
	for _, e := range []error{a.err, b.err} {
		if isPanic(e) {
			return e.Error()
		}
	}
	if (a.err == nil) != (b.err == nil) {
		return "one succeeds, the other fails"
	}
	if a.err != nil {
		va, vb := verdictOf(a.err), verdictOf(b.err)
		ra, rb := va.Reason, vb.Reason
		if in.isNum && in.unstableText {
			// a reason that is no sentinel of the library (time.ParseDuration's, say) may quote the number as text,
			// which renders differently as int and float64 by design: its Go type is compared
			ra, rb = reasonType(ra), reasonType(rb)
		}
		if va.Typed != vb.Typed || ra != rb || va.Class != vb.Class {
			return "they fail for different reasons"
		}
		if va.Path != vb.Path {
			return "they fail naming different settings"
		}
		return ""
	}
	if a.text && in.isNum && in.unstableText {
		return ""
	}
	if canon.EqualData(a.val, b.val) {
		return ""
	}
	if duration && in.isNum && a.rv.IsValid() && b.rv.IsValid() {
		// float seconds -> Duration: within the rounding error of one float64 multiplication (tolerance of C03)
		var la, lb []reflect.Value
		leafValues(a.rv, &la)
		leafValues(b.rv, &lb)
		if len(la) == len(lb) && len(la) > 0 {
			tol := math.Abs(in.f)*secondNS/(1<<52) + 1
			ok := true
			for i := range la {
				if la[i].Kind() != reflect.Int64 || lb[i].Kind() != reflect.Int64 || math.Abs(float64(la[i].Int())-float64(lb[i].Int())) > tol {
					ok = false
				}
			}
			if ok {
				return ""
			}
		}
	}
	return "they deliver different values"
}

func reasonType(id string) string {
	if strings.HasPrefix(id, "ucfg.") {
		return id
	}
	if i := strings.IndexByte(id, '('); i >= 0 {
		return id[:i]
	}
	return id
}

// outcomeClass labels a read for the statistics.
func outcomeClass(r nread) string {
	if r.err == nil {
		return "stored"
	}
	v := verdictOf(r.err)
	if !v.Typed {
		return "refused (untyped error)"
	}
	return "refused: " + reasonType(v.Reason)
}

func targetFamily(t reflect.Type) string {
	switch {
	case t == tDuration:
		return "Duration"
	case t == tIface:
		return "interface{}"
	}
	switch t.Kind() {
	case reflect.Bool:
		return "bool"
	case reflect.String:
		return "string"
	case reflect.Float32, reflect.Float64:
		return "float"
	case reflect.Int, reflect.Int8, reflect.Int16, reflect.Int32, reflect.Int64:
		return "int"
	}
	return "uint"
}

func runNumbers(c NCase, r *runlog.R) error {
	if len(c.Vals) == 0 {
		r.Discard()
		return nil
	}
	for _, nv := range c.Vals {
		if nv.V == nil || nv.V.IsCont() || !exactNumber(nv.V) {
			r.Discard()
			return nil
		}
	}
	doc := c.doc()
	text, err := render(doc, c.Style)
	if err != nil {
		return fmt.Errorf("harness: encoding/json cannot write the document: %v", err)
	}
	// precondition: valid in all three syntaxes - the three decoders accept the text and read the same numbers, exactly
	var raw [3]interface{}
	for i, l := range loaders {
		d, err := l.dec(text)
		if err != nil {
			r.Discard()
			return nil
		}
		raw[i] = d
	}
	for i := range loaders {
		if !canon.EqualData(raw[i], raw[1]) {
			r.Discard()
			return nil
		}
	}
	if !canon.EqualData(raw[1], doc.Go()) {
		r.Discard() // a number the decoders do not read exactly
		return nil
	}

	fail := func(format string, a ...interface{}) error {
		return fmt.Errorf("%s\ndocument: %s", fmt.Sprintf(format, a...), clip(text))
	}
	opts := optsOf(c.Opts)
	var mem, fil [3]*ucfg.Config
	file := ""
	if c.File {
		if file, err = writeDoc(text); err != nil {
			return fmt.Errorf("harness: cannot write the document: %v", err)
		}
		defer os.Remove(file)
	}
	for i, l := range loaders {
		l := l
		if err := uc.Safe(l.name+".NewConfig", func() (e error) { mem[i], e = l.mem(text, opts...); return }); err != nil || mem[i] == nil {
			return fail("%s.NewConfig (%s) fails on a document of plain settings valid in all three syntaxes: %v", l.name, optsName(c.Opts), err)
		}
		if c.File {
			if err := uc.Safe(l.name+".NewConfigWithFile", func() (e error) { fil[i], e = l.file(file, opts...); return }); err != nil || fil[i] == nil {
				return fail("%s.NewConfigWithFile (%s) fails on a document of plain settings valid in all three syntaxes: %v", l.name, optsName(c.Opts), err)
			}
		}
	}
	mustName := func(msg string) bool { d, _ := aboutReadSetting(doc, msg); return d }

	nt := false
	type item struct {
		key string
		nv  NVal
		ref bool
	}
	var items []item
	for k, nv := range c.Vals {
		items = append(items, item{key: nKey(k), nv: nv})
	}
	if k := c.refTo(); k >= 0 {
		items = append(items, item{key: refKey, nv: c.Vals[k], ref: true})
	}
	for _, it := range items {
		nv, key := it.nv, it.key
		if nv.Place == 5 && c.Opts&1 == 0 {
			nv.Place = 1 // without PathSep the setting is written nested
		}
		in := infoOf(nv.V)
		setting := fmt.Sprintf("%s = %s (%s)", key, canon.Show(nv.V.Go()), nv.placeName())
		if it.ref {
			setting = fmt.Sprintf("%s = \"${%s}\", a reference to %s", key, nKey(c.refTo()), canon.Show(nv.V.Go()))
		}
		if nv.Ptr%3 > 0 {
			setting += fmt.Sprintf(", %d pointer level(s)", nv.Ptr%3)
		}
		if nv.Tag%len(numTags) > 0 {
			setting += ", validate:" + numTags[nv.Tag%len(numTags)]
		}
		// every target kind
		for _, tg := range numTargets {
			typ := nv.targetType(key, tg.t)
			unpack := func(cfg *ucfg.Config) nread {
				out := reflect.New(typ)
				rd := nread{text: tg.t.Kind() == reflect.String}
				rd.err = uc.Safe("Unpack", func() error { return cfg.Unpack(out.Interface(), opts...) })
				if rd.err == nil {
					rd.rv = out.Elem()
					rd.val = plainN(out.Elem())
				}
				return rd
			}
			var got [3]nread
			for i := range loaders {
				got[i] = unpack(mem[i])
			}
			for _, i := range []int{0, 2} {
				if why := sameNumber(got[1], got[i], in, tg.t == tDuration); why != "" {
					return fail("%s: %s unpacked into %s: %s and %s disagree: %s\n %-6s %s\n %-6s %s", optsName(c.Opts), setting, tg.name, loaders[1].name, loaders[i].name, why,
						loaders[1].name, got[1], loaders[i].name, got[i])
				}
			}
			if c.File {
				for i, l := range loaders {
					fr := unpack(fil[i])
					if why := sameNumber(got[i], fr, in, tg.t == tDuration); why != "" {
						return fail("%s: %s unpacked into %s: %s.NewConfig and %s.NewConfigWithFile disagree: %s\n memory %s\n file   %s", optsName(c.Opts), setting, tg.name, l.name, l.name, why, got[i], fr)
					}
					if err := checkSourced(fmt.Sprintf("%s (%s): %s unpacked into %s", l.name, optsName(c.Opts), setting, tg.name), file, got[i].err, fr.err, mustName); err != nil {
						return fail("%v", err)
					}
				}
			}
			if in.isNum {
				fam := targetFamily(tg.t)
				r.Class(fmt.Sprintf("number into %s: %s", fam, outcomeClass(got[1])))
				if got[1].err != nil && fam != "bool" && fam != "string" {
					nt = true
				}
			}
		}
		// the typed getters
		if nv.Place == 0 || nv.Place == 2 || nv.Place == 3 {
			idx := -1
			if nv.Place >= 2 {
				idx = nv.Place - 2
			}
			for g := 0; g < 5; g++ {
				read := func(cfg *ucfg.Config) nread {
					rd := nread{text: g == 4}
					var s string
					rd.err = uc.Safe(getterNames[g], func() (e error) { s, e = getter(cfg, g, key, idx, opts); return })
					if rd.err == nil {
						switch g {
						case 1:
							i, _ := strconv.ParseInt(s, 10, 64)
							rd.val = i
						case 2:
							u, _ := strconv.ParseUint(s, 10, 64)
							rd.val = u
						case 3:
							f, _ := strconv.ParseFloat(s, 64)
							rd.val = f
						default:
							rd.val = s
						}
					}
					return rd
				}
				var got [3]nread
				for i := range loaders {
					got[i] = read(mem[i])
				}
				for _, i := range []int{0, 2} {
					if why := sameNumber(got[1], got[i], in, false); why != "" {
						return fail("%s: %s read with %s(%q, %d): %s and %s disagree: %s\n %-6s %s\n %-6s %s", optsName(c.Opts), setting, getterNames[g], key, idx, loaders[1].name, loaders[i].name, why,
							loaders[1].name, got[1], loaders[i].name, got[i])
					}
				}
				if c.File {
					for i, l := range loaders {
						fr := read(fil[i])
						if why := sameNumber(got[i], fr, in, false); why != "" {
							return fail("%s: %s read with %s: %s.NewConfig and %s.NewConfigWithFile disagree: %s\n memory %s\n file   %s", optsName(c.Opts), setting, getterNames[g], l.name, l.name, why, got[i], fr)
						}
						if err := checkSourced(fmt.Sprintf("%s (%s): %s read with %s", l.name, optsName(c.Opts), setting, getterNames[g]), file, got[i].err, fr.err, mustName); err != nil {
							return fail("%v", err)
						}
					}
				}
				if in.isNum {
					r.Class(fmt.Sprintf("number read with %s: %s", getterNames[g], outcomeClass(got[1])))
				}
			}
		}
		if it.ref {
			r.Class("setting read through a ${reference}")
			continue
		}
		if nv.Class != "" {
			r.Class("value: " + nv.Class)
		}
		r.Class("placement: " + nv.placeName())
		r.ClassIf(nv.Ptr%3 > 0, "target behind pointers")
		r.ClassIf(nv.Tag%len(numTags) > 0, "target with a validate tag")
		if in.isNum {
			ym, _ := raw[0].(map[interface{}]interface{})
			yv := ym[key]
			if nv.Place == 5 {
				yv = ym[key+".v"]
			}
			switch leafOf(yv).(type) {
			case int:
				r.Class("YAML delivers int, JSON/HJSON float64")
			case uint64:
				r.Class("YAML delivers uint64, JSON/HJSON float64")
			case float64:
				r.Class("all three deliver float64")
			}
		}
	}
	r.NonTrivialIf(nt)
	r.ClassIf(c.File, "file loaders compared with in-memory loaders")
	r.Class("options: " + optsName(c.Opts))
	return nil
}

// leafOf descends into the decoded placement of a setting.
func leafOf(v interface{}) interface{} {
	for {
		switch x := v.(type) {
		case []interface{}:
			if len(x) == 0 {
				return nil
			}
			v = x[len(x)-1]
		case map[interface{}]interface{}:
			v = x["v"]
		case map[string]interface{}:
			v = x["v"]
		default:
			return v
		}
	}
}

// ---------------------------------------------------------------------------
// generator

var (
	// limits of the sized types (as powers of two) and of float64's exact integers
	limitBits = []int{7, 8, 15, 16, 31, 32, 53, 63, 64}
	// float32 / float64 extremes
	extremeFloats = []float64{math.MaxFloat32, math.Nextafter(math.MaxFloat32, 0), math.Nextafter(math.MaxFloat32, math.Inf(1)), 3.4028235677973366e38, 3.5e38, 0x1p128, 0x1p127,
		math.MaxFloat64, 1e300, 1e-300, math.SmallestNonzeroFloat64, math.SmallestNonzeroFloat32, 1e-46, math.Copysign(0, -1), 0x1p-1074, 1e21, 1e22, 0x1p70, 0x1p100}
	numeralStrings = []string{"12", "-1", "0", "1.5", "1e3", "0x10", "0o17", "0b11", "1_000", "+7", " 5", "20000000000", "9223372036854775808", "-9223372036854775809", "18446744073709551616",
		"1h", "1.5s", "300ms", "-2m", "2540400h", "2562047h", "2562048h", "1e10s", "true", "false", "yes", "on", "T", "1", "", "x", "NaN", "Inf", "-Inf", "1e400", "0.1", "255", "256", "-129"}
)

func pow2(n int) float64 { return math.Ldexp(1, n) }

// ulpAt is the spacing of exactly representable integers around |f|.
func ulpAt(f float64) float64 {
	a := math.Abs(f)
	if a < float64(maxExact) {
		return 1
	}
	_, e := math.Frexp(a)
	return math.Ldexp(1, e-53)
}

// secondsTimes returns floor(k * 2^63 / 1e9): the largest whole number of seconds whose nanoseconds stay below k * 2^63.
func secondsTimes(k int64) int64 {
	x := new(big.Int).Lsh(big.NewInt(k), 63)
	x.Div(x, big.NewInt(1000000000))
	return x.Int64()
}

func genNumber(t *rapid.T) (*gen.Tree, string) {
	sign := func(f float64) float64 {
		if rapid.IntRange(0, 2).Draw(t, "neg") == 0 {
			return -f
		}
		return f
	}
	switch pick(t, 12, "numclass") {
	case 0: // a limit of a sized type, of float64's exact integers, of int64 / uint64
		n := rapid.SampledFrom(limitBits).Draw(t, "limit")
		f := pow2(n)
		f += float64(rapid.IntRange(-3, 3).Draw(t, "off")) * ulpAt(f/2)
		return numNode(sign(f)), "limit of a sized type +-3"
	case 1: // seconds whose nanoseconds are next to a multiple of 2^63 (k = 1: the largest Duration; even k: multiples of 2^64)
		k := int64(rapid.IntRange(1, 12).Draw(t, "k"))
		s := secondsTimes(k) + int64(rapid.IntRange(-2, 3).Draw(t, "off"))
		return numNode(sign(float64(s))), "seconds next to k*2^63 ns"
	case 2: // seconds beyond the largest Duration, any magnitude up to 2^64 (log-uniform)
		n := rapid.IntRange(33, 63).Draw(t, "bits")
		f := math.Trunc(pow2(n) * (1 + rapid.Float64Range(0, 1).Draw(t, "mant")))
		if f > float64(maxExact) {
			f = math.Trunc(f/ulpAt(f)) * ulpAt(f)
		}
		return numNode(sign(f)), "integer between 2^33 and 2^64"
	case 3: // m * 2^n + d: wraps around a sized type m times
		n := rapid.IntRange(7, 64).Draw(t, "n")
		if rapid.Bool().Draw(t, "atlimit") {
			n = rapid.SampledFrom(limitBits).Draw(t, "limit")
		}
		m := float64(rapid.IntRange(1, 33).Draw(t, "m"))
		f := m * pow2(n)
		f += float64(rapid.IntRange(-3, 3).Draw(t, "off")) * ulpAt(f)
		return numNode(sign(f)), "m*2^n +-3"
	case 4: // an integer of any bit length
		n := rapid.IntRange(0, 64).Draw(t, "bits")
		f := math.Trunc(pow2(n) * rapid.Float64Range(0.5, 1).Draw(t, "mant"))
		if f > float64(maxExact) {
			f = math.Trunc(f/ulpAt(f)) * ulpAt(f)
		}
		return numNode(sign(f)), "integer of any bit length"
	case 5: // a fraction next to a limit
		var base float64
		switch rapid.IntRange(0, 3).Draw(t, "fracbase") {
		case 0:
			base = pow2(rapid.SampledFrom([]int{7, 8, 15, 16, 31, 32}).Draw(t, "limit")) + float64(rapid.IntRange(-2, 1).Draw(t, "off"))
		case 1:
			base = float64(secondsTimes(int64(rapid.IntRange(1, 4).Draw(t, "k"))) + int64(rapid.IntRange(-1, 1).Draw(t, "off")))
		case 2:
			base = float64(rapid.IntRange(-2, 2).Draw(t, "small"))
		default:
			base = float64(rapid.Int64Range(-1<<40, 1<<40).Draw(t, "any"))
		}
		frac := rapid.SampledFrom([]float64{0.5, 0.25, 0.75, 0.999, 0.001, 0.854775807, 0.854775808, 0.854776, 0.709551615, 0.709551616, 0.1}).Draw(t, "frac")
		return numNode(sign(base + frac)), "fraction next to a limit"
	case 6:
		return numNode(sign(rapid.SampledFrom(extremeFloats).Draw(t, "extreme"))), "float32/float64 extreme"
	case 7:
		return gen.Int(int64(rapid.IntRange(-10, 10).Draw(t, "small"))), "small integer"
	case 8:
		f := rapid.Float64().Draw(t, "float")
		if math.IsNaN(f) || math.IsInf(f, 0) {
			f = 2.5
		}
		if f == math.Trunc(f) && math.Abs(f) > float64(maxExact) && math.Abs(f) < 18446744073709551616 {
			f = math.Trunc(f/ulpAt(f)) * ulpAt(f)
			return numNode(f), "random float64"
		}
		return numNode(f), "random float64"
	case 9: // seconds as a float with nanosecond digits around the largest Duration and its multiples
		k := int64(rapid.IntRange(1, 4).Draw(t, "k"))
		x := new(big.Float).SetInt(new(big.Int).Lsh(big.NewInt(k), 63))
		x.Quo(x, big.NewFloat(1e9))
		f, _ := x.Float64()
		for i := rapid.IntRange(-3, 3).Draw(t, "ulps"); i != 0; {
			if i > 0 {
				f = math.Nextafter(f, math.Inf(1))
				i--
			} else {
				f = math.Nextafter(f, 0)
				i++
			}
		}
		return numNode(sign(f)), "float seconds next to k*2^63 ns"
	case 10:
		if rapid.Bool().Draw(t, "unsigned") {
			// beyond int64, within uint64: YAML delivers uint64 (multiples of 2048, which float64 represents)
			u := uint64(1)<<63 + uint64(rapid.Uint64Range(0, 1<<52-1).Draw(t, "u"))<<11
			if rapid.IntRange(0, 3).Draw(t, "top") == 0 {
				u = math.MaxUint64 - 2047 - uint64(rapid.IntRange(0, 8).Draw(t, "below"))<<11
			}
			return gen.Uint(u), "integer between 2^63 and 2^64"
		}
		return gen.Int(rapid.Int64Range(-maxExact, maxExact).Draw(t, "int")), "random integer within +-2^53"
	default:
		switch rapid.IntRange(0, 5).Draw(t, "other") {
		case 0:
			return gen.Bool(rapid.Bool().Draw(t, "b")), "bool"
		case 1:
			return gen.Nil(), "null"
		default:
			return gen.Str(rapid.SampledFrom(numeralStrings).Draw(t, "numeral")), "string"
		}
	}
}

func genNumbers(t *rapid.T) NCase {
	c := NCase{Style: pick(t, 4, "style"), Opts: rapid.SampledFrom([]int{0, 0, 0, 1, 2, 3}).Draw(t, "opts"), File: rapid.IntRange(0, 3).Draw(t, "file") == 0}
	n := rapid.IntRange(1, runlog.Pick(5, 8)).Draw(t, "n")
	for i := 0; i < n; i++ {
		v, class := genNumber(t)
		nv := NVal{V: v, Class: class}
		if rapid.IntRange(0, 2).Draw(t, "placed") == 0 {
			nv.Place = rapid.IntRange(1, 5).Draw(t, "place")
			nv.Alt = rapid.Bool().Draw(t, "alt")
		}
		if rapid.IntRange(0, 3).Draw(t, "ptr") == 0 {
			nv.Ptr = rapid.IntRange(1, 2).Draw(t, "ptrs")
		}
		if rapid.IntRange(0, 5).Draw(t, "tagged") == 0 {
			nv.Tag = rapid.IntRange(1, len(numTags)-1).Draw(t, "tag")
		}
		c.Vals = append(c.Vals, nv)
	}
	if c.Opts&2 != 0 && rapid.Bool().Draw(t, "withref") {
		c.Ref = rapid.IntRange(1, n).Draw(t, "ref")
	}
	return c
}

var subNumbers = runlog.Register(&runlog.Sub[NCase]{
	Name: "typed-numbers",
	Rule: "documents {n0: v0, ...} of 1-5 (thorough 1-8) settings written once with encoding/json in one of 4 styles; each value is a number drawn from: a limit of a sized type (2^7, 2^8, 2^15, 2^16, 2^31, 2^32, 2^53, 2^63, 2^64) +-3, whole seconds next to k*2^63 ns for k = 1..12 (k = 1 the largest time.Duration, even k multiples of 2^64), integers log-uniform between 2^33 and 2^64, multiples of 2048 between 2^63 and 2^64 (YAML: uint64), m*2^n+-3 (m <= 33, n = 7..64), integers of every bit length, fractions next to limits, float seconds within 3 ulp of k*2^63 ns, float32/float64 extremes, random float64 and random integers within +-2^53, either sign - integers beyond 2^53 only where float64 represents them exactly - or (1 in 12) a numeral/duration string, bool or null; placed directly under its key, in an object (also written as a dotted key n.v under PathSep), in a list of one or two, or in a list of objects; with VarExp half of the documents hold one more setting r: \"${n<k>}\" that refers to a directly placed setting and is read like it. Discarded: documents on which the three decoders do not read exactly the generated numbers. Oracle: the document is loaded with yaml/json/hjson NewConfig (1 in 4 cases also NewConfigWithFile) under the case's PathSep/VarExp set; EVERY setting is unpacked into EVERY one of 27 target kinds (bool, 10 sized integer kinds, float32/64, string, time.Duration, interface{}, 11 named types) wrapped as the placement demands (struct field, struct or map, slice or array, 0-2 pointer levels, 1 in 6 with a validate tag) and read with the getters Bool/Int/Uint/Float/String; for every read the three front-ends must all succeed with the same value (numbers by value; time.Duration within the rounding error of one float64 multiplication, |d| <= 2^-52*|secs|*1e9+1 ns; text only where int and float render alike: |x| < 1e6) or all fail with the same Reason and Class naming the same setting (a Reason that is no sentinel of the library and may quote a number rendered as text - time.ParseDuration's - is compared by its Go type where int and float render differently); the file loaders must agree with the in-memory loaders and their errors equal the in-memory errors plus (source:'<file>'), which must be there for every non-null setting. Non-trivial: some number is refused by a numeric, Duration or interface{} target. Distinct: hash of the whole case.",
	Gen:  genNumbers,
	Run:  runNumbers,
})

func TestTypedNumbers(t *testing.T) { subNumbers.Check(t, 5000, 400000) }
