package c12

// Sub-check "literal-names": the queries that take a NAME, not an address.
//
// HasField(name) "checks if c has a top-level named key name", GetFields lists
// the top-level named keys, CountField(name) counts the entries of the
// top-level setting of that name (the one HasField and GetFields report) and
// CountField("") counts all top-level settings. In a plain tree of dictionaries
// and lists the answer to each of them is a lookup of the literal string in the
// dictionary part of the receiver - whatever the string looks like (it may
// contain the path separator, it may be spelled like a list index, in any
// integer syntax) and whatever options the call is given (reading decision: the
// library documents PathSep as "supported" by CountField but looks the name up
// literally, DESIGN section 11; the model is the literal lookup).
//
// To make that observable the histories here give EVERY OPERATION ITS OWN
// OPTIONS: no path separator, PathSep("."), PathSep("/"), with and without
// EnableNumKeys. So one tree holds a top-level setting literally named "a.b"
// next to a nested a -> b, a named key "1" (EnableNumKeys) next to list element
// 1, "0x1" next to "1", "a/b" next to a -> b, below the root and below child
// handles. The tree is compared with the model through the API only (GetFields,
// HasField, CountField, IsDict, IsArray, Child and the getters with the literal
// spelling of every key), because the generic view cannot tell a key "1" from
// list element 1.

import (
	"fmt"
	"sort"
	"strconv"
	"strings"
	"testing"

	ucfg "github.com/elastic/go-ucfg"
	"pgregory.net/rapid"

	"verif/harness/internal/model"
	"verif/harness/internal/runlog"
	"verif/harness/internal/uc"
)

const (
	lSet    = "set"
	lRemove = "remove"
	lChild  = "child"
)

type litOp struct {
	Kind string `json:"kind"`
	H    int    `json:"h,omitempty"` // receiver: 0 the root, k > 0 pooled handle (k-1) modulo pool size
	Name string `json:"name"`
	Idx  int    `json:"idx"`
	Sep  string `json:"sep,omitempty"` // "" = no PathSep option
	NK   bool   `json:"nk,omitempty"`  // EnableNumKeys(true)
	Typ  int    `json:"typ,omitempty"` // 0 int, 1 string, 2 bool
	Val  int64  `json:"val,omitempty"`
}

func (o litOp) String() string {
	s := fmt.Sprintf("%s h=%d (%q,%d)", o.Kind, o.H, o.Name, o.Idx)
	if o.Sep != "" {
		s += fmt.Sprintf(" PathSep(%q)", o.Sep)
	}
	if o.NK {
		s += " EnableNumKeys"
	}
	if o.Kind == lSet {
		s += fmt.Sprintf(" value %v", litVal(o))
	}
	return s
}

type litCase struct {
	Ops    []litOp  `json:"ops"`
	Probes []string `json:"probes"`
}

func litVal(o litOp) interface{} {
	switch o.Typ {
	case 1:
		return "s" + strconv.FormatInt(o.Val, 10)
	case 2:
		return o.Val%2 == 0
	}
	return o.Val
}

func litOpts(sep string, nk bool) []ucfg.Option {
	var out []ucfg.Option
	if sep != "" {
		out = append(out, ucfg.PathSep(sep))
	}
	if nk {
		out = append(out, ucfg.EnableNumKeys(true))
	}
	return out
}

// litSegs: the segments of an address under the options of one call. With
// EnableNumKeys a name that is ONE segment is a named key whatever it looks
// like ("numeric keys, such as 1234"); a name the separator splits is parsed
// as before (the library's documented fallback for "inputs.0.i").
func litSegs(name string, idx int, sep string, nk bool) []model.Seg {
	if name != "" && nk && (sep == "" || !strings.Contains(name, sep)) {
		segs := []model.Seg{model.NameSeg(name)}
		if idx >= 0 {
			segs = append(segs, model.IdxSeg(idx))
		}
		return segs
	}
	return model.ParseAddr(name, idx, sep)
}

// names that are also paths or indices under one of the option sets
var litNames = []string{
	"a", "a.b", "l", "1", "a", "b", "a.b.c", "a/b", "l.0", "l.1", "0", "0x1", "2", "01", "a.0", "a.1", "a.0x1",
	"1.a", "0.a", "1.0", "1/0", "l/1", "b.1.x", "a.b/c", "0b1", "l.0.a", "a.l", "a.l.1", "", "",
}

var litSeps = []string{"", ".", "", ".", ".", "/"}

func genLitCase(t *rapid.T) litCase {
	var c litCase
	n := rapid.IntRange(3, runlog.Pick(14, 22)).Draw(t, "nops")
	for i := 0; i < n; i++ {
		op := litOp{Kind: lSet}
		switch k := rapid.IntRange(0, 9).Draw(t, "kind"); {
		case k >= 8:
			op.Kind = lRemove
		case k == 7:
			op.Kind = lChild
		}
		if rapid.IntRange(0, 9).Draw(t, "viaHandle") < 3 {
			op.H = rapid.IntRange(1, 4).Draw(t, "h")
		}
		op.Name = rapid.SampledFrom(litNames).Draw(t, "name")
		if i > 0 && rapid.IntRange(0, 9).Draw(t, "again") < 3 {
			// the spelling of an earlier operation, under other options
			op.Name = c.Ops[rapid.IntRange(0, i-1).Draw(t, "earlier")].Name
		}
		op.Idx = rapid.SampledFrom([]int{-1, -1, -1, 0, 1, 2}).Draw(t, "idx")
		if op.Name == "" && op.Idx < 0 {
			op.Idx = rapid.IntRange(0, 2).Draw(t, "idx0")
		}
		op.Sep = rapid.SampledFrom(litSeps).Draw(t, "sep")
		op.NK = rapid.IntRange(0, 9).Draw(t, "nk") < 3
		if op.Kind == lChild && i > 0 && rapid.IntRange(0, 9).Draw(t, "childOfEarlier") < 8 {
			// a container an earlier operation built: the list it wrote into, or the parent of its setting
			e := c.Ops[rapid.IntRange(0, i-1).Draw(t, "childOf")]
			op.Name, op.Sep, op.NK, op.Idx = e.Name, e.Sep, e.NK, -1
			if k := strings.LastIndex(e.Name, e.Sep); e.Sep != "" && k > 0 && (e.Idx < 0 || rapid.Bool().Draw(t, "parent")) {
				op.Name = e.Name[:k]
			} else if e.Name == "" {
				op.Idx = e.Idx
			}
		}
		if op.Kind == lSet {
			op.Typ = rapid.IntRange(0, 2).Draw(t, "typ")
			op.Val = int64(rapid.IntRange(0, 99).Draw(t, "val"))
		}
		c.Ops = append(c.Ops, op)
	}
	np := rapid.IntRange(2, 5).Draw(t, "nprobes")
	for i := 0; i < np; i++ {
		c.Probes = append(c.Probes, rapid.SampledFrom(litNames).Draw(t, "probe"))
	}
	return c
}

type litHandle struct {
	C *ucfg.Config
	M *model.Node
}

// the option sets every name query is repeated with
var litQueryOpts = []struct {
	what string
	opts []ucfg.Option
}{
	{"no options", nil},
	{"PathSep(\".\")", []ucfg.Option{ucfg.PathSep(".")}},
	{"PathSep(\"/\")", []ucfg.Option{ucfg.PathSep("/")}},
	{"EnableNumKeys", []ucfg.Option{ucfg.EnableNumKeys(true)}},
	{"PathSep(\".\"), EnableNumKeys", []ucfg.Option{ucfg.PathSep("."), ucfg.EnableNumKeys(true)}},
	{"PathSep(\".\"), MaxIdx(0)", []ucfg.Option{ucfg.PathSep("."), ucfg.MaxIdx(0)}},
	{"VarExp, PathSep(\".\")", []ucfg.Option{ucfg.VarExp, ucfg.PathSep(".")}},
}

// litProbes: names that are addresses of something below m under some option
// set (paths to grandchildren with both separators, the indices of the list
// part in several integer syntaxes, one past the end), and the names of m's
// own keys with a separator and an index appended.
func litProbes(m *model.Node) []string {
	var out []string
	for i := 0; i <= len(m.A) && i < 3; i++ {
		out = append(out, strconv.Itoa(i), "0x"+strconv.Itoa(i), "0"+strconv.Itoa(i))
		if i < len(m.A) && m.A[i].Kind == "cont" {
			for _, k := range m.A[i].SortedKeys() {
				out = append(out, strconv.Itoa(i)+"."+k, strconv.Itoa(i)+"/"+k)
			}
			if len(m.A[i].A) > 0 {
				out = append(out, strconv.Itoa(i)+".0", strconv.Itoa(i)+"/0")
			}
		}
	}
	for _, k := range m.SortedKeys() {
		v := m.D[k]
		out = append(out, k+".0", k+"/0")
		if v.Kind != "cont" {
			continue
		}
		for _, kk := range v.SortedKeys() {
			out = append(out, k+"."+kk, k+"/"+kk)
		}
		if len(v.A) > 1 {
			out = append(out, k+".1", k+".0x1")
		}
	}
	return out
}

// litCheck compares one config with its model node through the API,
// recursively; depth guards against a library that returns ever deeper children.
func litCheck(c *ucfg.Config, m *model.Node, what string, probes []string, depth int, r *runlog.R) error {
	if c == nil {
		return fmt.Errorf("%s: nil config", what)
	}
	keys := m.SortedKeys()
	got := append([]string(nil), c.GetFields()...)
	sort.Strings(got)
	if strings.Join(got, "\x00") != strings.Join(keys, "\x00") || len(got) != len(keys) {
		return fmt.Errorf("%s: GetFields() = %q, the model has the named keys %q", what, got, keys)
	}
	if d := c.IsDict(); d != (len(keys) > 0) {
		return fmt.Errorf("%s: IsDict() = %v but the model has %d named keys", what, d, len(keys))
	}
	if a := c.IsArray(); a != m.IsList() {
		return fmt.Errorf("%s: IsArray() = %v but the model says %v (%d list elements)", what, a, m.IsList(), len(m.A))
	}
	for _, q := range litQueryOpts {
		if n, err := c.CountField("", q.opts...); err != nil || n != len(m.A)+len(keys) {
			return fmt.Errorf("%s: CountField(\"\") with %s = %d, %v; the model has %d list elements and %d named keys", what, q.what, n, err, len(m.A), len(keys))
		}
	}
	if c.HasField("") {
		return fmt.Errorf("%s: HasField(\"\") = true", what)
	}
	literal := []ucfg.Option{ucfg.EnableNumKeys(true)} // no separator, numeric keys: the name is one named segment
	for _, k := range keys {
		v := m.D[k]
		if !c.HasField(k) {
			return fmt.Errorf("%s: HasField(%q) = false for a named key of the model", what, k)
		}
		first := 0
		for j, q := range litQueryOpts {
			n, err := c.CountField(k, q.opts...)
			if err != nil {
				return fmt.Errorf("%s: CountField(%q) with %s failed: %v", what, k, q.what, err)
			}
			if j == 0 {
				first = n
			} else if n != first {
				return fmt.Errorf("%s: CountField(%q) = %d with %s but %d with %s: the name is looked up literally at the top level whatever the options", what, k, first, litQueryOpts[0].what, n, q.what)
			}
			switch {
			case v.Kind == "nil" && (n < 0 || n > 1):
				return fmt.Errorf("%s: CountField(%q) with %s = %d for a nil setting", what, k, q.what, n)
			case v.Kind == "prim" && n != 1:
				return fmt.Errorf("%s: CountField(%q) with %s = %d for a primitive", what, k, q.what, n)
			case v.Kind == "cont" && v.IsList() && len(v.D) == 0 && n != len(v.A):
				return fmt.Errorf("%s: CountField(%q) with %s = %d for a list of %d elements", what, k, q.what, n, len(v.A))
			case n < 0:
				return fmt.Errorf("%s: CountField(%q) with %s = %d for an existing setting", what, k, q.what, n)
			}
		}
		pathLike := strings.ContainsAny(k, "./")
		idxLike := model.ClassifySeg(k).IsIdx
		r.ClassIf(pathLike, "name query for an existing top-level key that contains a separator")
		r.ClassIf(idxLike, "name query for an existing top-level key spelled like an index")
		if pathLike {
			// the same spelling read as a path: does it address another setting?
			for _, sep := range []string{".", "/"} {
				if !strings.Contains(k, sep) {
					continue
				}
				if o, err := m.Lookup(model.ParseAddr(k, -1, sep)); err == nil && o != v {
					r.Class("top-level key whose spelling is also the path of ANOTHER existing setting")
				}
			}
		}
		if idxLike {
			if i := model.ClassifySeg(k).Idx; i < len(m.A) {
				r.Class("top-level key spelled like the index of an existing list element")
			}
		}
		if err := litValue(c, k, -1, literal, v, fmt.Sprintf("%s: key %q", what, k), probes, depth, r); err != nil {
			return err
		}
	}
	for i, e := range m.A {
		if err := litValue(c, "", i, nil, e, fmt.Sprintf("%s: element %d", what, i), probes, depth, r); err != nil {
			return err
		}
	}
	// names that are no top-level key: nothing to count, whatever they address as paths
	seen := map[string]bool{}
	for _, p := range append(litProbes(m), probes...) {
		if _, isKey := m.D[p]; isKey || p == "" || seen[p] {
			continue
		}
		seen[p] = true
		if c.HasField(p) {
			return fmt.Errorf("%s: HasField(%q) = true, the model has no such named key (%q)", what, p, keys)
		}
		addresses := false
		for _, sep := range []string{"", ".", "/"} {
			if _, err := m.Lookup(model.ParseAddr(p, -1, sep)); err == nil {
				addresses = true
			}
		}
		r.ClassIf(addresses, "name query for a name that is no top-level key but the path or index of an existing setting")
		r.ClassIf(!addresses, "name query for a name that addresses nothing")
		for _, q := range litQueryOpts {
			n, err := c.CountField(p, q.opts...)
			if err == nil || n != -1 {
				return fmt.Errorf("%s: CountField(%q) with %s = %d, %v; there is no top-level setting of that name (named keys %q, %d list elements): want -1 and an error", what, p, q.what, n, err, keys, len(m.A))
			}
		}
	}
	return nil
}

// litValue: the setting at (name, idx) of c, read with opts, is v.
func litValue(c *ucfg.Config, name string, idx int, opts []ucfg.Option, v *model.Node, what string, probes []string, depth int, r *runlog.R) error {
	has, err := c.Has(name, idx, opts...)
	if err != nil || !has {
		return fmt.Errorf("%s: Has = %v, %v for an existing setting", what, has, err)
	}
	switch v.Kind {
	case "prim":
		var got interface{}
		var err error
		switch v.Prim.(type) {
		case int64:
			got, err = c.Int(name, idx, opts...)
		case string:
			got, err = c.String(name, idx, opts...)
		case bool:
			got, err = c.Bool(name, idx, opts...)
		}
		if err != nil || got != v.Prim {
			return fmt.Errorf("%s: read %#v, %v; the model holds %#v", what, got, err, v.Prim)
		}
		if _, err := c.Child(name, idx, opts...); err == nil {
			return fmt.Errorf("%s: Child of a primitive setting succeeded", what)
		}
	case "cont":
		ch, err := c.Child(name, idx, opts...)
		if err != nil {
			return fmt.Errorf("%s: Child failed: %v", what, err)
		}
		if depth > 8 {
			return fmt.Errorf("%s: deeper than any written address", what)
		}
		return litCheck(ch, v, what, probes, depth+1, r)
	default:
		if _, err := c.Int(name, idx, opts...); err == nil {
			return fmt.Errorf("%s: Int succeeded on a nil setting", what)
		}
	}
	return nil
}

func litTrace(c litCase, upto int) string {
	var b strings.Builder
	b.WriteString("\n history:")
	for i := 0; i <= upto && i < len(c.Ops); i++ {
		fmt.Fprintf(&b, "\n  %d: %s", i, c.Ops[i])
	}
	fmt.Fprintf(&b, "\n  probes %q", c.Probes)
	return b.String()
}

func runLit(c litCase, r *runlog.R) error {
	root := litHandle{C: ucfg.New(), M: model.NewCont()}
	var pool []litHandle
	checkAll := func(when string, upto int) error {
		if err := litCheck(root.C, root.M, "the root", c.Probes, 0, r); err != nil {
			return fmt.Errorf("%s: %v%s", when, err, litTrace(c, upto))
		}
		for k, h := range pool {
			if err := litCheck(h.C, h.M, fmt.Sprintf("handle #%d", k+1), c.Probes, 0, r); err != nil {
				return fmt.Errorf("%s: %v%s", when, err, litTrace(c, upto))
			}
		}
		return nil
	}
	nt, seps, numkeys := false, map[string]bool{}, false
	for i, op := range c.Ops {
		recv := root
		if op.H > 0 && len(pool) > 0 {
			recv = pool[(op.H-1)%len(pool)]
			r.Class("op through a child handle")
		}
		opts := litOpts(op.Sep, op.NK)
		segs := litSegs(op.Name, op.Idx, op.Sep, op.NK)
		when := fmt.Sprintf("after step %d (%s)", i, op)
		var lerr error
		switch op.Kind {
		case lSet:
			if perr := uc.Safe("set", func() error {
				switch v := litVal(op).(type) {
				case int64:
					lerr = recv.C.SetInt(op.Name, op.Idx, v, opts...)
				case string:
					lerr = recv.C.SetString(op.Name, op.Idx, v, opts...)
				case bool:
					lerr = recv.C.SetBool(op.Name, op.Idx, v, opts...)
				}
				return nil
			}); perr != nil {
				return fmt.Errorf("%s: %v%s", when, perr, litTrace(c, i))
			}
			old, merr := recv.M.SetPath(segs, model.NewPrim(litVal(op)))
			if (lerr != nil) != (merr != nil) {
				return fmt.Errorf("%s: the library says %v, the model %v%s", when, lerr, merr, litTrace(c, i))
			}
			r.ClassIf(merr != nil, "rejected set")
			r.ClassIf(merr == nil, "op set")
			if merr == nil && old != nil {
				nt = true
			}
			if merr == nil {
				seps[op.Sep] = true
				numkeys = numkeys || op.NK
				r.ClassIf(op.NK && len(segs) > 0 && !segs[0].IsIdx && model.ClassifySeg(segs[0].Name).IsIdx, "write of a named key spelled like an index (EnableNumKeys)")
				r.ClassIf(op.Sep == "" && strings.ContainsAny(op.Name, "./"), "write of a named key that contains a separator (no PathSep)")
			}
		case lRemove:
			var removed bool
			if perr := uc.Safe("remove", func() error {
				removed, lerr = recv.C.Remove(op.Name, op.Idx, opts...)
				return nil
			}); perr != nil {
				return fmt.Errorf("%s: %v%s", when, perr, litTrace(c, i))
			}
			mrem, _, merr := recv.M.RemovePath(segs)
			if (lerr != nil) != (merr != nil) || (merr == nil && removed != mrem) {
				return fmt.Errorf("%s: the library says %v, %v, the model %v, %v%s", when, removed, lerr, mrem, merr, litTrace(c, i))
			}
			r.ClassIf(mrem, "op remove")
			r.ClassIf(!mrem, "remove of nothing")
			if mrem {
				nt = true
			}
		case lChild:
			var ch *ucfg.Config
			if perr := uc.Safe("child", func() error {
				ch, lerr = recv.C.Child(op.Name, op.Idx, opts...)
				return nil
			}); perr != nil {
				return fmt.Errorf("%s: %v%s", when, perr, litTrace(c, i))
			}
			mn, merr := recv.M.Lookup(segs)
			if merr == nil && mn.Kind == "prim" {
				merr = model.ErrExpectedObject
			}
			if merr == nil && mn.Kind == "nil" {
				// what Child makes of a nil entry is not stated (see checkRead)
				r.Class("child of a nil entry (not pooled)")
				break
			}
			if (lerr != nil) != (merr != nil) {
				return fmt.Errorf("%s: the library says %v, the model %v%s", when, lerr, merr, litTrace(c, i))
			}
			if merr == nil && len(pool) < 4 {
				pool = append(pool, litHandle{C: ch, M: mn})
				r.Class("child handle pooled")
			}
		}
		if err := checkAll(when, i); err != nil {
			return err
		}
	}
	r.NonTrivialIf(nt)
	r.ClassIf(len(seps) > 1, "history writes with two or more different separator settings")
	r.ClassIf(numkeys, "history writes with EnableNumKeys")
	return nil
}

var subLit = runlog.Register(&runlog.Sub[litCase]{
	Name: "literal-names",
	Rule: "histories of 3-14 (thorough: 3-22) operations SetInt/SetString/SetBool, Remove, Child (handle pooled, pool of 4) on the root and (30%) on pooled child handles in which EVERY OPERATION HAS ITS OWN OPTIONS: no PathSep (1 in 3), PathSep(\".\") (1 in 2), PathSep(\"/\") (1 in 6), each with EnableNumKeys(true) 3 times in 10. Names from a pool of strings that are plain names, paths or indices depending on the options (a, a.b, a.b.c, a/b, a.b/c, l.0, l/1, 0, 1, 2, 01, 0x1, 0b1, a.0, a.0x1, 1.a, 1.0, 1/0, b.1.x, the empty name), 3 in 10 the spelling of an earlier operation again; idx -1 (half) or 0..2. " +
		"So one tree holds top-level settings literally named a.b or a/b next to a nested a -> b, named keys 1 / 0x1 / 01 (EnableNumKeys) next to list elements, in the root and below handles. Model: the plain tree of the main sub-check (model.Node, shared by pointer with the handles); the segments of an address are those of its own call's options (with EnableNumKeys a name of one segment is a named key whatever it looks like; a name the separator splits is parsed as without the option, the library's documented fallback). Library and model must agree on success/failure of every operation and on the result of Remove. " +
		"After every step the root and every pooled handle are compared with the model THROUGH THE API, recursively (the generic view cannot tell a key \"1\" from list element 1): GetFields() as a set = the named keys, IsDict, IsArray, HasField(\"\") false, CountField(\"\") = list elements + named keys; for every named key k, read by its LITERAL spelling: HasField(k), Has, the typed getter reads the model's value / Child gives the container (compared recursively) / a primitive has no Child; every list element by (\"\", i) likewise. " +
		"NAME QUERIES UNDER EVERY OPTION SET (none, PathSep(\".\"), PathSep(\"/\"), EnableNumKeys, PathSep+EnableNumKeys, PathSep+MaxIdx(0), VarExp+PathSep): CountField(k, opts) for a named key k is the same number under all of them, = 1 for a primitive, 0 or 1 for nil, = number of elements for a pure list, >= 0 otherwise; for every name that is NOT a named key of the node - the paths to the node's grandchildren written with \".\" and \"/\", key.0, key/0, key.1, key.0x1, the indices of its list part and one past the end in decimal, 0x and 0-prefixed spelling, i.k / i/k / i.0 for its list elements, and 2-5 names of the pool - HasField is false and CountField(name, opts) = -1 with an error under every option set, whatever the name addresses when read as a path (HasField: 'checks if c has a top-level named key name'; CountField counts the setting HasField and GetFields report; the options do not turn the name into a path: reading decision, DESIGN section 11). " +
		"Non-trivial: a write replaced an existing node or a removal removed something. Distinct: hash of the whole case.",
	Gen: genLitCase,
	Run: runLit,
})

func TestLiteralNames(t *testing.T) { subLit.Check(t, 5000, 400000) }
