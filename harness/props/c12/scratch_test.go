package c12

import (
	"fmt"
	"testing"

	ucfg "github.com/elastic/go-ucfg"
)

func TestScratch(t *testing.T) {
	show := func(label string, c *ucfg.Config) {
		n, err := c.CountField("")
		fmt.Printf("%-40s dict=%v arr=%v count=%d,%v keys=%v path=%q\n", label, c.IsDict(), c.IsArray(), n, err, c.FlattenedKeys(), c.Path("."))
	}
	c := ucfg.MustNewFrom(map[string]interface{}{"e": map[string]interface{}{}, "l": []interface{}{}, "n": nil, "x": []interface{}{1, 2}, "d": map[string]interface{}{"k": 1}})
	for _, k := range []string{"e", "l", "n", "x", "d"} {
		ch, err := c.Child(k, -1)
		if err != nil {
			fmt.Println(k, "child err", err)
			continue
		}
		show("child "+k, ch)
		n, err := c.CountField(k)
		fmt.Println("   CountField", k, n, err)
		h, err := c.Has(k, -1)
		fmt.Println("   Has", k, h, err)
	}
	x, _ := c.Child("x", -1)
	x.Remove("", 0)
	x.Remove("", 0)
	show("x after removing all", x)
	d, _ := c.Child("d", -1)
	d.Remove("k", -1)
	show("d after removing all", d)
	show("New()", ucfg.New())
	show("NewFrom({})", ucfg.MustNewFrom(map[string]interface{}{}))
	show("NewFrom([])", ucfg.MustNewFrom([]interface{}{}))
	// child on nil
	c2 := ucfg.New()
	c2.SetInt("l", 3, 7)
	n0, err := c2.Child("l", 0)
	fmt.Println("child on nil:", n0 != nil, err)
	if n0 != nil {
		show("nil child", n0)
		fmt.Println("parent==l", func() bool { l, _ := c2.Child("l", -1); return n0.Parent() == l }())
	}
	s, err := c2.String("l", 0)
	fmt.Printf("String on nil: %q %v\n", s, err)
	b, err := c2.Bool("l", 0)
	fmt.Printf("Bool on nil: %v %v\n", b, err)
	h, err := c2.Has("l", 0)
	fmt.Println("Has nil:", h, err)
	h, err = c2.Has("l", 9)
	fmt.Println("Has past end:", h, err)
	h, err = c2.Has("l.3.x", -1, ucfg.PathSep("."))
	fmt.Println("Has through prim:", h, err)
	h, err = c2.Has("l.3.0", -1, ucfg.PathSep("."))
	fmt.Println("Has idx0 of prim:", h, err)
	_, err = c2.Int("l.3.x", -1, ucfg.PathSep("."))
	fmt.Println("Int through prim:", err)
	_, err = c2.Int("zz.y", -1, ucfg.PathSep("."))
	fmt.Println("Int through missing:", err)
	cnt, err := c2.CountField("l")
	fmt.Println("Count l:", cnt, err)
}
