// Package c12 decides property C12: path-addressed reads, writes and removals
// behave like a tree.
//
// A case is a history (hist.Case): an initial tree, a list of low-level
// operations (Set*, SetChild of a fresh config, Remove, Merge, Child) applied
// to the root or to pooled handles, and a few read addresses. run executes it
// against a fresh config and against the path/tree model in lock-step and
// compares after every step.
//
// Dimensions of the quantifier the generator varies (hist.GenCfg): the
// spelling of index segments (every integer syntax strconv.ParseInt accepts
// with base 0, signs, digit separators; indices where the syntaxes differ in
// value), names that only look like indices, the source of a Merge (generic
// data, mixed Go representations, a fresh *Config kept in the case, the
// *Config of the root / a child handle / a stand-alone config, such a config
// embedded in generic data, top-level lists), the merge policy, the path
// separator, writes on either side after a merge, and lists that lose their
// last remaining element (drains of removals; the list with 0 elements is then
// read, refilled, padded, merged, viewed through old and new child handles).
package c12

import (
	"fmt"
	"math"
	"strconv"
	"strings"
	"testing"

	ucfg "github.com/elastic/go-ucfg"
	"pgregory.net/rapid"

	"verif/harness/internal/canon"
	"verif/harness/internal/gen"
	"verif/harness/internal/hist"
	"verif/harness/internal/model"
	"verif/harness/internal/runlog"
	"verif/harness/internal/uc"
)

type Case = hist.Case

// overlapping addresses: plain names, dotted paths through dictionaries and
// lists, index-like names, and the empty name (the receiver's own list part)
var names = []string{
	"a", "b", "c", "l", "a", "l",
	"a.b", "a.c", "a.l", "a.0", "a.1", "a.b.c", "a.l.2", "a.b.0",
	"l.0", "l.1", "l.2", "l.0.x", "l.1.x", "l.1.0",
	"0", "1", "2", "b.0.0", "",
	// settings below the elements of the receiver's own list part
	"0.a", "1.a", "0.x", "1.x", "0.0", "2.b",
	// names that look like numbers but are not list indices (model.NearIndexNames): ordinary named keys
	"08", "l.08", "l.-1", "a.0x", "1e0", "l.1_", "+",
}

var treeKeys = []string{"a", "b", "c", "l", "x", "a", "b", "0", "1", "a", "l", "09", "-1"}

func genCfg() *hist.GenCfg {
	return &hist.GenCfg{
		Names:  names,
		MaxIdx: 3,
		MinOps: 3,
		MaxOps: runlog.Pick(24, 40),
		Kinds: []string{hist.Set, hist.Set, hist.Set, hist.Set, hist.Set, hist.Set, hist.Remove, hist.Remove, hist.Remove, hist.Remove,
			hist.Child, hist.Child, hist.Child, hist.Child, hist.SetChild, hist.SetChild, hist.SetChild, hist.Merge, hist.Merge, hist.Merge},
		Trees: &gen.TreeCfg{Depth: 2, Width: 3, Keys: treeKeys, Strings: gen.HostileStrings},
		Prims: &gen.TreeCfg{PrimOnly: true, NoNil: true, Strings: gen.HostileStrings},
		Policies: []model.Policy{model.Default, model.Default, model.Default, model.Default, model.Default, model.Default,
			model.Replace, model.ReplaceArr, model.Append, model.Prepend},
		NReads:    4,
		ListNames: []string{"l", "a.l"},
		Respell:   3,
		WideIdx:   1,
		WideIdxs:  []int{8, 9, 10, 11, 16, 17},
		Sources:   6,
		Seps:      []string{".", ".", ".", "/", "::", "|"},
		Drain:     4,
		OverIdx:   1,
		BadMerge:  2,
		Structs:   1,
	}
}

func genCase(t *rapid.T) Case { return hist.Gen(t, genCfg()) }

// ---------------------------------------------------------------------------
// observations

// obs is everything the read API says about one address.
type obs struct {
	B               bool
	I               int64
	U               uint64
	F               float64
	S               string
	Berr, Ierr      bool
	Uerr, Ferr      bool
	Serr            bool
	Child           *ucfg.Config
	ChildErr        bool
	Has, HasErr     bool
	errB, errChild  error
	errHas, errRead error
}

func observe(c *ucfg.Config, name string, idx int, opts []ucfg.Option) (o obs, err error) {
	err = uc.Safe("read", func() error {
		var e error
		o.B, e = c.Bool(name, idx, opts...)
		o.Berr, o.errB = e != nil, e
		o.I, e = c.Int(name, idx, opts...)
		o.Ierr = e != nil
		o.U, e = c.Uint(name, idx, opts...)
		o.Uerr = e != nil
		o.F, e = c.Float(name, idx, opts...)
		o.Ferr = e != nil
		o.S, e = c.String(name, idx, opts...)
		o.Serr, o.errRead = e != nil, e
		o.Child, e = c.Child(name, idx, opts...)
		o.ChildErr, o.errChild = e != nil, e
		o.Has, e = c.Has(name, idx, opts...)
		o.HasErr, o.errHas = e != nil, e
		return nil
	})
	return o, err
}

func (o obs) String() string {
	f := func(v interface{}, failed bool) string {
		if failed {
			return "err"
		}
		return fmt.Sprintf("%#v", v)
	}
	ch := "ok"
	if o.ChildErr {
		ch = "err"
	}
	return fmt.Sprintf("Bool=%s Int=%s Uint=%s Float=%s String=%s Child=%s Has=%s", f(o.B, o.Berr), f(o.I, o.Ierr), f(o.U, o.Uerr),
		f(o.F, o.Ferr), f(o.S, o.Serr), ch, f(o.Has, o.HasErr))
}

func sameFloat(a, b float64) bool { return a == b || (math.IsNaN(a) && math.IsNaN(b)) }

// sameObs: two routes to one setting must make the same observations.
func sameObs(a, b obs) bool {
	return a.Berr == b.Berr && (a.Berr || a.B == b.B) &&
		a.Ierr == b.Ierr && (a.Ierr || a.I == b.I) &&
		a.Uerr == b.Uerr && (a.Uerr || a.U == b.U) &&
		a.Ferr == b.Ferr && (a.Ferr || sameFloat(a.F, b.F)) &&
		a.Serr == b.Serr && (a.Serr || a.S == b.S) &&
		a.ChildErr == b.ChildErr && a.HasErr == b.HasErr && a.Has == b.Has
}

// route is one way of addressing a setting: an optional walk with Child, then
// a (name, idx) address.
type route struct {
	via  []model.Seg
	name string
	idx  int
	desc string
}

// routes lists the equivalent ways of addressing (name, idx) from a node. An
// index may be given as the idx argument or as a segment of the name, and as
// a segment in every integer syntax (model.IndexSpellings); salt rotates
// through the spellings.
func routes(n *model.Node, a hist.Addr, sep string, salt int) []route {
	rs := []route{{name: a.Name, idx: a.Idx, desc: "(name, idx)"}}
	alt := func(i int) string {
		sp := model.IndexSpellings(i)
		k := (salt + i) % (len(sp) - 1)
		if k < 0 {
			k += len(sp) - 1
		}
		return sp[1+k]
	}
	// asSegment: the index i behind prefix (which may be empty: the receiver's own list part)
	asSegment := func(prefix string, i int, given string) {
		if prefix != "" {
			prefix += sep
		}
		// alternating: the plain decimal segment, a segment in another integer syntax
		d, s := strconv.Itoa(i), alt(i)
		if (salt%2 == 0 && d != given) || s == given {
			rs = append(rs, route{name: prefix + d, idx: -1, desc: "index as decimal path segment"})
		} else {
			rs = append(rs, route{name: prefix + s, idx: -1, desc: "index as path segment in another integer syntax"})
		}
	}
	switch {
	case a.Name == "":
		// the list part of the receiver: the index as a name is the same address
		asSegment("", a.Idx, "")
	case a.Idx >= 0:
		if sep != "" {
			asSegment(a.Name, a.Idx, "")
		}
	case sep == "":
		// the whole name is one segment
		if sg := model.ClassifySeg(a.Name); sg.IsIdx {
			rs = append(rs, route{name: "", idx: sg.Idx, desc: "(\"\", idx)"})
			asSegment("", sg.Idx, a.Name)
		}
	default:
		prefix, last := "", a.Name
		if i := strings.LastIndex(a.Name, sep); i >= 0 {
			prefix, last = a.Name[:i], a.Name[i+len(sep):]
		}
		if sg := model.ClassifySeg(last); sg.IsIdx && (prefix != "" || !strings.Contains(a.Name, sep)) {
			rs = append(rs, route{name: prefix, idx: sg.Idx, desc: "(prefix, idx)"})
			asSegment(prefix, sg.Idx, last)
		}
	}
	// step by step with Child, if every node on the way is a container
	segs := model.ParseAddr(a.Name, a.Idx, sep)
	if len(segs) >= 2 {
		ok := true
		cur := n
		for _, sg := range segs[:len(segs)-1] {
			nx, err := cur.Step(sg)
			if err != nil || nx == nil || nx.Kind != "cont" {
				ok = false
				break
			}
			cur = nx
		}
		if ok {
			name, idx := hist.SegAddr(segs[len(segs)-1])
			rs = append(rs, route{via: segs[:len(segs)-1], name: name, idx: idx, desc: "Child by Child"})
		}
	}
	return rs
}

func primEqual(o obs, want interface{}) (bool, string) {
	switch w := want.(type) {
	case bool:
		return !o.Berr && o.B == w, "Bool"
	case int64:
		return !o.Ierr && o.I == w, "Int"
	case uint64:
		return !o.Uerr && o.U == w, "Uint"
	case float64:
		return !o.Ferr && sameFloat(o.F, w), "Float"
	case string:
		return !o.Serr && o.S == w, "String"
	}
	return false, "?"
}

// checkRead compares everything the read API says about one address of a
// handle with the model.
func checkRead(st *hist.State, h hist.Handle, a hist.Addr, salt int, r *runlog.R) error {
	if !hist.ValidAddr(a.Name, a.Idx) {
		return nil
	}
	segs := model.ParseAddr(a.Name, a.Idx, st.Sep)
	want, merr := h.M.Lookup(segs)
	var first obs
	rts := routes(h.M, a, st.Sep, salt)
	if merr == model.ErrMissing && len(rts) > 2 {
		// nothing there: (name, idx) and one of the equivalent routes, rotating (cost)
		k := salt % (len(rts) - 1)
		if k < 0 {
			k = -k
		}
		rts = []route{rts[0], rts[1+k]}
	}
	r.ClassIf(respelled(a, st.Sep), "read address with an index segment in non-decimal syntax")
	for k, rt := range rts {
		from := h
		if len(rt.via) > 0 {
			var err error
			if from, err = st.Navigate(h, rt.via); err != nil {
				return fmt.Errorf("read %v on handle #%d, %s: %v", a, h.ID, rt.desc, err)
			}
		}
		o, err := observe(from.C, rt.name, rt.idx, st.Opts)
		if err != nil {
			return fmt.Errorf("read %v on handle #%d, %s: %v", a, h.ID, rt.desc, err)
		}
		if k == 0 {
			first = o
			continue
		}
		if !sameObs(first, o) {
			return fmt.Errorf("read %v on handle #%d: (name, idx) and the equivalent %s (%q,%d) disagree\n (name, idx): %v\n %s: %v",
				a, h.ID, rt.desc, rt.name, rt.idx, first, rt.desc, o)
		}
		r.ClassIf(strings.Contains(rt.desc, "another integer syntax"), "route: index in another integer syntax")
	}
	o := first
	fail := func(format string, args ...interface{}) error {
		return fmt.Errorf("read %v on handle #%d: %s\n observed: %v", a, h.ID, fmt.Sprintf(format, args...), o)
	}
	switch {
	case merr != nil:
		r.Class("read:missing")
		if !(o.Berr && o.Ierr && o.Uerr && o.Ferr && o.Serr && o.ChildErr) {
			return fail("the model has no setting there (%v) but a getter succeeded", merr)
		}
		if merr == model.ErrExpectedObject {
			if !o.HasErr {
				return fail("the path walks through a primitive: Has must report an error")
			}
		} else if o.HasErr || o.Has {
			return fail("the setting is missing: Has must return false without an error (err=%v)", o.errHas)
		}
	case want.Kind == "prim":
		r.Class("read:primitive")
		if ok, getter := primEqual(o, want.Prim); !ok {
			return fail("the model holds %#v there, %s does not read it back", want.Prim, getter)
		}
		if !o.ChildErr {
			return fail("Child of a primitive setting must fail")
		}
		if o.HasErr || !o.Has {
			return fail("Has must be true (err=%v)", o.errHas)
		}
	case want.Kind == "cont":
		r.Class("read:container")
		if !(o.Berr && o.Ierr && o.Uerr && o.Ferr && o.Serr) {
			return fail("the setting is a container: the primitive getters must fail")
		}
		if o.ChildErr {
			return fail("Child must return the container (err=%v)", o.errChild)
		}
		if o.HasErr || !o.Has {
			return fail("Has must be true (err=%v)", o.errHas)
		}
		if err := checkNode(hist.Handle{C: o.Child, M: want, ID: -1}, fmt.Sprintf("Child%v of handle #%d", a, h.ID), shapeOf(st), r); err != nil {
			return err
		}
	default:
		// A nil setting: the padding of a list that was written past its end, or a nil that was merged in.
		// In a plain tree of dictionaries and lists such an entry EXISTS (it occupies its index or key: it is
		// counted, it can be removed, later elements keep their positions), so Has must say so. It holds no
		// boolean and no number: Bool/Int/Uint/Float are documented to fail when the setting has no such
		// value. What String and Child make of a nil is not stated (the library reads "null" and an empty
		// config): both outcomes are accepted, but a child must be an empty config (nil counts as an empty
		// container, reading decision 1).
		r.Class("read:nil")
		if o.HasErr || !o.Has {
			return fail("the setting exists and holds nil (list padding or a merged nil): Has must be true (err=%v)", o.errHas)
		}
		if !(o.Berr && o.Ierr && o.Uerr && o.Ferr) {
			return fail("the setting holds nil: Bool, Int, Uint and Float must fail")
		}
		if !o.ChildErr {
			if o.Child == nil {
				return fail("Child returned nil without an error")
			}
			if err := checkNode(hist.Handle{C: o.Child, M: model.NewCont(), ID: -1}, fmt.Sprintf("Child%v (a nil setting) of handle #%d", a, h.ID), listsOnly, r); err != nil {
				return err
			}
		}
		if len(segs) == 1 && !segs[0].IsIdx {
			// a named key of the receiver: CountField takes plain names only
			if n, err := h.C.CountField(a.Name); err != nil || n < 0 || n > 1 {
				return fail("CountField(%q) = %d, %v for an existing nil setting", a.Name, n, err)
			}
		}
	}
	return nil
}

// respelled: the address has an index segment that is not in plain decimal syntax.
func respelled(a hist.Addr, sep string) bool {
	if a.Name == "" {
		return false
	}
	parts := []string{a.Name}
	if sep != "" {
		parts = strings.Split(a.Name, sep)
	}
	for _, p := range parts {
		if sg := model.ClassifySeg(p); sg.IsIdx && strconv.Itoa(sg.Idx) != p {
			return true
		}
	}
	return false
}

// shape says how much the model knows about the list-ness of nodes without list elements.
type shape int

const (
	// strict: a node is a list iff the model says so (model.Node.IsList)
	strict shape = iota
	// listsOnly: what the model calls a list must be one; a node the model has no list part for may be
	// either (hist.State.LooseEmpty: an empty list met a nil or a container without a list part; the
	// child the library gives for a nil setting)
	listsOnly
)

// checkNode: the frame condition and the shape queries for one handle.
func checkNode(h hist.Handle, what string, sh shape, r *runlog.R) error {
	got, err := uc.Dump(h.C)
	if err != nil {
		return fmt.Errorf("%s: dumping failed: %v", what, err)
	}
	want := h.M.Reify()
	if !canon.EqualSplit(got, want) {
		return fmt.Errorf("%s differs from the model\n got  %s\n want %s", what,
			canon.String(canon.Split(canon.Of(got))), canon.String(canon.Split(canon.Of(want))))
	}
	// the canonical comparison reads "no setting", nil and an empty list alike: the empty lists separately
	if err := emptyListsKept(got, h.M, what, true, r); err != nil {
		return err
	}
	if d := h.C.IsDict(); d != (len(h.M.D) > 0) {
		return fmt.Errorf("%s: IsDict() = %v but the model has %d named keys", what, d, len(h.M.D))
	}
	// A list is a list however many elements it holds: one whose elements were all removed (or that was
	// written as an empty list where nothing was) is a list with 0 elements. A node that never had a list
	// part is none.
	switch a := h.C.IsArray(); {
	case h.M.IsList() && !a:
		if len(h.M.A) == 0 {
			return fmt.Errorf("%s: IsArray() = false but the model holds a list there whose elements were all removed (or that was written as an empty list): it is a list with 0 elements", what)
		}
		return fmt.Errorf("%s: IsArray() = false but the model has %d list elements", what, len(h.M.A))
	case !h.M.IsList() && a && sh == strict:
		return fmt.Errorf("%s: IsArray() = true but the model has never had a list part there (%d named keys)", what, len(h.M.D))
	}
	r.ClassIf(h.M.IsList() && len(h.M.A) == 0, "shape queries on a list with 0 elements")
	r.ClassIf(!h.M.IsList() && sh == strict, "IsArray() = false asserted for a node without list part")
	// CountField(""): "the total number of top-level settings". An entry that holds nil exists (see the
	// nil case of checkRead), so it counts: list padding and named keys alike.
	n, err := h.C.CountField("")
	if err != nil || n != len(h.M.A)+len(h.M.D) {
		return fmt.Errorf("%s: CountField(\"\") = %d, %v; the model has %d list elements and %d named keys", what, n, err, len(h.M.A), len(h.M.D))
	}
	for _, k := range h.M.SortedKeys() {
		v := h.M.D[k]
		n, err := h.C.CountField(k)
		if err != nil {
			return fmt.Errorf("%s: CountField(%q) failed: %v", what, k, err)
		}
		switch {
		case v.Kind == "nil" && (n < 0 || n > 1):
			// an empty table or "a list with 1 entry": the documentation allows both readings
			return fmt.Errorf("%s: CountField(%q) = %d for a nil setting", what, k, n)
		case v.Kind == "prim" && n != 1:
			return fmt.Errorf("%s: CountField(%q) = %d for a primitive", what, k, n)
		case v.Kind == "cont" && len(v.D) == 0 && v.IsList() && n != len(v.A):
			// "number of entries in a table": a list with 0 elements has 0 entries
			return fmt.Errorf("%s: CountField(%q) = %d for a list of %d elements", what, k, n, len(v.A))
		}
		r.ClassIf(v.IsEmptyList(), "CountField(name) = 0 asserted for a list with 0 elements")
	}
	return nil
}

// checkNames: the queries that take a name, not an address (HasField, GetFields, CountField(name)), look the
// name up literally among the named keys of the node, whatever it looks like and whatever options the call is
// given (sub-check literal-names has histories made for it; here the trees of the main histories are asked).
func checkNames(h hist.Handle, what string, salt int, r *runlog.R) error {
	for _, k := range h.M.SortedKeys() {
		n, err := h.C.CountField(k)
		if err != nil {
			return fmt.Errorf("%s: CountField(%q) failed: %v", what, k, err)
		}
		if !h.C.HasField(k) {
			return fmt.Errorf("%s: HasField(%q) = false for a named key of the model", what, k)
		}
		for _, q := range litQueryOpts[1:3] {
			if n2, err := h.C.CountField(k, q.opts...); err != nil || n2 != n {
				return fmt.Errorf("%s: CountField(%q) = %d without options but %d, %v with %s: the name is looked up literally at the top level whatever the options", what, k, n, n2, err, q.what)
			}
		}
		r.ClassIf(strings.ContainsAny(k, "./"), "CountField/HasField for an existing top-level key that contains a separator")
	}
	if got := h.C.GetFields(); len(got) != len(h.M.D) {
		return fmt.Errorf("%s: GetFields() = %q but the model has %d named keys", what, got, len(h.M.D))
	}
	// a name that is no named key of the node has nothing to count, whatever it addresses as a path or index
	probes := litProbes(h.M)
	if len(probes) > 6 {
		// six of them, rotating (cost)
		if salt < 0 {
			salt = -salt
		}
		k := salt * 5 % len(probes)
		probes = append(append([]string(nil), probes[k:]...), probes[:k]...)[:6]
	}
	for _, p := range probes {
		if _, isKey := h.M.D[p]; isKey {
			continue
		}
		if h.C.HasField(p) {
			return fmt.Errorf("%s: HasField(%q) = true, the model has no such named key", what, p)
		}
		for _, q := range litQueryOpts[:2] {
			if n, err := h.C.CountField(p, q.opts...); err == nil || n != -1 {
				return fmt.Errorf("%s: CountField(%q) with %s = %d, %v; there is no top-level setting of that name (%d named keys, %d list elements): want -1 and an error", what, p, q.what, n, err, len(h.M.D), len(h.M.A))
			}
		}
		r.Class("CountField/HasField for a name that is no top-level key (index spellings, paths to grandchildren)")
	}
	return nil
}

// emptyListsKept: where the model holds a list with 0 elements (model.Node.IsEmptyList) the generic view
// must show an empty list, not nothing: "removals affect only the addressed setting", the list the last
// element was removed from is still there. Only nodes reached through pure dictionaries and pure lists
// are looked at (the generic view of a mixed node below the top level is not defined by the statement).
func emptyListsKept(got interface{}, m *model.Node, what string, top bool, r *runlog.R) error {
	if m.Kind != "cont" {
		return nil
	}
	if m.IsEmptyList() {
		if l, ok := got.([]interface{}); !ok || len(l) != 0 {
			return fmt.Errorf("%s: the model holds a list with 0 elements but the generic view (Unpack) shows %s", what, canon.Show(got))
		}
		r.Class("generic view shows a list with 0 elements")
		return nil
	}
	switch g := got.(type) {
	case map[string]interface{}:
		if len(m.A) > 0 && !top {
			return nil
		}
		for _, k := range m.SortedKeys() {
			if err := emptyListsKept(g[k], m.D[k], what+": setting "+strconv.Quote(k), false, r); err != nil {
				return err
			}
		}
	case []interface{}:
		if len(m.D) > 0 || len(g) != len(m.A) {
			return nil
		}
		for i, e := range m.A {
			if err := emptyListsKept(g[i], e, what+": element "+strconv.Itoa(i), false, r); err != nil {
				return err
			}
		}
	}
	return nil
}

func shapeOf(st *hist.State) shape {
	if st.LooseEmpty {
		return listsOnly
	}
	return strict
}

// checkAll is the oracle applied after every step: the frame condition for
// the root and every pooled handle, then point reads: the address the step
// used (through its receiver), one of the case's read addresses through the
// root and one through a pooled handle, rotating; before the first and after
// the last step every read address is read through the root and every handle.
func checkAll(st *hist.State, c Case, step int, info *hist.Info, r *runlog.R) error {
	if err := checkNode(st.Root, "the root", shapeOf(st), r); err != nil {
		return err
	}
	for _, h := range st.Pool {
		if err := checkNode(h, fmt.Sprintf("handle #%d", h.ID), shapeOf(st), r); err != nil {
			return err
		}
	}
	// name queries: the root, and one pooled handle (rotating)
	if err := checkNames(st.Root, "the root", step, r); err != nil {
		return err
	}
	if len(st.Pool) > 0 && step >= 0 {
		h := st.Pool[step%len(st.Pool)]
		if err := checkNames(h, fmt.Sprintf("handle #%d", h.ID), step+1, r); err != nil {
			return err
		}
	}
	if info == nil {
		for k, a := range c.Reads {
			if err := checkRead(st, st.Root, a, step+k, r); err != nil {
				return err
			}
			for j, h := range st.Pool {
				if err := checkRead(st, h, a, step+k+j+1, r); err != nil {
					return err
				}
			}
		}
		return nil
	}
	if op := c.Ops[step]; op.Kind != hist.Merge && info.Skipped == "" {
		if err := checkRead(st, info.Receiver, op.Addr(), step, r); err != nil {
			return err
		}
	}
	if info.Skipped == "" && (info.Padded || step%4 == 0) {
		// one of the nil entries (list padding, merged nils) the receiver's tree holds now, rotating
		if a, ok := nilAddr(info.Receiver.M, st.Sep, step); ok {
			r.Class("directed read of a nil entry")
			if err := checkRead(st, info.Receiver, a, step, r); err != nil {
				return err
			}
		}
	}
	if len(c.Reads) > 0 {
		if err := checkRead(st, st.Root, c.Reads[step%len(c.Reads)], step+1, r); err != nil {
			return err
		}
		if len(st.Pool) > 0 {
			if err := checkRead(st, st.Pool[step%len(st.Pool)], c.Reads[(step+1)%len(c.Reads)], step+2, r); err != nil {
				return err
			}
		}
	}
	return nil
}

// nilAddr returns the address of one of the nil entries below n (chosen by
// salt) that can be written as an address: any depth with a path separator,
// otherwise a name, an index, or an index below a name.
func nilAddr(n *model.Node, sep string, salt int) (hist.Addr, bool) {
	var found [][]model.Seg
	n.Walk(nil, func(p []model.Seg, m *model.Node) {
		if m.Kind != "nil" || len(p) == 0 || len(p) > 4 {
			return
		}
		if sep == "" && !(len(p) == 1 || (len(p) == 2 && !p[0].IsIdx && p[1].IsIdx)) {
			return
		}
		found = append(found, p)
	})
	if len(found) == 0 {
		return hist.Addr{}, false
	}
	if salt < 0 {
		salt = -salt
	}
	p := found[salt%len(found)]
	last := p[len(p)-1]
	switch {
	case len(p) == 1 && last.IsIdx:
		return hist.Addr{Name: "", Idx: last.Idx}, true
	case len(p) == 1:
		return hist.Addr{Name: last.Name, Idx: -1}, true
	case last.IsIdx && !p[len(p)-2].IsIdx || last.IsIdx && sep != "":
		j := sep
		if j == "" {
			j = "."
		}
		return hist.Addr{Name: model.JoinSegs(p[:len(p)-1], j), Idx: last.Idx}, true
	}
	return hist.Addr{Name: model.JoinSegs(p, sep), Idx: -1}, true
}

// stored renders the stored trees of the root and of every pooled handle (hook snapshot with node identities).
func stored(st *hist.State) []string {
	out := make([]string, 0, 1+len(st.Pool))
	out = append(out, ucfg.VerifFingerprint(st.Root.C, true))
	for _, h := range st.Pool {
		out = append(out, ucfg.VerifFingerprint(h.C, true))
	}
	return out
}

// unchanged: the stored trees before and after a rejected operation (which pools nothing) are the same.
func unchanged(before, after []string) error {
	for k := range before {
		if k < len(after) && before[k] != after[k] {
			what := "the root"
			if k > 0 {
				what = fmt.Sprintf("pooled handle %d", k-1)
			}
			return fmt.Errorf("the rejected operation changed the stored tree of %s\n before: %s\n after:  %s", what, before[k], after[k])
		}
	}
	return nil
}

func trace(c Case, upto int) string {
	var b strings.Builder
	b.WriteString("\n history:")
	if c.Init != nil {
		fmt.Fprintf(&b, "\n  init %s", canon.Show(c.Init.Go()))
	}
	for i := 0; i <= upto && i < len(c.Ops); i++ {
		op := c.Ops[i]
		fmt.Fprintf(&b, "\n  %d: %s", i, op)
		if op.Val != nil {
			fmt.Fprintf(&b, " %s", canon.Show(op.Val.Go()))
		}
	}
	fmt.Fprintf(&b, "\n  pathsep=%v", c.PathSep)
	if c.Sep != "" {
		fmt.Fprintf(&b, " separator=%q", c.Sep)
	}
	return b.String()
}

func runCase(c Case, r *runlog.R) error {
	st, ok, err := hist.New(c, false)
	if err != nil {
		return err
	}
	if !ok {
		r.Discard()
		return nil
	}
	if err := checkAll(st, c, -1, nil, r); err != nil {
		return fmt.Errorf("initial state: %v%s", err, trace(c, -1))
	}
	nt, afterCfgMerge, emptied := false, false, false
	for i, op := range c.Ops {
		before := stored(st)
		info, err := st.Apply(op)
		if err != nil {
			return fmt.Errorf("step %d: %v%s", i, err, trace(c, i))
		}
		switch {
		case info.Skipped != "":
			r.Class("skipped: " + info.Skipped)
		case info.Rejected:
			r.Class("rejected " + op.Kind)
			r.Class("rejected " + op.Kind + ": " + info.RejectWhy)
			r.ClassIf(info.MissingBelow, "rejected write at an address whose intermediate nodes do not exist")
			r.ClassIf(info.MissingBelow && info.ViaHandle, "rejected write at an address whose intermediate nodes do not exist, through a handle")
			// A rejected operation changes nothing: not the tree of its receiver, not that of any other
			// config of the case. The stored trees (hook snapshot: every node with its identity, name,
			// payload; empty containers and nil entries are nodes like any other) must be what they were.
			if err := unchanged(before, stored(st)); err != nil {
				return fmt.Errorf("after step %d (%s), which was rejected (%s): %v%s", i, op, info.RejectWhy, err, trace(c, i))
			}
		default:
			r.Class("op " + op.Kind)
		}
		r.ClassIf(info.MaxIdxOpt && info.Skipped == "", op.Kind+" with a MaxIdx option")
		r.ClassIf(info.AtMax, "accepted write at the maximum index")
		r.ClassIf(info.ViaHandle && info.Wrote && !info.Detached, "write through a live handle")
		r.ClassIf(info.ViaHandle && info.Wrote && info.Detached, "write through a detached handle")
		r.ClassIf(info.Overlap, "overwrite or removal of an earlier write")
		r.ClassIf(info.Padded, "padding")
		r.ClassIf(info.Shifted, "shifting removal")
		r.ClassIf(info.Emptied, "removal of the last remaining element of a list")
		r.ClassIf(info.Emptied && len(info.Receiver.M.A) == 0 && op.Name == "", "removal emptied the receiver's own list part")
		r.ClassIf(info.BelowEmpty && info.Wrote && op.Kind != hist.Remove, "write into a list with 0 elements (refill)")
		r.ClassIf(info.BelowEmpty && info.Wrote && info.Padded, "padding write into a list with 0 elements")
		r.ClassIf(info.BelowEmpty && op.Kind == hist.Remove, "removal from a list with 0 elements")
		r.ClassIf(info.RecvEmpty && info.ViaHandle && info.Wrote, "write through the handle of a list with 0 elements")
		r.ClassIf(info.RecvEmpty && op.Kind == hist.Merge && info.Skipped == "", "merge into a list with 0 elements")
		r.ClassIf(info.EmptyHandle, "handle of a list with 0 elements pooled")
		r.ClassIf(info.EmptyBrought && info.Skipped == "", op.Kind+" brings in a list with 0 elements")
		if info.Emptied {
			emptied = true
		}
		r.ClassIf(info.Retired > 0, "merge retired handles")
		if op.Kind == hist.Merge && info.Skipped == "" {
			r.Class("merge source: " + info.Source)
			r.Class("merge policy: " + op.Policy.String())
			isCfg := op.From == hist.FromConfig || op.From == hist.FromHandle || op.From == hist.FromEmbed
			r.ClassIf(isCfg && info.SrcList && !info.SrcDict, "merge from a *Config whose top level is a list")
			r.ClassIf(isCfg && info.SrcList && info.SrcDict, "merge from a *Config whose top level is mixed")
			for k := range info.Reprs {
				r.Class("merge source representation: " + k)
			}
		}
		r.ClassIf(op.Kind == hist.SetChild && op.From == hist.FromStruct && info.Skipped == "", "setchild of a config built from Go struct representations")
		r.ClassIf(info.SrcSide, "write on the source side of an earlier merge from a *Config")
		r.ClassIf(info.DstSide, "write into what an earlier merge from a *Config copied in")
		if info.SrcSide || info.DstSide {
			afterCfgMerge = true
		}
		r.ClassIf(op.Kind != hist.Merge && info.Skipped == "" && respelled(op.Addr(), st.Sep), "op address with an index segment in non-decimal syntax")
		r.ClassIf(op.Kind != hist.Merge && info.Skipped == "" && op.Idx > 7, "op address with an index > 7")
		if info.Overlap || (info.ViaHandle && info.Wrote) {
			nt = true
		}
		if err := checkAll(st, c, i, &info, r); err != nil {
			return fmt.Errorf("after step %d (%s): %v%s", i, op, err, trace(c, i))
		}
	}
	if err := checkAll(st, c, len(c.Ops), nil, r); err != nil {
		return fmt.Errorf("final state: %v%s", err, trace(c, len(c.Ops)))
	}
	r.NonTrivialIf(nt)
	r.ClassIf(afterCfgMerge, "history writes on either side after a merge from a *Config")
	r.ClassIf(emptied, "history empties a list by removals")
	r.ClassIf(st.LooseEmpty, "history where an empty list met a nil or a node without list part (IsArray() = false not asserted from then on)")
	r.ClassIf(c.InitRepr, "initial tree (NewFrom) in Go struct representations")
	r.ClassIf(c.PathSep, "with PathSep")
	r.ClassIf(c.PathSep && c.Sep != "", "with PathSep other than \".\": "+c.Sep)
	r.ClassIf(!c.PathSep, "without PathSep")
	r.ClassIf(st.Root.M.Mixed(), "final tree has a mixed node")
	return nil
}

var subHist = runlog.Register(&runlog.Sub[Case]{
	Name: "tree-histories",
	Rule: "histories of 3-24 (thorough: 3-40) operations SetBool/Int/Uint/Float/String, SetChild(fresh config from a tree), Remove, Merge, Child on the root and (40%) on pooled handles (index modulo pool size, pool of 6: child handles, attached fresh configs and stand-alone configs). " +
		"Addresses: a small overlapping pool of names, dotted paths, index-like names, settings below elements of the receiver's own list part, names that look like numbers but are no indices (08, -1, 0x, 1e0, 1_, +), explicit indices 0..3 (past the end included; 10% from 8,9,10,11,16,17 where octal, hexadecimal and decimal spellings differ); 3 of 4 cases with PathSep(\".\"). " +
		"30% of the index segments of op and read addresses, and of the numeric object keys of initial/attached/merged trees, are written in another integer syntax (+i, 0i/00i/0_i octal, 0o, 0O, 0x, 0X, 0x0, 0x_, 0b, 0B, digit separators, -0), 20% of the explicit indices are moved into the name as a last segment in any syntax. " +
		"Merge: policy default (60%) or replace/replace-arr/append/prepend; source generic data (40%), mixed Go representations (typed maps/slices, arrays, structs, pointers, named types, embedded *Config), a fresh *Config built from a tree (half of them top-level lists of objects) that stays in the case as a pooled handle, the *Config of an existing handle (the root, a child handle, a stand-alone or detached config; a source that contains the receiver or that the merge itself would modify is skipped), or generic data that embeds such a *Config under a (dotted) key or as a list element; addresses inside merged trees are fed to the later operations through the receiver and through the source. Half of the cases start from a random tree. " +
		"40% of the removals that address a list element are followed by 1-3 more removals from the same list through the same receiver (index 0, or the same index again), so that lists lose their last remaining element (12% of the histories); the emptied list's address is fed to the later operations and reads (refill, padding write, Child, writes through that child, removal of and from the empty list, merges into it and from configs that hold it); one in four generated lists of merged/attached trees is empty to begin with. " +
		"REJECTED OPERATIONS of every kind: walks through a primitive (Set*, SetChild, Remove, Child at overlapping addresses); about 1 in 6 Set*/SetChild is a write at the boundary of the index range: the explicit index just above the maximum index (half of them), 2-10 above, far above (1025, 5000, 1<<20, MaxInt32, MaxInt64), or exactly at a small maximum (accepted: the other side of the boundary), the maximum being the default 1024 or (6 in 10) a MaxIdx(0,1,2,3,4,7,9,16,64,1023) option given to that operation alone (an operation whose name has an index segment above its MaxIdx option is skipped: what such a segment denotes is C20's), or a negative index of the receiver's own list part; 6 in 10 of these addresses are a drawn address extended by 1-2 segments nothing was written to (q, r, deep, z, 5, 0, 2), so that the intermediate nodes of the rejected write do not exist (through the root and through handles); Remove/Child are sometimes given a MaxIdx option too; 1 in 10 merges from generic data holds a channel, a function or a complex number somewhere in its source (in a map at any depth, as a list element) and must fail. 1 in 10 initial trees, SetChild trees and data merges are handed over in Go struct representations (hist.StructRepr). " +
		"After every step: generic dump of the root and of EVERY pooled handle (incl. all former merge sources: Merge copies, so a later write on either side must not show on the other) equals the path/tree model (shared by pointer with the handles), IsDict() iff the model has named keys; an operation the model rejects must return an error and CHANGE NOTHING: the stored trees (hook snapshot ucfg.VerifFingerprint with node identities: every node, name, payload; empty containers and nil entries are nodes like any other) of the root and of every pooled handle are identical before and after it, in addition to all the comparisons below; a list stays a list however few elements it holds: a node whose list elements were all removed, or that was written/merged in as an empty list where nothing or a primitive was, is a list with 0 elements (IsArray() true on old and new handles, CountField(name) = 0 for a pure list, the generic view shows an empty list, not nothing), and a node that never had a list part is none (IsArray() false; not asserted for the rest of a history once an empty list met a nil or a node without list part, where the statement does not say what results, nor for the Child of a nil setting); CountField(\"\") = list elements + named keys (nil entries count), CountField(name) = 1 for a primitive, = number of elements for a pure list; NAME QUERIES (root and one pooled handle per step, rotating): HasField(k) for every named key k of the model, GetFields() has as many names as the model has named keys, CountField(k) is the same with PathSep(\".\") and PathSep(\"/\") as without options (the name is looked up literally at the top level like HasField does, also when it contains the separator: top-level a.b of histories without PathSep next to a nested a -> b), and for six (rotating) names that are NO named key of the node - the indices of its list part and one past the end in decimal, 0x and 0-prefixed spelling, the paths to its grandchildren with \".\" and \"/\", key.0, key.1, key.0x1 - HasField is false and CountField(name) and CountField(name, PathSep(\".\")) return -1 and an error; the step's address, one of 4 fixed addresses through the root and one through a pooled handle, and (after padding writes and every 4th step) one of the nil entries the receiver's tree holds are read through every getter, Has and Child via (name, idx), via the index as a decimal path segment or a segment in another integer syntax (alternating), via (prefix, idx) and via Child-by-Child navigation: all routes must observe the same and agree with the model. A nil entry (list padding, merged nil) exists: Has true, Bool/Int/Uint/Float fail, a Child (if given) is an empty config, CountField(name) is 0 or 1; String is not asserted. " +
		"Non-trivial: a removal or write hit a node an earlier write of the same history put there (or an ancestor of it), or a write went through a pooled handle. Distinct: hash of the whole case.",
	Gen: genCase,
	Run: runCase,
})

func TestTreeHistories(t *testing.T) { subHist.Check(t, 24000, 2000000) }

func TestReplay(t *testing.T) { runlog.ReplayMain(t) }
