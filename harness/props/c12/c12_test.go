// Package c12 decides property C12: path-addressed reads, writes and removals
// behave like a tree.
//
// A case is a history (hist.Case): an initial tree, a list of low-level
// operations (Set*, SetChild of a fresh config, Remove, Merge, Child) applied
// to the root or to pooled child handles, and a few read addresses. run
// executes it against a fresh config and against the path/tree model in
// lock-step and compares after every step.
package c12

import (
	"fmt"
	"math"
	"strconv"
	"strings"
	"testing"

	ucfg "github.com/elastic/go-ucfg"
	"pgregory.net/rapid"

	"verif/harness/internal/canon"
	"verif/harness/internal/gen"
	"verif/harness/internal/hist"
	"verif/harness/internal/model"
	"verif/harness/internal/runlog"
	"verif/harness/internal/uc"
)

type Case = hist.Case

// overlapping addresses: plain names, dotted paths through dictionaries and
// lists, index-like names, and the empty name (the receiver's own list part)
var names = []string{
	"a", "b", "c", "l", "a", "l",
	"a.b", "a.c", "a.l", "a.0", "a.1", "a.b.c", "a.l.2", "a.b.0",
	"l.0", "l.1", "l.2", "l.0.x", "l.1.x", "l.1.0",
	"0", "1", "2", "b.0.0", "",
}

var treeKeys = []string{"a", "b", "c", "l", "x", "a", "b", "0", "1"}

func genCfg() *hist.GenCfg {
	return &hist.GenCfg{
		Names:  names,
		MaxIdx: 3,
		MinOps: 3,
		MaxOps: runlog.Pick(24, 40),
		Kinds: []string{hist.Set, hist.Set, hist.Set, hist.Set, hist.Set, hist.Set, hist.Remove, hist.Remove, hist.Remove, hist.Remove,
			hist.Child, hist.Child, hist.Child, hist.Child, hist.SetChild, hist.SetChild, hist.SetChild, hist.Merge, hist.Merge},
		Trees:     &gen.TreeCfg{Depth: 2, Width: 3, Keys: treeKeys, Strings: gen.HostileStrings},
		Prims:     &gen.TreeCfg{PrimOnly: true, NoNil: true, Strings: gen.HostileStrings},
		Policies:  []model.Policy{model.Default},
		NReads:    4,
		ListNames: []string{"l", "a.l"},
	}
}

func genCase(t *rapid.T) Case { return hist.Gen(t, genCfg()) }

// ---------------------------------------------------------------------------
// observations

// obs is everything the read API says about one address.
type obs struct {
	B               bool
	I               int64
	U               uint64
	F               float64
	S               string
	Berr, Ierr      bool
	Uerr, Ferr      bool
	Serr            bool
	Child           *ucfg.Config
	ChildErr        bool
	Has, HasErr     bool
	errB, errChild  error
	errHas, errRead error
}

func observe(c *ucfg.Config, name string, idx int, opts []ucfg.Option) (o obs, err error) {
	err = uc.Safe("read", func() error {
		var e error
		o.B, e = c.Bool(name, idx, opts...)
		o.Berr, o.errB = e != nil, e
		o.I, e = c.Int(name, idx, opts...)
		o.Ierr = e != nil
		o.U, e = c.Uint(name, idx, opts...)
		o.Uerr = e != nil
		o.F, e = c.Float(name, idx, opts...)
		o.Ferr = e != nil
		o.S, e = c.String(name, idx, opts...)
		o.Serr, o.errRead = e != nil, e
		o.Child, e = c.Child(name, idx, opts...)
		o.ChildErr, o.errChild = e != nil, e
		o.Has, e = c.Has(name, idx, opts...)
		o.HasErr, o.errHas = e != nil, e
		return nil
	})
	return o, err
}

func (o obs) String() string {
	f := func(v interface{}, failed bool) string {
		if failed {
			return "err"
		}
		return fmt.Sprintf("%#v", v)
	}
	ch := "ok"
	if o.ChildErr {
		ch = "err"
	}
	return fmt.Sprintf("Bool=%s Int=%s Uint=%s Float=%s String=%s Child=%s Has=%s", f(o.B, o.Berr), f(o.I, o.Ierr), f(o.U, o.Uerr),
		f(o.F, o.Ferr), f(o.S, o.Serr), ch, f(o.Has, o.HasErr))
}

func sameFloat(a, b float64) bool { return a == b || (math.IsNaN(a) && math.IsNaN(b)) }

// sameObs: two routes to one setting must make the same observations.
func sameObs(a, b obs) bool {
	return a.Berr == b.Berr && (a.Berr || a.B == b.B) &&
		a.Ierr == b.Ierr && (a.Ierr || a.I == b.I) &&
		a.Uerr == b.Uerr && (a.Uerr || a.U == b.U) &&
		a.Ferr == b.Ferr && (a.Ferr || sameFloat(a.F, b.F)) &&
		a.Serr == b.Serr && (a.Serr || a.S == b.S) &&
		a.ChildErr == b.ChildErr && a.HasErr == b.HasErr && a.Has == b.Has
}

// route is one way of addressing a setting: an optional walk with Child, then
// a (name, idx) address.
type route struct {
	via  []model.Seg
	name string
	idx  int
	desc string
}

func decimal(s string) bool {
	i, err := strconv.Atoi(s)
	return err == nil && i >= 0 && strconv.Itoa(i) == s
}

// routes lists the equivalent ways of addressing (name, idx) from a node.
func routes(n *model.Node, a hist.Addr, sep string) []route {
	rs := []route{{name: a.Name, idx: a.Idx, desc: "(name, idx)"}}
	switch {
	case a.Name == "":
		// the list part of the receiver: the index as a name is the same address
		rs = append(rs, route{name: strconv.Itoa(a.Idx), idx: -1, desc: "index as name"})
	case sep != "" && a.Idx >= 0:
		rs = append(rs, route{name: a.Name + sep + strconv.Itoa(a.Idx), idx: -1, desc: "dotted path"})
	case sep != "" && a.Idx < 0:
		if i := strings.LastIndex(a.Name, sep); i > 0 && decimal(a.Name[i+len(sep):]) {
			k, _ := strconv.Atoi(a.Name[i+len(sep):])
			if k <= model.MaxIdx {
				rs = append(rs, route{name: a.Name[:i], idx: k, desc: "(prefix, idx)"})
			}
		}
	}
	// step by step with Child, if every node on the way is a container
	segs := model.ParseAddr(a.Name, a.Idx, sep)
	if len(segs) >= 2 {
		ok := true
		cur := n
		for _, sg := range segs[:len(segs)-1] {
			nx, err := cur.Step(sg)
			if err != nil || nx == nil || nx.Kind != "cont" {
				ok = false
				break
			}
			cur = nx
		}
		if ok {
			name, idx := hist.SegAddr(segs[len(segs)-1])
			rs = append(rs, route{via: segs[:len(segs)-1], name: name, idx: idx, desc: "Child by Child"})
		}
	}
	return rs
}

func primEqual(o obs, want interface{}) (bool, string) {
	switch w := want.(type) {
	case bool:
		return !o.Berr && o.B == w, "Bool"
	case int64:
		return !o.Ierr && o.I == w, "Int"
	case uint64:
		return !o.Uerr && o.U == w, "Uint"
	case float64:
		return !o.Ferr && sameFloat(o.F, w), "Float"
	case string:
		return !o.Serr && o.S == w, "String"
	}
	return false, "?"
}

// checkRead compares everything the read API says about one address of a
// handle with the model.
func checkRead(st *hist.State, h hist.Handle, a hist.Addr, r *runlog.R) error {
	if !hist.ValidAddr(a.Name, a.Idx) {
		return nil
	}
	segs := model.ParseAddr(a.Name, a.Idx, st.Sep)
	want, merr := h.M.Lookup(segs)
	var first obs
	for k, rt := range routes(h.M, a, st.Sep) {
		from := h
		if len(rt.via) > 0 {
			var err error
			if from, err = st.Navigate(h, rt.via); err != nil {
				return fmt.Errorf("read %v on handle #%d, %s: %v", a, h.ID, rt.desc, err)
			}
		}
		o, err := observe(from.C, rt.name, rt.idx, st.Opts)
		if err != nil {
			return fmt.Errorf("read %v on handle #%d, %s: %v", a, h.ID, rt.desc, err)
		}
		if k == 0 {
			first = o
			continue
		}
		if !sameObs(first, o) {
			return fmt.Errorf("read %v on handle #%d: (name, idx) and the equivalent %s (%q,%d) disagree\n (name, idx): %v\n %s: %v",
				a, h.ID, rt.desc, rt.name, rt.idx, first, rt.desc, o)
		}
	}
	o := first
	fail := func(format string, args ...interface{}) error {
		return fmt.Errorf("read %v on handle #%d: %s\n observed: %v", a, h.ID, fmt.Sprintf(format, args...), o)
	}
	switch {
	case merr != nil:
		r.Class("read:missing")
		if !(o.Berr && o.Ierr && o.Uerr && o.Ferr && o.Serr && o.ChildErr) {
			return fail("the model has no setting there (%v) but a getter succeeded", merr)
		}
		if merr == model.ErrExpectedObject {
			if !o.HasErr {
				return fail("the path walks through a primitive: Has must report an error")
			}
		} else if o.HasErr || o.Has {
			return fail("the setting is missing: Has must return false without an error (err=%v)", o.errHas)
		}
	case want.Kind == "prim":
		r.Class("read:primitive")
		if ok, getter := primEqual(o, want.Prim); !ok {
			return fail("the model holds %#v there, %s does not read it back", want.Prim, getter)
		}
		if !o.ChildErr {
			return fail("Child of a primitive setting must fail")
		}
		if o.HasErr || !o.Has {
			return fail("Has must be true (err=%v)", o.errHas)
		}
	case want.Kind == "cont":
		r.Class("read:container")
		if !(o.Berr && o.Ierr && o.Uerr && o.Ferr && o.Serr) {
			return fail("the setting is a container: the primitive getters must fail")
		}
		if o.ChildErr {
			return fail("Child must return the container (err=%v)", o.errChild)
		}
		if o.HasErr || !o.Has {
			return fail("Has must be true (err=%v)", o.errHas)
		}
		if err := checkNode(hist.Handle{C: o.Child, M: want, ID: -1}, fmt.Sprintf("Child%v of handle #%d", a, h.ID)); err != nil {
			return err
		}
	default:
		// a nil setting (padding, or merged in): the statement does not say what the getters return
		r.Class("read:nil")
	}
	return nil
}

// checkNode: the frame condition and the shape queries for one handle.
func checkNode(h hist.Handle, what string) error {
	got, err := uc.Dump(h.C)
	if err != nil {
		return fmt.Errorf("%s: dumping failed: %v", what, err)
	}
	want := h.M.Reify()
	if !canon.EqualSplit(got, want) {
		return fmt.Errorf("%s differs from the model\n got  %s\n want %s", what,
			canon.String(canon.Split(canon.Of(got))), canon.String(canon.Split(canon.Of(want))))
	}
	if d := h.C.IsDict(); d != (len(h.M.D) > 0) {
		return fmt.Errorf("%s: IsDict() = %v but the model has %d named keys", what, d, len(h.M.D))
	}
	// an emptied list is still reported as a list by the library; the statement is silent
	if a := h.C.IsArray(); len(h.M.A) > 0 && !a {
		return fmt.Errorf("%s: IsArray() = false but the model has %d list elements", what, len(h.M.A))
	}
	// CountField(""): all top-level settings; named keys holding nil may or may not count
	nonNil := 0
	for _, v := range h.M.D {
		if v.Kind != "nil" {
			nonNil++
		}
	}
	n, err := h.C.CountField("")
	if err != nil || n < len(h.M.A)+nonNil || n > len(h.M.A)+len(h.M.D) {
		return fmt.Errorf("%s: CountField(\"\") = %d, %v; the model has %d list elements and %d named keys", what, n, err, len(h.M.A), len(h.M.D))
	}
	for _, k := range h.M.SortedKeys() {
		v := h.M.D[k]
		n, err := h.C.CountField(k)
		if err != nil {
			return fmt.Errorf("%s: CountField(%q) failed: %v", what, k, err)
		}
		switch {
		case v.Kind == "prim" && n != 1:
			return fmt.Errorf("%s: CountField(%q) = %d for a primitive", what, k, n)
		case v.Kind == "cont" && len(v.D) == 0 && len(v.A) > 0 && n != len(v.A):
			return fmt.Errorf("%s: CountField(%q) = %d for a list of %d elements", what, k, n, len(v.A))
		}
	}
	return nil
}

// checkAll is the oracle applied after every step: the frame condition for
// the root and every pooled handle, then point reads: the address the step
// used (through its receiver), one of the case's read addresses through the
// root and one through a pooled handle, rotating; before the first and after
// the last step every read address is read through the root and every handle.
func checkAll(st *hist.State, c Case, step int, info *hist.Info, r *runlog.R) error {
	if err := checkNode(st.Root, "the root"); err != nil {
		return err
	}
	for _, h := range st.Pool {
		if err := checkNode(h, fmt.Sprintf("handle #%d", h.ID)); err != nil {
			return err
		}
	}
	if info == nil {
		for _, a := range c.Reads {
			if err := checkRead(st, st.Root, a, r); err != nil {
				return err
			}
			for _, h := range st.Pool {
				if err := checkRead(st, h, a, r); err != nil {
					return err
				}
			}
		}
		return nil
	}
	if op := c.Ops[step]; op.Kind != hist.Merge && info.Skipped == "" {
		if err := checkRead(st, info.Receiver, op.Addr(), r); err != nil {
			return err
		}
	}
	if len(c.Reads) > 0 {
		if err := checkRead(st, st.Root, c.Reads[step%len(c.Reads)], r); err != nil {
			return err
		}
		if len(st.Pool) > 0 {
			if err := checkRead(st, st.Pool[step%len(st.Pool)], c.Reads[(step+1)%len(c.Reads)], r); err != nil {
				return err
			}
		}
	}
	return nil
}

func trace(c Case, upto int) string {
	var b strings.Builder
	b.WriteString("\n history:")
	if c.Init != nil {
		fmt.Fprintf(&b, "\n  init %s", canon.Show(c.Init.Go()))
	}
	for i := 0; i <= upto && i < len(c.Ops); i++ {
		op := c.Ops[i]
		fmt.Fprintf(&b, "\n  %d: %s", i, op)
		if op.Val != nil {
			fmt.Fprintf(&b, " %s", canon.Show(op.Val.Go()))
		}
	}
	fmt.Fprintf(&b, "\n  pathsep=%v", c.PathSep)
	return b.String()
}

func runCase(c Case, r *runlog.R) error {
	st, ok, err := hist.New(c, false)
	if err != nil {
		return err
	}
	if !ok {
		r.Discard()
		return nil
	}
	if err := checkAll(st, c, -1, nil, r); err != nil {
		return fmt.Errorf("initial state: %v%s", err, trace(c, -1))
	}
	nt := false
	for i, op := range c.Ops {
		info, err := st.Apply(op)
		if err != nil {
			return fmt.Errorf("step %d: %v%s", i, err, trace(c, i))
		}
		switch {
		case info.Skipped != "":
			r.Class("skipped: " + info.Skipped)
		case info.Rejected:
			r.Class("rejected " + op.Kind)
		default:
			r.Class("op " + op.Kind)
		}
		r.ClassIf(info.ViaHandle && info.Wrote && !info.Detached, "write through a live handle")
		r.ClassIf(info.ViaHandle && info.Wrote && info.Detached, "write through a detached handle")
		r.ClassIf(info.Overlap, "overwrite or removal of an earlier write")
		r.ClassIf(info.Padded, "padding")
		r.ClassIf(info.Shifted, "shifting removal")
		r.ClassIf(info.Retired > 0, "merge retired handles")
		if info.Overlap || (info.ViaHandle && info.Wrote) {
			nt = true
		}
		if err := checkAll(st, c, i, &info, r); err != nil {
			return fmt.Errorf("after step %d (%s): %v%s", i, op, err, trace(c, i))
		}
	}
	if err := checkAll(st, c, len(c.Ops), nil, r); err != nil {
		return fmt.Errorf("final state: %v%s", err, trace(c, len(c.Ops)))
	}
	r.NonTrivialIf(nt)
	r.ClassIf(c.PathSep, "with PathSep")
	r.ClassIf(!c.PathSep, "without PathSep")
	r.ClassIf(st.Root.M.Mixed(), "final tree has a mixed node")
	return nil
}

var subHist = runlog.Register(&runlog.Sub[Case]{
	Name: "tree-histories",
	Rule: "histories of 3-24 (thorough: 3-40) operations SetBool/Int/Uint/Float/String, SetChild(fresh config from a tree), Remove, Merge(default policy), Child on the root and (40%) on pooled child handles (index modulo pool size, pool of 6); addresses from a small overlapping pool of names, dotted paths, index-like names and explicit indices 0..3 (past the end included), 3 of 4 cases with PathSep(\".\"); half of the cases start from a random tree. After every step: generic dump of the root and of every pooled handle equals the path/tree model (shared by pointer with the handles), IsDict/IsArray/CountField agree, and 4 fixed addresses are read through every getter, Has and Child via (name, idx), the equivalent dotted path and Child-by-Child navigation. Non-trivial: a removal or write hit a node an earlier write of the same history put there (or an ancestor of it), or a write went through a pooled child handle. Distinct: hash of the whole case.",
	Gen:  genCase,
	Run:  runCase,
})

func TestTreeHistories(t *testing.T) { subHist.Check(t, 30000, 2000000) }

func TestReplay(t *testing.T) { runlog.ReplayMain(t) }
