package c12

// Sub-check "alias-histories": SetChild of a config that IS ATTACHED ALREADY.
//
// SetChild stores the config it is given; "a child config is a live view whose
// writes are visible through the parent". In a plain tree of dictionaries and
// lists, a dictionary stored at two addresses is ONE dictionary: a write or a
// removal through either address, or through a handle to it, shows at every
// address. The model is model.Node with the node shared by pointer between the
// addresses (and with the handles), so the plain-tree answer falls out of the
// same SetPath/RemovePath/Lookup the main sub-check uses. Merge (documented to
// copy) is not part of these histories; Path/Parent of a config attached more
// than once are C15's (finding D14), nothing here reads them.

import (
	"fmt"
	"strings"
	"testing"

	ucfg "github.com/elastic/go-ucfg"
	"pgregory.net/rapid"

	"verif/harness/internal/canon"
	"verif/harness/internal/gen"
	"verif/harness/internal/hist"
	"verif/harness/internal/model"
	"verif/harness/internal/runlog"
	"verif/harness/internal/uc"
)

const (
	aSet    = "set"
	aRemove = "remove"
	aChild  = "child"  // Child: the handle joins the pool
	aAttach = "attach" // SetChild of pooled handle Src (Src > 0) or of a fresh config built from Val (Src == 0; the config itself joins the pool)
	aNew    = "new"    // a stand-alone config built from Val joins the pool (attached later)
)

type aliasOp struct {
	Kind string    `json:"kind"`
	H    int       `json:"h,omitempty"` // receiver: 0 the root, k > 0 pooled handle (k-1) modulo pool size
	Name string    `json:"name"`
	Idx  int       `json:"idx"`
	Val  *gen.Tree `json:"val,omitempty"`
	Src  int       `json:"src,omitempty"`
}

func (o aliasOp) String() string {
	s := fmt.Sprintf("%s h=%d (%q,%d)", o.Kind, o.H, o.Name, o.Idx)
	if o.Kind == aAttach {
		if o.Src == 0 {
			s += " fresh config"
		} else {
			s += fmt.Sprintf(" pooled handle src=%d", o.Src)
		}
	}
	return s
}

type aliasCase struct {
	PathSep bool        `json:"pathsep"`
	Sep     string      `json:"sep,omitempty"`
	Init    *gen.Tree   `json:"init,omitempty"`
	Ops     []aliasOp   `json:"ops"`
	Reads   []hist.Addr `json:"reads,omitempty"`
}

var aliasNames = []string{"a", "b", "l", "p", "a", "l", "a.b", "l.0", "l.1", "a.l", "a.l.1", "p.a", "b.a", "a.b.c", "l.2", "0", "1", "", "l.0.a", "p.l.0"}
var aliasKeys = []string{"a", "b", "c", "l", "x", "a", "l"}

func aliasJoin(name, sep string) string {
	if sep == "." || !strings.Contains(name, ".") {
		return name
	}
	return strings.ReplaceAll(name, ".", sep)
}

func genAliasAddr(t *rapid.T, sep string, label string) hist.Addr {
	name := aliasJoin(rapid.SampledFrom(aliasNames).Draw(t, label+"name"), sep)
	idx := -1
	if name == "" || rapid.IntRange(0, 4).Draw(t, label+"hasidx") == 0 {
		idx = rapid.IntRange(0, 3).Draw(t, label+"idx")
	}
	return hist.Addr{Name: name, Idx: idx}
}

func genAliasCase(t *rapid.T) aliasCase {
	c := aliasCase{PathSep: rapid.IntRange(0, 3).Draw(t, "pathsep") > 0}
	sep := ""
	if c.PathSep {
		sep = "."
		if rapid.IntRange(0, 4).Draw(t, "othersep") == 0 {
			c.Sep = rapid.SampledFrom([]string{"/", "::", "|"}).Draw(t, "sep")
			sep = c.Sep
		}
	}
	trees := &gen.TreeCfg{Depth: 2, Width: 3, Keys: aliasKeys, Strings: gen.HostileStrings, NoNil: true}
	prims := &gen.TreeCfg{PrimOnly: true, NoNil: true, Strings: gen.HostileStrings}
	if rapid.IntRange(0, 1).Draw(t, "init") == 1 {
		c.Init = gen.GenObj(t, trees, 2)
	}
	n := rapid.IntRange(3, runlog.Pick(12, 18)).Draw(t, "nops")
	pool := 0 // estimate of the pool size at run time
	// addresses (through the root) that hold a container if nothing has overwritten them: Child goes there
	var conts []hist.Addr
	if c.Init != nil {
		c.Init.Walk(nil, func(p []string, n *gen.Tree) {
			if n.IsCont() && len(p) > 0 && (len(p) == 1 || c.PathSep) {
				conts = append(conts, hist.Addr{Name: strings.Join(p, sep), Idx: -1})
			}
		})
	}
	var last *aliasOp
	for len(c.Ops) < n {
		var op aliasOp
		k := rapid.IntRange(0, 19).Draw(t, "kind")
		if len(c.Ops) == 0 && k < 16 {
			k = 12 + k%8 // most histories start by attaching or pooling a config
		}
		switch {
		case last != nil && last.Kind == aAttach && k < 13:
			// directed: a write or a removal BELOW the place just attached, through the same receiver (by the
			// longer address), through the attached config, or through any other handle
			op.Kind = aSet
			if k < 4 {
				op.Kind = aRemove
			}
			key := rapid.SampledFrom(aliasKeys).Draw(t, "key")
			switch via := rapid.IntRange(0, 3).Draw(t, "via"); {
			case via == 0 && c.PathSep && last.Name != "":
				op.H, op.Name, op.Idx = last.H, last.Name, -1
				if last.Idx >= 0 {
					op.Name += sep + fmt.Sprint(last.Idx)
				}
				op.Name += sep + key
			case via <= 1 && pool > 0:
				// the pooled config that was attached (the newest handle if it was fresh)
				op.H, op.Name, op.Idx = last.Src, key, -1
				if last.Src == 0 {
					op.H = pool
				}
			default:
				op.H = rapid.IntRange(0, pool).Draw(t, "h")
				a := genAliasAddr(t, sep, "")
				op.Name, op.Idx = a.Name, a.Idx
			}
		default:
			switch {
			case k < 6:
				op.Kind = aSet
			case k < 9:
				op.Kind = aRemove
			case k < 12:
				op.Kind = aChild
			case k < 19:
				op.Kind = aAttach
			default:
				op.Kind = aNew
			}
			if pool > 0 && rapid.IntRange(0, 9).Draw(t, "viahandle") < 4 {
				op.H = rapid.IntRange(1, 6).Draw(t, "h")
			}
			a := genAliasAddr(t, sep, "")
			if op.Kind == aChild && op.H == 0 && len(conts) > 0 && rapid.IntRange(0, 9).Draw(t, "known") < 8 {
				a = rapid.SampledFrom(conts).Draw(t, "cont")
			}
			op.Name, op.Idx = a.Name, a.Idx
		}
		switch op.Kind {
		case aSet:
			op.Val = gen.GenTree(t, prims, 0)
		case aAttach:
			if pool > 0 && rapid.IntRange(0, 9).Draw(t, "srcpooled") < 7 {
				op.Src = rapid.IntRange(1, 6).Draw(t, "src")
			} else if rapid.IntRange(0, 3).Draw(t, "freshlist") == 0 {
				op.Val = gen.GenList(t, trees, 1)
			} else {
				op.Val = gen.GenObj(t, trees, 1)
			}
		case aNew:
			op.Val = gen.GenObj(t, trees, 1)
		}
		if op.Kind == aAttach && op.H == 0 {
			conts = append(conts, hist.Addr{Name: op.Name, Idx: op.Idx})
		}
		if op.Kind == aChild || op.Kind == aNew || (op.Kind == aAttach && op.Src == 0) {
			pool++
			if pool > 6 {
				pool = 6
			}
		}
		c.Ops = append(c.Ops, op)
		last = &c.Ops[len(c.Ops)-1]
	}
	for i := 0; i < 3; i++ {
		c.Reads = append(c.Reads, genAliasAddr(t, sep, "read"))
	}
	return c
}

// aliasTree: the config NewFrom makes of a tree, and its model.
func aliasTree(t *gen.Tree, st *hist.State) (*ucfg.Config, *model.Node, bool, error) {
	m := model.NewCont()
	from, err := model.FromTreeSep(t, st.Sep, true)
	if err != nil {
		return nil, nil, false, nil // two keys define the same setting: C06's domain
	}
	if model.EmptyListMeets(model.Default, m, from) || model.HasEmptyList(t) {
		st.LooseEmpty = true
	}
	model.MergeCont(model.Default, nil, m, from)
	var cfg *ucfg.Config
	if err := uc.Safe("NewFrom", func() error {
		var e error
		cfg, e = ucfg.NewFrom(t.Go(), st.Opts...)
		return e
	}); err != nil {
		return nil, nil, true, fmt.Errorf("NewFrom(tree) failed: %v", err)
	}
	return cfg, m, true, nil
}

// addresses counts the addresses (paths from the root) every container of the tree is stored at.
func addresses(root *model.Node) map[*model.Node]int {
	out := map[*model.Node]int{}
	root.Walk(nil, func(_ []model.Seg, n *model.Node) {
		if n.Kind == "cont" {
			out[n]++
		}
	})
	return out
}

type aliasState struct {
	*hist.State
	seq  int
	ring int
	// firstParent: the container a container was below when it was first seen (after the step that created
	// or first attached it). This is what the library keeps as the config's parent (its context is set when
	// it is first attached and neither updated nor cleared later: finding D14). Only used to construct away
	// the histories in which these stale links form a ring, while D14 is open.
	firstParent map[*model.Node]*model.Node
}

func (s *aliasState) noteParents() {
	var rec func(n *model.Node)
	rec = func(n *model.Node) {
		if n.Kind != "cont" {
			return
		}
		for _, k := range n.SortedKeys() {
			if c := n.D[k]; c.Kind == "cont" {
				if _, ok := s.firstParent[c]; !ok {
					s.firstParent[c] = n
				}
				rec(c)
			}
		}
		for _, c := range n.A {
			if c.Kind == "cont" {
				if _, ok := s.firstParent[c]; !ok {
					s.firstParent[c] = n
				}
				rec(c)
			}
		}
	}
	rec(s.Root.M)
	for _, h := range s.Pool {
		rec(h.M)
	}
}

// staleRing: src has never been attached and one of the nodes is, by the parent links the library keeps
// (firstParent), below src: attaching src there closes a ring of parent links.
func (s *aliasState) staleRing(src *model.Node, nodes []*model.Node) bool {
	if _, ok := s.firstParent[src]; ok {
		return false
	}
	for _, n := range nodes {
		for k := 0; n != nil && k < 1000; k++ {
			if n == src {
				return true
			}
			n = s.firstParent[n]
		}
	}
	return false
}

func (s *aliasState) pool(h hist.Handle) {
	s.seq++
	h.ID = s.seq
	if len(s.Pool) < 6 {
		s.Pool = append(s.Pool, h)
		return
	}
	s.Pool[s.ring%len(s.Pool)] = h
	s.ring++
}

func aliasTrace(c aliasCase, upto int) string {
	var b strings.Builder
	b.WriteString("\n history:")
	if c.Init != nil {
		fmt.Fprintf(&b, "\n  init %s", canon.Show(c.Init.Go()))
	}
	for i := 0; i <= upto && i < len(c.Ops); i++ {
		fmt.Fprintf(&b, "\n  %d: %s", i, c.Ops[i])
		if c.Ops[i].Val != nil {
			fmt.Fprintf(&b, " %s", canon.Show(c.Ops[i].Val.Go()))
		}
	}
	fmt.Fprintf(&b, "\n  pathsep=%v separator=%q", c.PathSep, c.Sep)
	return b.String()
}

// aliasCheck: the frame condition (whole tree of the root and of every pooled config) and the point reads.
func aliasCheck(st *aliasState, c aliasCase, step int, recv *hist.Handle, a *hist.Addr, r *runlog.R) error {
	if err := checkNode(st.Root, "the root", shapeOf(st.State), r); err != nil {
		return err
	}
	for _, h := range st.Pool {
		if err := checkNode(h, fmt.Sprintf("handle #%d", h.ID), shapeOf(st.State), r); err != nil {
			return err
		}
	}
	if err := checkNames(st.Root, "the root", step, r); err != nil {
		return err
	}
	if recv != nil && a != nil {
		if err := checkRead(st.State, *recv, *a, step, r); err != nil {
			return err
		}
	}
	if len(c.Reads) > 0 {
		if err := checkRead(st.State, st.Root, c.Reads[(step+1)%len(c.Reads)], step+1, r); err != nil {
			return err
		}
		if len(st.Pool) > 0 {
			if err := checkRead(st.State, st.Pool[(step+1)%len(st.Pool)], c.Reads[(step+2)%len(c.Reads)], step+2, r); err != nil {
				return err
			}
		}
	}
	return nil
}

func runAlias(c aliasCase, r *runlog.R) error {
	hs := &hist.State{PoolCap: 6}
	if c.PathSep {
		hs.Sep = "."
		if c.Sep != "" {
			hs.Sep = c.Sep
		}
		hs.Opts = []ucfg.Option{ucfg.PathSep(hs.Sep)}
	}
	st := &aliasState{State: hs, firstParent: map[*model.Node]*model.Node{}}
	hs.Root = hist.Handle{C: ucfg.New(), M: model.NewCont()}
	if c.Init != nil {
		cfg, m, ok, err := aliasTree(c.Init, hs)
		if err != nil {
			return err
		}
		if !ok {
			r.Discard()
			return nil
		}
		hs.Root = hist.Handle{C: cfg, M: m}
	}
	nt, wroteShared, twice := false, false, false
	for i, op := range c.Ops {
		st.noteParents()
		skip := func(why string) { r.Class("skipped: " + why) }
		if !hist.ValidAddr(op.Name, op.Idx) && op.Kind != aNew {
			skip("address outside the domain")
			continue
		}
		h, ok := hs.Resolve(op.H)
		if !ok {
			skip("no pooled handle")
			continue
		}
		what := fmt.Sprintf("step %d (%s on handle #%d)", i, op, h.ID)
		fail := func(err error) error { return fmt.Errorf("%s: %v%s", what, err, aliasTrace(c, i)) }
		segs := model.ParseAddr(op.Name, op.Idx, hs.Sep)
		addr := hist.Addr{Name: op.Name, Idx: op.Idx}
		// is the node the operation changes stored at two or more addresses of the root (or below such a node)?
		shared := func() bool {
			p, err := h.M.Lookup(segs[:len(segs)-1])
			return err == nil && p.Kind == "cont" && addresses(hs.Root.M)[p] >= 2
		}
		var readAt *hist.Addr
		switch op.Kind {
		case aSet:
			if op.Val == nil || !op.Val.IsPrim() {
				skip("set without a primitive")
				continue
			}
			sh := shared()
			_, merr := h.M.SetPath(segs, model.NewPrim(op.Val.Prim()))
			err := uc.Safe("Set", func() error {
				switch op.Val.K {
				case "bool":
					return h.C.SetBool(op.Name, op.Idx, op.Val.B, hs.Opts...)
				case "int":
					return h.C.SetInt(op.Name, op.Idx, op.Val.I, hs.Opts...)
				case "uint":
					return h.C.SetUint(op.Name, op.Idx, op.Val.U, hs.Opts...)
				case "float":
					return h.C.SetFloat(op.Name, op.Idx, op.Val.FloatVal(), hs.Opts...)
				}
				return h.C.SetString(op.Name, op.Idx, op.Val.S, hs.Opts...)
			})
			if (err == nil) != (merr == nil) {
				return fail(fmt.Errorf("library: %v, model: %v", err, merr))
			}
			if merr != nil {
				r.Class("rejected set")
				break
			}
			r.Class("op set")
			if sh {
				wroteShared = true
				r.Class("write into a node stored at two or more addresses")
				r.ClassIf(op.H > 0, "write into a node stored at two or more addresses, through a handle")
				r.ClassIf(op.H == 0, "write into a node stored at two or more addresses, through the root")
			}
			readAt = &addr

		case aRemove:
			sh := shared()
			removed, _, merr := h.M.RemovePath(segs)
			var got bool
			err := uc.Safe("Remove", func() error {
				var e error
				got, e = h.C.Remove(op.Name, op.Idx, hs.Opts...)
				return e
			})
			if (err == nil) != (merr == nil) {
				return fail(fmt.Errorf("library: %v, model: %v", err, merr))
			}
			if merr != nil {
				r.Class("rejected remove")
				break
			}
			if got != removed {
				return fail(fmt.Errorf("Remove returned %v, the model says %v", got, removed))
			}
			r.Class("op remove")
			if removed && sh {
				wroteShared = true
				r.Class("removal from a node stored at two or more addresses")
			}
			readAt = &addr

		case aChild:
			n, merr := h.M.Lookup(segs)
			var ch *ucfg.Config
			err := uc.Safe("Child", func() error {
				var e error
				ch, e = h.C.Child(op.Name, op.Idx, hs.Opts...)
				return e
			})
			if merr == nil && n.Kind == "nil" {
				skip("child of a nil setting")
				continue
			}
			if merr == nil && n.Kind == "prim" {
				merr = model.ErrExpectedObject
			}
			if (err == nil) != (merr == nil) {
				return fail(fmt.Errorf("library: %v, model: %v", err, merr))
			}
			if merr != nil {
				r.Class("rejected child")
				break
			}
			if ch == nil {
				return fail(fmt.Errorf("Child returned nil without an error"))
			}
			r.Class("op child")
			r.ClassIf(addresses(hs.Root.M)[n] >= 2, "handle to a node stored at two or more addresses pooled")
			st.pool(hist.Handle{C: ch, M: n})

		case aNew:
			if op.Val == nil || !op.Val.IsCont() {
				skip("new without a tree")
				continue
			}
			cfg, m, ok, err := aliasTree(op.Val, hs)
			if err != nil {
				return fail(err)
			}
			if !ok {
				skip("tree with conflicting keys")
				continue
			}
			r.Class("op new (stand-alone config pooled)")
			st.pool(hist.Handle{C: cfg, M: m})

		case aAttach:
			var src hist.Handle
			fresh := op.Src == 0
			if fresh {
				if op.Val == nil || !op.Val.IsCont() {
					skip("attach without a tree")
					continue
				}
				cfg, m, ok, err := aliasTree(op.Val, hs)
				if err != nil {
					return fail(err)
				}
				if !ok {
					skip("tree with conflicting keys")
					continue
				}
				src = hist.Handle{C: cfg, M: m}
			} else {
				if len(hs.Pool) == 0 {
					skip("no pooled handle")
					continue
				}
				src = hs.Pool[(op.Src-1)%len(hs.Pool)]
			}
			// a tree stays a tree: the config must not end up below itself
			cyc := false
			var walk []*model.Node
			for cur, k := h.M, 0; cur != nil && cur.Kind == "cont"; k++ {
				if src.M.Contains(cur) {
					cyc = true
				}
				walk = append(walk, cur)
				if k >= len(segs)-1 {
					break
				}
				nx, err := cur.Step(segs[k])
				if err != nil {
					break
				}
				cur = nx
			}
			if cyc {
				skip("attach would put a config below itself")
				continue
			}
			if runlog.IsOpen("D14") && st.staleRing(src.M, walk) {
				// The tree is a proper tree, but the library's parent links are not: a config keeps the parent
				// it was FIRST attached to, also after it was removed from there (D14: the context is neither
				// updated nor cleared). Attaching a never attached config X below a config that was once
				// attached below X closes a ring of parent links, and the next failing read never returns
				// (the path of the error message is built by walking the parent links).
				r.Excluded("D14")
				skip("attach would close a ring of stale parent links (D14)")
				continue
			}
			before := addresses(hs.Root.M)[src.M]
			_, detached := hs.Root.M.PathTo(src.M)
			detached = !detached
			hadParent := src.C.Parent() != nil // (only to label the classes: what Parent says is C15's)
			target, _ := h.M.Lookup(segs)
			_, merr := h.M.SetPath(segs, src.M)
			err := uc.Safe("SetChild", func() error { return h.C.SetChild(op.Name, op.Idx, src.C, hs.Opts...) })
			if (err == nil) != (merr == nil) {
				return fail(fmt.Errorf("library: %v, model: %v", err, merr))
			}
			if merr != nil {
				r.Class("rejected attach")
				break
			}
			after := addresses(hs.Root.M)[src.M]
			switch {
			case fresh:
				r.Class("attach: fresh config")
				st.pool(src)
			case target == src.M:
				r.Class("attach: config onto the place it is stored at already")
			case before >= 1 && after > before:
				twice = true
				r.Class("attach: config that is attached already, at one more address")
			case before >= 1:
				r.Class("attach: config that is attached already, below a detached config or replacing one of its own addresses")
			case detached && hadParent:
				r.Class("attach: detached config that was attached earlier")
			default:
				r.Class("attach: pooled stand-alone config")
			}
			r.ClassIf(after >= 2, "config stored at two or more addresses after the attach")
			r.ClassIf(after >= 3, "config stored at three or more addresses after the attach")
			readAt = &addr
		}
		var recv *hist.Handle
		if readAt != nil {
			recv = &h
		}
		if err := aliasCheck(st, c, i, recv, readAt, r); err != nil {
			return fmt.Errorf("after %s: %v%s", what, err, aliasTrace(c, i))
		}
		if wroteShared {
			nt = true
		}
	}
	for k, a := range c.Reads {
		if err := checkRead(hs, hs.Root, a, k, r); err != nil {
			return fmt.Errorf("final state: %v%s", err, aliasTrace(c, len(c.Ops)))
		}
		for j, h := range hs.Pool {
			if err := checkRead(hs, h, a, k+j+1, r); err != nil {
				return fmt.Errorf("final state: %v%s", err, aliasTrace(c, len(c.Ops)))
			}
		}
	}
	r.NonTrivialIf(nt)
	r.ClassIf(twice, "history attaches an attached config at one more address")
	r.ClassIf(twice && wroteShared, "history attaches an attached config at one more address and writes into a shared node")
	r.ClassIf(c.PathSep, "with PathSep")
	r.ClassIf(!c.PathSep, "without PathSep")
	return nil
}

var subAlias = runlog.Register(&runlog.Sub[aliasCase]{
	Name: "alias-histories",
	Rule: "histories of 3-12 (thorough: 3-18) operations Set*, Remove, Child (handle pooled), SetChild and NewFrom (stand-alone config pooled) on the root and (40%) on pooled handles, where SetChild is given (70% once the pool is not empty) a POOLED config: a handle obtained with Child, a config an earlier SetChild attached (the caller's own variable, pooled as it is), a stand-alone or detached config - so that one config is stored at two or more addresses (of the root, of lists, of other pooled configs, onto its own place) - or a fresh config built from a tree (objects and top-level lists). " +
		"13 in 20 operations after a SetChild are a write or removal below the place just attached: by the longer address through the same receiver, through the attached config itself, or at a drawn address through any handle. An attach that would put a config below itself is skipped (a tree stays a tree). No Merge (documented to copy); 3 of 4 cases with PathSep (1 in 5 of them with another separator); half start from a random tree. " +
		"Model: the plain tree of the main sub-check (model.Node) with the node SHARED BY POINTER between all the addresses it was stored at and all handles: a dictionary stored at two addresses is one dictionary, so a write or removal through any address or handle shows at every address (the statement: 'agrees with a plain tree ... subjected to the same operations', 'a child config is a live view whose writes are visible through the parent'); removing or overwriting it at one address leaves the others. " +
		"After every step: the generic dump, IsDict/IsArray and CountField of the root and of EVERY pooled config equal the model (frame condition over all addresses), the name queries of the main sub-check (HasField, GetFields, CountField(name) with and without PathSep: literal top-level lookup; names that are paths or indices of existing settings but no named key count nothing) hold for the root, library and model agree on success/failure and on the result of Remove, and the step's address, one fixed address through the root and one through a pooled handle are read through every getter, Has and Child by all equivalent routes (checkRead of the main sub-check). Path/Parent are not read (C15, D14). " +
		"Non-trivial: a write or removal changed a node that is stored at two or more addresses of the root at that moment. Distinct: hash of the whole case.",
	Journal: true,
	Gen:     genAliasCase,
	Run:     runAlias,
})

func TestAliasHistories(t *testing.T) { subAlias.Check(t, 8000, 600000) }
