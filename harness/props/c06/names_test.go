package c06

// Relations between the config names of one type. gen.GenStructTD gives every field a globally unique, structurally
// unrelated name (f1, f2, d3.e4, g0x5 ...). The property quantifies over ARBITRARY config tags: two settings are the
// same setting only if their names are identical. relateNames rewrites names of a generated type so that names of
// one namespace are related without being identical (equal ignoring case, equal after Unicode case mapping or
// normalisation, equal after trimming, prefix/suffix of each other, equal to the Go name of the sibling), so that one
// name is used in several namespaces (a struct and a struct nested in it), and so that names carry characters that
// have a meaning elsewhere in the library ($ { } : [ ] white space).

import (
	"strconv"
	"strings"
	"unicode"
	"unicode/utf8"

	"pgregory.net/rapid"

	"verif/harness/internal/gen"
)

var optionWord = map[string]bool{"ignore": true, "inline": true, "squash": true, "merge": true, "replace": true, "append": true, "prepend": true}

func cloneTD(td *gen.TD) *gen.TD {
	if td == nil {
		return nil
	}
	c := *td
	c.Elem = cloneTD(td.Elem)
	if td.Fields != nil {
		c.Fields = make([]gen.FD, len(td.Fields))
		for i, f := range td.Fields {
			f.T = cloneTD(f.T)
			c.Fields[i] = f
		}
	}
	return &c
}

func isIndexName(s string) bool {
	_, err := strconv.ParseInt(s, 0, 64)
	return err == nil
}

// hasName: the field is stored under a config name of its own.
func hasName(f *gen.FD) bool { return !f.Inline && !f.Ignore && !f.Unexp }

func hasArray(td *gen.TD) bool {
	for x := td; x != nil; x = x.Elem {
		if x.Kind == "array" {
			return true
		}
		if x.Kind != "ptr" {
			return false
		}
	}
	return false
}

// confusable prefixes: the two members of a pair are different names that a case mapping, a case folding or a
// Unicode normalisation identifies.
var confusable = [][2]string{
	{"k", "\u212a"},       // KELVIN SIGN folds to k
	{"s", "\u017f"},       // LONG S folds to s
	{"i", "\u0130"},       // ToLower(I WITH DOT ABOVE) = i, not equal under simple folding
	{"I", "\u0131"},       // ToUpper(DOTLESS I) = I
	{"\u00e9", "e\u0301"}, // NFC / NFD
	{"ss", "\u00df"},      // sharp s
	{"\u01c6", "\u01c5"},  // lower / title case digraph
}

type nameGen struct {
	t          *rapid.T
	sep        string // path separator in use ("" = none); names are generated with "." for it and respelled later
	ptrToArray bool
	pinned     map[string]bool // segments of dotted names: the fields they name keep their names
	bad        bool            // a new name contains the path separator
}

// set gives the field a new name; a name that the path separator in use would split is not a single name.
func (g *nameGen) set(f *gen.FD, name string) {
	if g.sep != "" && (strings.Contains(name, g.sep) || strings.Contains(name, ".")) {
		g.bad = true
		return
	}
	f.Tag = name
}

func collectPinned(td *gen.TD, pinned map[string]bool) {
	if td == nil {
		return
	}
	collectPinned(td.Elem, pinned)
	for i := range td.Fields {
		f := &td.Fields[i]
		if strings.Contains(f.Tag, ".") {
			for _, s := range strings.Split(f.Tag, ".") {
				pinned[s] = true
			}
		}
		collectPinned(f.T, pinned)
	}
}

// relateNames rewrites config names of the type (before a value is drawn). If the result would give one namespace
// the same name twice, the type is left as it was generated.
func relateNames(t *rapid.T, root *gen.TD, sep string, ptrToArray bool) {
	backup := cloneTD(root)
	g := &nameGen{t: t, sep: sep, ptrToArray: ptrToArray, pinned: map[string]bool{}}
	collectPinned(root, g.pinned)
	g.walk(root, nil)
	if !namesOK(root) || g.bad {
		*root = *backup
	}
}

func (g *nameGen) walk(td *gen.TD, outer []string) {
	if td == nil {
		return
	}
	if td.Kind != "struct" {
		g.walk(td.Elem, outer)
		return
	}
	g.relate(td, outer)
	inner := append([]string{}, outer...)
	for i := range td.Fields {
		f := &td.Fields[i]
		if hasName(f) && !strings.Contains(f.ConfigName(), ".") && !isIndexName(f.ConfigName()) {
			inner = append(inner, f.ConfigName())
		}
	}
	for i := range td.Fields {
		f := &td.Fields[i]
		if f.Inline {
			g.walk(f.T, outer) // same namespace: the names of this struct are no candidates for reuse
		} else {
			g.walk(f.T, inner)
		}
	}
}

func (g *nameGen) relate(td *gen.TD, outer []string) {
	t := g.t
	var elig, anchors []int
	for i := range td.Fields {
		f := &td.Fields[i]
		if !hasName(f) || strings.Contains(f.Tag, ".") || isIndexName(f.ConfigName()) {
			continue
		}
		anchors = append(anchors, i)
		if !g.pinned[f.Tag] && !optionWord[f.Tag] {
			elig = append(elig, i)
		}
	}
	if len(elig) == 0 {
		return
	}
	mode := rapid.IntRange(0, 9).Draw(t, "namerel")
	switch {
	case mode == 0:
		return
	case (mode == 6 || mode == 7) && len(outer) > 0:
		// a name of an enclosing struct (or of the field that holds this struct) is used again inside
		b := &td.Fields[rapid.SampledFrom(elig).Draw(t, "nb")]
		g.set(b, rapid.SampledFrom(outer).Draw(t, "nouter"))
		g.maybePointer(b)
		return
	case mode >= 8:
		// a name with characters that have a meaning elsewhere (variable syntax, path syntax, white space)
		b := &td.Fields[rapid.SampledFrom(elig).Draw(t, "nb")]
		s := b.ConfigName()
		pats := []string{" %", "% ", "% x", "$%", "${%}", "{%}", "%:", "%=1", "\u00e9%", "%[0]", "[%]", "-%", "%\t", "~%", "#%", "%/%", "%{%:1}", "%;", "%'", "%|%", "%*", "?%", "%@", "<%>", "\u00a0%", "\u200b%", "%\u3000"}
		if g.sep != "" {
			var keep []string
			for _, p := range pats {
				if !strings.Contains(p, g.sep) {
					keep = append(keep, p)
				}
			}
			pats = keep
		} else {
			pats = append(pats, "%.x", ".%", "%.", "%..%", "%.0")
		}
		g.set(b, strings.ReplaceAll(rapid.SampledFrom(pats).Draw(t, "npat"), "%", s))
		return
	}
	if len(anchors) < 2 {
		return
	}
	// two sibling fields with related names
	bi := rapid.SampledFrom(elig).Draw(t, "nb")
	var others []int
	for _, a := range anchors {
		if a != bi {
			others = append(others, a)
		}
	}
	ai := rapid.SampledFrom(others).Draw(t, "na")
	a, b := &td.Fields[ai], &td.Fields[bi]
	base := a.ConfigName()
	aElig := false
	for _, e := range elig {
		aElig = aElig || e == ai
	}
	kind := rapid.IntRange(0, 9).Draw(t, "nkind")
	name := ""
	switch kind {
	case 0:
		name = strings.ToUpper(base)
	case 1:
		r, n := utf8.DecodeRuneInString(base)
		name = string(unicode.ToTitle(r)) + base[n:]
	case 2:
		name = a.Name // the Go name of the sibling, as written
	case 3:
		name = strings.ToLower(a.Name) // the default name the sibling would have without its tag
	case 4:
		name = base + rapid.SampledFrom([]string{"_", " ", "x", "0", "-", "s", "\t"}).Draw(t, "nsuffix")
	case 5:
		name = rapid.SampledFrom([]string{"_", " ", "x", "-", "\t", "q"}).Draw(t, "nprefix") + base
	case 6:
		// mixed case: every other letter upper-cased (maxRetries / maxretries)
		var sb strings.Builder
		k := 0
		for _, r := range base {
			if k%2 == 1 {
				r = unicode.ToUpper(r)
			}
			k++
			sb.WriteRune(r)
		}
		name = sb.String()
	case 9:
		// equal after trimming white space
		ws := rapid.SampledFrom([]string{" ", "\t", "\u00a0", "\u3000", "  "}).Draw(t, "nws")
		if rapid.Bool().Draw(t, "nwsend") {
			name = base + ws
		} else {
			name = ws + base
		}
	case 7, 8:
		if aElig {
			p := rapid.SampledFrom(confusable).Draw(t, "nconf")
			if rapid.Bool().Draw(t, "nconfswap") {
				p[0], p[1] = p[1], p[0]
			}
			if rapid.Bool().Draw(t, "nconfend") {
				g.set(a, base+p[0])
				name = base + p[1]
			} else {
				g.set(a, p[0]+base)
				name = p[1] + base
			}
		}
	}
	if name == "" || name == a.ConfigName() || isIndexName(name) {
		name = strings.ToUpper(base)
		if name == base {
			name = base + "_"
		}
	}
	g.set(b, name)
	// the relation matters most where one of the two has no value: make one of them a pointer (nil one time in three)
	if rapid.Bool().Draw(t, "nptr") {
		if rapid.Bool().Draw(t, "nptrwhich") {
			g.maybePointer(a)
		} else {
			g.maybePointer(b)
		}
	}
}

func (g *nameGen) maybePointer(f *gen.FD) {
	if f.T.Kind == "ptr" || f.T.Kind == "iface" || f.T.Kind == "regexp" {
		return
	}
	if g.pinned[f.Tag] {
		// a dotted name leads into this struct field: as a nil pointer it would not be "no value"
		return
	}
	if !g.ptrToArray && hasArray(f.T) {
		return
	}
	f.T = &gen.TD{Kind: "ptr", Elem: f.T}
}

// ---------------------------------------------------------------------------
// namespaces: the named fields of a struct together with those of its inlined structs

type nm struct {
	cfg, goName string
	tagged      bool
}

func groupNames(td *gen.TD, out *[]nm) {
	for i := range td.Fields {
		f := &td.Fields[i]
		if f.Unexp || f.Ignore {
			continue
		}
		if f.Inline {
			e := f.T
			if e.Kind == "ptr" {
				e = e.Elem
			}
			if e.Kind == "struct" {
				groupNames(e, out)
			}
			continue
		}
		*out = append(*out, nm{f.ConfigName(), f.Name, f.Tag != ""})
	}
}

// forEachGroup calls fn for every namespace of the type with the names of the enclosing namespaces.
func forEachGroup(td *gen.TD, outer []string, fn func(names []nm, outer []string)) {
	if td == nil {
		return
	}
	if td.Kind != "struct" {
		forEachGroup(td.Elem, outer, fn)
		return
	}
	var names []nm
	groupNames(td, &names)
	fn(names, outer)
	inner := append([]string{}, outer...)
	for _, n := range names {
		inner = append(inner, n.cfg)
	}
	var below func(td *gen.TD)
	below = func(td *gen.TD) {
		for i := range td.Fields {
			f := &td.Fields[i]
			if f.Inline {
				e := f.T
				if e.Kind == "ptr" {
					e = e.Elem
				}
				if e.Kind == "struct" {
					below(e) // the same namespace: its groups were reported with this one
					continue
				}
			}
			forEachGroup(f.T, inner, fn)
		}
	}
	below(td)
}

func namesOK(root *gen.TD) bool {
	ok := true
	forEachGroup(root, nil, func(names []nm, _ []string) {
		seen := map[string]bool{}
		for _, n := range names {
			if seen[n.cfg] {
				ok = false
			}
			seen[n.cfg] = true
		}
	})
	return ok
}

// confKey identifies names that differ by case (any mapping), the confusable pairs above and outer white space.
var confReplacer = strings.NewReplacer("\u017f", "s", "\u212a", "k", "\u0131", "i", "e\u0301", "\u00e9", "\u00df", "ss", "\u01c5", "\u01c6", "i\u0307", "i")

func confKey(s string) string { return confReplacer.Replace(strings.ToLower(s)) }

type nameFeatures struct {
	fold, conf, trim, affix, goName, reused, special, nonASCII, plainDot bool
}

func scanNames(root *gen.TD, pathSep bool, sep string) nameFeatures {
	var nf nameFeatures
	forEachGroup(root, nil, func(names []nm, outer []string) {
		keys := make([]string, len(names))
		for i, x := range names {
			keys[i] = confKey(x.cfg)
		}
		for i, x := range names {
			for _, r := range x.cfg {
				if !(unicode.IsLetter(r) || unicode.IsDigit(r) || unicode.IsMark(r) || r == '.' || (pathSep && strings.ContainsRune(sep, r))) {
					nf.special = true
				}
				if r >= 0x80 {
					nf.nonASCII = true
				}
			}
			if !pathSep && strings.Contains(x.cfg, ".") {
				nf.plainDot = true
			}
			for _, o := range outer {
				if o == x.cfg {
					nf.reused = true
				}
			}
			for j, y := range names {
				if i == j || x.cfg == y.cfg {
					continue
				}
				switch {
				case strings.EqualFold(x.cfg, y.cfg):
					nf.fold = true
				case keys[i] == keys[j]:
					nf.conf = true
				case strings.TrimSpace(x.cfg) == strings.TrimSpace(y.cfg):
					nf.trim = true
				case strings.HasPrefix(x.cfg, y.cfg) || strings.HasSuffix(x.cfg, y.cfg):
					nf.affix = true
				}
				if y.tagged && (x.cfg == y.goName || x.cfg == strings.ToLower(y.goName)) {
					nf.goName = true
				}
			}
		}
	})
	return nf
}
