// Package c06 decides property C06: struct -> Config -> struct is the identity.
package c06

import (
	"fmt"
	"reflect"
	"regexp"
	"strings"
	"testing"

	ucfg "github.com/elastic/go-ucfg"
	"pgregory.net/rapid"

	"verif/harness/internal/canon"
	"verif/harness/internal/gen"
	"verif/harness/internal/runlog"
	"verif/harness/internal/uc"
)

func init() { gen.IfaceEqual = canon.EqualData }

// Case is a struct type, a value of it and the options used.
type Case struct {
	T       *gen.TD `json:"t"`
	V       *gen.TV `json:"v"`
	PathSep bool    `json:"pathsep,omitempty"`
	// Sep: the path separator used when PathSep is set ("" = "."); the dotted names of the type are written with it
	Sep string `json:"sep,omitempty"`
	VarExp  bool    `json:"varexp,omitempty"` // VarExp on: strings with '$' are not generated then
	// AltTags: the fields carry a second tag set `alt:"..."` with other names (the same flags); the round trip is
	// made under the default tag name and under ucfg.StructTag("alt"), in the order AltFirst says - the same Go
	// type is used under two tag names in one process
	AltTags  bool `json:"alttags,omitempty"`
	AltFirst bool `json:"altfirst,omitempty"`
	// Share: the value is a graph: every non-nil pointer of a type that occurs more than once points to the object
	// of the first pointer of that type (one object reached through several fields / elements)
	Share bool `json:"share,omitempty"`
}

// sharePointers makes all settable non-nil pointers of one type point to the object of the first of them.
func sharePointers(v reflect.Value) int {
	first := map[reflect.Type]reflect.Value{}
	shared := 0
	var walk func(v reflect.Value, depth int)
	walk = func(v reflect.Value, depth int) {
		if depth > 12 {
			return
		}
		switch v.Kind() {
		case reflect.Ptr:
			if v.IsNil() {
				return
			}
			if f, ok := first[v.Type()]; ok {
				if v.CanSet() && f.Pointer() != v.Pointer() {
					v.Set(f)
					shared++
				}
				return
			}
			first[v.Type()] = v
			walk(v.Elem(), depth+1)
		case reflect.Struct:
			if v.Type() == reflect.TypeOf(regexp.Regexp{}) {
				return
			}
			for i := 0; i < v.NumField(); i++ {
				if v.Type().Field(i).PkgPath == "" { // exported fields only
					walk(v.Field(i), depth+1)
				}
			}
		case reflect.Slice, reflect.Array:
			for i := 0; i < v.Len(); i++ {
				walk(v.Index(i), depth+1)
			}
		case reflect.Interface:
			if !v.IsNil() {
				walk(v.Elem(), depth+1)
			}
		}
	}
	walk(v, 0)
	return shared
}

// addAlt gives every field a second tag set: the names are permuted among the named fields of each struct or
// prefixed, the inline/ignore flags are kept.
func addAlt(td *gen.TD, swap bool) {
	if td == nil {
		return
	}
	addAlt(td.Elem, swap)
	if td.Kind != "struct" {
		return
	}
	var named []int
	for i := range td.Fields {
		f := &td.Fields[i]
		addAlt(f.T, swap)
		switch {
		case f.Inline:
			f.Alt = ",inline"
		case f.Ignore:
			f.Alt = "x" + f.ConfigName() + ",ignore"
		case f.Unexp:
		default:
			named = append(named, i)
		}
	}
	for k, i := range named {
		f := &td.Fields[i]
		name := "q" + f.ConfigName()
		if swap && len(named) > 1 {
			// the config name of the next named field: the two tag sets name different fields alike
			name = td.Fields[named[(k+1)%len(named)]].ConfigName()
		}
		f.Alt = name
	}
}

func hasDollar(tv *gen.TV) bool {
	if tv == nil {
		return false
	}
	for _, c := range tv.S {
		if c == '$' {
			return true
		}
	}
	for _, e := range tv.Elems {
		if hasDollar(e) {
			return true
		}
	}
	return false
}

func (c *Case) sep() string {
	if c.Sep == "" {
		return "."
	}
	return c.Sep
}

// respell writes the dotted names of the type with another separator.
func respell(td *gen.TD, sep string) {
	if td == nil {
		return
	}
	respell(td.Elem, sep)
	for i := range td.Fields {
		td.Fields[i].Tag = strings.ReplaceAll(td.Fields[i].Tag, ".", sep)
		respell(td.Fields[i].T, sep)
	}
}

func genCase(t *rapid.T) Case {
	c := Case{PathSep: rapid.Bool().Draw(t, "pathsep"), Share: rapid.IntRange(0, 2).Draw(t, "share") == 0}
	if c.PathSep {
		c.Sep = rapid.SampledFrom([]string{"", "", "/", ":", "--", "\u00b7"}).Draw(t, "sep")
	}
	cfg := &gen.TDCfg{
		MaxFields: runlog.Pick(4, 5), Named: true, Inline: true, Ignore: true, EmptyTag: true, NumericTag: true,
		// without a path separator a dotted name is a plain name like any other (one time in four)
		Dotted:     c.PathSep || rapid.IntRange(0, 3).Draw(t, "plaindot") == 0,
		PtrToArray: !runlog.IsOpen("D26"),
		InlineMap:  true, // class of finding D22: always generated, discarded (and counted) in run while the finding is open
	}
	c.T = gen.GenStructTD(t, cfg, runlog.Pick(3, 4))
	if cfg.InlineMap && rapid.IntRange(0, 7).Draw(t, "inlmap") == 0 {
		// inline map next to named fields (class of finding D22)
		c.T.Fields = append(c.T.Fields, gen.FD{Name: "IM", Inline: true, T: &gen.TD{Kind: "map", Elem: &gen.TD{Kind: "iface"}}})
	}
	if rapid.IntRange(0, 1).Draw(t, "relnames") == 1 {
		// names of one namespace that are related but not identical, names used in several namespaces, names with
		// special characters (names_test.go)
		nsep := ""
		if c.PathSep {
			nsep = c.sep()
		}
		relateNames(t, c.T, nsep, cfg.PtrToArray)
	}
	if c.PathSep && c.sep() != "." {
		respell(c.T, c.sep()) // (with a path separator no other name contains a dot)
	}
	c.V = gen.GenTV(t, cfg, c.T, false)
	if rapid.IntRange(0, 2).Draw(t, "alttags") == 0 {
		c.AltTags = true
		c.AltFirst = rapid.Bool().Draw(t, "altfirst")
		// (names are not swapped between fields when a dotted name leads into the namespace of a struct field:
		// the swapped names would use one name for a value and for an object)
		f := features{sep: c.sep()}
		scan(c.T, 0, &f)
		addAlt(c.T, rapid.Bool().Draw(t, "altswap") && !f.overlap)
	}
	return c
}

// features classifies the type for the non-trivial rule and the histogram.
type features struct {
	levels                                    int
	inline, ignore, unexp, dotted, emptyTag   bool
	ptr, slice, array, mapk, dur, re, named   bool
	inlineMapNextToNamed, ptrToArray, nonZero bool
	numericTag, overlap, uniName, embedded    bool
	sep                                       string // the separator dotted names are written with
}

func scan(td *gen.TD, depth int, f *features) {
	if depth > f.levels {
		f.levels = depth
	}
	switch td.Kind {
	case "ptr":
		f.ptr = true
		if td.Elem.Kind == "array" {
			f.ptrToArray = true
		}
		scan(td.Elem, depth, f)
	case "slice":
		f.slice = true
		scan(td.Elem, depth+1, f)
	case "array":
		f.array = true
		scan(td.Elem, depth+1, f)
	case "map":
		f.mapk = true
		scan(td.Elem, depth+1, f)
	case "struct":
		if td.Overlap {
			f.overlap = true
		}
		named := 0
		inlMap := false
		for i := range td.Fields {
			fd := &td.Fields[i]
			switch {
			case fd.Inline:
				f.inline = true
				if fd.T.Kind == "map" {
					inlMap = true
				} else {
					named++ // an inline struct contributes its names to the same namespace
				}
			case fd.Ignore:
				f.ignore = true
			case fd.Unexp:
				f.unexp = true
			default:
				named++
			}
			if fd.Tag == "" && !fd.Inline {
				f.emptyTag = true
			}
			if fd.Name[0] >= 0x80 {
				f.uniName = true
			}
			if fd.Embedded {
				f.embedded = true
			}
			if len(fd.Tag) > 0 && fd.Tag[0] >= '0' && fd.Tag[0] <= '9' {
				f.numericTag = true
			}
			if strings.Contains(fd.Tag, f.sep) {
				f.dotted = true
			}
			scan(fd.T, depth+1, f)
		}
		if inlMap && named > 0 {
			f.inlineMapNextToNamed = true
		}
	case "dur":
		f.dur = true
	case "regexp":
		f.re = true
	default:
		if len(td.Kind) > 6 && td.Kind[:6] == "named:" {
			f.named = true
		}
	}
}

// clearSkipped zeroes, in the expected value, everything the round trip is
// documented not to carry: ignored and unexported fields.
func clearSkipped(td *gen.TD, v reflect.Value) {
	sh := td.Shape()
	switch sh.Kind {
	case "ptr":
		if !v.IsNil() {
			clearSkipped(sh.Elem, v.Elem())
		}
	case "slice", "array":
		for i := 0; i < v.Len(); i++ {
			clearSkipped(sh.Elem, v.Index(i))
		}
	case "map":
		if v.IsNil() {
			return
		}
		for _, k := range v.MapKeys() {
			e := reflect.New(v.Type().Elem()).Elem()
			e.Set(v.MapIndex(k))
			clearSkipped(sh.Elem, e)
			v.SetMapIndex(k, e)
		}
	case "struct":
		for i := range sh.Fields {
			fv := gen.Exported(v.Field(i))
			if sh.Fields[i].Ignore || sh.Fields[i].Unexp {
				fv.Set(reflect.Zero(fv.Type()))
				continue
			}
			clearSkipped(sh.Fields[i].T, fv)
		}
	}
}

func anyNonZero(v reflect.Value) bool {
	v = gen.Exported(v)
	switch v.Kind() {
	case reflect.Ptr, reflect.Interface:
		return !v.IsNil()
	case reflect.Slice, reflect.Map:
		return v.Len() > 0
	case reflect.Array:
		for i := 0; i < v.Len(); i++ {
			if anyNonZero(v.Index(i)) {
				return true
			}
		}
		return false
	case reflect.Struct:
		for i := 0; i < v.NumField(); i++ {
			if anyNonZero(v.Field(i)) {
				return true
			}
		}
		return false
	}
	return !v.IsZero()
}

// hasNilPtrField: some struct of the value has a nil pointer (or nil interface) field.
func hasNilPtrField(v reflect.Value) bool {
	v = gen.Exported(v)
	switch v.Kind() {
	case reflect.Ptr, reflect.Interface:
		if v.IsNil() || v.Type() == gen.RegexpType {
			return false
		}
		return hasNilPtrField(v.Elem())
	case reflect.Slice, reflect.Array:
		for i := 0; i < v.Len(); i++ {
			if hasNilPtrField(v.Index(i)) {
				return true
			}
		}
	case reflect.Struct:
		for i := 0; i < v.NumField(); i++ {
			f := gen.Exported(v.Field(i))
			if (f.Kind() == reflect.Ptr || f.Kind() == reflect.Interface) && f.IsNil() {
				return true
			}
			if hasNilPtrField(f) {
				return true
			}
		}
	}
	return false
}

func runCase(c Case, r *runlog.R) error {
	var opts []ucfg.Option
	if c.PathSep {
		opts = append(opts, ucfg.PathSep(c.sep()))
	}
	f := features{sep: c.sep()}
	scan(c.T, 1, &f)
	if f.inlineMapNextToNamed && runlog.IsOpen("D22") {
		r.Excluded("D22")
		r.Discard()
		return nil
	}
	trips := [][]ucfg.Option{opts}
	if c.AltTags {
		alt := append(append([]ucfg.Option{}, opts...), ucfg.StructTag("alt"))
		trips = [][]ucfg.Option{opts, alt, opts}
		if c.AltFirst {
			trips = [][]ucfg.Option{alt, opts, alt}
		}
	}
	var want reflect.Value
	for ti, topts := range trips {
		what := "under the default tag name"
		if len(topts) > len(opts) {
			what = "under StructTag(\"alt\")"
		}
		in := c.T.New(c.V)
		if c.Share {
			r.ClassIf(sharePointers(in.Elem()) > 0, "one object reached through several pointers")
		}
		var cfg *ucfg.Config
		err := uc.Safe("NewFrom", func() (e error) { cfg, e = ucfg.NewFrom(in.Interface(), topts...); return })
		if err != nil {
			return fmt.Errorf("round trip %d %s: NewFrom(%v = %s) failed: %v", ti, what, in.Type().Elem(), gen.Show(in.Elem()), err)
		}
		out := reflect.New(in.Type().Elem())
		err = uc.Safe("Unpack", func() error { return cfg.Unpack(out.Interface(), topts...) })
		if err != nil {
			return fmt.Errorf("round trip %d %s: Unpack into zero %v failed: %v\n value %s", ti, what, in.Type().Elem(), err, gen.Show(in.Elem()))
		}
		want = c.T.New(c.V)
		if c.Share {
			sharePointers(want.Elem())
		}
		clearSkipped(c.T, want.Elem())
		if !gen.EqualValues(want.Elem(), out.Elem()) {
			return fmt.Errorf("round trip %d %s changed the value\n type %v\n in   %s\n out  %s", ti, what, in.Type().Elem(), gen.Show(want.Elem()), gen.Show(out.Elem()))
		}
		// the source value itself must not have been modified by NewFrom
		orig := c.T.New(c.V)
		if c.Share {
			sharePointers(orig.Elem())
		}
		if !gen.EqualValues(orig.Elem(), in.Elem()) {
			return fmt.Errorf("NewFrom modified its argument\n before %s\n after  %s", gen.Show(orig.Elem()), gen.Show(in.Elem()))
		}
	}
	r.ClassIf(c.AltTags, "second tag set (StructTag)")
	nf := scanNames(c.T, c.PathSep, c.sep())
	r.ClassIf(c.PathSep && c.sep() != ".", "path separator other than the dot")
	r.ClassIf(nf.fold, "sibling names equal ignoring case")
	r.ClassIf(nf.conf, "sibling names equal after a Unicode case mapping or normalisation only")
	r.ClassIf(nf.trim, "sibling names equal after trimming white space")
	r.ClassIf(nf.affix, "sibling name is a prefix or suffix of another")
	r.ClassIf(nf.goName, "config name equal to the (lower-cased) Go name of a renamed sibling")
	r.ClassIf(nf.reused, "config name of an enclosing struct used again in a nested struct")
	r.ClassIf(nf.special, "config name with a character other than letters and digits")
	r.ClassIf(nf.nonASCII, "non-ASCII config name")
	r.ClassIf(nf.plainDot, "dotted name without a path separator (a plain name)")
	r.ClassIf((nf.fold || nf.conf || nf.trim || nf.affix || nf.goName) && hasNilPtrField(want.Elem()), "related sibling names and a nil pointer field in the value")
	tagged := f.inline || f.ignore || f.unexp || f.dotted || f.emptyTag || f.numericTag
	r.ClassIf(f.numericTag, "numeric config name")
	r.NonTrivialIf((f.levels >= 2 || tagged) && anyNonZero(want.Elem()))
	r.ClassIf(f.inline, "inline")
	r.ClassIf(f.ignore, "ignore")
	r.ClassIf(f.unexp, "unexported")
	r.ClassIf(f.uniName, "exported Go field name starting with a non-ASCII letter")
	r.ClassIf(f.embedded, "embedded struct field (named, untagged or inlined)")
	r.ClassIf(f.dotted, "dotted tag")
	r.ClassIf(f.overlap, "dotted tag leading into the namespace of a struct field")
	r.ClassIf(f.emptyTag, "no config name")
	r.ClassIf(f.ptr, "pointer")
	r.ClassIf(f.slice, "slice")
	r.ClassIf(f.array, "array")
	r.ClassIf(f.mapk, "map")
	r.ClassIf(f.dur, "duration")
	r.ClassIf(f.re, "regexp")
	r.ClassIf(f.named, "named primitive")
	r.ClassIf(f.ptrToArray, "pointer to array")
	r.ClassIf(f.inlineMapNextToNamed, "inline map next to named fields")
	r.Class(fmt.Sprintf("levels=%d", f.levels))
	return nil
}

var subRT = runlog.Register(&runlog.Sub[Case]{
	Name: "struct-roundtrip",
	Rule: "random struct types (reflect.StructOf over all primitive kinds, Go field names incl. non-ASCII exported ones, named variants, durations, regexps, pointers, slices, arrays, string-keyed maps, nested, inline and embedded structs; tags: rename, rename to a number, rename to an option word, dotted with PathSep (separator . / : -- or U+00B7; also leading 1-3 levels into the namespace of a struct field declared before or after it) and, one time in four, dotted without PathSep (a plain name), inline, ignore, unexported, no name; in half of the types the otherwise unrelated names f<n> are rewritten per struct (names_test.go): a sibling gets a name RELATED to another field's name without being identical - upper-cased, title-cased, mixed case, the sibling's Go field name as written or lower-cased, the name plus/minus a one-character suffix or prefix, outer white space incl. NBSP and U+3000, pairs that only a Unicode case mapping or normalisation identifies (k/KELVIN SIGN, s/LONG S, i/I WITH DOT, I/DOTLESS I, NFC/NFD e-acute, ss/sharp s, dz digraph lower/title) - and one of the two is made a pointer half of the time (nil one time in three); or a field of a nested struct gets the name of a field of an enclosing struct (or of the field holding it); or a name gets characters with a meaning elsewhere ($ ${} {} : = [0] [] / # ~ * ? @ < > | ; ' - white space, zero-width space, and without PathSep also leading/trailing/double dots); a rewritten type in which one namespace (struct plus inlined structs) would hold one name twice is left as generated; fields that a dotted name leads into keep name and kind) with values biased to zero values, type extremes, NaN/-0/Inf, nil vs empty collections and strings with $ . , { }; Unpack(NewFrom(v)) into a zero value must equal v; a third of the types carry a second tag set and are round-tripped under the default tag name and under StructTag(alt) alternately in one process (nil == empty collection, regexps by source, pointer chains by pointee, ignored/unexported fields zero); two settings are the same setting only if their names are identical, so every field must come back with its own value (a nil pointer stays nil) whatever the names of its siblings and of enclosing structs are; NewFrom must not modify its argument. Non-trivial: the type has >= 2 levels or a tag other than a plain rename, and the value has a non-zero leaf. Distinct: hash of (type, value, options).",
	Gen:  genCase,
	Run:  runCase,
})

func TestStructRoundTrip(t *testing.T) { subRT.Check(t, 200000, 2000000) }

func TestReplay(t *testing.T) { runlog.ReplayMain(t) }
