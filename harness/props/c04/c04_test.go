// Package c04 decides property C04: a successful Unpack returns only values
// that satisfy every declared validator, and a configuration or default that
// breaks one makes Unpack fail with an error naming the field.
package c04

import (
	"fmt"
	"os"
	"reflect"
	"runtime/debug"
	"sort"
	"strconv"
	"strings"
	"testing"
	"time"

	ucfg "github.com/elastic/go-ucfg"

	"verif/harness/internal/gen"
	"verif/harness/internal/runlog"
	"verif/harness/internal/uc"
)

// Case: a struct type with validate tags (and catalogue types with Validate /
// InitDefaults) at any depth, a pre-filled value of it, and a configuration
// that mentions a subset of the fields. With VarExp, string settings of the
// form ${rN} are references to the top-level settings rN.
type Case struct {
	T      *gen.TD   `json:"t"`
	Pre    *gen.TV   `json:"pre"` // nil: the zero value
	Cfg    *gen.Tree `json:"cfg"`
	VarExp bool      `json:"varexp,omitempty"`
	Policy int       `json:"policy,omitempty"` // global list policy given to Unpack: 0 none, 1 replace, 2 append, 3 prepend, 4 replace arrays only
	// dynamic types of the typed values that interfaces of the pre-filled value hold: the interface value
	// {"keys":["dyn"],"u":k,"elems":[v]} holds the value v of the type Dyn[k] (see iface_test.go)
	Dyn []*gen.TD `json:"dyn,omitempty"`
	// objects of the pre-filled value that are stored at more than one place: the place To holds the very pointer /
	// map / slice stored at From (see alias_test.go)
	Alias []aliasLink `json:"alias,omitempty"`
}

func lastSeg(path string) string { return path[strings.LastIndex(path, ".")+1:] }

func blankIndices(path string) string {
	segs := strings.Split(path, ".")
	for i, s := range segs {
		if _, err := strconv.Atoi(s); err == nil {
			segs[i] = "#"
		}
	}
	return strings.Join(segs, ".")
}

// The option `squash` is a synonym of `inline`. The shared type descriptor
// renders `inline` only, but it renders the Policy slot verbatim as a tag
// option, so "squash" (or "squash,append") in that slot yields a squash field.
func isInline(f *gen.FD) bool { return f.Inline || strings.HasPrefix(f.Policy, "squash") }

// listPolicyOf returns the list policy option of the field ("" if none).
func listPolicyOf(f *gen.FD) string {
	return strings.TrimPrefix(strings.TrimPrefix(f.Policy, "squash"), ",")
}

func hasPolicyTag(td *gen.TD) bool {
	if td == nil {
		return false
	}
	for i := range td.Fields {
		if listPolicyOf(&td.Fields[i]) != "" || hasPolicyTag(td.Fields[i].T) {
			return true
		}
	}
	return hasPolicyTag(td.Elem)
}

// ---------------------------------------------------------------------------
// classes of known findings (constructed away while the finding is open; the
// environment variable C04_AVOID=D23,D30 does the same by hand when hunting
// for the next defect behind a shallow one)

var avoidEnv = func() map[string]bool {
	m := map[string]bool{}
	for _, f := range strings.Split(os.Getenv("C04_AVOID"), ",") {
		if f = strings.TrimSpace(f); f != "" {
			m[f] = true
		}
	}
	return m
}()

func open(id string) bool { return runlog.IsOpen(id) || avoidEnv[id] }

type typeFacts struct {
	namedString                                 bool            // D45: named string type (Unpack hangs)
	mapOfStructOrArr                            bool            // D31: map[string]Struct / map[string][N]T / map[string]map[..] (merging into pre-filled entries panics: map elements are not addressable)
	ptrCollElems                                bool            // D42: collection elements that are pointers to slices, arrays or maps (element set without re-pointering)
	tagOnPtr                                    bool            // D23: validate tag on a pointer-typed field (incl. *regexp.Regexp) that is non-nil in the pre-filled value
	ptrToColl                                   bool            // D30: pointer to slice / array / map (non-nil in the pre-filled value)
	tagOnPtrToMap                               bool            // D32: validate tag on a *map field
	mapWithValidator                            bool            // D35: map whose element type carries validators
	tagOnArray                                  bool            // D41: required / nonzero on a field that is, or holds, a fixed-size array
	tagOnNamedString                            bool            // D47: required / nonzero ignored on fields of a named string type
	ptrPtrValidator                             bool            // D49: Validate() of an unmentioned pre-filled value behind two or more pointer levels is not called
	validators                                  int             // tags and Validate methods in the type
	inlineKinds, inlineTags                     map[string]bool // kinds of inline fields; kinds of inline fields that carry a validate tag
	cats                                        map[string]bool
	ptr, slice, array, mapk, inline, dur, named bool
	blankEq                                     bool // a tag spelt with blanks around '='
	squash                                      bool // an inline field spelt `squash`
	ifaceField, ifaceList, ifaceMap             bool // interface{} as field type, as element type of a list, of a map
	tagOnIface                                  bool // D61: validate tag on a field of type interface{}
	// N-C04-1: a validate tag on a place whose value the code builds through the Unpacker branch of reifyPrimitive (a nil
	// pointer to, or an interface holding, a primitive-kind type with a pointer-receiver Unpack method): the tag
	// validators are handed the pointer the branch allocates instead of the value; required, min and max pass
	tagOnPtrToUnpacker, unpackerPrim bool
}

func hasValidators(td *gen.TD) bool {
	var f typeFacts
	f.scan(td)
	return f.validators > 0
}

func (f *typeFacts) scan(td *gen.TD) {
	if info, ok := cats[td.Kind]; ok {
		if f.cats == nil {
			f.cats = map[string]bool{}
		}
		f.cats[catBase(td.Kind)] = true
		if info.valid != nil {
			f.validators++
		}
	}
	if td.Kind == "named:string" {
		f.namedString = true
	}
	if selfUnpacking[catBase(td.Kind)] != "" && td.Shape().IsLeaf() {
		f.unpackerPrim = true
	}
	if strings.HasPrefix(td.Kind, "named:") {
		f.named = true
	}
	sh := td.Shape()
	switch sh.Kind {
	case "dur":
		f.dur = true
	case "ptr":
		f.ptr = true
		if sh.Elem.Kind == "ptr" {
			if base, _ := stripPtr(sh.Elem); cats[base.Kind].valid != nil {
				f.ptrPtrValidator = true
			}
		}
		switch sh.Elem.Shape().Kind {
		case "slice", "array", "map":
			f.ptrToColl = true
		}
		f.scan(sh.Elem)
	case "slice", "array", "map":
		switch sh.Kind {
		case "slice":
			f.slice = true
		case "array":
			f.array = true
		default:
			f.mapk = true
			switch sh.Elem.Shape().Kind {
			case "struct", "array", "map":
				f.mapOfStructOrArr = true
			}
			if hasValidators(sh.Elem) {
				f.mapWithValidator = true
			}
		}
		if sh.Elem.Kind == "ptr" {
			if e, _ := stripPtr(sh.Elem); e.Shape().Kind == "slice" || e.Shape().Kind == "array" || e.Shape().Kind == "map" {
				f.ptrCollElems = true
			}
		}
		if sh.Elem.Kind == "iface" {
			f.ifaceList = f.ifaceList || sh.Kind != "map"
			f.ifaceMap = f.ifaceMap || sh.Kind == "map"
		}
		f.scan(sh.Elem)
	case "struct":
		for i := range sh.Fields {
			fd := &sh.Fields[i]
			if strings.HasPrefix(fd.Policy, "squash") {
				f.squash = true
			}
			if isInline(fd) {
				f.inline = true
				if f.inlineKinds == nil {
					f.inlineKinds, f.inlineTags = map[string]bool{}, map[string]bool{}
				}
				f.inlineKinds[fd.T.Shape().Kind] = true
				if fd.Validate != "" {
					f.inlineTags[fd.T.Shape().Kind] = true
				}
			}
			if strings.Contains(fd.Validate, " =") || strings.Contains(fd.Validate, "= ") {
				f.blankEq = true
			}
			if fd.T.Kind == "iface" {
				f.ifaceField = true
			}
			if tags := parseTags(fd.Validate); len(tags) > 0 {
				f.validators += len(tags)
				base, nptr := stripPtr(fd.T)
				if nptr > 0 || base.Kind == "regexp" {
					f.tagOnPtr = true
				}
				if nptr > 0 && base.Shape().Kind == "map" {
					f.tagOnPtrToMap = true
				}
				if nptr > 0 && selfUnpacking[catBase(base.Kind)] != "" && base.Shape().IsLeaf() {
					f.tagOnPtrToUnpacker = true
				}
				// (the code applies the tag to nested collections as well)
				for x := fd.T; x != nil && x.Shape().Kind != "struct"; x = x.Shape().Elem {
					if x.Shape().Kind == "array" {
						f.tagOnArray = true
					}
				}
				if base.Kind == "named:string" {
					f.tagOnNamedString = true
				}
				if fd.T.Kind == "iface" {
					f.tagOnIface = true
				}
			}
			f.scan(fd.T)
		}
	}
}

// nonNilPtrToColl reports whether the pre-filled value holds a non-nil pointer
// to a slice, array or map.
func nonNilPtrToColl(td *gen.TD, tv *gen.TV) bool {
	if tv == nil || tv.Nil {
		return false
	}
	sh := td.Shape()
	switch sh.Kind {
	case "ptr":
		switch sh.Elem.Shape().Kind {
		case "slice", "array", "map":
			return true
		}
		return len(tv.Elems) > 0 && nonNilPtrToColl(sh.Elem, tv.Elems[0])
	case "slice", "array", "map":
		for _, e := range tv.Elems {
			if nonNilPtrToColl(sh.Elem, e) {
				return true
			}
		}
	case "struct":
		for i := range sh.Fields {
			if i < len(tv.Elems) && nonNilPtrToColl(sh.Fields[i].T, tv.Elems[i]) {
				return true
			}
		}
	}
	return false
}

// nonNilTaggedPtr reports whether the pre-filled value holds a non-nil pointer
// (or regular expression) in a field that carries a validate tag.
func nonNilTaggedPtr(td *gen.TD, tv *gen.TV) bool {
	if tv == nil || tv.Nil {
		return false
	}
	sh := td.Shape()
	switch sh.Kind {
	case "ptr":
		return len(tv.Elems) > 0 && nonNilTaggedPtr(sh.Elem, tv.Elems[0])
	case "slice", "array", "map":
		for _, e := range tv.Elems {
			if nonNilTaggedPtr(sh.Elem, e) {
				return true
			}
		}
	case "struct":
		for i := range sh.Fields {
			if i >= len(tv.Elems) || tv.Elems[i] == nil {
				continue
			}
			f := &sh.Fields[i]
			if f.Validate != "" && (f.T.Kind == "ptr" || f.T.Kind == "regexp") && !tv.Elems[i].Nil {
				return true
			}
			if nonNilTaggedPtr(f.T, tv.Elems[i]) {
				return true
			}
		}
	}
	return false
}

// avoided names the open finding whose class the case belongs to ("" if none).
func (f *typeFacts) avoided() string {
	for _, c := range []struct {
		id  string
		hit bool
	}{
		{"D45", f.namedString}, {"D31", f.mapOfStructOrArr}, {"D42", f.ptrCollElems},
		{"D23", f.tagOnPtr}, {"D30", f.ptrToColl}, {"D32", f.tagOnPtrToMap},
		{"D35", f.mapWithValidator}, {"D41", f.tagOnArray}, {"D47", f.tagOnNamedString}, {"D49", f.ptrPtrValidator},
		{"D55", f.inlineTags["map"]}, {"D61", f.tagOnIface},
		{"N-C04-1", f.tagOnPtrToUnpacker || (f.tagOnIface && f.unpackerPrim)},
	} {
		if c.hit && open(c.id) {
			return c.id
		}
	}
	return ""
}

// ---------------------------------------------------------------------------

func showEvals(es []*eval) string {
	var s []string
	for _, e := range es {
		s = append(s, e.String())
	}
	return strings.Join(s, "; ")
}

// recorder is the part of *runlog.R the oracle of one call reports to (a history collects the reports of its calls).
type recorder interface {
	Class(label string)
	ClassIf(cond bool, label string)
	NonTrivialIf(cond bool)
	Discard()
	Excluded(id string)
}

// call is one Unpack call under test: the type as the call's options make Unpack read it (T: names, flags and
// validator tags of the selected tag sets), the configuration, the options, and the targets - a value of the real type
// and one of the twin type (same shape and tag sets, no validator tags, no Validate methods) in the same state.
type call struct {
	T      *gen.TD
	Pre    *gen.TV // the pre-filled value as data (nil: the zero value, or a target that is the result of an earlier call)
	Cfg    *gen.Tree
	VarExp bool
	Policy int
	Dyn    []*gen.TD
	reg    dynReg

	extra       []ucfg.Option                 // further options of the Unpack call (StructTag, ValidatorTag, Field...Values)
	fieldPolicy bool                          // ... a list policy for a field is among them
	extraText   string                        // ... described
	cfg         *ucfg.Config                  // the configuration object if it exists already (nil: made from Cfg)
	newTarget   func(twin bool) reflect.Value // pointer to a target in the state before the call
	realT       reflect.Type
	preText     func() string // the state of the target before the call, if Pre does not describe it
	alias       []aliasInfo   // the objects of the pre-filled value that are stored at two places
	aliasText   string        // ... described
}

// outcome of a call the oracle accepted.
type outcome struct {
	discarded  bool         // outside the property's subject (nothing was asserted)
	cfg        *ucfg.Config // the configuration object
	real, twin reflect.Value
	unpacked   bool // Unpack returned nil (for both targets, with equal results)
	rejected   bool // a reference validator rejects (so Unpack failed)
}

func runCase(c Case, r *runlog.R) error {
	reg, unambiguous := c.registry()
	if !unambiguous {
		// two dynamic types of interface-held values share a Go type but not their validators
		r.Class("discarded: ambiguous dynamic types")
		r.Discard()
		return nil
	}
	cl := &call{T: c.T, Pre: c.Pre, Cfg: c.Cfg, VarExp: c.VarExp, Policy: c.Policy, Dyn: c.Dyn, reg: reg,
		newTarget: c.newValue, realT: c.T.Type()}
	if len(c.Alias) > 0 {
		// the links must fit the value and must not close a cycle (the unchanged library does not terminate on cyclic
		// values; the generator draws neither)
		infos, err := c.aliasInfos()
		if err == nil {
			for _, twin := range []bool{false, true} {
				td := c.T
				if twin {
					td = twinOf(td)
				}
				p := td.New(c.Pre)
				if len(c.Dyn) > 0 {
					c.fill(td, p.Elem(), c.Pre, twin)
				}
				if err = applyAlias(p.Elem(), c.Alias); err == nil && cyclic(p.Elem()) {
					err = fmt.Errorf("cyclic value")
				}
				if err != nil {
					break
				}
			}
		}
		if err != nil {
			r.Class("discarded: malformed alias links")
			r.Discard()
			return nil
		}
		cl.alias, cl.aliasText = infos, aliasText(&c)
	}
	_, err := runCall(cl, r)
	return err
}

func runCall(c *call, r recorder) (out outcome, _ error) {
	out.discarded = true
	var facts typeFacts
	facts.scan(c.T)
	for _, d := range c.Dyn {
		facts.scan(d)
	}
	// D30 needs a non-nil pointer to a collection in the pre-filled value
	facts.ptrToColl = facts.ptrToColl && (c.preText != nil || nonNilPtrToColl(c.T, c.Pre))
	// D23 needs a non-nil pointer in a tagged pointer field of the pre-filled value
	facts.tagOnPtr = facts.tagOnPtr && (c.preText != nil || nonNilTaggedPtr(c.T, c.Pre))
	if id := facts.avoided(); id != "" {
		r.Excluded(id)
		r.Discard()
		return out, nil
	}
	var opts []ucfg.Option
	if c.VarExp {
		opts = append(opts, ucfg.VarExp)
	}
	cfg := c.cfg
	// the list policy decides which pre-filled elements survive next to configured ones; twin and real
	// target are unpacked under the same policy, so the differential holds under each of them
	unpackOpts := append([]ucfg.Option{}, opts...)
	switch c.Policy {
	case 1:
		unpackOpts = append(unpackOpts, ucfg.ReplaceValues)
	case 2:
		unpackOpts = append(unpackOpts, ucfg.AppendValues)
	case 3:
		unpackOpts = append(unpackOpts, ucfg.PrependValues)
	case 4:
		unpackOpts = append(unpackOpts, ucfg.ReplaceArrValues)
	}
	unpackOpts = append(unpackOpts, c.extra...)
	if cfg == nil {
		if err := uc.Safe("NewFrom", func() (e error) { cfg, e = ucfg.NewFrom(c.Cfg.Go(), opts...); return }); err != nil {
			// building a configuration from plain data is not this property's subject
			r.Class("discarded: NewFrom failed")
			r.Discard()
			return out, nil
		}
	}
	out.cfg = cfg

	reg := c.reg
	if len(c.Dyn) > 0 && open("D60") {
		// class of D60: a setting for an interface that holds a struct, an array or a nil map directly (not through a
		// pointer) makes Unpack panic (it merges into the unaddressable value)
		w0 := &walker{root: c.Cfg, varexp: c.VarExp, dyn: reg}
		w0.walk(c.T, c.newTarget(true).Elem(), pos{cfg: c.Cfg})
		if w0.unaddr {
			r.Excluded("D60")
			r.Discard()
			return out, nil
		}
	}

	twin := c.newTarget(true)
	realT := c.realT
	describe := func() string {
		pol := ""
		if c.Policy != 0 {
			pol = ", global list policy " + []string{"", "replace", "append", "prepend", "replace arrays"}[c.Policy]
		}
		pre := ""
		if c.preText != nil {
			pre = c.preText()
		} else {
			pre = showV(c.newTarget(false).Elem())
		}
		return fmt.Sprintf("\n type    %v\n prefill %s%s\n config  %s (VarExp %v%s%s)", realT, pre, c.aliasText, showTree(c.Cfg), c.VarExp, pol, c.extraText)
	}

	// R: what a validation-free Unpack produces
	if err, panicked := safely(func() error { return cfg.Unpack(twin.Interface(), unpackOpts...) }); err != nil {
		if panicked {
			return out, fmt.Errorf("Unpack into the twin type (no validators) panicked: %v%s", err, describe())
		}
		// the configuration does not convert into the type: outside the property's subject
		r.Class("discarded: twin unpack failed")
		r.Discard()
		return out, nil
	}

	w := &walker{root: c.Cfg, varexp: c.VarExp, dyn: reg}
	w.walk(c.T, twin.Elem(), pos{cfg: c.Cfg})
	if w.d48 && open("D48") {
		r.Excluded("D48")
		r.Discard()
		return out, nil
	}
	if w.d59 && open("D59") {
		// class of D59: Validate() of a value an interface holds is not called when the configuration does not mention it
		r.Excluded("D59")
		r.Discard()
		return out, nil
	}
	// An object that is stored at two places and changed through one of them (the code merges settings in place into a
	// struct or array behind a non-nil pointer, into a map - a nil map behind a pointer becomes an empty one -, and into
	// such elements of a list; a map with InitDefaults is initialised in place even without a setting) has no single
	// value for the other place: the code judges every place in the state the object has when its field comes up - the
	// pre-filled one, or one that later settings overwrite again. R shows the final state only. If a shared object of
	// such a kind has a setting at one of its places, the validators at and below the places of shared objects of
	// such kinds are not decisive (either verdict), and a failure that names a path at or below such a place is
	// accepted. Everywhere else, and for all other shared objects (pointers to primitives, regular expressions, lists
	// of primitives: a setting replaces them at its own place only; objects none of whose places has a setting),
	// every place is decided on its own.
	var inFlux [][]string
	if len(c.alias) > 0 {
		// (links whose places enclose each other - a pointer to a field that is shared again, an object inside a shared
		// object - stand or fall together)
		group := make([]int, len(c.alias))
		for i := range group {
			group[i] = i
		}
		for again := true; again; {
			again = false
			for i, a := range c.alias {
				for j, b := range c.alias {
					if group[i] != group[j] && a.touches(&b) {
						g := group[j]
						for k := range group {
							if group[k] == g {
								group[k] = group[i]
							}
						}
						again = true
					}
				}
			}
		}
		for g := range c.alias {
			mutable, changed := false, false
			for i, ai := range c.alias {
				if group[i] == g {
					mutable = mutable || ai.mutable
					// (an explicit null counts: as an element of a list or an entry of a map it resets the object to its zero value)
					changed = changed || ai.initIn || w.posAt(ai.from).set || w.posAt(ai.to).set
				}
			}
			for i, ai := range c.alias {
				if group[i] == g && mutable && changed {
					inFlux = append(inFlux, ai.from, ai.to)
				}
			}
		}
	}
	influx := func(path []string) bool {
		for _, p := range inFlux {
			if hasSegPrefix(path, p) {
				return true
			}
		}
		return false
	}
	var strict, soft []*eval
	for i := range w.evals {
		e := &w.evals[i]
		switch {
		case e.ok:
		case !e.soft && influx(e.path):
			e.soft = true
			soft = append(soft, e)
		case e.soft:
			soft = append(soft, e)
		default:
			strict = append(strict, e)
		}
	}

	real := c.newTarget(false)
	uerr, panicked := safely(func() error { return cfg.Unpack(real.Interface(), unpackOpts...) })
	if panicked {
		return out, fmt.Errorf("Unpack panicked: %v%s", uerr, describe())
	}

	// (a failure may be about a state of a shared object that later settings overwrote: see inFlux above)
	var before []*eval
	if uerr != nil {
		for _, path := range inFlux {
			before = append(before, w.placeEval(path))
		}
	}

	switch {
	case uerr == nil:
		if len(strict) > 0 {
			return out, fmt.Errorf("Unpack returned nil although the result breaks a validator: %s%s\n result  %s", showEvals(strict), describe(), showV(real.Elem()))
		}
		// independently of the twin: walk the result itself
		w2 := &walker{root: c.Cfg, varexp: c.VarExp, dyn: reg}
		w2.walk(c.T, real.Elem(), pos{cfg: c.Cfg})
		for i := range w2.evals {
			if e := &w2.evals[i]; !e.ok && !e.soft && !influx(e.path) {
				return out, fmt.Errorf("Unpack returned nil but the returned value breaks %s%s\n result  %s", e, describe(), showV(real.Elem()))
			}
		}
		if !same(real.Elem(), twin.Elem()) {
			return out, fmt.Errorf("validators altered the result%s\n with validators    %s\n without validators %s", describe(), showV(real.Elem()), showV(twin.Elem()))
		}
	case len(strict) == 0 && len(soft) == 0 && len(before) == 0:
		return out, fmt.Errorf("every validator accepts the result of a validation-free Unpack, but Unpack failed: %v%s\n expected %s", uerr, describe(), showV(twin.Elem()))
	default:
		// the error has to name a rejected field or a field enclosing it. Under append/prepend/replace an element's
		// position in the result differs from the index of the setting it came from (which is what the error
		// names), so list indices are not compared then.
		listPolicy := c.Policy != 0 || c.fieldPolicy || hasPolicyTag(c.T)
		for _, d := range c.Dyn {
			listPolicy = listPolicy || hasPolicyTag(d)
		}
		rejected := append(append(append([]*eval{}, strict...), soft...), before...)
		named, ok := namedPath(uerr.Error())
		match := false
		if ok && named != "" {
			for _, e := range rejected {
				if e.below && len(e.path) == 0 {
					match = true // (the place is the namespace of the target itself: an inline struct at the top level)
				}
				for _, n := range e.names() {
					if n == named || (listPolicy && blankIndices(n) == blankIndices(named)) {
						match = true
					}
					if e.below && (strings.HasPrefix(named, n+".") || (listPolicy && strings.HasPrefix(blankIndices(named), blankIndices(n)+"."))) {
						match = true
					}
				}
			}
		}
		if !match && listPolicy && c.VarExp {
			// an element that arrived through a reference is named by the path of the referenced setting, to which
			// its position in the result does not lead once a list policy moved it: the name is not compared
			r.Class("name not compared (list policy and references)")
			match = true
		}
		if !match && (!ok || named == "") {
			// the message names nothing ("accessing config"). There is nothing to name if the rejected validator belongs
			// to the target itself (empty path), and no struct field encloses the elements of a collection target
			rootLevel := c.T.Shape().Kind != "struct"
			for _, e := range rejected {
				rootLevel = rootLevel || len(e.path) == 0
			}
			if rootLevel {
				r.Class("name not compared (nothing to name: the target itself)")
				match = true
			}
		}
		if !match && open("D44") {
			// class of D44: the names of absent struct fields on the way are
			// missing from the path ("x" or "a.x" instead of "a.b.x"), or no
			// path is quoted at all
			d44 := !ok || named == ""
			for _, e := range rejected {
				for _, full := range append([][]string{e.path}, e.alts...) {
					for i := 2; i <= len(full); i++ {
						if missesSegments(strings.Split(named, "."), full[:i]) {
							d44 = true
						}
					}
				}
			}
			if d44 {
				r.Excluded("D44")
				match = true
			}
		}
		if !match {
			return out, fmt.Errorf("Unpack failed, but the error does not name a rejected field or a field enclosing it: %v\n rejected: %s%s", uerr, showEvals(rejected), describe())
		}
	}

	// evidence
	deciding := w.evals
	if len(strict)+len(soft) > 0 {
		deciding = nil
		for _, e := range append(append([]*eval{}, strict...), soft...) {
			deciding = append(deciding, *e)
		}
	}
	nt := false
	var fromDefault, fromInit, viaPtr, inColl, inInline, byMethod, byTag, partial, partialInit bool
	var viaIface, ifaceMethod, ifaceMethodDflt, ifaceTag, ifaceTagDflt, ifaceCfg, onIface, onIfaceCfg bool
	onInline := map[string]bool{}
	params := map[string]bool{}
	methods := map[string]bool{}
	for _, e := range deciding {
		if e.partial {
			partial = true
			partialInit = partialInit || e.initDef
		}
		if e.onInline != "" {
			onInline[e.onInline] = true
		}
		if pc := paramClass(e.numKind, e.what); pc != "" {
			params[pc] = true
		}
		if !e.fromCfg {
			if e.initDef {
				fromInit = true
			} else {
				fromDefault = true
			}
		}
		if e.onIface {
			onIface = true
			onIfaceCfg = onIfaceCfg || e.fromCfg
		}
		if e.viaIface {
			viaIface = true
			ifaceCfg = ifaceCfg || e.fromCfg
			if e.what == "Validate()" {
				ifaceMethod = true
				ifaceMethodDflt = ifaceMethodDflt || (e.ifaceDirect && !e.fromCfg)
			} else {
				ifaceTag = true
				ifaceTagDflt = ifaceTagDflt || !e.fromCfg
			}
		}
		if info, ok := cats[e.cat]; ok && e.what == "Validate()" {
			recv, origin, place := "value", "value not mentioned by the configuration", "in a field"
			if info.ptrRecv {
				recv = "pointer"
			}
			if e.fromCfg {
				origin = "value from the configuration"
			}
			switch {
			case e.viaIface:
				place = "through an interface"
			case e.inColl:
				place = "inside a collection"
			case e.viaPtr:
				place = "behind a pointer"
			}
			if u := selfUnpacking[e.cat]; u != "" {
				methods["Validate() of a type that unpacks itself ("+u+", pointer receiver) decides: "+origin+", "+place] = true
			}
			if zeroRejecting[e.cat] {
				methods["Validate() rejecting the zero value of a named "+info.under+" decides: "+origin+", "+place] = true
			}
			if e.nullElem {
				methods["Validate() decides on the value an explicit null element / entry stands for: named "+info.under] = true
			}
			if e.emptyColl != "" && emptyRejecting[e.cat] {
				// (the pre-fill state of a collection nobody filled: nil and T{} are different values of the same type)
				methods["Validate() rejecting the empty collection decides: "+e.emptyColl+" "+info.under+", "+origin] = true
				methods["Validate() rejecting the empty collection decides: "+e.emptyColl+" "+info.under+", "+place] = true
			}
			methods["Validate() with "+recv+" receiver decides: named "+info.under] = true
			methods["Validate() with "+recv+" receiver decides: "+origin+", "+place] = true
		}
		if e.tagOnUnpacker {
			origin := "value not mentioned by the configuration"
			if e.fromCfg {
				origin = "value from the configuration"
			}
			methods["a tag on a field whose type unpacks itself decides: "+origin] = true
		}
		if e.nullElem && e.what != "Validate()" {
			methods["a tag decides on the value an explicit null element / entry stands for"] = true
		}
		viaPtr = viaPtr || e.viaPtr
		inColl = inColl || e.inColl
		inInline = inInline || e.inInline
		if e.what == "Validate()" {
			byMethod = true
		} else {
			byTag = true
		}
		if !e.fromCfg || e.viaPtr || e.inColl || e.inInline {
			nt = true
		}
	}
	r.NonTrivialIf(nt)
	switch {
	case len(w.evals) == 0:
		r.Class("no validator reachable")
	case len(strict) > 0:
		r.Class("verdict: rejected")
	case len(soft) > 0:
		if uerr == nil {
			r.Class("verdict: element-level only (accepted by the code)")
		} else {
			r.Class("verdict: element-level only (rejected by the code)")
		}
	default:
		r.Class("verdict: accepted")
	}
	if len(deciding) > 0 {
		r.ClassIf(fromDefault, "decided by a pre-filled default")
		r.ClassIf(fromInit, "decided by an InitDefaults value")
		r.ClassIf(viaPtr, "decided behind a pointer")
		r.ClassIf(inColl, "decided inside a collection")
		r.ClassIf(inInline, "decided in an inline field")
		r.ClassIf(byMethod, "decided by Validate()")
		r.ClassIf(byTag, "decided by a tag")
		r.ClassIf(partial, "decided by an unmentioned element of a partly configured collection")
		r.ClassIf(partialInit, "decided by an unmentioned InitDefaults element of a partly configured collection")
		r.ClassIf(viaIface, "decided through an interface")
		r.ClassIf(ifaceMethod, "decided through an interface by Validate()")
		r.ClassIf(ifaceMethodDflt, "decided by Validate() of a value an interface holds directly, not mentioned by the configuration")
		r.ClassIf(ifaceTag, "decided through an interface by a tag")
		r.ClassIf(ifaceTagDflt, "decided through an interface by a tag, value not mentioned by the configuration")
		r.ClassIf(ifaceCfg, "decided through an interface, setting merged into the held value")
		r.ClassIf(onIface, "decided by a tag on an interface{} field")
		r.ClassIf(onIfaceCfg, "decided by a tag on an interface{} field, value from the configuration")
		for _, k := range []string{"slice", "array", "map"} {
			r.ClassIf(onInline[k], "decided by a tag on an inline "+k)
		}
		for _, k := range paramClasses {
			r.ClassIf(params[k], k)
		}
		mlabels := make([]string, 0, len(methods))
		for k := range methods {
			mlabels = append(mlabels, k)
		}
		sort.Strings(mlabels)
		for _, k := range mlabels {
			r.Class(k)
		}
	}
	for _, e := range strict {
		r.Class("rejecting: " + strings.SplitN(e.what, "=", 2)[0])
	}
	if len(c.alias) > 0 {
		r.ClassIf(len(strict)+len(soft) == 0 && len(before) > 0, "aliased: failure accepted although the final state satisfies every validator (a shared object was changed in place)")
		r.ClassIf(len(inFlux) > 0, "aliased: a shared object may be changed in place (its places are not decisive)")
		r.ClassIf(len(inFlux) == 0, "aliased: no shared object is changed in place (every place decided on its own)")
		oneOnly, oneOnlyAbsent := false, false
		for _, ai := range c.alias {
			r.Class("aliased: " + ai.kind)
			r.Class("aliased: " + ai.where)
			mFrom, mTo := w.posAt(ai.from).cfg != nil, w.posAt(ai.to).cfg != nil
			switch {
			case mFrom && mTo:
				r.Class("aliased: both places have a setting")
			case mFrom || mTo:
				r.Class("aliased: one place has a setting, the other has none")
			default:
				r.Class("aliased: no place has a setting")
			}
			// the validators of one place reject the object, those of the other place accept it
			rej := func(path []string) bool {
				for _, e := range strict {
					if hasSegPrefix(e.path, path) {
						return true
					}
				}
				return false
			}
			if rej(ai.from) != rej(ai.to) {
				oneOnly = true
				oneOnlyAbsent = oneOnlyAbsent || (!mFrom && !mTo)
				sole := true
				for _, e := range strict {
					sole = sole && (hasSegPrefix(e.path, ai.from) || hasSegPrefix(e.path, ai.to))
				}
				r.ClassIf(sole && !mFrom && !mTo, "aliased: every rejection is at a shared place that the other place of the object accepts, no place has a setting")
				if !mFrom && !mTo {
					r.Class("aliased, rejected at one place only, no setting: " + ai.kind)
					r.Class("aliased, rejected at one place only, no setting: " + ai.where)
				}
			}
		}
		r.ClassIf(oneOnly, "aliased: the validators of one place reject the object, those of the other place accept it")
		r.ClassIf(oneOnlyAbsent, "aliased: the validators of one place reject the object, those of the other place accept it, no place has a setting")
		if len(c.alias) > 1 {
			r.Class("aliased: two or more links")
		}
	}
	r.ClassIf(c.VarExp, "VarExp")
	if c.VarExp {
		refs := 0
		for _, k := range c.Cfg.Keys {
			if refRe.MatchString("${" + k + "}") {
				refs++
			}
		}
		r.ClassIf(refs > 0, "values delivered through ${ref}")
	}
	r.ClassIf(hasNullElem(c.Cfg, false), "config: explicit null as an element of a list or as a value below the top level")
	r.ClassIf(c.Pre == nil, "prefill: zero value")
	r.ClassIf(facts.ptr, "type: pointer")
	r.ClassIf(facts.slice, "type: slice")
	r.ClassIf(facts.array, "type: array")
	r.ClassIf(facts.mapk, "type: map")
	r.ClassIf(facts.inline, "type: inline")
	for _, k := range []string{"struct", "slice", "array", "map"} {
		r.ClassIf(facts.inlineKinds[k], "type: inline "+k)
		r.ClassIf(facts.inlineTags[k], "type: tag on an inline "+k)
	}
	if k := c.T.Shape().Kind; k != "struct" {
		r.Class("target: " + k)
	}
	r.ClassIf(facts.blankEq, "type: tag spelt with blanks around '='")
	r.ClassIf(facts.squash, "type: inline field spelt squash")
	r.ClassIf(facts.ifaceField, "type: interface{} field")
	r.ClassIf(facts.tagOnIface, "type: tag on an interface{} field")
	r.ClassIf(facts.ifaceList, "type: list of interface{}")
	r.ClassIf(facts.ifaceMap, "type: map[string]interface{}")
	r.ClassIf(len(c.Dyn) > 0, "prefill: typed value held by an interface")
	r.ClassIf(w.unknown, "result: an interface holds a value of a type the case does not describe (not walked)")
	r.ClassIf(facts.dur, "type: duration")
	for _, k := range catKinds {
		r.ClassIf(facts.cats[k], "type: "+k)
	}
	out.discarded, out.real, out.twin, out.unpacked, out.rejected = false, real, twin, uerr == nil, len(strict) > 0
	return out, nil
}

var paramClasses = []string{"param: integer in base-prefix / separator / signed syntax", "param: float in exponent / hex / bare-point / signed syntax",
	"param: duration in unit syntax", "param: duration as fractional seconds", "param: duration as negative seconds", "param: duration as whole seconds"}

// paramClass labels the syntax of a min / max parameter.
func paramClass(numKind, what string) string {
	kv := strings.SplitN(what, "=", 2)
	if len(kv) != 2 || numKind == "" {
		return ""
	}
	p := kv[1]
	switch numKind {
	case "int", "uint":
		if _, err := strconv.ParseUint(p, 10, 64); err != nil && !(strings.HasPrefix(p, "-") && len(p) > 1 && p[1] >= '1' && p[1] <= '9' && !strings.Contains(p, "_")) {
			return paramClasses[0]
		}
		if len(p) > 1 && p[0] == '0' {
			return paramClasses[0] // leading zero: octal
		}
	case "float":
		if strings.ContainsAny(p, "eExXpP+") || strings.HasPrefix(p, ".") || p == "-0" {
			return paramClasses[1]
		}
	case "dur":
		if _, err := time.ParseDuration(p); err == nil && p != "0" {
			return paramClasses[2]
		}
		f, err := strconv.ParseFloat(p, 64)
		switch {
		case err != nil:
			return ""
		case f < 0:
			return paramClasses[4]
		case f != float64(int64(f)):
			return paramClasses[3]
		}
		return paramClasses[5]
	}
	return ""
}

// missesSegments reports whether named is path with some segments left out
// (same last segment).
func missesSegments(named, path []string) bool {
	if len(named) == 0 || len(named) >= len(path) || named[len(named)-1] != path[len(path)-1] {
		return false
	}
	i := 0
	for _, seg := range path {
		if i < len(named) && named[i] == seg {
			i++
		}
	}
	return i == len(named)
}

// safely runs f; a panic is returned as an error with the second result set.
func safely(f func() error) (err error, panicked bool) {
	defer func() {
		if p := recover(); p != nil {
			st := string(debug.Stack())
			if len(st) > 2500 {
				st = st[:2500]
			}
			err, panicked = fmt.Errorf("%v\n%s", p, st), true
		}
	}()
	return f(), false
}

// hasNullElem reports whether the configuration holds an explicit null as an
// element of a list, or as a value of an object below the top level (an entry
// of a map, or a field of a struct that is itself an element / a field).
func hasNullElem(t *gen.Tree, below bool) bool {
	if t == nil {
		return false
	}
	for _, v := range t.Vals {
		if v == nil {
			continue
		}
		if v.K == "nil" && (below || t.K == "list") {
			return true
		}
		if hasNullElem(v, true) {
			return true
		}
	}
	return false
}

func showTree(t *gen.Tree) string { return fmt.Sprintf("%v", showGo(t)) }

func showGo(t *gen.Tree) string {
	switch t.K {
	case "obj":
		var s []string
		for i, k := range t.Keys {
			s = append(s, fmt.Sprintf("%q: %s", k, showGo(t.Vals[i])))
		}
		return "{" + strings.Join(s, ", ") + "}"
	case "list":
		var s []string
		for _, v := range t.Vals {
			s = append(s, showGo(v))
		}
		return "[" + strings.Join(s, ", ") + "]"
	case "str":
		return fmt.Sprintf("%q", t.S)
	case "nil":
		return "nil"
	}
	return fmt.Sprintf("%v", t.Prim())
}

var subTwin = runlog.Register(&runlog.Sub[Case]{
	Name: "twin-differential",
	Rule: "random struct types (reflect.StructOf over all primitive kinds, named variants, durations, regexps, pointers, slices, arrays, string-keyed maps, nested and inline structs, and 54 hand-written catalogue types with Validate()/InitDefaults/own tags (among them named slices and maps whose Validate(), with either receiver, REJECTS THE EMPTY COLLECTION, plain structs holding one, and a struct whose InitDefaults installs a pointer to a nil one: the nil collection, the allocated empty one - the value generator draws both pre-fill states wherever a collection sits: field, element, map entry, pointee, value held by an interface - and one the configuration sets to [] / {} are three ways to the same rejected value; further named int / string / uint / float / bool types whose Validate(), value or pointer receiver, REJECTS THE ZERO VALUE; and 8 types that UNPACK THEMSELVES through a pointer-receiver method - IntUnpacker (one rejecting negatives, one rejecting zero), UintUnpacker, FloatUnpacker, StringUnpacker, BoolUnpacker, the generic Unpacker, and a struct that is a ConfigUnpacker - each with a rejecting Validate() of either receiver, placed like every catalogue type: field with or without tags, pointee, element, map entry, value held by an interface; the twins have the same Unpack methods and no Validate(). One element in eight of every list / array setting and one entry in eight of every map setting is an explicit null, which stands for the zero value of the element type. While N-C04-1 is open, validate tags on a pointer to a primitive-kind self-unpacking type, and on an interface{} field when such a type is among the held types, are constructed away): Validate() declared on the VALUE receiver and on the POINTER receiver for every underlying kind a named type can have - int, uint, float, string, bool, an int64 derived from time.Duration, slice, array, map, struct -, InitDefaults (pointer receiver, for maps also value receiver) on named int, uint, float, string, bool, map and struct types with valid and with invalid defaults; 17 of them have an InitDefaults that installs exactly one value failing validation - the value of a named string / float / bool / int itself, a map entry rejected by the element's Validate() (value or pointer receiver), by a tag of the element struct or of a pointee, a list element / array element / map entry / pointee / tagged field of a struct - which only the configuration can override; 6 more have an InitDefaults that stores ONE object at two places with different validators (one *int in two fields with different bounds, as a list element and in a tagged field, a *Duration as a map entry and in a tagged field, a *float64 behind a further pointer and in a tagged field, an empty slice / map in two fields the second of which is required), the second place rejecting it; the harness checks at start-up that the oracle's description of every catalogue type agrees with its method sets) with validate tags (required, nonzero, positive, min=N, max=N, singly or in pairs, sometimes spelt with blanks around '=') on about a third of the fields whose kind the documentation defines them for (every second duration field), at any depth; parameters in every syntax the code reads them with: integers decimal, hexadecimal, octal (0o17 and 017), binary, with digit separators and signs, up to the 64-bit limits; floats with exponent, hexadecimal, bare point, sign; duration bounds in unit syntax (compound, fractional, signed) and as plain numbers of seconds (integral, fractional, negative, exponent form); settings on, below and above every bound. Inline fields of every kind the code accepts: about a quarter of the collection types below the top level (an eighth of the struct types, catalogue types included) are replaced by struct{C T `config:\",inline\"`} (a quarter of them spelt squash, a quarter with a named sibling field), whose setting is the list / object itself, and every second inline slice / array / map field carries a required / nonzero tag (inline maps only while D55 is not open). 1 case in 12 unpacks into a map, slice or array target (plain or catalogue type; in a third of them map[string]interface{}, []interface{} or collections of those) instead of a struct. Values reached through an interface: in 1 case of 3 about a quarter of the fields are turned into interface{}, []interface{}, map[string]interface{}, [N]interface{} or map[string][]interface{} fields and a quarter of the collections of primitives into collections of interface{} (inline spellings and collection-level required / nonzero tags included); every second interface{} field carries a tag itself (required, nonzero, positive, min / max with a bound every numeric kind reads; only while D61 is not open); the pre-filled interfaces are nil or hold generic data (about 1 of 7 each), otherwise a typed value: a catalogue type with Validate() / InitDefaults / tags, a pointer or double pointer to one (nil pointers included), a reflect.StructOf struct with tagged fields (by value or behind a pointer), a typed slice / map / pointer to slice or map of such types, generic []interface{} / map[string]interface{} holding typed values again, or a pointer to a tagged struct that has an interface-typed field itself (two levels); the dynamic types are part of the case (dyn), valid and invalid values alike; the configuration leaves the interface unmentioned, or holds a setting built from the dynamic type of the pre-filled value (the code merges it into the held value) or generic data. The twin value holds the twin VALUE (no Validate, no tags) of the same shape in the interface; the walk follows interfaces by the dynamic Go type of what it finds (the types of the case, the types behind their pointers, generic data). A pre-filled value (zero value in 1 of 6 cases); a configuration built from the type that mentions about half of the fields (explicit nil settings included; for maps other keys than the pre-filled / InitDefaults ones as a rule, in 1 of 4 draws the keys InitDefaults inserts); a global list policy (replace, append, prepend, replace arrays only) in 1 of 3 cases and policy tags on slices; with VarExp (1 of 3) about a fifth of the settings are delivered through ${rN} references. Oracle: unpack configuration and pre-filled value into the twin type (no tags, no Validate methods, same InitDefaults) to get R; reference validators (documented meaning, applied through non-nil pointers, tags of inline fields included) walk R; all accept => Unpack into the real type succeeds with a result equal to R; one rejects => Unpack fails and the message quotes the path of a rejected field or of an enclosing one (nothing to quote for a validator of the target itself or an element of a collection target kept from the pre-filled value); tags of a collection field whose elements are not structs are also applied to the elements and such element-level rejections alone allow either verdict; whenever Unpack returns nil the returned value itself is walked. Constructed away only while the finding is open: a rejecting Validate() of a value an interface holds directly (D59), a setting for an interface that holds a struct, an array or a nil map by value (D60: Unpack panics), tags on interface{} fields (D61). Non-trivial: a deciding validator (a rejecting one, or any if all accept) judges a value the configuration does not mention (default / InitDefaults) or sits behind a pointer, inside a collection or in an inline field. Distinct: hash of (type, pre-filled value, configuration, VarExp, policy, dynamic types).",
	Gen:  genCase,
	Run:  runCase,
})

func TestTwinDifferential(t *testing.T) { subTwin.Check(t, 170000, 1600000) }

func TestReplay(t *testing.T) { runlog.ReplayMain(t) }
