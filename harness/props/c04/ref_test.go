package c04

import (
	"fmt"
	"reflect"
	"regexp"
	"sort"
	"strconv"
	"strings"
	"time"

	"verif/harness/internal/gen"
)

// ---------------------------------------------------------------------------
// reference validators: the documented meaning of the validate tags
//
//	required: value is set and not empty   (nil pointer, zero number, empty string/regexp, nil or empty list/map fail)
//	nonzero:  numeric value != 0, string / regexp / list / map not empty (nil pointers, nil lists and nil maps pass:
//	          "the validator is only run if field is present")
//	positive: numeric value >= 0
//	min=N:    numeric value >= N, for time.Duration N may be a duration (a plain number counts seconds)
//	max=N:    numeric value <= N, likewise
//
// applied to the value a non-nil pointer points to (reading decision 6.7).

type vtag struct {
	name  string
	param string
}

func (v vtag) String() string {
	if v.param != "" {
		return v.name + "=" + v.param
	}
	return v.name
}

func parseTags(s string) []vtag {
	var out []vtag
	for _, part := range strings.Split(s, ",") {
		part = strings.TrimSpace(part)
		if part == "" {
			continue
		}
		kv := strings.SplitN(part, "=", 2)
		t := vtag{name: strings.TrimSpace(kv[0])}
		if len(kv) == 2 {
			t.param = strings.TrimSpace(kv[1])
		}
		out = append(out, t)
	}
	return out
}

var durType = reflect.TypeOf(time.Duration(0))

func paramDuration(p string) time.Duration {
	if d, err := time.ParseDuration(p); err == nil {
		return d
	}
	f, err := strconv.ParseFloat(p, 64)
	if err != nil {
		panic("c04: malformed duration parameter in case: " + p)
	}
	return time.Duration(f * float64(time.Second))
}

// refTag reports whether the value of a field satisfies one tag.
func refTag(t vtag, v reflect.Value) bool {
	// (through the value an interface holds as well: a nil interface is "no value" like a nil pointer)
	for (v.Kind() == reflect.Ptr && v.Type() != gen.RegexpType) || v.Kind() == reflect.Interface {
		if v.IsNil() {
			return t.name != "required"
		}
		v = v.Elem()
	}
	if v.Type() == gen.RegexpType {
		if v.IsNil() {
			return t.name != "required"
		}
		switch t.name {
		case "required", "nonzero":
			return v.Interface().(*regexp.Regexp).String() != ""
		}
		return true
	}
	if v.Type() == durType {
		d := time.Duration(v.Int())
		switch t.name {
		case "required", "nonzero":
			return d != 0
		case "positive":
			return d >= 0
		case "min":
			return d >= paramDuration(t.param)
		case "max":
			return d <= paramDuration(t.param)
		}
		return true
	}
	switch v.Kind() {
	case reflect.Int, reflect.Int8, reflect.Int16, reflect.Int32, reflect.Int64:
		switch t.name {
		case "required", "nonzero":
			return v.Int() != 0
		case "positive":
			return v.Int() >= 0
		case "min", "max":
			p, err := strconv.ParseInt(t.param, 0, 64)
			if err != nil {
				panic("c04: malformed integer parameter in case: " + t.param)
			}
			if t.name == "min" {
				return v.Int() >= p
			}
			return v.Int() <= p
		}
	case reflect.Uint, reflect.Uint8, reflect.Uint16, reflect.Uint32, reflect.Uint64:
		switch t.name {
		case "required", "nonzero":
			return v.Uint() != 0
		case "positive":
			return true
		case "min", "max":
			p, err := strconv.ParseUint(t.param, 0, 64)
			if err != nil {
				panic("c04: malformed unsigned parameter in case: " + t.param)
			}
			if t.name == "min" {
				return v.Uint() >= p
			}
			return v.Uint() <= p
		}
	case reflect.Float32, reflect.Float64:
		switch t.name {
		case "required", "nonzero":
			return v.Float() != 0
		case "positive":
			return v.Float() >= 0
		case "min", "max":
			p, err := strconv.ParseFloat(t.param, 64)
			if err != nil {
				panic("c04: malformed float parameter in case: " + t.param)
			}
			if t.name == "min" {
				return v.Float() >= p
			}
			return v.Float() <= p
		}
	case reflect.String:
		switch t.name {
		case "required", "nonzero":
			return v.Len() > 0
		}
	case reflect.Slice, reflect.Map:
		switch t.name {
		case "required":
			return !v.IsNil() && v.Len() > 0
		case "nonzero":
			return v.IsNil() || v.Len() > 0
		}
	case reflect.Array:
		switch t.name {
		case "required", "nonzero":
			return v.Len() > 0
		}
	}
	return true
}

// ---------------------------------------------------------------------------
// the walk over a value: every validator that applies to a reachable field

type eval struct {
	path []string   // config path of the field / value the validator belongs to
	alts [][]string // the same position named through the settings a ${reference} above it points to
	what string     // "min=1", "Validate()"
	ok   bool
	soft bool // the field's tag applied to an element of the collection (reading decision 6.18): either verdict is acceptable

	fromCfg  bool // the deciding value is mentioned by the configuration
	initDef  bool // ... or comes from a type with InitDefaults
	viaPtr   bool
	inColl   bool
	inInline bool
	partial  bool   // the value is an element / entry the configuration does not mention, of a collection of which it mentions others
	onInline string // the tag sits on an inline field of this kind (slice, array, map)
	numKind  string // tags: int, uint, float, dur or "" (kind of the value the parameter is read for)

	viaIface    bool // the value is reached through an interface
	ifaceDirect bool // ... and is the very value the interface holds (through pointers)
	onIface     bool // the tag sits on a field of type interface{}

	cat       string // Validate(): the catalogue kind of the value
	emptyColl string // Validate(): "nil" / "allocated empty" if the value is a slice or map without elements

	nullElem      bool // the value is what an explicit null element of a list / entry of a map stands for
	tagOnUnpacker bool // a tag on a field whose type (through pointers) unpacks itself

	below bool // not a validator but a place: an error naming a path below it is about it as well (see runCall)
}

type pos struct {
	path     []string
	alts     [][]string
	cfg      *gen.Tree // the setting at this position (references resolved), nil if the configuration does not mention it
	viaPtr   bool
	inColl   bool
	inInline bool
	initDef  bool
	partial  bool
	onInline string
	numKind  string

	viaIface    bool
	ifaceDirect bool
	onIface     bool
	noInit      bool // below an interface-held value the configuration does not mention: no InitDefaults is run there
	null        bool // the setting at this position is an explicit null
	set         bool // the configuration has a setting at this position (an explicit nil included; for the elements of a list: the list has one)
}

func (p pos) child(seg string, cfg *gen.Tree) pos {
	q := p
	q.ifaceDirect = false
	q.path = append(append([]string{}, p.path...), seg)
	q.alts = nil
	for _, a := range p.alts {
		q.alts = append(q.alts, append(append([]string{}, a...), seg))
	}
	q.cfg = cfg
	return q
}

type walker struct {
	root   *gen.Tree
	varexp bool
	evals  []eval
	d48    bool // class of finding D48 seen: a field of a primitive type with InitDefaults that the configuration does not mention
	dyn    dynReg
	d59    bool // class of finding D59 seen: a value held directly by an interface whose Validate() rejects
	// class of D60 seen (walk over the pre-filled value): a struct, an array or a nil map held directly by an interface
	// at a position the configuration has a setting for (the code merges into the unaddressable value and panics)
	unaddr  bool
	unknown bool // an interface of the value holds a type that is neither a dynamic type of the case nor generic data
}

var refRe = regexp.MustCompile(`^\$\{(r[0-9]+)\}$`)

// resolve follows ${rN} references (only generated with VarExp) and returns
// the names passed through.
func (w *walker) resolve(n *gen.Tree) (*gen.Tree, []string) {
	var names []string
	for hops := 0; n != nil && w.varexp && n.K == "str" && hops < 64; hops++ {
		m := refRe.FindStringSubmatch(n.S)
		if m == nil {
			break
		}
		names = append(names, m[1])
		n = w.root.Get(m[1])
	}
	if n != nil && n.K == "nil" {
		n = nil
	}
	return n, names
}

// at moves to a child setting: resolves references and records the
// alternative names.
func (w *walker) at(p pos, seg string, raw *gen.Tree) pos {
	n, names := w.resolve(raw)
	q := p.child(seg, n)
	for _, nm := range names {
		q.alts = append(q.alts, []string{nm})
	}
	q.set = raw != nil
	q.null = raw != nil && raw.K == "nil"
	return q
}

func (w *walker) add(p pos, what string, ok, soft bool) {
	w.evals = append(w.evals, eval{path: p.path, alts: p.alts, what: what, ok: ok, soft: soft,
		fromCfg: p.cfg != nil, initDef: p.initDef && p.cfg == nil, viaPtr: p.viaPtr, inColl: p.inColl, inInline: p.inInline,
		partial: p.partial && p.cfg == nil, nullElem: p.null && p.inColl, onInline: p.onInline, numKind: p.numKind, viaIface: p.viaIface, ifaceDirect: p.ifaceDirect, onIface: p.onIface})
	if what == "Validate()" && p.ifaceDirect && !ok {
		w.d59 = true
	}
}

func cfgField(cfg *gen.Tree, name string) *gen.Tree {
	if cfg == nil || cfg.K != "obj" {
		return nil
	}
	return cfg.Get(name)
}

func cfgIndex(cfg *gen.Tree, i int) *gen.Tree {
	if cfg == nil {
		return nil
	}
	if cfg.K == "list" {
		if i < len(cfg.Vals) {
			return cfg.Vals[i]
		}
		return nil
	}
	if cfg.K != "obj" && i == 0 {
		return cfg // a primitive is handled like a list of length one
	}
	return nil
}

// mentionsElems reports whether the setting of a collection mentions at least
// one element / entry.
func mentionsElems(cfg *gen.Tree) bool {
	if cfg == nil {
		return false
	}
	if cfg.K == "obj" || cfg.K == "list" {
		for _, v := range cfg.Vals {
			if v != nil && v.K != "nil" {
				return true
			}
		}
		return false
	}
	return true // a primitive: list of length one
}

func sortedKeys(v reflect.Value) []string {
	var ks []string
	for _, k := range v.MapKeys() {
		ks = append(ks, k.String())
	}
	sort.Strings(ks)
	return ks
}

func isStructish(td *gen.TD) bool {
	for td.Kind == "ptr" {
		td = td.Elem
	}
	return td.Shape().Kind == "struct"
}

// walk visits the value v of type td.
func (w *walker) walk(td *gen.TD, v reflect.Value, p pos) {
	info, isCat := cats[td.Kind]
	if isCat && info.initDefaults && !p.noInit {
		p.initDef = true
	}
	sh := td.Shape()
	switch sh.Kind {
	case "iface":
		// the value the interface holds is reachable: walk it with the descriptor of its dynamic type. The code merges a
		// setting into that value like into a value of the concrete type; generic data holds no validators itself, but
		// may hold typed values again
		if v.IsNil() {
			return
		}
		dv := v.Elem()
		if k := dv.Kind(); p.set && (k == reflect.Struct || k == reflect.Array || (k == reflect.Map && dv.IsNil())) {
			w.unaddr = true
		}
		dtd := w.dynTD(dv.Type(), false)
		if dtd == nil {
			if genericPrims[dv.Type()] == nil {
				w.unknown = true
			}
			return
		}
		p.viaIface, p.ifaceDirect = true, true
		if p.cfg == nil {
			p.noInit, p.initDef = true, false
		}
		w.walk(dtd, dv, p)
		return
	case "ptr":
		if v.IsNil() {
			return
		}
		p.viaPtr = true
		w.walk(sh.Elem, v.Elem(), p)
		return
	case "slice", "array":
		for i := 0; i < v.Len(); i++ {
			q := w.at(p, strconv.Itoa(i), cfgIndex(p.cfg, i))
			q.inColl = true
			q.partial = p.partial || (q.cfg == nil && mentionsElems(p.cfg))
			// (a list policy moves elements: which setting meets which pre-filled element is not tracked)
			q.set = q.set || (p.cfg != nil && (p.cfg.K != "list" || len(p.cfg.Vals) > 0))
			w.walk(sh.Elem, v.Index(i), q)
		}
	case "map":
		for _, k := range sortedKeys(v) {
			q := w.at(p, k, cfgField(p.cfg, k))
			q.inColl = true
			q.partial = p.partial || (q.cfg == nil && mentionsElems(p.cfg))
			e := reflect.New(v.Type().Elem()).Elem()
			e.Set(v.MapIndex(reflect.ValueOf(k).Convert(v.Type().Key())))
			w.walk(sh.Elem, e, q)
		}
	case "struct":
		for i := range sh.Fields {
			f := &sh.Fields[i]
			if f.Ignore || f.Unexp {
				continue
			}
			fv := v.Field(i)
			q := p
			if isInline(f) {
				q.inInline = true
				q.ifaceDirect = false
			} else {
				q = w.at(p, f.ConfigName(), cfgField(p.cfg, f.ConfigName()))
				q.set = q.cfg != nil // a nil setting of a struct field is no setting
			}
			if fi, ok := cats[f.T.Kind]; ok && fi.initDefaults && f.T.Shape().IsLeaf() && q.cfg == nil {
				w.d48 = true
			}
			for _, t := range parseTags(f.Validate) {
				tq := q
				if f.T.Kind == "ptr" {
					tq.viaPtr = true
				}
				if isInline(f) {
					tq.onInline = f.T.Shape().Kind
				}
				tq.onIface = f.T.Kind == "iface"
				_, tq.numKind, _ = tagCandidates(f.T)
				w.add(tq, t.String(), refTag(t, fv), false)
				if base, _ := stripPtr(f.T); selfUnpacking[catBase(base.Kind)] != "" {
					w.evals[len(w.evals)-1].tagOnUnpacker = true
				}
				w.elemLevel(f.T, fv, t, q)
			}
			w.walk(f.T, fv, q)
		}
	}
	if isCat && info.valid != nil {
		w.add(p, "Validate()", info.valid(v), false)
		w.evals[len(w.evals)-1].cat = catBase(td.Kind)
		if k := v.Kind(); (k == reflect.Slice || k == reflect.Map) && v.Len() == 0 {
			w.evals[len(w.evals)-1].emptyColl = "allocated empty"
			if v.IsNil() {
				w.evals[len(w.evals)-1].emptyColl = "nil"
			}
		}
	}
}

// elemLevel applies the tag of a list- or map-typed field to its elements
// (through nested collections and pointers, stopping at structs). The code
// does this for elements read from the configuration; the documentation
// defines the tags for the field only, so these verdicts are soft.
func (w *walker) elemLevel(td *gen.TD, v reflect.Value, t vtag, p pos) {
	sh := td.Shape()
	switch sh.Kind {
	case "iface":
		// the tag of an interface{} field that holds a list or a map
		if !v.IsNil() {
			if dtd := w.dynTD(v.Elem().Type(), false); dtd != nil {
				w.elemLevel(dtd, v.Elem(), t, p)
			}
		}
	case "ptr":
		if !v.IsNil() {
			w.elemLevel(sh.Elem, v.Elem(), t, p)
		}
	case "slice", "array":
		for i := 0; i < v.Len(); i++ {
			w.elemApply(sh.Elem, v.Index(i), t, w.at(p, strconv.Itoa(i), cfgIndex(p.cfg, i)))
		}
	case "map":
		for _, k := range sortedKeys(v) {
			w.elemApply(sh.Elem, v.MapIndex(reflect.ValueOf(k).Convert(v.Type().Key())), t, w.at(p, k, cfgField(p.cfg, k)))
		}
	}
}

func (w *walker) elemApply(td *gen.TD, v reflect.Value, t vtag, p pos) {
	if td.Kind == "iface" {
		// the element an interface holds (the code applies the tag when it merges a setting into a pre-filled primitive)
		if v.IsNil() {
			if !refTag(t, v) {
				p.inColl = true
				w.add(p, t.String()+" (applied to an element)", false, true)
			}
			return
		}
		v = v.Elem()
		if td = w.dynTD(v.Type(), true); td == nil {
			return
		}
	}
	if isStructish(td) {
		return
	}
	p.inColl = true
	if !refTag(t, v) {
		w.add(p, t.String()+" (applied to an element)", false, true)
	}
	w.elemLevel(td, v, t, p)
}

// ---------------------------------------------------------------------------
// structural comparison of the real result with the twin result (different
// Go types of the same shape): nil and empty collections are equal, NaN
// equals NaN, regular expressions compare by source, pointers by pointee.

func same(a, b reflect.Value) bool {
	if a.Kind() != b.Kind() {
		return false
	}
	switch a.Kind() {
	case reflect.Interface:
		if a.IsNil() || b.IsNil() {
			return a.IsNil() == b.IsNil()
		}
		return same(a.Elem(), b.Elem())
	case reflect.Ptr:
		if a.IsNil() || b.IsNil() {
			return a.IsNil() == b.IsNil()
		}
		if a.Type() == gen.RegexpType {
			return b.Type() == gen.RegexpType && a.Interface().(*regexp.Regexp).String() == b.Interface().(*regexp.Regexp).String()
		}
		return same(a.Elem(), b.Elem())
	case reflect.Slice, reflect.Array:
		if a.Len() != b.Len() {
			return false
		}
		for i := 0; i < a.Len(); i++ {
			if !same(a.Index(i), b.Index(i)) {
				return false
			}
		}
		return true
	case reflect.Map:
		if a.Len() != b.Len() {
			return false
		}
		for _, k := range a.MapKeys() {
			bv := b.MapIndex(k.Convert(b.Type().Key()))
			if !bv.IsValid() || !same(a.MapIndex(k), bv) {
				return false
			}
		}
		return true
	case reflect.Struct:
		if a.NumField() != b.NumField() {
			return false
		}
		for i := 0; i < a.NumField(); i++ {
			if !same(a.Field(i), b.Field(i)) {
				return false
			}
		}
		return true
	case reflect.Float32, reflect.Float64:
		return a.Float() == b.Float() || (a.Float() != a.Float() && b.Float() != b.Float())
	case reflect.Bool:
		return a.Bool() == b.Bool()
	case reflect.Int, reflect.Int8, reflect.Int16, reflect.Int32, reflect.Int64:
		return a.Int() == b.Int()
	case reflect.Uint, reflect.Uint8, reflect.Uint16, reflect.Uint32, reflect.Uint64:
		return a.Uint() == b.Uint()
	case reflect.String:
		return a.String() == b.String()
	}
	return false
}

// ---------------------------------------------------------------------------
// "an error naming that field": the path quoted by the message must be the
// path of a rejected field or of a field enclosing it.

var accessingRe = regexp.MustCompile(`accessing '((?:[^'\\]|\\.)*)'`)

// namedPath extracts the path the error message quotes; ok is false if the
// message quotes none ("accessing config").
func namedPath(msg string) (string, bool) {
	ms := accessingRe.FindAllStringSubmatch(msg, -1)
	if len(ms) == 0 {
		return "", false
	}
	return ms[len(ms)-1][1], true
}

func prefixNames(path []string) []string {
	var out []string
	for i := 1; i <= len(path); i++ {
		out = append(out, strings.Join(path[:i], "."))
	}
	return out
}

// names returns every path an error about this evaluation may quote.
func (e *eval) names() []string {
	out := prefixNames(e.path)
	for _, a := range e.alts {
		out = append(out, prefixNames(a)...)
	}
	return out
}

func (e *eval) String() string {
	s := fmt.Sprintf("%s on '%s'", e.what, strings.Join(e.path, "."))
	if e.soft {
		s += " [element level]"
	}
	return s
}
