package c04

import (
	"fmt"
	"strings"

	"pgregory.net/rapid"

	"verif/harness/internal/gen"
	"verif/harness/internal/runlog"
)

// ---------------------------------------------------------------------------
// validate tags: only where the documentation defines them

func stripPtr(td *gen.TD) (*gen.TD, int) {
	n := 0
	for td.Kind == "ptr" {
		td = td.Elem
		n++
	}
	return td, n
}

// tagCandidates returns the validators the documentation defines for a field
// of this type, and whether the type is a collection whose elements are not
// structs (the code then applies the field's tags to elements as well: 6.18).
func tagCandidates(td *gen.TD) (cands []string, numKind string, softColl bool) {
	base, nptr := stripPtr(td)
	sh := base.Shape()
	if sh.IsLeaf() {
		switch b := sh.Base(); {
		case b == "dur":
			return []string{"required", "nonzero", "positive", "min", "max"}, "dur", false
		case strings.HasPrefix(b, "int"):
			return []string{"required", "nonzero", "positive", "min", "max"}, "int", false
		case strings.HasPrefix(b, "uint"):
			return []string{"required", "nonzero", "min", "max", "min", "max", "positive"}, "uint", false
		case strings.HasPrefix(b, "float"):
			return []string{"required", "nonzero", "positive", "min", "max"}, "float", false
		case b == "string", b == "regexp":
			return []string{"required", "nonzero"}, "", false
		}
		return nil, "", false // bool: no validator is defined
	}
	switch sh.Kind {
	case "slice", "array", "map":
		return []string{"required", "nonzero"}, "", !isStructish(sh.Elem)
	case "struct":
		if nptr > 0 {
			return []string{"required"}, "", false // "value is set": a nil pointer is not
		}
	}
	return nil, "", false
}

var (
	// incl. bounds next to the limits of the 64-bit kinds and beyond 2^53, where neighbouring integers are not
	// distinguishable as float64
	intParams   = []string{"0", "1", "2", "42", "100", "-1", "9223372036854775806", "9223372036854775807", "9007199254740992", "-9223372036854775807"}
	uintParams  = []string{"0", "1", "2", "42", "100", "18446744073709551614", "9007199254740992", "9223372036854775808"}
	floatParams = []string{"0", "1", "1.5", "42", "-2.25"}
	durParams   = []string{"0", "1s", "10ns", "1500ms", "2h", "-1s", "1", "10", "1.5"}
)

func genTag(t *rapid.T, cands []string, numKind string) string {
	name := rapid.SampledFrom(cands).Draw(t, "vname")
	if name == "required" && len(cands) > 1 && rapid.Bool().Draw(t, "again") {
		// required rejects every zero value: keep it from dominating the rejections
		name = rapid.SampledFrom(cands).Draw(t, "vname2")
	}
	if name != "min" && name != "max" {
		return name
	}
	pool := intParams
	switch numKind {
	case "uint":
		pool = uintParams
	case "float":
		pool = floatParams
	case "dur":
		pool = durParams
	}
	return name + "=" + rapid.SampledFrom(pool).Draw(t, "vparam")
}

// assignTags puts validate tags on fields at any depth of the type: on one
// eligible field in odds+1 (collections of non-structs: a third of that).
func assignTags(t *rapid.T, td *gen.TD, odds int) {
	switch td.Kind {
	case "ptr", "slice", "array", "map":
		assignTags(t, td.Elem, odds)
	case "struct":
		for i := range td.Fields {
			f := &td.Fields[i]
			assignTags(t, f.T, odds)
			if f.Inline || f.Ignore || f.Unexp || f.Validate != "" {
				continue
			}
			if base, _ := stripPtr(f.T); base.Shape().Kind == "slice" && f.Policy == "" && rapid.IntRange(0, 5).Draw(t, "ptag") == 0 {
				f.Policy = rapid.SampledFrom([]string{"append", "prepend", "replace"}).Draw(t, "ptagv")
			}
			cands, numKind, soft := tagCandidates(f.T)
			if len(cands) == 0 {
				continue
			}
			o := odds
			if soft {
				o = 3*odds + 2
			}
			if rapid.IntRange(0, o).Draw(t, "hasv") != 0 {
				continue
			}
			f.Validate = genTag(t, cands, numKind)
			if rapid.IntRange(0, 3).Draw(t, "second") == 0 {
				if second := genTag(t, cands, numKind); strings.SplitN(second, "=", 2)[0] != strings.SplitN(f.Validate, "=", 2)[0] {
					sep := ","
					if rapid.Bool().Draw(t, "blank") {
						sep = ", "
					}
					f.Validate += sep + second
				}
			}
		}
	}
}

// validatedElem draws a small type that carries validators: a catalogue type,
// a pointer to one, or a struct with one or two taggable fields.
func validatedElem(t *rapid.T) *gen.TD {
	switch rapid.IntRange(0, 5).Draw(t, "velem") {
	case 0, 1, 2:
		return &gen.TD{Kind: rapid.SampledFrom(catKinds).Draw(t, "catk")}
	case 3:
		return &gen.TD{Kind: "ptr", Elem: &gen.TD{Kind: rapid.SampledFrom(catKinds).Draw(t, "catk")}}
	}
	st := &gen.TD{Kind: "struct"}
	n := rapid.IntRange(1, 2).Draw(t, "nf")
	for i := 0; i < n; i++ {
		k := rapid.SampledFrom([]string{"int", "int8", "uint16", "float64", "string", "dur", "named:int"}).Draw(t, "ek")
		ft := &gen.TD{Kind: k}
		if rapid.IntRange(0, 3).Draw(t, "eptr") == 0 {
			ft = &gen.TD{Kind: "ptr", Elem: ft}
		}
		st.Fields = append(st.Fields, gen.FD{Name: fmt.Sprintf("F%d", i), Tag: fmt.Sprintf("e%d", i), T: ft})
	}
	if rapid.IntRange(0, 3).Draw(t, "sptr") == 0 {
		return &gen.TD{Kind: "ptr", Elem: st}
	}
	return st
}

// enrich replaces the primitive element type of some collections by a type
// that carries validators, so that validators inside collections are common.
func enrich(t *rapid.T, td *gen.TD) {
	switch td.Kind {
	case "ptr":
		enrich(t, td.Elem)
	case "slice", "array", "map":
		if td.Elem.IsLeaf() && rapid.IntRange(0, 1).Draw(t, "enrich") == 0 {
			td.Elem = validatedElem(t)
			return
		}
		enrich(t, td.Elem)
	case "struct":
		for i := range td.Fields {
			enrich(t, td.Fields[i].T)
		}
	}
}

// ---------------------------------------------------------------------------
// the configuration: a tree built from the type, mentioning a subset of fields

type cfgGen struct {
	t      *rapid.T
	varexp bool
	refs   []*gen.Tree
}

// deliver returns the setting itself or, with VarExp, sometimes a reference
// to a top-level setting rN that holds it.
func (g *cfgGen) deliver(n *gen.Tree) *gen.Tree {
	if !g.varexp || n.K == "nil" || rapid.IntRange(0, 4).Draw(g.t, "ref") != 0 {
		return n
	}
	name := fmt.Sprintf("r%d", len(g.refs))
	g.refs = append(g.refs, n)
	return gen.Str("${" + name + "}")
}

var (
	cfgInts    = []int64{0, 1, -1, 2, 5, 42, 100, -5, 13, 101}
	cfgUints   = []uint64{0, 1, 2, 5, 42, 100, 43}
	cfgFloats  = []float64{0, 1, 1.5, -2.25, 42, 100.5, -0.5}
	cfgStrings = []string{"", "a", "x y", "bad", "0", "a.b"}
	cfgDurs    = []string{"0s", "1s", "500ms", "-1s", "2h", "10ns", "1500ms", "3h"}
	cfgRegexps = []string{"", "a.*b$", "^[0-9]+"}
	cfgMapKeys = []string{"k", "j", "K", "a b", "n"}
)

func num(i int64) *gen.Tree {
	if i >= 0 {
		return gen.Uint(uint64(i))
	}
	return gen.Int(i)
}

func (g *cfgGen) leaf(td *gen.TD) *gen.Tree {
	t := g.t
	asString := rapid.IntRange(0, 9).Draw(t, "asstr") == 0
	switch b := td.Shape().Base(); {
	case b == "bool":
		return gen.Bool(rapid.Bool().Draw(t, "b"))
	case b == "dur":
		if rapid.IntRange(0, 2).Draw(t, "dnum") == 0 {
			return num(rapid.SampledFrom([]int64{0, 1, 2, -1, 10}).Draw(t, "dsec"))
		}
		return gen.Str(rapid.SampledFrom(cfgDurs).Draw(t, "d"))
	case strings.HasPrefix(b, "int"):
		i := rapid.SampledFrom(cfgInts).Draw(t, "i")
		if asString {
			return gen.Str(fmt.Sprint(i))
		}
		return num(i)
	case strings.HasPrefix(b, "uint"):
		u := rapid.SampledFrom(cfgUints).Draw(t, "u")
		if asString {
			return gen.Str(fmt.Sprint(u))
		}
		return gen.Uint(u)
	case strings.HasPrefix(b, "float"):
		f := rapid.SampledFrom(cfgFloats).Draw(t, "f")
		if f == float64(int64(f)) && rapid.Bool().Draw(t, "fint") {
			return num(int64(f))
		}
		return gen.Float(f)
	case b == "string":
		return gen.Str(rapid.SampledFrom(cfgStrings).Draw(t, "s"))
	case b == "regexp":
		return gen.Str(rapid.SampledFrom(cfgRegexps).Draw(t, "re"))
	}
	panic("c04: no setting for leaf kind " + td.Kind)
}

// value draws a setting for a value of type td.
func (g *cfgGen) value(td *gen.TD) *gen.Tree {
	t := g.t
	sh := td.Shape()
	if sh.IsLeaf() {
		return g.deliver(g.leaf(td))
	}
	switch sh.Kind {
	case "ptr":
		return g.value(sh.Elem)
	case "slice":
		if sh.Elem.Shape().IsLeaf() && rapid.IntRange(0, 9).Draw(t, "single") == 0 {
			return g.deliver(g.leaf(sh.Elem)) // a primitive is a list of length one
		}
		l := gen.List()
		n := rapid.IntRange(0, 3).Draw(t, "len")
		for i := 0; i < n; i++ {
			l.Vals = append(l.Vals, g.value(sh.Elem))
		}
		return g.deliver(l)
	case "array":
		l := gen.List()
		for i := 0; i < sh.N; i++ {
			l.Vals = append(l.Vals, g.value(sh.Elem))
		}
		return g.deliver(l)
	case "map":
		o := gen.Obj()
		n := rapid.IntRange(0, 2).Draw(t, "nkeys")
		for i := 0; i < n; i++ {
			k := rapid.SampledFrom(cfgMapKeys).Draw(t, "key")
			if o.Get(k) == nil {
				o.Put(k, g.value(sh.Elem))
			}
		}
		return g.deliver(o)
	case "struct":
		o := gen.Obj()
		g.fields(sh, o)
		return g.deliver(o)
	}
	panic("c04: no setting for kind " + sh.Kind)
}

// fields mentions a random subset of the struct's fields in o.
func (g *cfgGen) fields(sh *gen.TD, o *gen.Tree) {
	t := g.t
	for i := range sh.Fields {
		f := &sh.Fields[i]
		if f.Ignore || f.Unexp {
			continue
		}
		if f.Inline {
			g.fields(f.T.Shape(), o)
			continue
		}
		switch rapid.IntRange(0, 11).Draw(t, "mention") {
		case 0, 1, 2, 3, 4:
			// absent
		case 5:
			o.Put(f.ConfigName(), gen.Nil()) // a nil setting counts as not mentioned
		default:
			o.Put(f.ConfigName(), g.value(f.T))
		}
	}
}

// ---------------------------------------------------------------------------

func tdCfg() *gen.TDCfg {
	return &gen.TDCfg{
		MaxFields: runlog.Pick(4, 5), Named: true, Inline: true, EmptyTag: true,
		PtrToArray: true, Cats: catKinds,
	}
}

func genCase(t *rapid.T) Case {
	c := Case{VarExp: rapid.IntRange(0, 2).Draw(t, "varexp") == 0}
	if rapid.IntRange(0, 2).Draw(t, "haspolicy") == 0 {
		c.Policy = rapid.IntRange(1, 3).Draw(t, "policy")
	}
	cfg := tdCfg()
	c.T = gen.GenStructTD(t, cfg, runlog.Pick(3, 4))
	enrich(t, c.T)
	assignTags(t, c.T, 2)
	if !hasValidators(c.T) {
		assignTags(t, c.T, 0)
	}
	if !hasValidators(c.T) {
		// nothing in the type can carry a validator (booleans only): add a field that can
		f := gen.FD{Name: "FV", Tag: "fv", T: validatedElem(t)}
		c.T.Fields = append(c.T.Fields, f)
		assignTags(t, c.T, 0)
	}
	if rapid.IntRange(0, 5).Draw(t, "zero") != 0 {
		c.Pre = gen.GenTV(t, cfg, c.T, false)
	}
	g := &cfgGen{t: t, varexp: c.VarExp}
	c.Cfg = gen.Obj()
	g.fields(c.T, c.Cfg)
	for i, r := range g.refs {
		c.Cfg.Put(fmt.Sprintf("r%d", i), r)
	}
	return c
}
