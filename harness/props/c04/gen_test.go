package c04

import (
	"fmt"
	"strings"

	"pgregory.net/rapid"

	"verif/harness/internal/gen"
	"verif/harness/internal/runlog"
)

// ---------------------------------------------------------------------------
// validate tags: only where the documentation defines them

func stripPtr(td *gen.TD) (*gen.TD, int) {
	n := 0
	for td.Kind == "ptr" {
		td = td.Elem
		n++
	}
	return td, n
}

// tagCandidates returns the validators the documentation defines for a field
// of this type, and whether the type is a collection whose elements are not
// structs (the code then applies the field's tags to elements as well: 6.18).
func tagCandidates(td *gen.TD) (cands []string, numKind string, softColl bool) {
	if td.Kind == "iface" {
		// the documentation defines the validators for values, not for static types: they apply to the value an
		// interface{} field holds (required: a nil interface is not set)
		return []string{"required", "nonzero", "positive", "min", "max", "nonzero"}, "iface", false
	}
	base, nptr := stripPtr(td)
	sh := base.Shape()
	if sh.IsLeaf() {
		switch b := sh.Base(); {
		case b == "dur":
			return []string{"required", "nonzero", "positive", "min", "max", "min", "max"}, "dur", false
		case strings.HasPrefix(b, "int"):
			return []string{"required", "nonzero", "positive", "min", "max"}, "int", false
		case strings.HasPrefix(b, "uint"):
			return []string{"required", "nonzero", "min", "max", "min", "max", "positive"}, "uint", false
		case strings.HasPrefix(b, "float"):
			return []string{"required", "nonzero", "positive", "min", "max"}, "float", false
		case b == "string", b == "regexp":
			return []string{"required", "nonzero"}, "", false
		}
		return nil, "", false // bool: no validator is defined
	}
	switch sh.Kind {
	case "slice", "array", "map":
		return []string{"required", "nonzero"}, "", !isStructish(sh.Elem)
	case "struct":
		if nptr > 0 {
			return []string{"required"}, "", false // "value is set": a nil pointer is not
		}
	}
	return nil, "", false
}

var (
	// incl. bounds next to the limits of the 64-bit kinds and beyond 2^53, where neighbouring integers are not
	// distinguishable as float64; every integer syntax of strconv.ParseInt/ParseUint with base 0, which is what the
	// code reads the parameter with (hexadecimal, octal with and without 'o', binary, digit separators, signs)
	intParams = []string{"0", "1", "2", "42", "100", "-1", "9223372036854775806", "9223372036854775807", "9007199254740992", "-9223372036854775807",
		"0x10", "0X2a", "0o17", "017", "0b101", "1_000", "+5", "-0x10", "-017", "-0", "0x7fffffffffffffff", "-5", "16"}
	uintParams = []string{"0", "1", "2", "42", "100", "18446744073709551614", "9007199254740992", "9223372036854775808",
		"0x10", "0X2a", "0o17", "017", "0b101", "1_000", "0xffffffffffffffff", "16"}
	// every float syntax of strconv.ParseFloat that denotes a finite number
	floatParams = []string{"0", "1", "1.5", "42", "-2.25", "1e2", ".5", "+1.5", "-0.5", "1E-3", "0x1p-1", "-0", "100.5", "-1"}
	// duration bounds: unit syntax (compound, fractional, signed) and plain numbers counting seconds (integral,
	// fractional, negative, exponent form)
	// bounds of interface{} fields: spellings every numeric kind reads (the held value may be signed, unsigned or a float)
	ifaceParams = []string{"0", "1", "2", "5", "42", "100"}
	durParams   = []string{"0", "1s", "10ns", "1500ms", "2h", "-1s", "1", "10", "1.5",
		"0.5", "-0.5", "-1.5", ".25", "1e-3", "2.5", "-2", "-1", "0.000000001", "7200", "1E1",
		"1h30m", "1.5h", "+1s", "-1.5s", "1m0.5s", "1us", "500ms", "0s", "-200ms"}
)

func genTag(t *rapid.T, cands []string, numKind string) string {
	name := rapid.SampledFrom(cands).Draw(t, "vname")
	if name == "required" && len(cands) > 1 && rapid.Bool().Draw(t, "again") {
		// required rejects every zero value: keep it from dominating the rejections
		name = rapid.SampledFrom(cands).Draw(t, "vname2")
	}
	if name != "min" && name != "max" {
		return name
	}
	pool := intParams
	switch numKind {
	case "uint":
		pool = uintParams
	case "float":
		pool = floatParams
	case "dur":
		pool = durParams
	case "iface":
		pool = ifaceParams
	}
	eq := "="
	if rapid.IntRange(0, 7).Draw(t, "eqblank") == 0 {
		eq = rapid.SampledFrom([]string{" = ", "= ", " ="}).Draw(t, "eq") // blanks around name and parameter do not count
	}
	return name + eq + rapid.SampledFrom(pool).Draw(t, "vparam")
}

func tagName(tag string) string { return strings.TrimSpace(strings.SplitN(tag, "=", 2)[0]) }

// assignTags puts validate tags on fields at any depth of the type: on one
// eligible field in odds+1 (collections of non-structs: a third of that;
// inline collection fields and durations: every second one at least).
func assignTags(t *rapid.T, td *gen.TD, odds int) {
	switch td.Kind {
	case "ptr", "slice", "array", "map":
		assignTags(t, td.Elem, odds)
	case "struct":
		for i := range td.Fields {
			f := &td.Fields[i]
			assignTags(t, f.T, odds)
			if f.Ignore || f.Unexp || f.Validate != "" {
				continue
			}
			kind := f.T.Shape().Kind
			if isInline(f) && kind != "slice" && kind != "array" && kind != "map" {
				continue // inline structs: no validator is defined for the struct kind
			}
			if isInline(f) && kind == "map" && open("D55") {
				continue // class of D55: tags of an inline map field are not applied on the configuration path
			}
			if base, _ := stripPtr(f.T); base.Shape().Kind == "slice" && listPolicyOf(f) == "" && rapid.IntRange(0, 5).Draw(t, "ptag") == 0 {
				lp := rapid.SampledFrom([]string{"append", "prepend", "replace"}).Draw(t, "ptagv")
				if f.Policy != "" {
					lp = f.Policy + "," + lp // squash,append
				}
				f.Policy = lp
			}
			cands, numKind, soft := tagCandidates(f.T)
			if len(cands) == 0 {
				continue
			}
			o := odds
			if soft {
				o = 3*odds + 2
			}
			if (isInline(f) || numKind == "dur" || numKind == "iface") && o > 1 {
				o = 1 // every second inline collection, duration and interface{} field
			}
			if numKind == "iface" && open("D61") {
				continue // class of D61: tags of an interface{} field are not applied to values from the configuration
			}
			if rapid.IntRange(0, o).Draw(t, "hasv") != 0 {
				continue
			}
			f.Validate = genTag(t, cands, numKind)
			if rapid.IntRange(0, 3).Draw(t, "second") == 0 {
				if second := genTag(t, cands, numKind); tagName(second) != tagName(f.Validate) {
					sep := ","
					if rapid.Bool().Draw(t, "blank") {
						sep = ", "
					}
					f.Validate += sep + second
				}
			}
		}
	}
}

// ---------------------------------------------------------------------------
// inline fields of every kind the code accepts: struct (drawn by the shared type
// generator), map, slice and array. wrapInline replaces some collection types T
// and some struct types below the top level (field types and element types;
// named catalogue types with Validate / InitDefaults included) by
//
//	struct { C T `config:",inline"` }      (sometimes with a named sibling field)
//
// For the configuration nothing changes: the setting of such a struct is the
// list / object itself. Pointers to collections are not inlined: the code
// rejects a nil one ("require map or struct when inlining").

func inlineCollField(sh *gen.TD) *gen.FD {
	if sh.Kind != "struct" {
		return nil
	}
	for i := range sh.Fields {
		if f := &sh.Fields[i]; isInline(f) {
			switch f.T.Shape().Kind {
			case "slice", "array", "map":
				return f
			}
		}
	}
	return nil
}

func maybeWrap(t *rapid.T, td *gen.TD, ctr *int) *gen.TD {
	sh := td.Shape()
	switch sh.Kind {
	case "slice", "array", "map":
		if rapid.IntRange(0, 3).Draw(t, "wrap") != 0 {
			return td
		}
	case "struct":
		// (this is how catalogue structs with Validate / InitDefaults get inlined: the shared generator inlines
		// method-free structs only)
		if rapid.IntRange(0, 7).Draw(t, "wrapst") != 0 {
			return td
		}
	default:
		return td
	}
	*ctr++
	holder := &gen.TD{Kind: "struct", Fields: []gen.FD{{Name: "C", Inline: true, T: td}}}
	if rapid.IntRange(0, 3).Draw(t, "squash") == 0 {
		holder.Fields[0].Inline, holder.Fields[0].Policy = false, "squash" // the other spelling of the option
	}
	if rapid.IntRange(0, 3).Draw(t, "sibling") == 0 {
		// a named field next to the inline one. Next to an inline map (which takes every key of the namespace) it has
		// the map's element type, so that its setting converts into both
		st := &gen.TD{Kind: rapid.SampledFrom([]string{"int", "string", "dur", "cat:c04_vi", "cat:c04_ds"}).Draw(t, "sibk")}
		switch sh.Kind {
		case "map":
			st = nil
			if sh.Elem.IsLeaf() {
				st = &gen.TD{Kind: sh.Elem.Kind}
			}
		case "struct":
			if inlineCollField(sh) != nil {
				st = nil // (an inline map further in would take the sibling's key)
			}
		}
		if st != nil {
			sib := gen.FD{Name: "S", Tag: fmt.Sprintf("w%d", *ctr), T: st}
			if rapid.Bool().Draw(t, "sibfirst") {
				holder.Fields = append([]gen.FD{sib}, holder.Fields...)
			} else {
				holder.Fields = append(holder.Fields, sib)
			}
		}
	}
	return holder
}

func wrapInline(t *rapid.T, td *gen.TD, ctr *int) {
	switch td.Kind {
	case "ptr", "slice", "array", "map":
		inner := td.Elem
		td.Elem = maybeWrap(t, td.Elem, ctr)
		wrapInline(t, inner, ctr)
	case "struct":
		for i := range td.Fields {
			f := &td.Fields[i]
			inner := f.T
			if !isInline(f) && !f.Ignore && !f.Unexp {
				f.T = maybeWrap(t, f.T, ctr)
			}
			wrapInline(t, inner, ctr)
		}
	}
}

// needsSetting reports whether a value of this type cannot be unpacked from an
// absent setting: a struct that holds (directly, or through struct fields that
// are not pointers) an inline array of non-zero length requires a list of that
// length.
func needsSetting(td *gen.TD) bool {
	sh := td.Shape()
	if sh.Kind != "struct" {
		return false
	}
	for i := range sh.Fields {
		f := &sh.Fields[i]
		if f.Ignore || f.Unexp {
			continue
		}
		if fsh := f.T.Shape(); isInline(f) && fsh.Kind == "array" && fsh.N > 0 {
			return true
		}
		if needsSetting(f.T) {
			return true
		}
	}
	return false
}

// validatedElem draws a small type that carries validators: a catalogue type,
// a pointer to one, or a struct with one or two taggable fields.
func validatedElem(t *rapid.T) *gen.TD {
	switch rapid.IntRange(0, 5).Draw(t, "velem") {
	case 0, 1, 2:
		return &gen.TD{Kind: rapid.SampledFrom(catKinds).Draw(t, "catk")}
	case 3:
		return &gen.TD{Kind: "ptr", Elem: &gen.TD{Kind: rapid.SampledFrom(catKinds).Draw(t, "catk")}}
	}
	st := &gen.TD{Kind: "struct"}
	n := rapid.IntRange(1, 2).Draw(t, "nf")
	for i := 0; i < n; i++ {
		k := rapid.SampledFrom([]string{"int", "int8", "uint16", "float64", "string", "dur", "named:int"}).Draw(t, "ek")
		ft := &gen.TD{Kind: k}
		if rapid.IntRange(0, 3).Draw(t, "eptr") == 0 {
			ft = &gen.TD{Kind: "ptr", Elem: ft}
		}
		st.Fields = append(st.Fields, gen.FD{Name: fmt.Sprintf("F%d", i), Tag: fmt.Sprintf("e%d", i), T: ft})
	}
	if rapid.IntRange(0, 3).Draw(t, "sptr") == 0 {
		return &gen.TD{Kind: "ptr", Elem: st}
	}
	return st
}

// enrich replaces the primitive element type of some collections by a type
// that carries validators, so that validators inside collections are common.
func enrich(t *rapid.T, td *gen.TD) {
	switch td.Kind {
	case "ptr":
		enrich(t, td.Elem)
	case "slice", "array", "map":
		if td.Elem.IsLeaf() && rapid.IntRange(0, 1).Draw(t, "enrich") == 0 {
			td.Elem = validatedElem(t)
			return
		}
		enrich(t, td.Elem)
	case "struct":
		for i := range td.Fields {
			enrich(t, td.Fields[i].T)
		}
	}
}

// ---------------------------------------------------------------------------
// the configuration: a tree built from the type, mentioning a subset of fields

type cfgGen struct {
	t      *rapid.T
	varexp bool
	refs   []*gen.Tree
	dyn    []*gen.TD // dynamic types of the interface-held pre-filled values
}

// deliver returns the setting itself or, with VarExp, sometimes a reference
// to a top-level setting rN that holds it.
func (g *cfgGen) deliver(n *gen.Tree) *gen.Tree {
	if !g.varexp || n.K == "nil" || rapid.IntRange(0, 4).Draw(g.t, "ref") != 0 {
		return n
	}
	name := fmt.Sprintf("r%d", len(g.refs))
	g.refs = append(g.refs, n)
	return gen.Str("${" + name + "}")
}

var (
	// values on both sides of (and on) every bound of the parameter pools
	cfgInts    = []int64{0, 1, -1, 2, 5, 42, 100, -5, 13, 101, 4, 6, 14, 15, 16, 17, 41, 43, -4, -6, -14, -15, -16, -17, 999, 1000, 1001}
	cfgUints   = []uint64{0, 1, 2, 5, 42, 100, 43, 4, 6, 14, 15, 16, 17, 41, 999, 1000, 1001}
	cfgFloats  = []float64{0, 1, 1.5, -2.25, 42, 100.5, -0.5, 0.5, 0.25, 0.75, 0.001, 0.002, 100, 101, -1, -0.75}
	cfgStrings = []string{"", "a", "x y", "bad", "0", "a.b"}
	cfgDurs    = []string{"0s", "1s", "500ms", "-1s", "2h", "10ns", "1500ms", "3h", "-200ms", "-500ms", "250ms", "499ms", "501ms", "999ms", "1001ms", "90m", "89m", "1.5h", "1ms", "2ms", "1us", "1ns", "-1500ms", "-1501ms", "-2s", "-700ms", "2500ms", "60500ms", "9s", "11s"}
	cfgDurNums = []float64{0, 1, 2, -1, 10, -2, 3, 7200, 0.5, 0.25, 1.5, 2.5, -0.5, -1.5, 0.75, -0.25}
	cfgRegexps = []string{"", "a.*b$", "^[0-9]+"}
	cfgMapKeys = []string{"k", "j", "K", "a b", "n"}
	// the keys the InitDefaults methods of the catalogue insert
	cfgDefaultKeys = []string{"dflt", "ok"}
)

func num(i int64) *gen.Tree {
	if i >= 0 {
		return gen.Uint(uint64(i))
	}
	return gen.Int(i)
}

func (g *cfgGen) leaf(td *gen.TD) *gen.Tree {
	t := g.t
	asString := rapid.IntRange(0, 9).Draw(t, "asstr") == 0
	switch b := td.Shape().Base(); {
	case b == "bool":
		return gen.Bool(rapid.Bool().Draw(t, "b"))
	case b == "dur":
		if rapid.IntRange(0, 2).Draw(t, "dnum") == 0 {
			// a number of seconds, integral or fractional
			f := rapid.SampledFrom(cfgDurNums).Draw(t, "dsec")
			if f == float64(int64(f)) {
				return num(int64(f))
			}
			return gen.Float(f)
		}
		return gen.Str(rapid.SampledFrom(cfgDurs).Draw(t, "d"))
	case strings.HasPrefix(b, "int"):
		i := rapid.SampledFrom(cfgInts).Draw(t, "i")
		if asString {
			return gen.Str(fmt.Sprint(i))
		}
		return num(i)
	case strings.HasPrefix(b, "uint"):
		u := rapid.SampledFrom(cfgUints).Draw(t, "u")
		if asString {
			return gen.Str(fmt.Sprint(u))
		}
		return gen.Uint(u)
	case strings.HasPrefix(b, "float"):
		f := rapid.SampledFrom(cfgFloats).Draw(t, "f")
		if f == float64(int64(f)) && rapid.Bool().Draw(t, "fint") {
			return num(int64(f))
		}
		return gen.Float(f)
	case b == "string":
		return gen.Str(rapid.SampledFrom(cfgStrings).Draw(t, "s"))
	case b == "regexp":
		return gen.Str(rapid.SampledFrom(cfgRegexps).Draw(t, "re"))
	}
	panic("c04: no setting for leaf kind " + td.Kind)
}

// value draws a setting for a value of type td; tv is the pre-filled value at
// that position (nil: none), which decides the settings of interface values.
func (g *cfgGen) value(td *gen.TD, tv *gen.TV) *gen.Tree {
	t := g.t
	sh := td.Shape()
	if sh.IsLeaf() {
		return g.deliver(g.leaf(td))
	}
	switch sh.Kind {
	case "iface":
		return g.ifaceSetting(tv)
	case "ptr":
		return g.value(sh.Elem, elemTV(tv, 0))
	case "slice", "array":
		return g.list(sh, true, tv)
	case "map":
		o := gen.Obj()
		g.entries(sh, o, tv)
		return g.deliver(o)
	case "struct":
		if f := inlineCollField(sh); f != nil {
			// the setting of a struct with an inline list is the list itself (named fields then stay unmentioned);
			// an object mentions its named fields and leaves the list empty, which an inline array does not accept
			if fsh := f.T.Shape(); fsh.Kind != "map" {
				named := false
				var ftv *gen.TV
				for i := range sh.Fields {
					if x := &sh.Fields[i]; !isInline(x) && !x.Ignore && !x.Unexp && needsSetting(x.T) {
						named = true
					}
					if &sh.Fields[i] == f {
						ftv = elemTV(tv, i)
					}
				}
				if !named && ((fsh.Kind == "array" && fsh.N > 0) || rapid.IntRange(0, 5).Draw(t, "aslist") != 0) {
					return g.list(fsh, false, ftv)
				}
			}
		}
		o := gen.Obj()
		g.fields(sh, o, tv)
		return g.deliver(o)
	}
	panic("c04: no setting for kind " + sh.Kind)
}

// list draws a list setting for a slice or array type (single: a primitive
// may stand for a list of length one).
func (g *cfgGen) list(sh *gen.TD, single bool, tv *gen.TV) *gen.Tree {
	t := g.t
	l := gen.List()
	if sh.Kind == "array" {
		for i := 0; i < sh.N; i++ {
			l.Vals = append(l.Vals, g.elem(sh.Elem, elemTV(tv, i)))
		}
		return g.deliver(l)
	}
	if single && sh.Elem.Shape().IsLeaf() && rapid.IntRange(0, 9).Draw(t, "single") == 0 {
		return g.deliver(g.leaf(sh.Elem)) // a primitive is a list of length one
	}
	n := rapid.IntRange(0, 3).Draw(t, "len")
	for i := 0; i < n; i++ {
		l.Vals = append(l.Vals, g.elem(sh.Elem, elemTV(tv, i)))
	}
	return g.deliver(l)
}

// elem draws the setting of an element of a list or array or of an entry of a
// map: one in eight is an explicit null, which stands for the zero value of
// the element type (or what InitDefaults makes of it).
func (g *cfgGen) elem(td *gen.TD, tv *gen.TV) *gen.Tree {
	if rapid.IntRange(0, 7).Draw(g.t, "nullelem") == 7 {
		return gen.Nil()
	}
	return g.value(td, tv)
}

// entries adds settings for up to two keys of a map type to o: other keys than
// the pre-filled / InitDefaults ones as a rule, sometimes the very keys the
// catalogue's InitDefaults methods insert.
func (g *cfgGen) entries(sh *gen.TD, o *gen.Tree, tv *gen.TV) {
	t := g.t
	n := rapid.IntRange(0, 2).Draw(t, "nkeys")
	for i := 0; i < n; i++ {
		pool := cfgMapKeys
		if rapid.IntRange(0, 3).Draw(t, "dkey") == 0 {
			pool = cfgDefaultKeys
		}
		k := rapid.SampledFrom(pool).Draw(t, "key")
		if o.Get(k) == nil {
			o.Put(k, g.elem(sh.Elem, entryTV(tv, k)))
		}
	}
}

// fields mentions a random subset of the struct's fields in o.
func (g *cfgGen) fields(sh *gen.TD, o *gen.Tree, tv *gen.TV) {
	t := g.t
	for i := range sh.Fields {
		f := &sh.Fields[i]
		if f.Ignore || f.Unexp {
			continue
		}
		if isInline(f) {
			switch fsh := f.T.Shape(); fsh.Kind {
			case "struct":
				g.fields(fsh, o, elemTV(tv, i))
			case "map":
				g.entries(fsh, o, elemTV(tv, i)) // an inline map takes the keys of the enclosing namespace
			}
			// (named entries are not unpacked into an inline list)
			continue
		}
		m := rapid.IntRange(0, 11).Draw(t, "mention")
		if needsSetting(f.T) {
			m = 11
		}
		switch m {
		case 0, 1, 2, 3, 4:
			// absent
		case 5:
			o.Put(f.ConfigName(), gen.Nil()) // a nil setting counts as not mentioned
		default:
			o.Put(f.ConfigName(), g.value(f.T, elemTV(tv, i)))
		}
	}
}

// ---------------------------------------------------------------------------

func tdCfg() *gen.TDCfg {
	return &gen.TDCfg{
		MaxFields: runlog.Pick(4, 5), Named: true, Inline: true, EmptyTag: true,
		PtrToArray: true, Cats: catKinds,
	}
}

func genCase(t *rapid.T) Case { return genCaseWith(t, nil) }

// genCaseWith draws a case; share (if given) runs after the type and a pre-filled value (never the zero value then)
// are drawn and before the configuration is written: it may add fields and store objects of the pre-filled value at
// further places (alias_test.go).
func genCaseWith(t *rapid.T, share func(*rapid.T, *Case, *gen.TDCfg)) Case {
	c := Case{VarExp: rapid.IntRange(0, 2).Draw(t, "varexp") == 0}
	if rapid.IntRange(0, 2).Draw(t, "haspolicy") == 0 {
		c.Policy = rapid.IntRange(1, 4).Draw(t, "policy")
	}
	cfg := tdCfg()
	if rapid.IntRange(0, 11).Draw(t, "toplevel") == 0 {
		return genCollTarget(t, c, cfg, share)
	}
	c.T = gen.GenStructTD(t, cfg, runlog.Pick(3, 4))
	enrich(t, c.T)
	// values reached through an interface: in 1 case of 3 some fields and collection elements are of type interface{}
	ifaces := rapid.IntRange(0, 2).Draw(t, "ifaces") == 0
	if ifaces {
		n := 0
		addIfaces(t, c.T, &n)
		if n == 0 {
			c.T.Fields = append(c.T.Fields, gen.FD{Name: "FI", Tag: "fi", T: ifaceType(t)})
		}
	}
	ctr := 1000
	wrapInline(t, c.T, &ctr)
	assignTags(t, c.T, 2)
	if !hasValidators(c.T) {
		assignTags(t, c.T, 0)
	}
	if !hasValidators(c.T) {
		// nothing in the type can carry a validator (booleans only): add a field that can
		f := gen.FD{Name: "FV", Tag: "fv", T: validatedElem(t)}
		c.T.Fields = append(c.T.Fields, f)
		assignTags(t, c.T, 0)
	}
	if share != nil || rapid.IntRange(0, 5).Draw(t, "zero") != 0 || (ifaces && rapid.Bool().Draw(t, "ifzero")) {
		c.Pre = gen.GenTV(t, cfg, c.T, false)
		if ifaces {
			c.typedIfaces(t, cfg, c.T, c.Pre, 2)
		}
	}
	if share != nil {
		share(t, &c, cfg)
	}
	g := &cfgGen{t: t, varexp: c.VarExp, dyn: c.Dyn}
	c.Cfg = gen.Obj()
	g.fields(c.T, c.Cfg, c.Pre)
	for i, r := range g.refs {
		c.Cfg.Put(fmt.Sprintf("r%d", i), r)
	}
	return c
}

// genCollTarget draws a case whose Unpack target is not a struct but a map,
// slice or array (plain, or a catalogue type with Validate / InitDefaults) of
// elements that carry validators: the configuration itself is the object /
// list. (No references: the settings rN would be entries of the target.)
func genCollTarget(t *rapid.T, c Case, cfg *gen.TDCfg, share func(*rapid.T, *Case, *gen.TDCfg)) Case {
	c.VarExp = false
	switch rapid.IntRange(0, 8).Draw(t, "topkind") {
	case 6, 7:
		// generic targets pre-filled with typed values
		c.T = &gen.TD{Kind: rapid.SampledFrom([]string{"map", "map", "slice"}).Draw(t, "topif"), Elem: &gen.TD{Kind: "iface"}}
	case 8:
		c.T = &gen.TD{Kind: rapid.SampledFrom([]string{"map", "slice", "array"}).Draw(t, "topifc"), Elem: ifaceType(t)}
		if c.T.Kind == "array" {
			c.T.N = rapid.IntRange(1, 2).Draw(t, "n")
		}
	case 0, 1:
		c.T = &gen.TD{Kind: "map", Elem: validatedElem(t)}
	case 2:
		c.T = &gen.TD{Kind: "slice", Elem: validatedElem(t)}
	case 3:
		c.T = &gen.TD{Kind: "array", N: rapid.IntRange(1, 3).Draw(t, "n"), Elem: validatedElem(t)}
	default:
		c.T = &gen.TD{Kind: rapid.SampledFrom([]string{"cat:c04_dm", "cat:c04_mi", "cat:c04_ms", "cat:c04_mp", "cat:c04_vl", "cat:c04_nm", "cat:c04_nl", "cat:c04_qm", "cat:c04_ql"}).Draw(t, "topcat")}
	}
	ctr := 1000
	wrapInline(t, c.T, &ctr)
	assignTags(t, c.T, 1)
	if share != nil || rapid.IntRange(0, 3).Draw(t, "zero") != 0 || hasIface(c.T) {
		c.Pre = gen.GenTV(t, cfg, c.T, false)
		c.typedIfaces(t, cfg, c.T, c.Pre, 2)
	}
	if share != nil {
		share(t, &c, cfg)
	}
	g := &cfgGen{t: t, dyn: c.Dyn}
	sh := c.T.Shape()
	if sh.Kind == "map" {
		c.Cfg = gen.Obj()
		g.entries(sh, c.Cfg, c.Pre)
	} else {
		c.Cfg = g.list(sh, false, c.Pre)
	}
	return c
}
