package c04

import (
	"errors"
	"reflect"

	"verif/harness/internal/gen"
)

// The fourth part of the catalogue: Validate() methods that REJECT THE EMPTY
// COLLECTION. For the other collection types of the catalogue the empty value
// is valid, so that it does not matter whether Validate() is called on a
// collection nobody filled. Here it does: a nil slice / nil map, an allocated
// empty one (T{}), and one the configuration sets to [] / {} are three ways
// to reach the same rejected value, and "every reachable value implementing
// Validate() accepts" speaks of all of them - a nil collection is a value of
// its type like any other, its method set included.

// c04NL: named slice, value receiver, must hold an element.
type c04NL []int

func (l c04NL) Validate() error {
	if len(l) == 0 {
		return errors.New("c04NL: at least one element is required")
	}
	for _, v := range l {
		if v < 0 {
			return errors.New("c04NL: elements must not be negative")
		}
	}
	return nil
}

type c04NLTwin []int

// c04NM: named map, value receiver, must hold an entry.
type c04NM map[string]int

func (m c04NM) Validate() error {
	if len(m) == 0 {
		return errors.New("c04NM: at least one entry is required")
	}
	for _, v := range m {
		if v < 0 {
			return errors.New("c04NM: entries must not be negative")
		}
	}
	return nil
}

type c04NMTwin map[string]int

// c04QL: named slice, pointer receiver, must hold an element.
type c04QL []int

func (l *c04QL) Validate() error {
	if len(*l) == 0 {
		return errors.New("c04QL: at least one element is required")
	}
	for _, v := range *l {
		if v < 0 {
			return errors.New("c04QL: elements must not be negative")
		}
	}
	return nil
}

type c04QLTwin []int

// c04QM: named map, pointer receiver, must hold an entry.
type c04QM map[string]int

func (m *c04QM) Validate() error {
	if len(*m) == 0 {
		return errors.New("c04QM: at least one entry is required")
	}
	for _, v := range *m {
		if v < 0 {
			return errors.New("c04QM: entries must not be negative")
		}
	}
	return nil
}

type c04QMTwin map[string]int

// c04NE, c04QE: plain structs (no methods) holding such collections: as an
// element of a pre-filled list or map they carry a nil collection to places
// the configuration does not mention.
type c04NE struct {
	H c04NL `config:"h"`
	N int   `config:"n"`
}

type c04NETwin struct {
	H c04NLTwin `config:"h"`
	N int       `config:"n"`
}

type c04QE struct {
	M c04QM `config:"m"`
	N int   `config:"n"`
}

type c04QETwin struct {
	M c04QMTwin `config:"m"`
	N int       `config:"n"`
}

// c04NP: the collection behind a pointer that InitDefaults installs - pointing
// to a nil slice.
type c04NP struct {
	P *c04NL `config:"p"`
	N int    `config:"n"`
}

func (d *c04NP) InitDefaults() { d.P = new(c04NL) }

type c04NPTwin struct {
	P *c04NLTwin `config:"p"`
	N int        `config:"n"`
}

func (d *c04NPTwin) InitDefaults() { d.P = new(c04NLTwin) }

// emptyRejecting lists the catalogue kinds whose Validate() rejects the empty collection.
var emptyRejecting = map[string]bool{"cat:c04_nl": true, "cat:c04_nm": true, "cat:c04_ql": true, "cat:c04_qm": true}

func init() {
	nonEmpty := catInfo{valid: func(v reflect.Value) bool { return v.Len() > 0 && noneNegative(v) }}
	intList := func() *gen.TD { return &gen.TD{Kind: "slice", Elem: ptd("int")} }
	intMap := func() *gen.TD { return &gen.TD{Kind: "map", Elem: ptd("int")} }
	register("c04_nl", c04NL{}, c04NLTwin{}, intList(), nonEmpty)
	register("c04_nm", c04NM{}, c04NMTwin{}, intMap(), nonEmpty)
	register("c04_ql", c04QL{}, c04QLTwin{}, intList(), nonEmpty)
	register("c04_qm", c04QM{}, c04QMTwin{}, intMap(), nonEmpty)
	register("c04_ne", c04NE{}, c04NETwin{},
		&gen.TD{Kind: "struct", Fields: []gen.FD{fd("H", "h", "", ptd("cat:c04_nl")), fd("N", "n", "", ptd("int"))}},
		catInfo{})
	register("c04_qe", c04QE{}, c04QETwin{},
		&gen.TD{Kind: "struct", Fields: []gen.FD{fd("M", "m", "", ptd("cat:c04_qm")), fd("N", "n", "", ptd("int"))}},
		catInfo{})
	register("c04_np", c04NP{}, c04NPTwin{},
		&gen.TD{Kind: "struct", Fields: []gen.FD{fd("P", "p", "", tdOf("ptr", ptd("cat:c04_nl"))), fd("N", "n", "", ptd("int"))}},
		catInfo{initDefaults: true})
}

// emptyRejectingSources are the grid sources for these types. For each
// collection type there are two: the invalid pre-filled value is the
// allocated empty collection in one and the NIL collection in the other (the
// zero pre-fill state of a placement is nil as well).
func emptyRejectingSources() []vsrc {
	nilTV := func() *gen.TV { return &gen.TV{Nil: true} }
	emptyL := func() *gen.TV { return &gen.TV{Elems: []*gen.TV{}} }
	emptyM := func() *gen.TV { return &gen.TV{Keys: []string{}, Elems: []*gen.TV{}} }
	var out []vsrc
	for _, k := range []struct{ kind, what string }{{"cat:c04_nl", "value receiver"}, {"cat:c04_ql", "pointer receiver"}} {
		out = append(out,
			vsrc{"Validate (" + k.what + ") rejecting the empty list, invalid pre-filled value allocated empty", ptd(k.kind), tvS(tvI(1)), emptyL(), gen.List(num(1)), gen.List()},
			vsrc{"Validate (" + k.what + ") rejecting the empty list, invalid pre-filled value nil", ptd(k.kind), tvS(tvI(1)), nilTV(), gen.List(num(1)), gen.List(num(-5))})
	}
	for _, k := range []struct{ kind, what string }{{"cat:c04_nm", "value receiver"}, {"cat:c04_qm", "pointer receiver"}} {
		out = append(out,
			vsrc{"Validate (" + k.what + ") rejecting the empty map, invalid pre-filled value allocated empty", ptd(k.kind), tvMap("k", tvI(1)), emptyM(), objOf("j", num(1)), gen.Obj()},
			vsrc{"Validate (" + k.what + ") rejecting the empty map, invalid pre-filled value nil", ptd(k.kind), tvMap("k", tvI(1)), nilTV(), objOf("j", num(1)), objOf("j", num(-1))})
	}
	out = append(out,
		vsrc{"struct holding a list whose Validate rejects empty, left nil", ptd("cat:c04_ne"), tvS(tvS(tvI(1)), tvI(0)), tvS(nilTV(), tvI(0)), objOf("h", gen.List(num(1))), objOf("n", num(1))},
		vsrc{"struct holding a list whose Validate rejects empty, allocated empty", ptd("cat:c04_ne"), tvS(tvS(tvI(1)), tvI(0)), tvS(emptyL(), tvI(0)), objOf("h", gen.List(num(1))), objOf("h", gen.List())},
		vsrc{"struct holding a map whose Validate (pointer receiver) rejects empty, left nil", ptd("cat:c04_qe"), tvS(tvMap("k", tvI(1)), tvI(0)), tvS(nilTV(), tvI(0)), objOf("m", objOf("j", num(1))), objOf("n", num(1))},
		vsrc{"struct InitDefaults installs a pointer to a nil list whose Validate rejects empty", ptd("cat:c04_np"), tvS(tvPtr(tvS(tvI(1))), tvI(0)), nil, objOf("p", gen.List(num(1))), objOf("n", num(1))},
	)
	return out
}
