package c04

import (
	"encoding/json"
	"fmt"
	"reflect"
	"regexp"
	"sort"
	"strings"

	"pgregory.net/rapid"

	"verif/harness/internal/gen"
)

// Values reached through an interface. A field of type interface{}, an element
// of []interface{} or an entry of map[string]interface{} may be pre-filled with
// a value of ANY Go type: a catalogue type with Validate(), a struct with
// validate tags, a pointer to one, a typed collection of them, or generic data
// that again holds such values. These values are reachable in the result, so
// the statement covers them.
//
// The shared type descriptor knows the kind "iface" with generic data (a Tree)
// as payload only. A typed payload is written as
//
//	TV{Keys: ["dyn"], U: k, Elems: [v]}        the value v of the type Case.Dyn[k]
//
// which the shared Set leaves alone (the interface stays nil); fill installs
// the typed values afterwards. The twin value gets the twin VALUE of the twin
// type (no Validate, no tags) in the interface.

const dynKey = "dyn"

func dynTV(k int, v *gen.TV) *gen.TV {
	return &gen.TV{Keys: []string{dynKey}, U: uint64(k), Elems: []*gen.TV{v}}
}

func isDynTV(tv *gen.TV) bool {
	return tv != nil && !tv.Nil && len(tv.Keys) == 1 && tv.Keys[0] == dynKey && len(tv.Elems) == 1
}

func elemTV(tv *gen.TV, i int) *gen.TV {
	if tv == nil || tv.Nil || i >= len(tv.Elems) {
		return nil
	}
	return tv.Elems[i]
}

func entryTV(tv *gen.TV, key string) *gen.TV {
	if tv == nil || tv.Nil {
		return nil
	}
	for i, k := range tv.Keys {
		if k == key && i < len(tv.Elems) {
			return tv.Elems[i]
		}
	}
	return nil
}

func hasIface(td *gen.TD) bool {
	if td == nil {
		return false
	}
	if td.Kind == "iface" {
		return true
	}
	for i := range td.Fields {
		if hasIface(td.Fields[i].T) {
			return true
		}
	}
	return hasIface(td.Elem)
}

// newValue builds a pointer to the pre-filled value of the real type or of the
// twin type.
func (c *Case) newValue(twin bool) reflect.Value {
	td := c.T
	if twin {
		td = twinOf(td)
	}
	p := td.New(c.Pre)
	if len(c.Dyn) > 0 {
		c.fill(td, p.Elem(), c.Pre, twin)
	}
	if len(c.Alias) > 0 {
		// (runCase has checked that the value takes every link)
		_ = applyAlias(p.Elem(), c.Alias)
	}
	return p
}

// fill installs the typed interface payloads of tv in v (settable, of type td).
func (c *Case) fill(td *gen.TD, v reflect.Value, tv *gen.TV, twin bool) {
	if tv == nil || tv.Nil {
		return
	}
	sh := td.Shape()
	switch sh.Kind {
	case "iface":
		if !isDynTV(tv) || int(tv.U) >= len(c.Dyn) {
			return
		}
		dt := c.Dyn[tv.U]
		if twin {
			dt = twinOf(dt)
		}
		pv := dt.New(tv.Elems[0])
		c.fill(dt, pv.Elem(), tv.Elems[0], twin)
		v.Set(pv.Elem())
	case "ptr":
		if !v.IsNil() {
			c.fill(sh.Elem, v.Elem(), elemTV(tv, 0), twin)
		}
	case "slice", "array":
		for i := 0; i < v.Len(); i++ {
			c.fill(sh.Elem, v.Index(i), elemTV(tv, i), twin)
		}
	case "map":
		if v.IsNil() || !hasIface(sh.Elem) {
			return
		}
		for i, k := range tv.Keys {
			key := reflect.ValueOf(k).Convert(v.Type().Key())
			old := v.MapIndex(key)
			if !old.IsValid() {
				continue
			}
			e := reflect.New(v.Type().Elem()).Elem()
			e.Set(old)
			c.fill(sh.Elem, e, elemTV(tv, i), twin)
			v.SetMapIndex(key, e)
		}
	case "struct":
		for i := range sh.Fields {
			if sh.Fields[i].Unexp {
				continue
			}
			c.fill(sh.Fields[i].T, v.Field(i), elemTV(tv, i), twin)
		}
	}
}

// ---------------------------------------------------------------------------
// from the dynamic Go type of an interface-held value back to its descriptor

type dynReg map[reflect.Type]*gen.TD

func tdJSON(td *gen.TD) string {
	b, _ := json.Marshal(td)
	return string(b)
}

// registry maps the real and the twin Go type of every dynamic type of the
// case to its (real) descriptor. ok is false if two different descriptors
// share a Go type (the walk over a value could not tell which validators
// apply); the generator keeps struct types apart by unique field names.
func (c *Case) registry() (reg dynReg, ok bool) {
	if len(c.Dyn) == 0 {
		return nil, true
	}
	reg = dynReg{}
	ok = true
	for _, d := range c.Dyn {
		// (the code may store the pointee where the pre-filled interface held a nil pointer: a map built for a nil
		// *map[string]T is stored as a map, so the types behind the pointers are known as well)
		for ; ; d = d.Elem {
			for _, t := range []reflect.Type{d.Type(), twinOf(d).Type()} {
				if prev := reg[t]; prev != nil && prev != d && tdJSON(prev) != tdJSON(d) {
					ok = false
				}
				reg[t] = d
			}
			if d.Kind != "ptr" {
				break
			}
		}
	}
	return reg, ok
}

var (
	genericMapTD  = &gen.TD{Kind: "map", Elem: &gen.TD{Kind: "iface"}}
	genericListTD = &gen.TD{Kind: "slice", Elem: &gen.TD{Kind: "iface"}}
	genericMapT   = reflect.TypeOf(map[string]interface{}(nil))
	genericListT  = reflect.TypeOf([]interface{}(nil))
	genericPrims  = map[reflect.Type]*gen.TD{
		reflect.TypeOf(false): {Kind: "bool"}, reflect.TypeOf(int64(0)): {Kind: "int64"}, reflect.TypeOf(uint64(0)): {Kind: "uint64"},
		reflect.TypeOf(float64(0)): {Kind: "float64"}, reflect.TypeOf(""): {Kind: "string"},
	}
)

// dynTD describes the value an interface holds: a dynamic type of the case, or
// generic data (which may hold typed values again). nil: a type without
// validators the walk need not enter (generic primitives: prims set).
func (w *walker) dynTD(t reflect.Type, prims bool) *gen.TD {
	if td := w.dyn[t]; td != nil {
		return td
	}
	switch t {
	case genericMapT:
		return genericMapTD
	case genericListT:
		return genericListTD
	}
	if prims {
		return genericPrims[t]
	}
	return nil
}

// ---------------------------------------------------------------------------
// generator

// addIfaces turns some fields of the struct types (at any depth) into
// interface{}, []interface{}, map[string]interface{} or [N]interface{} fields
// and some collections of primitives into collections of interface{}.
func addIfaces(t *rapid.T, td *gen.TD, n *int) {
	switch td.Kind {
	case "ptr":
		addIfaces(t, td.Elem, n)
	case "slice", "array", "map":
		if td.Elem.IsLeaf() && rapid.IntRange(0, 3).Draw(t, "ifelem") == 0 {
			td.Elem = &gen.TD{Kind: "iface"}
			*n++
			return
		}
		addIfaces(t, td.Elem, n)
	case "struct":
		for i := range td.Fields {
			f := &td.Fields[i]
			if isInline(f) || f.Ignore || f.Unexp || rapid.IntRange(0, 3).Draw(t, "iffield") != 0 {
				addIfaces(t, f.T, n)
				continue
			}
			f.T = ifaceType(t)
			f.Policy = ""
			*n++
		}
	}
}

func ifaceType(t *rapid.T) *gen.TD {
	i := &gen.TD{Kind: "iface"}
	switch rapid.IntRange(0, 9).Draw(t, "ifkind") {
	case 0, 1:
		return &gen.TD{Kind: "slice", Elem: i}
	case 2, 3:
		return &gen.TD{Kind: "map", Elem: i}
	case 4:
		return &gen.TD{Kind: "array", N: rapid.IntRange(1, 2).Draw(t, "ifn"), Elem: i}
	case 5:
		return &gen.TD{Kind: "map", Elem: &gen.TD{Kind: "slice", Elem: i}}
	}
	return i
}

// dynStruct draws a struct type with one or two tagged fields. The field names
// carry the number of the dynamic type, which keeps the Go types (and their
// twins) of different descriptors apart.
func dynStruct(t *rapid.T, k int, withIface bool) *gen.TD {
	st := &gen.TD{Kind: "struct"}
	n := rapid.IntRange(1, 2).Draw(t, "dnf")
	for i := 0; i < n; i++ {
		kind := rapid.SampledFrom([]string{"int", "int8", "uint16", "float64", "string", "dur", "named:int", "int", "cat:c04_vi", "cat:c04_vs"}).Draw(t, "dk")
		ft := &gen.TD{Kind: kind}
		if rapid.IntRange(0, 3).Draw(t, "dptr") == 0 {
			ft = &gen.TD{Kind: "ptr", Elem: ft}
		}
		st.Fields = append(st.Fields, gen.FD{Name: fmt.Sprintf("D%dF%d", k, i), Tag: fmt.Sprintf("d%de%d", k, i), T: ft})
	}
	if withIface {
		st.Fields = append(st.Fields, gen.FD{Name: fmt.Sprintf("D%dJ", k), Tag: fmt.Sprintf("d%dj", k), T: ifaceType(t)})
	}
	assignTags(t, st, 0)
	return st
}

// drawDyn draws the dynamic type of an interface-held value (sometimes one
// used before) and returns its number.
func (c *Case) drawDyn(t *rapid.T, depth int) int {
	if len(c.Dyn) > 0 && rapid.IntRange(0, 2).Draw(t, "dynagain") == 0 {
		return rapid.IntRange(0, len(c.Dyn)-1).Draw(t, "dynk")
	}
	k := len(c.Dyn)
	cat := func() *gen.TD { return &gen.TD{Kind: rapid.SampledFrom(catKinds).Draw(t, "dyncat")} }
	elem := func() *gen.TD {
		switch rapid.IntRange(0, 3).Draw(t, "dynelem") {
		case 0:
			return dynStruct(t, k, false)
		case 1:
			return &gen.TD{Kind: "ptr", Elem: cat()}
		}
		return cat()
	}
	var td *gen.TD
	max := 13
	if depth <= 0 {
		max = 11
	}
	switch rapid.IntRange(0, max).Draw(t, "dynkind") {
	case 0, 1, 2:
		td = cat()
	case 3, 4:
		td = &gen.TD{Kind: "ptr", Elem: cat()}
	case 5:
		td = &gen.TD{Kind: "ptr", Elem: &gen.TD{Kind: "ptr", Elem: cat()}}
	case 6:
		td = dynStruct(t, k, false)
	case 7, 8:
		td = &gen.TD{Kind: "ptr", Elem: dynStruct(t, k, false)}
	case 9:
		td = &gen.TD{Kind: "slice", Elem: elem()}
	case 10:
		td = &gen.TD{Kind: "map", Elem: elem()}
	case 11:
		td = &gen.TD{Kind: "ptr", Elem: &gen.TD{Kind: rapid.SampledFrom([]string{"slice", "map"}).Draw(t, "dynpc"), Elem: elem()}}
	case 12:
		// generic data holding typed values again
		td = &gen.TD{Kind: rapid.SampledFrom([]string{"slice", "map"}).Draw(t, "dyngc"), Elem: &gen.TD{Kind: "iface"}}
	default:
		// a struct that has an interface field itself
		td = &gen.TD{Kind: "ptr", Elem: dynStruct(t, k, true)}
	}
	c.Dyn = append(c.Dyn, td)
	return k
}

// typedIfaces replaces most of the non-nil generic interface payloads of the
// pre-filled value by typed values.
func (c *Case) typedIfaces(t *rapid.T, cfg *gen.TDCfg, td *gen.TD, tv *gen.TV, depth int) {
	if tv == nil {
		return
	}
	sh := td.Shape()
	if sh.Kind == "iface" {
		if isDynTV(tv) || (tv.Nil && rapid.IntRange(0, 1).Draw(t, "dynnil") == 0) || rapid.IntRange(0, 4).Draw(t, "dyngeneric") == 0 {
			return
		}
		k := c.drawDyn(t, depth)
		dt := c.Dyn[k]
		pv := gen.GenTV(t, cfg, dt, rapid.IntRange(0, 3).Draw(t, "dynnonnil") != 0)
		c.typedIfaces(t, cfg, dt, pv, depth-1)
		*tv = *dynTV(k, pv)
		return
	}
	if tv.Nil {
		return
	}
	switch sh.Kind {
	case "ptr":
		c.typedIfaces(t, cfg, sh.Elem, elemTV(tv, 0), depth)
	case "slice", "array", "map":
		if !hasIface(sh.Elem) {
			return
		}
		for _, e := range tv.Elems {
			c.typedIfaces(t, cfg, sh.Elem, e, depth)
		}
	case "struct":
		for i := range sh.Fields {
			if !sh.Fields[i].Unexp {
				c.typedIfaces(t, cfg, sh.Fields[i].T, elemTV(tv, i), depth)
			}
		}
	}
}

// ifaceSetting draws a setting for an interface position holding tv: one built
// from the dynamic type of the pre-filled value (the code merges the setting
// into that value), or generic data.
func (g *cfgGen) ifaceSetting(tv *gen.TV) *gen.Tree {
	t := g.t
	if isDynTV(tv) && int(tv.U) < len(g.dyn) && rapid.IntRange(0, 7).Draw(t, "ifgeneric") != 0 {
		return g.value(g.dyn[tv.U], tv.Elems[0])
	}
	n := func() *gen.Tree { return num(rapid.SampledFrom(cfgInts).Draw(t, "ifnum")) }
	kind := ""
	if tv != nil && tv.Tree != nil {
		kind = tv.Tree.K
	}
	if kind == "" || rapid.IntRange(0, 3).Draw(t, "ifother") == 0 {
		kind = rapid.SampledFrom([]string{"int", "str", "obj", "list", "bool", "float"}).Draw(t, "ifk")
	}
	switch kind {
	case "obj":
		return g.deliver(gen.Obj().Put(rapid.SampledFrom(cfgMapKeys).Draw(t, "ifkey"), n()))
	case "list":
		return g.deliver(gen.List(n()))
	case "str":
		return g.deliver(gen.Str(rapid.SampledFrom(cfgStrings).Draw(t, "ifs")))
	case "bool":
		return g.deliver(gen.Bool(rapid.Bool().Draw(t, "ifb")))
	case "float":
		return g.deliver(gen.Float(rapid.SampledFrom(cfgFloats).Draw(t, "iff")))
	}
	return g.deliver(n())
}

// ---------------------------------------------------------------------------
// rendering (interfaces are followed; nothing address-dependent is printed)

func showV(v reflect.Value) string {
	var b strings.Builder
	showInto(&b, v, 0)
	return b.String()
}

func showInto(b *strings.Builder, v reflect.Value, depth int) {
	v = gen.Exported(v)
	if depth > 14 {
		b.WriteString("…")
		return
	}
	switch v.Kind() {
	case reflect.Ptr:
		if v.IsNil() {
			b.WriteString("nil")
			return
		}
		if v.Type() == gen.RegexpType {
			fmt.Fprintf(b, "re(%q)", v.Interface().(*regexp.Regexp).String())
			return
		}
		b.WriteString("&")
		showInto(b, v.Elem(), depth+1)
	case reflect.Interface:
		if v.IsNil() {
			b.WriteString("nil")
			return
		}
		fmt.Fprintf(b, "iface<%v>(", v.Elem().Type())
		showInto(b, v.Elem(), depth+1)
		b.WriteString(")")
	case reflect.Slice, reflect.Array:
		if v.Kind() == reflect.Slice && v.IsNil() {
			b.WriteString("nil[]")
			return
		}
		b.WriteString("[")
		for i := 0; i < v.Len(); i++ {
			if i > 0 {
				b.WriteString(" ")
			}
			showInto(b, v.Index(i), depth+1)
		}
		b.WriteString("]")
	case reflect.Map:
		if v.IsNil() {
			b.WriteString("nil{}")
			return
		}
		keys := v.MapKeys()
		sort.Slice(keys, func(i, j int) bool { return fmt.Sprint(keys[i].Interface()) < fmt.Sprint(keys[j].Interface()) })
		b.WriteString("{")
		for i, k := range keys {
			if i > 0 {
				b.WriteString(" ")
			}
			fmt.Fprintf(b, "%q:", fmt.Sprint(k.Interface()))
			e := reflect.New(v.Type().Elem()).Elem()
			e.Set(v.MapIndex(k))
			showInto(b, e, depth+1)
		}
		b.WriteString("}")
	case reflect.Struct:
		b.WriteString("{")
		for i := 0; i < v.NumField(); i++ {
			if i > 0 {
				b.WriteString(" ")
			}
			f := v.Type().Field(i)
			fmt.Fprintf(b, "%s(%s):", f.Name, f.Tag.Get("config"))
			if !v.CanAddr() && f.PkgPath != "" {
				b.WriteString("<unexported>")
				continue
			}
			showInto(b, v.Field(i), depth+1)
		}
		b.WriteString("}")
	case reflect.Float32, reflect.Float64:
		fmt.Fprintf(b, "%v", v.Float())
	case reflect.String:
		fmt.Fprintf(b, "%q", v.String())
	case reflect.Bool:
		fmt.Fprint(b, v.Bool())
	case reflect.Int, reflect.Int8, reflect.Int16, reflect.Int32, reflect.Int64:
		fmt.Fprint(b, v.Int())
	case reflect.Uint, reflect.Uint8, reflect.Uint16, reflect.Uint32, reflect.Uint64, reflect.Uintptr:
		fmt.Fprint(b, v.Uint())
	default:
		fmt.Fprintf(b, "<%s>", v.Kind())
	}
}
