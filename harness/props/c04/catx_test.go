package c04

import (
	"errors"
	"reflect"
	"strings"
	"time"

	"verif/harness/internal/gen"
)

// The second part of the catalogue: Validate() with POINTER and with VALUE
// receiver over every underlying kind a named type can have (int, uint, float,
// string, bool, an int64 derived from time.Duration, slice, array, map, struct), and
// InitDefaults (pointer receiver; a value receiver cannot change a primitive)
// on the primitive kinds, valid and invalid defaults alike. A method declared
// on the pointer receiver is in the method set of *T only, one declared on the
// value receiver in the method sets of T and *T: the statement speaks of "every
// reachable value implementing Validate()", whichever way it implements it and
// wherever it is reached (field, pointee, element of a slice / array / map,
// value held by an interface; read from the configuration or kept from a
// pre-filled default or from InitDefaults).

// ---- pointer-receiver Validate() on named primitives and collections

type c04PI int

func (p *c04PI) Validate() error {
	if *p < 0 {
		return errors.New("c04PI: must not be negative")
	}
	return nil
}

type c04PITwin int

type c04PU uint

func (p *c04PU) Validate() error {
	if *p > 100 {
		return errors.New("c04PU: must not exceed 100")
	}
	return nil
}

type c04PUTwin uint

type c04PF float64

func (p *c04PF) Validate() error {
	if *p < 0 {
		return errors.New("c04PF: must not be negative")
	}
	return nil
}

type c04PFTwin float64

type c04PS string

func (p *c04PS) Validate() error {
	if strings.Contains(string(*p), "a") {
		return errors.New("c04PS: must not contain the letter a")
	}
	return nil
}

type c04PSTwin string

type c04PB bool

func (p *c04PB) Validate() error {
	if *p {
		return errors.New("c04PB: must not be true")
	}
	return nil
}

type c04PBTwin bool

// c04PD is derived from time.Duration: for the library a named int64 (only the
// type time.Duration itself is read from duration syntax).
type c04PD time.Duration

func (p *c04PD) Validate() error {
	if *p < 0 {
		return errors.New("c04PD: must not be negative")
	}
	return nil
}

type c04PDTwin time.Duration

type c04PL []int

func (p *c04PL) Validate() error {
	for _, v := range *p {
		if v < 0 {
			return errors.New("c04PL: elements must not be negative")
		}
	}
	return nil
}

type c04PLTwin []int

type c04PM map[string]int

func (p *c04PM) Validate() error {
	for _, v := range *p {
		if v < 0 {
			return errors.New("c04PM: entries must not be negative")
		}
	}
	return nil
}

type c04PMTwin map[string]int

type c04PA [2]int

func (p *c04PA) Validate() error {
	if p[0] < 0 || p[1] < 0 {
		return errors.New("c04PA: elements must not be negative")
	}
	return nil
}

type c04PATwin [2]int

// ---- value-receiver Validate() on the kinds the first part does not cover

type c04VA [2]int

func (v c04VA) Validate() error {
	if v[0] < 0 || v[1] < 0 {
		return errors.New("c04VA: elements must not be negative")
	}
	return nil
}

type c04VATwin [2]int

type c04VU uint

func (v c04VU) Validate() error {
	if v > 100 {
		return errors.New("c04VU: must not exceed 100")
	}
	return nil
}

type c04VUTwin uint

type c04VF float64

func (v c04VF) Validate() error {
	if v < 0 {
		return errors.New("c04VF: must not be negative")
	}
	return nil
}

type c04VFTwin float64

type c04VT string

func (v c04VT) Validate() error {
	if strings.Contains(string(v), "a") {
		return errors.New("c04VT: must not contain the letter a")
	}
	return nil
}

type c04VTTwin string

type c04VB bool

func (v c04VB) Validate() error {
	if v {
		return errors.New("c04VB: must not be true")
	}
	return nil
}

type c04VBTwin bool

type c04VM map[string]int

func (v c04VM) Validate() error {
	for _, e := range v {
		if e < 0 {
			return errors.New("c04VM: entries must not be negative")
		}
	}
	return nil
}

type c04VMTwin map[string]int

// ---- InitDefaults (pointer receiver) on primitive kinds, with Validate()

// c04IS: the default is rejected by the type's own (pointer-receiver) Validate().
type c04IS string

func (p *c04IS) InitDefaults() { *p = "bad" }
func (p *c04IS) Validate() error {
	if strings.Contains(string(*p), "a") {
		return errors.New("c04IS: must not contain the letter a")
	}
	return nil
}

type c04ISTwin string

func (p *c04ISTwin) InitDefaults() { *p = "bad" }

// c04IU: valid default, value-receiver Validate().
type c04IU uint

func (p *c04IU) InitDefaults() { *p = 7 }
func (p c04IU) Validate() error {
	if p > 100 {
		return errors.New("c04IU: must not exceed 100")
	}
	return nil
}

type c04IUTwin uint

func (p *c04IUTwin) InitDefaults() { *p = 7 }

// c04IF: invalid default, pointer-receiver Validate().
type c04IF float64

func (p *c04IF) InitDefaults() { *p = -1.5 }
func (p *c04IF) Validate() error {
	if *p < 0 {
		return errors.New("c04IF: must not be negative")
	}
	return nil
}

type c04IFTwin float64

func (p *c04IFTwin) InitDefaults() { *p = -1.5 }

// c04IB: invalid default, value-receiver Validate().
type c04IB bool

func (p *c04IB) InitDefaults() { *p = true }
func (p c04IB) Validate() error {
	if p {
		return errors.New("c04IB: must not be true")
	}
	return nil
}

type c04IBTwin bool

func (p *c04IBTwin) InitDefaults() { *p = true }

// c04IP: struct with pointer-receiver InitDefaults (invalid default) and
// pointer-receiver Validate().
type c04IP struct {
	X int    `config:"x"`
	S string `config:"s"`
}

func (p *c04IP) InitDefaults() { p.X = -1 }
func (p *c04IP) Validate() error {
	if p.X < 0 {
		return errors.New("c04IP: x must not be negative")
	}
	return nil
}

type c04IPTwin struct {
	X int    `config:"x"`
	S string `config:"s"`
}

func (p *c04IPTwin) InitDefaults() { p.X = -1 }

// ---- collections of pointer-receiver validators that come from InitDefaults:
// exactly one element is invalid (see the note in cat_test.go)

// c04DQ: InitDefaults fills a list; the second element is rejected.
type c04DQ struct {
	L []c04PI `config:"l"`
	N int     `config:"n"`
}

func (d *c04DQ) InitDefaults() { d.L = []c04PI{2, -1} }

type c04DQTwin struct {
	L []c04PITwin `config:"l"`
	N int         `config:"n"`
}

func (d *c04DQTwin) InitDefaults() { d.L = []c04PITwin{2, -1} }

// c04DR: InitDefaults fills a map; the entry "dflt" is rejected.
type c04DR struct {
	M map[string]c04PS `config:"m"`
	N int              `config:"n"`
}

func (d *c04DR) InitDefaults() { d.M = map[string]c04PS{"dflt": "bad", "ok": "x"} }

type c04DRTwin struct {
	M map[string]c04PSTwin `config:"m"`
	N int                  `config:"n"`
}

func (d *c04DRTwin) InitDefaults() { d.M = map[string]c04PSTwin{"dflt": "bad", "ok": "x"} }

// c04DA: InitDefaults fills an array; the second element is rejected.
type c04DA struct {
	A [2]c04PU `config:"a"`
	N int      `config:"n"`
}

func (d *c04DA) InitDefaults() { d.A = [2]c04PU{1, 101} }

type c04DATwin struct {
	A [2]c04PUTwin `config:"a"`
	N int          `config:"n"`
}

func (d *c04DATwin) InitDefaults() { d.A = [2]c04PUTwin{1, 101} }

// c04MQ: map whose InitDefaults (value receiver) inserts an entry rejected by
// the element's pointer-receiver Validate().
type c04MQ map[string]c04PI

func (m c04MQ) InitDefaults() { m["dflt"] = -1; m["ok"] = 2 }

type c04MQTwin map[string]c04PITwin

func (m c04MQTwin) InitDefaults() { m["dflt"] = -1; m["ok"] = 2 }

// ---------------------------------------------------------------------------

func noneNegative(v reflect.Value) bool {
	switch v.Kind() {
	case reflect.Map:
		for _, k := range v.MapKeys() {
			if v.MapIndex(k).Int() < 0 {
				return false
			}
		}
		return true
	}
	return intsNonNegative(v)
}

func init() {
	intOK := catInfo{valid: func(v reflect.Value) bool { return v.Int() >= 0 }}
	uintOK := catInfo{valid: func(v reflect.Value) bool { return v.Uint() <= 100 }}
	floatOK := catInfo{valid: func(v reflect.Value) bool { return !(v.Float() < 0) }}
	strOK := catInfo{valid: func(v reflect.Value) bool { return !strings.Contains(v.String(), "a") }}
	boolOK := catInfo{valid: func(v reflect.Value) bool { return !v.Bool() }}
	collOK := catInfo{valid: noneNegative}
	withInit := func(i catInfo) catInfo { i.initDefaults = true; return i }
	intList := func() *gen.TD { return &gen.TD{Kind: "slice", Elem: ptd("int")} }
	intMap := func() *gen.TD { return &gen.TD{Kind: "map", Elem: ptd("int")} }

	register("c04_pi", c04PI(0), c04PITwin(0), ptd("int"), intOK)
	register("c04_pu", c04PU(0), c04PUTwin(0), ptd("uint"), uintOK)
	register("c04_pf", c04PF(0), c04PFTwin(0), ptd("float64"), floatOK)
	register("c04_ps", c04PS(""), c04PSTwin(""), ptd("string"), strOK)
	register("c04_pb", c04PB(false), c04PBTwin(false), ptd("bool"), boolOK)
	register("c04_pd", c04PD(0), c04PDTwin(0), ptd("int64"), intOK)
	register("c04_pl", c04PL{}, c04PLTwin{}, intList(), collOK)
	register("c04_pm", c04PM{}, c04PMTwin{}, intMap(), collOK)

	register("c04_pa", c04PA{}, c04PATwin{}, &gen.TD{Kind: "array", N: 2, Elem: ptd("int")}, collOK)
	register("c04_va", c04VA{}, c04VATwin{}, &gen.TD{Kind: "array", N: 2, Elem: ptd("int")}, collOK)

	register("c04_vu", c04VU(0), c04VUTwin(0), ptd("uint"), uintOK)
	register("c04_vf", c04VF(0), c04VFTwin(0), ptd("float64"), floatOK)
	register("c04_vt", c04VT(""), c04VTTwin(""), ptd("string"), strOK)
	register("c04_vb", c04VB(false), c04VBTwin(false), ptd("bool"), boolOK)
	register("c04_vm", c04VM{}, c04VMTwin{}, intMap(), collOK)

	register("c04_is", c04IS(""), c04ISTwin(""), ptd("string"), withInit(strOK))
	register("c04_iu", c04IU(0), c04IUTwin(0), ptd("uint"), withInit(uintOK))
	register("c04_if", c04IF(0), c04IFTwin(0), ptd("float64"), withInit(floatOK))
	register("c04_ib", c04IB(false), c04IBTwin(false), ptd("bool"), withInit(boolOK))
	register("c04_ip", c04IP{}, c04IPTwin{},
		&gen.TD{Kind: "struct", Fields: []gen.FD{fd("X", "x", "", ptd("int")), fd("S", "s", "", ptd("string"))}},
		catInfo{initDefaults: true, valid: func(v reflect.Value) bool { return v.Field(0).Int() >= 0 }})

	register("c04_dq", c04DQ{}, c04DQTwin{},
		&gen.TD{Kind: "struct", Fields: []gen.FD{fd("L", "l", "", &gen.TD{Kind: "slice", Elem: ptd("cat:c04_pi")}), fd("N", "n", "", ptd("int"))}},
		catInfo{initDefaults: true})
	register("c04_dr", c04DR{}, c04DRTwin{},
		&gen.TD{Kind: "struct", Fields: []gen.FD{fd("M", "m", "", &gen.TD{Kind: "map", Elem: ptd("cat:c04_ps")}), fd("N", "n", "", ptd("int"))}},
		catInfo{initDefaults: true})
	register("c04_da", c04DA{}, c04DATwin{},
		&gen.TD{Kind: "struct", Fields: []gen.FD{fd("A", "a", "", &gen.TD{Kind: "array", N: 2, Elem: ptd("cat:c04_pu")}), fd("N", "n", "", ptd("int"))}},
		catInfo{initDefaults: true})
	register("c04_mq", c04MQ{}, c04MQTwin{}, &gen.TD{Kind: "map", Elem: ptd("cat:c04_pi")},
		catInfo{initDefaults: true})
}
