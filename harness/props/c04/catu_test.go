package c04

import (
	"errors"
	"fmt"
	"reflect"
	"strings"

	ucfg "github.com/elastic/go-ucfg"

	"verif/harness/internal/gen"
)

// The fifth part of the catalogue.
//
// (1) Named primitive types whose Validate() REJECTS THE ZERO VALUE (value and
// pointer receiver). A setting that is absent or an explicit null stands for
// the zero value of its target: in a field, and just as well as an element of
// a list or array or as an entry of a map ([null], {"k": null}). For the other
// primitive types of the catalogue the zero value is valid, so that it does
// not matter whether anybody looks at it.
//
// (2) Types that UNPACK THEMSELVES: they implement one of the Unpacker
// interfaces of the library through a POINTER receiver (IntUnpacker,
// UintUnpacker, FloatUnpacker, StringUnpacker, BoolUnpacker, the generic
// Unpacker, ConfigUnpacker on a struct) and have a Validate() that rejects some
// values. "Every reachable value implementing Validate() accepts" and "every
// validate tag holds" do not depend on how a value got its content: the
// library's own conversion or the type's Unpack method. The twins have the
// same Unpack methods (they decide what the result is) and no Validate().

// ---- (1)

type c04ZI int

func (z c04ZI) Validate() error {
	if z == 0 {
		return errors.New("c04ZI: must not be zero")
	}
	return nil
}

type c04ZITwin int

type c04ZT string

func (z *c04ZT) Validate() error {
	if *z == "" {
		return errors.New("c04ZT: must not be empty")
	}
	return nil
}

type c04ZTTwin string

type c04ZU uint

func (z *c04ZU) Validate() error {
	if *z == 0 {
		return errors.New("c04ZU: must not be zero")
	}
	return nil
}

type c04ZUTwin uint

type c04ZF float64

func (z c04ZF) Validate() error {
	if z == 0 {
		return errors.New("c04ZF: must not be zero")
	}
	return nil
}

type c04ZFTwin float64

type c04ZB bool

func (z c04ZB) Validate() error {
	if !z {
		return errors.New("c04ZB: must be true")
	}
	return nil
}

type c04ZBTwin bool

// ---- (2)

// c04UI: IntUnpacker, Validate() on the value receiver.
type c04UI int64

func (p *c04UI) Unpack(v int64) error { *p = c04UI(v); return nil }
func (p c04UI) Validate() error {
	if p < 0 {
		return errors.New("c04UI: must not be negative")
	}
	return nil
}

type c04UITwin int64

func (p *c04UITwin) Unpack(v int64) error { *p = c04UITwin(v); return nil }

// c04UZ: IntUnpacker whose Validate() (pointer receiver) rejects the zero value.
type c04UZ int64

func (p *c04UZ) Unpack(v int64) error { *p = c04UZ(v); return nil }
func (p *c04UZ) Validate() error {
	if *p == 0 {
		return errors.New("c04UZ: must not be zero")
	}
	return nil
}

type c04UZTwin int64

func (p *c04UZTwin) Unpack(v int64) error { *p = c04UZTwin(v); return nil }

// c04UU: UintUnpacker, Validate() on the pointer receiver.
type c04UU uint64

func (p *c04UU) Unpack(v uint64) error { *p = c04UU(v); return nil }
func (p *c04UU) Validate() error {
	if *p > 100 {
		return errors.New("c04UU: must not exceed 100")
	}
	return nil
}

type c04UUTwin uint64

func (p *c04UUTwin) Unpack(v uint64) error { *p = c04UUTwin(v); return nil }

// c04UF: FloatUnpacker, Validate() on the value receiver.
type c04UF float64

func (p *c04UF) Unpack(v float64) error { *p = c04UF(v); return nil }
func (p c04UF) Validate() error {
	if p < 0 {
		return errors.New("c04UF: must not be negative")
	}
	return nil
}

type c04UFTwin float64

func (p *c04UFTwin) Unpack(v float64) error { *p = c04UFTwin(v); return nil }

// c04UT: StringUnpacker, Validate() on the pointer receiver.
type c04UT string

func (p *c04UT) Unpack(v string) error { *p = c04UT(v); return nil }
func (p *c04UT) Validate() error {
	if strings.Contains(string(*p), "a") {
		return errors.New("c04UT: must not contain 'a'")
	}
	return nil
}

type c04UTTwin string

func (p *c04UTTwin) Unpack(v string) error { *p = c04UTTwin(v); return nil }

// c04UB: BoolUnpacker, Validate() on the value receiver.
type c04UB bool

func (p *c04UB) Unpack(v bool) error { *p = c04UB(v); return nil }
func (p c04UB) Validate() error {
	if p {
		return errors.New("c04UB: must be false")
	}
	return nil
}

type c04UBTwin bool

func (p *c04UBTwin) Unpack(v bool) error { *p = c04UBTwin(v); return nil }

// c04UG: the generic Unpacker (the setting arrives as interface{}).
type c04UG string

func (p *c04UG) Unpack(v interface{}) error {
	s, ok := v.(string)
	if !ok {
		return fmt.Errorf("c04UG: string expected, got %T", v)
	}
	*p = c04UG(s)
	return nil
}
func (p c04UG) Validate() error {
	if strings.Contains(string(p), "a") {
		return errors.New("c04UG: must not contain 'a'")
	}
	return nil
}

type c04UGTwin string

func (p *c04UGTwin) Unpack(v interface{}) error {
	s, ok := v.(string)
	if !ok {
		return fmt.Errorf("c04UGTwin: string expected, got %T", v)
	}
	*p = c04UGTwin(s)
	return nil
}

// c04UC: a struct that is a ConfigUnpacker: it reads its settings itself,
// over its current content.
type c04UC struct {
	X int    `config:"x"`
	S string `config:"s"`
}

type c04UCPlain struct {
	X int    `config:"x"`
	S string `config:"s"`
}

func (u *c04UC) Unpack(c *ucfg.Config) error {
	tmp := c04UCPlain(*u)
	if err := c.Unpack(&tmp); err != nil {
		return err
	}
	*u = c04UC(tmp)
	return nil
}

func (u c04UC) Validate() error {
	if u.X < 0 {
		return errors.New("c04UC: x must not be negative")
	}
	return nil
}

type c04UCTwin struct {
	X int    `config:"x"`
	S string `config:"s"`
}

func (u *c04UCTwin) Unpack(c *ucfg.Config) error {
	tmp := c04UCPlain(*u)
	if err := c.Unpack(&tmp); err != nil {
		return err
	}
	*u = c04UCTwin(tmp)
	return nil
}

// zeroRejecting: the primitive-kind catalogue types whose Validate() rejects the zero value.
// selfUnpacking: the catalogue types that implement an Unpacker interface (pointer receiver).
var (
	zeroRejecting = map[string]bool{"cat:c04_zi": true, "cat:c04_zt": true, "cat:c04_zu": true, "cat:c04_zf": true, "cat:c04_zb": true, "cat:c04_uz": true}
	selfUnpacking = map[string]string{"cat:c04_ui": "IntUnpacker", "cat:c04_uz": "IntUnpacker", "cat:c04_uu": "UintUnpacker", "cat:c04_uf": "FloatUnpacker",
		"cat:c04_ut": "StringUnpacker", "cat:c04_ub": "BoolUnpacker", "cat:c04_ug": "Unpacker", "cat:c04_uc": "ConfigUnpacker"}
)

func init() {
	v := func(f func(v reflect.Value) bool) catInfo { return catInfo{valid: f} }
	register("c04_zi", c04ZI(0), c04ZITwin(0), ptd("int"), v(func(v reflect.Value) bool { return v.Int() != 0 }))
	register("c04_zt", c04ZT(""), c04ZTTwin(""), ptd("string"), v(func(v reflect.Value) bool { return v.String() != "" }))
	register("c04_zu", c04ZU(0), c04ZUTwin(0), ptd("uint"), v(func(v reflect.Value) bool { return v.Uint() != 0 }))
	register("c04_zf", c04ZF(0), c04ZFTwin(0), ptd("float64"), v(func(v reflect.Value) bool { return v.Float() != 0 }))
	register("c04_zb", c04ZB(false), c04ZBTwin(false), ptd("bool"), v(func(v reflect.Value) bool { return v.Bool() }))

	register("c04_ui", c04UI(0), c04UITwin(0), ptd("int64"), v(func(v reflect.Value) bool { return v.Int() >= 0 }))
	register("c04_uz", c04UZ(0), c04UZTwin(0), ptd("int64"), v(func(v reflect.Value) bool { return v.Int() != 0 }))
	register("c04_uu", c04UU(0), c04UUTwin(0), ptd("uint64"), v(func(v reflect.Value) bool { return v.Uint() <= 100 }))
	register("c04_uf", c04UF(0), c04UFTwin(0), ptd("float64"), v(func(v reflect.Value) bool { return !(v.Float() < 0) }))
	register("c04_ut", c04UT(""), c04UTTwin(""), ptd("string"), v(func(v reflect.Value) bool { return !strings.Contains(v.String(), "a") }))
	register("c04_ub", c04UB(false), c04UBTwin(false), ptd("bool"), v(func(v reflect.Value) bool { return !v.Bool() }))
	register("c04_ug", c04UG(""), c04UGTwin(""), ptd("string"), v(func(v reflect.Value) bool { return !strings.Contains(v.String(), "a") }))
	register("c04_uc", c04UC{}, c04UCTwin{},
		&gen.TD{Kind: "struct", Fields: []gen.FD{fd("X", "x", "", ptd("int")), fd("S", "s", "", ptd("string"))}},
		v(func(v reflect.Value) bool { return v.Field(0).Int() >= 0 }))
}

// selfUnpackingSources are the grid sources for the two parts of this file.
func selfUnpackingSources() []vsrc {
	f := func(x string) *gen.TV { return &gen.TV{F: x} }
	uc := func(x int64) *gen.TV { return tvS(tvI(x), &gen.TV{}) }
	return []vsrc{
		{"Validate (value receiver) rejecting the zero value on named int", ptd("cat:c04_zi"), tvI(1), tvI(0), num(1), num(0)},
		{"Validate (pointer receiver) rejecting the zero value on named string", ptd("cat:c04_zt"), &gen.TV{S: "x"}, &gen.TV{}, gen.Str("x"), gen.Str("")},
		{"Validate (pointer receiver) rejecting the zero value on named uint", ptd("cat:c04_zu"), &gen.TV{U: 1}, &gen.TV{}, num(1), num(0)},
		{"Validate (value receiver) rejecting the zero value on named float", ptd("cat:c04_zf"), f("0x1p+00"), &gen.TV{}, gen.Float(1.5), gen.Float(0)},
		{"Validate (value receiver) rejecting the zero value on named bool", ptd("cat:c04_zb"), &gen.TV{B: true}, &gen.TV{}, gen.Bool(true), gen.Bool(false)},
		{"IntUnpacker (pointer receiver) with Validate (value receiver)", ptd("cat:c04_ui"), tvI(1), tvI(-1), num(1), num(-1)},
		{"IntUnpacker (pointer receiver) with Validate (pointer receiver) rejecting the zero value", ptd("cat:c04_uz"), tvI(1), tvI(0), num(1), num(0)},
		{"UintUnpacker (pointer receiver) with Validate (pointer receiver)", ptd("cat:c04_uu"), &gen.TV{U: 7}, &gen.TV{U: 101}, num(100), num(101)},
		{"FloatUnpacker (pointer receiver) with Validate (value receiver)", ptd("cat:c04_uf"), f("0x1.8p+00"), f("-0x1p-01"), gen.Float(0.5), gen.Float(-0.5)},
		{"StringUnpacker (pointer receiver) with Validate (pointer receiver)", ptd("cat:c04_ut"), &gen.TV{S: "x"}, &gen.TV{S: "bad"}, gen.Str("x y"), gen.Str("a")},
		{"BoolUnpacker (pointer receiver) with Validate (value receiver)", ptd("cat:c04_ub"), &gen.TV{}, &gen.TV{B: true}, gen.Bool(false), gen.Bool(true)},
		{"Unpacker (pointer receiver, generic) with Validate (value receiver)", ptd("cat:c04_ug"), &gen.TV{S: "x"}, &gen.TV{S: "bad"}, gen.Str("x y"), gen.Str("a")},
		{"struct ConfigUnpacker (pointer receiver) with Validate (value receiver)", ptd("cat:c04_uc"), uc(1), uc(-1), objOf("x", num(1)), objOf("x", num(-1))},
		{"tag min on IntUnpacker", one("X", "x", "min=1", ptd("cat:c04_ui")), tvS(tvI(5)), tvS(tvI(0)), objOf("x", num(5)), objOf("x", num(0))},
		{"tag required on StringUnpacker", one("X", "x", "required", ptd("cat:c04_ut")), tvS(&gen.TV{S: "x"}), tvS(&gen.TV{}), objOf("x", gen.Str("x")), objOf("x", gen.Str(""))},
		{"tag max on *IntUnpacker", one("X", "x", "max=3", tdOf("ptr", ptd("cat:c04_ui"))), tvS(tvPtr(tvI(1))), tvS(tvPtr(tvI(5))), objOf("x", num(1)), objOf("x", num(5))},
		{"tag nonzero on UintUnpacker", one("X", "x", "nonzero", ptd("cat:c04_uu")), tvS(&gen.TV{U: 7}), tvS(&gen.TV{}), objOf("x", num(1)), objOf("x", num(0))},
	}
}
