package c04

import (
	"errors"
	"fmt"
	"reflect"
	"time"

	"verif/harness/internal/gen"
)

// The catalogue: hand-written types that carry the methods reflect.StructOf
// cannot attach (Validate, InitDefaults) and validate tags of their own. Every
// type has a twin of the same shape that keeps InitDefaults (it decides
// values) but has no Validate method and no validate tags: unpacking into the
// twin shows which values a validation-free Unpack produces.
//
// Some fields carry a second set of validators under the tag name `strict`,
// which Unpack reads instead of `validate` when it is called with the option
// ValidatorTag("strict") (see view_test.go). All config names equal the
// lower-cased Go field names, so the types read the same under every StructTag.

// c04VS: struct validated by a value-receiver Validate().
type c04VS struct {
	X int    `config:"x"`
	S string `config:"s" strict:"required"` // a validator under the second tag name only
}

func (v c04VS) Validate() error {
	if v.X < 0 {
		return errors.New("c04VS: x must not be negative")
	}
	return nil
}

type c04VSTwin struct {
	X int    `config:"x"`
	S string `config:"s"`
}

// c04PV: struct validated by a pointer-receiver Validate(), with a tag inside.
type c04PV struct {
	N int           `config:"n" validate:"max=100" strict:"max=50"`
	D time.Duration `config:"d"`
}

func (v *c04PV) Validate() error {
	if v.D < 0 {
		return errors.New("c04PV: d must not be negative")
	}
	if v.N == 13 {
		return errors.New("c04PV: n must not be 13")
	}
	return nil
}

type c04PVTwin struct {
	N int           `config:"n"`
	D time.Duration `config:"d"`
}

// c04DS: InitDefaults establishes valid values; tags on the fields.
type c04DS struct {
	X int    `config:"x" validate:"min=1" strict:"min=3"`
	Y string `config:"y" validate:"nonzero"`
}

func (d *c04DS) InitDefaults() { d.X = 5; d.Y = "def" }

type c04DSTwin struct {
	X int    `config:"x"`
	Y string `config:"y"`
}

func (d *c04DSTwin) InitDefaults() { d.X = 5; d.Y = "def" }

// c04DV: InitDefaults sets a value its own Validate() rejects; only a
// configuration that overrides x makes it acceptable.
type c04DV struct {
	X int   `config:"x"`
	L []int `config:"l"`
}

func (d *c04DV) InitDefaults() { d.X = -1 }
func (d c04DV) Validate() error {
	if d.X < 0 {
		return errors.New("c04DV: x must not be negative")
	}
	return nil
}

type c04DVTwin struct {
	X int   `config:"x"`
	L []int `config:"l"`
}

func (d *c04DVTwin) InitDefaults() { d.X = -1 }

// c04NI: named integer with InitDefaults and Validate().
type c04NI int

func (d *c04NI) InitDefaults() { *d = 7 }
func (d c04NI) Validate() error {
	if d < 0 {
		return errors.New("c04NI: must not be negative")
	}
	return nil
}

type c04NITwin int

func (d *c04NITwin) InitDefaults() { *d = 7 }

// c04VI: named integer with Validate() only.
type c04VI int

func (d c04VI) Validate() error {
	if d < 0 {
		return errors.New("c04VI: must not be negative")
	}
	return nil
}

type c04VITwin int

// c04DM: named map with InitDefaults and Validate().
type c04DM map[string]int

func (d c04DM) InitDefaults() { d["dflt"] = 1 }
func (d c04DM) Validate() error {
	for k, v := range d {
		if v < 0 {
			return fmt.Errorf("c04DM: entry %q must not be negative", k)
		}
	}
	return nil
}

type c04DMTwin map[string]int

func (d c04DMTwin) InitDefaults() { d["dflt"] = 1 }

// c04VL: named slice with Validate().
type c04VL []int

func (l c04VL) Validate() error {
	for _, v := range l {
		if v < 0 {
			return errors.New("c04VL: elements must not be negative")
		}
	}
	return nil
}

type c04VLTwin []int

// ---------------------------------------------------------------------------
// Types whose InitDefaults installs exactly ONE value that fails validation
// (one, so that a traversal path that skips it is not masked by another
// rejection): the value has to be overridden by the configuration, otherwise
// Unpack has to fail - whichever other settings the configuration holds.

// c04EL: plain struct with a tag (element type of c04MS).
type c04EL struct {
	R int    `config:"r" validate:"min=1" strict:"max=5"`
	T string `config:"t"`
}

type c04ELTwin struct {
	R int    `config:"r"`
	T string `config:"t"`
}

// c04MI: map whose InitDefaults (pointer receiver) inserts an entry the
// element type's Validate() rejects, next to a valid one.
type c04MI map[string]c04VI

func (m *c04MI) InitDefaults() { (*m)["dflt"] = -1; (*m)["ok"] = 2 }

type c04MITwin map[string]c04VITwin

func (m *c04MITwin) InitDefaults() { (*m)["dflt"] = -1; (*m)["ok"] = 2 }

// c04MS: map whose InitDefaults (value receiver) inserts a struct entry that
// breaks the tag of the element struct.
type c04MS map[string]c04EL

func (m c04MS) InitDefaults() { m["dflt"] = c04EL{R: 0, T: "d"} }

type c04MSTwin map[string]c04ELTwin

func (m c04MSTwin) InitDefaults() { m["dflt"] = c04ELTwin{R: 0, T: "d"} }

// c04MP: map of pointers; InitDefaults inserts a pointer entry that breaks a
// tag inside the pointee, next to a valid one.
type c04MP map[string]*c04PV

func (m c04MP) InitDefaults() { m["dflt"] = &c04PV{N: 101}; m["ok"] = &c04PV{N: 1} }

type c04MPTwin map[string]*c04PVTwin

func (m c04MPTwin) InitDefaults() { m["dflt"] = &c04PVTwin{N: 101}; m["ok"] = &c04PVTwin{N: 1} }

// c04DL: struct whose InitDefaults fills a list; the second element is
// rejected by the element type's Validate().
type c04DL struct {
	L []c04VI `config:"l"`
	N int     `config:"n"`
}

func (d *c04DL) InitDefaults() { d.L = []c04VI{2, -1} }

type c04DLTwin struct {
	L []c04VITwin `config:"l"`
	N int         `config:"n"`
}

func (d *c04DLTwin) InitDefaults() { d.L = []c04VITwin{2, -1} }

// c04DK: struct whose InitDefaults fills a plain map with an entry rejected by
// the element type's Validate().
type c04DK struct {
	M map[string]c04VI `config:"m"`
	S string           `config:"s"`
}

func (d *c04DK) InitDefaults() { d.M = map[string]c04VI{"dflt": -1, "ok": 3} }

type c04DKTwin struct {
	M map[string]c04VITwin `config:"m"`
	S string               `config:"s"`
}

func (d *c04DKTwin) InitDefaults() { d.M = map[string]c04VITwin{"dflt": -1, "ok": 3} }

// c04DP: struct whose InitDefaults installs a pointer to a value rejected by
// the pointee's Validate().
type c04DP struct {
	P *c04VS `config:"p"`
	N int    `config:"n"`
}

func (d *c04DP) InitDefaults() { d.P = &c04VS{X: -1, S: "d"} }

type c04DPTwin struct {
	P *c04VSTwin `config:"p"`
	N int        `config:"n"`
}

func (d *c04DPTwin) InitDefaults() { d.P = &c04VSTwin{X: -1, S: "d"} }

// c04DT: struct whose InitDefaults sets a field to a value its tag rejects.
type c04DT struct {
	X int    `config:"x" validate:"positive" strict:"max=-1"`
	Y string `config:"y"`
}

func (d *c04DT) InitDefaults() { d.X = -3; d.Y = "def" }

type c04DTTwin struct {
	X int    `config:"x"`
	Y string `config:"y"`
}

func (d *c04DTTwin) InitDefaults() { d.X = -3; d.Y = "def" }

// c04NJ: named integer whose InitDefaults value its own Validate() rejects.
type c04NJ int

func (d *c04NJ) InitDefaults() { *d = -7 }
func (d c04NJ) Validate() error {
	if d < 0 {
		return errors.New("c04NJ: must not be negative")
	}
	return nil
}

type c04NJTwin int

func (d *c04NJTwin) InitDefaults() { *d = -7 }

// catInfo is what the reference oracle knows about a catalogue type: whether
// it has InitDefaults, and the documented meaning of its Validate() as a
// predicate over a value of the same shape (real type or twin).
type catInfo struct {
	initDefaults bool
	valid        func(v reflect.Value) bool // nil: no Validate method
	ptrRecv      bool                       // Validate() is declared on the pointer receiver (set by register)
	under        string                     // underlying kind: int, uint, float, string, bool, slice, array, map, struct (set by register)
}

var (
	validatorIface = reflect.TypeOf((*interface{ Validate() error })(nil)).Elem()
	initIface      = reflect.TypeOf((*interface{ InitDefaults() })(nil)).Elem()
)

var cats = map[string]catInfo{}

var catKinds []string

func ptd(kind string) *gen.TD { return &gen.TD{Kind: kind} }

func fd(name, tag, validate string, t *gen.TD) gen.FD {
	return gen.FD{Name: name, Tag: tag, Validate: validate, T: t}
}

func stripShape(td *gen.TD) *gen.TD {
	c := *td
	if td.Elem != nil {
		c.Elem = stripShape(td.Elem)
	}
	c.Fields = nil
	for _, f := range td.Fields {
		f.Validate = ""
		f.T = stripShape(f.T)
		c.Fields = append(c.Fields, f)
	}
	return &c
}

func register(name string, real, twin interface{}, shape *gen.TD, info catInfo) {
	rt, tt := reflect.TypeOf(real), reflect.TypeOf(twin)
	// the shape must describe the hand-written type exactly, tags included
	if shape.Kind == "struct" {
		if rt.NumField() != len(shape.Fields) || tt.NumField() != len(shape.Fields) {
			panic("c04: catalogue shape out of date: " + name)
		}
		for i := range shape.Fields {
			f := &shape.Fields[i]
			if rt.Field(i).Name != f.Name || rt.Field(i).Tag.Get("config") != f.Tag || rt.Field(i).Tag.Get("validate") != f.Validate ||
				tt.Field(i).Name != f.Name || tt.Field(i).Tag.Get("config") != f.Tag || tt.Field(i).Tag.Get("validate") != "" ||
				rt.Field(i).Type != f.T.Type() || tt.Field(i).Type != twinOf(f.T).Type() {
				panic("c04: catalogue shape out of date: " + name + "." + f.Name)
			}
		}
	}
	// the oracle's description must agree with the method sets of the hand-written types
	hasV := rt.Implements(validatorIface) || reflect.PtrTo(rt).Implements(validatorIface)
	if hasV != (info.valid != nil) || tt.Implements(validatorIface) || reflect.PtrTo(tt).Implements(validatorIface) {
		panic("c04: catalogue description out of date (Validate): " + name)
	}
	hasI := func(t reflect.Type) bool { return t.Implements(initIface) || reflect.PtrTo(t).Implements(initIface) }
	if hasI(rt) != info.initDefaults || hasI(tt) != info.initDefaults {
		panic("c04: catalogue description out of date (InitDefaults): " + name)
	}
	info.ptrRecv = hasV && !rt.Implements(validatorIface)
	switch k := rt.Kind(); {
	case k >= reflect.Int && k <= reflect.Int64:
		info.under = "int"
	case k >= reflect.Uint && k <= reflect.Uint64:
		info.under = "uint"
	case k == reflect.Float32 || k == reflect.Float64:
		info.under = "float"
	default:
		info.under = k.String()
	}
	gen.RegisterCat(name, rt, shape)
	gen.RegisterCat(name+"_twin", tt, twinOf(stripShape(shape)))
	cats["cat:"+name] = info
	catKinds = append(catKinds, "cat:"+name)
	catTypes["cat:"+name], catShapes["cat:"+name] = rt, shape
}

// the hand-written Go types and their shapes under the default tag names, by kind (view_test.go derives the shapes
// the types have under other validator tag names from them)
var (
	catTypes  = map[string]reflect.Type{}
	catShapes = map[string]*gen.TD{}
)

func intsNonNegative(v reflect.Value) bool {
	for i := 0; i < v.Len(); i++ {
		if v.Index(i).Int() < 0 {
			return false
		}
	}
	return true
}

func init() {
	register("c04_vs", c04VS{}, c04VSTwin{},
		&gen.TD{Kind: "struct", Fields: []gen.FD{fd("X", "x", "", ptd("int")), fd("S", "s", "", ptd("string"))}},
		catInfo{valid: func(v reflect.Value) bool { return v.Field(0).Int() >= 0 }})
	register("c04_pv", c04PV{}, c04PVTwin{},
		&gen.TD{Kind: "struct", Fields: []gen.FD{fd("N", "n", "max=100", ptd("int")), fd("D", "d", "", ptd("dur"))}},
		catInfo{valid: func(v reflect.Value) bool { return v.Field(1).Int() >= 0 && v.Field(0).Int() != 13 }})
	register("c04_ds", c04DS{}, c04DSTwin{},
		&gen.TD{Kind: "struct", Fields: []gen.FD{fd("X", "x", "min=1", ptd("int")), fd("Y", "y", "nonzero", ptd("string"))}},
		catInfo{initDefaults: true})
	register("c04_dv", c04DV{}, c04DVTwin{},
		&gen.TD{Kind: "struct", Fields: []gen.FD{fd("X", "x", "", ptd("int")), fd("L", "l", "", &gen.TD{Kind: "slice", Elem: ptd("int")})}},
		catInfo{initDefaults: true, valid: func(v reflect.Value) bool { return v.Field(0).Int() >= 0 }})
	register("c04_ni", c04NI(0), c04NITwin(0), ptd("int"),
		catInfo{initDefaults: true, valid: func(v reflect.Value) bool { return v.Int() >= 0 }})
	register("c04_vi", c04VI(0), c04VITwin(0), ptd("int"),
		catInfo{valid: func(v reflect.Value) bool { return v.Int() >= 0 }})
	register("c04_dm", c04DM{}, c04DMTwin{}, &gen.TD{Kind: "map", Elem: ptd("int")},
		catInfo{initDefaults: true, valid: func(v reflect.Value) bool {
			for _, k := range v.MapKeys() {
				if v.MapIndex(k).Int() < 0 {
					return false
				}
			}
			return true
		}})
	register("c04_vl", c04VL{}, c04VLTwin{}, &gen.TD{Kind: "slice", Elem: ptd("int")},
		catInfo{valid: intsNonNegative})

	// InitDefaults installing one invalid value (see above); they refer to the kinds registered before
	register("c04_el", c04EL{}, c04ELTwin{},
		&gen.TD{Kind: "struct", Fields: []gen.FD{fd("R", "r", "min=1", ptd("int")), fd("T", "t", "", ptd("string"))}},
		catInfo{})
	register("c04_mi", c04MI{}, c04MITwin{}, &gen.TD{Kind: "map", Elem: ptd("cat:c04_vi")},
		catInfo{initDefaults: true})
	register("c04_ms", c04MS{}, c04MSTwin{}, &gen.TD{Kind: "map", Elem: ptd("cat:c04_el")},
		catInfo{initDefaults: true})
	register("c04_mp", c04MP{}, c04MPTwin{}, &gen.TD{Kind: "map", Elem: &gen.TD{Kind: "ptr", Elem: ptd("cat:c04_pv")}},
		catInfo{initDefaults: true})
	register("c04_dl", c04DL{}, c04DLTwin{},
		&gen.TD{Kind: "struct", Fields: []gen.FD{fd("L", "l", "", &gen.TD{Kind: "slice", Elem: ptd("cat:c04_vi")}), fd("N", "n", "", ptd("int"))}},
		catInfo{initDefaults: true})
	register("c04_dk", c04DK{}, c04DKTwin{},
		&gen.TD{Kind: "struct", Fields: []gen.FD{fd("M", "m", "", &gen.TD{Kind: "map", Elem: ptd("cat:c04_vi")}), fd("S", "s", "", ptd("string"))}},
		catInfo{initDefaults: true})
	register("c04_dp", c04DP{}, c04DPTwin{},
		&gen.TD{Kind: "struct", Fields: []gen.FD{fd("P", "p", "", &gen.TD{Kind: "ptr", Elem: ptd("cat:c04_vs")}), fd("N", "n", "", ptd("int"))}},
		catInfo{initDefaults: true})
	register("c04_dt", c04DT{}, c04DTTwin{},
		&gen.TD{Kind: "struct", Fields: []gen.FD{fd("X", "x", "positive", ptd("int")), fd("Y", "y", "", ptd("string"))}},
		catInfo{initDefaults: true})
	register("c04_nj", c04NJ(0), c04NJTwin(0), ptd("int"),
		catInfo{initDefaults: true, valid: func(v reflect.Value) bool { return v.Int() >= 0 }})
}

// twinOf returns the descriptor of the twin type: no validate tags, catalogue
// kinds replaced by their twins.
func twinOf(td *gen.TD) *gen.TD {
	if td == nil {
		return nil
	}
	c := *td
	if _, ok := cats[td.Kind]; ok {
		c.Kind = catBase(td.Kind) + "_twin"
	}
	c.Elem = twinOf(td.Elem)
	c.Fields = nil
	for _, f := range td.Fields {
		f.Validate = ""
		f.T = twinOf(f.T)
		c.Fields = append(c.Fields, f)
	}
	return &c
}
