package c04

import (
	"time"

	"verif/harness/internal/gen"
)

// The third part of the catalogue: InitDefaults methods that store ONE object
// at TWO places with different validators ("hard defaults to soft"). A validate
// tag belongs to the field, not to the object: every place has to satisfy the
// validators declared there, whichever other place holds the same pointer, map
// or slice. In every type exactly one place rejects the shared default (and it
// is declared after the place that accepts it), so Unpack has to fail unless
// the configuration overrides that place.
//
// (Objects the code changes in place - maps, structs behind pointers - are
// shared only where the place declared first carries no validators: the place
// with validators then sees the final state, like the oracle.)

// c04SA: one *int in two pointer fields with different bounds.
type c04SA struct {
	Soft *int `config:"soft" validate:"min=1" strict:"min=6"`
	Hard *int `config:"hard" validate:"min=10"`
}

func (d *c04SA) InitDefaults() { v := 5; d.Soft, d.Hard = &v, &v }

type c04SATwin struct {
	Soft *int `config:"soft"`
	Hard *int `config:"hard"`
}

func (d *c04SATwin) InitDefaults() { v := 5; d.Soft, d.Hard = &v, &v }

// c04SE: one *int as a list element and in a tagged field.
type c04SE struct {
	All  []*int `config:"all"`
	Hard *int   `config:"hard" validate:"min=10"`
}

func (d *c04SE) InitDefaults() { v := 5; d.All, d.Hard = []*int{&v}, &v }

type c04SETwin struct {
	All  []*int `config:"all"`
	Hard *int   `config:"hard"`
}

func (d *c04SETwin) InitDefaults() { v := 5; d.All, d.Hard = []*int{&v}, &v }

// c04SK: one *time.Duration as a map entry and in a tagged field.
type c04SK struct {
	M   map[string]*time.Duration `config:"m"`
	Max *time.Duration            `config:"max" validate:"max=1s"`
}

func (d *c04SK) InitDefaults() {
	v := 5 * time.Second
	d.M, d.Max = map[string]*time.Duration{"dflt": &v}, &v
}

type c04SKTwin struct {
	M   map[string]*time.Duration `config:"m"`
	Max *time.Duration            `config:"max"`
}

func (d *c04SKTwin) InitDefaults() {
	v := 5 * time.Second
	d.M, d.Max = map[string]*time.Duration{"dflt": &v}, &v
}

// c04SL: one (empty) slice in two fields, the second one required.
type c04SL struct {
	A []string `config:"a"`
	B []string `config:"b" validate:"required"`
}

func (d *c04SL) InitDefaults() { s := make([]string, 0, 4); d.A, d.B = s, s }

type c04SLTwin struct {
	A []string `config:"a"`
	B []string `config:"b"`
}

func (d *c04SLTwin) InitDefaults() { s := make([]string, 0, 4); d.A, d.B = s, s }

// c04SM: one (empty) map in two fields, the second one required.
type c04SM struct {
	A map[string]string `config:"a"`
	B map[string]string `config:"b" validate:"required"`
}

func (d *c04SM) InitDefaults() { m := map[string]string{}; d.A, d.B = m, m }

type c04SMTwin struct {
	A map[string]string `config:"a"`
	B map[string]string `config:"b"`
}

func (d *c04SMTwin) InitDefaults() { m := map[string]string{}; d.A, d.B = m, m }

// c04SP: one *float64 behind a further pointer and in a tagged field.
type c04SP struct {
	PP  **float64 `config:"pp"`
	Max *float64  `config:"max" validate:"max=1.5"`
}

func (d *c04SP) InitDefaults() { v := 2.5; p := &v; d.PP, d.Max = &p, p }

type c04SPTwin struct {
	PP  **float64 `config:"pp"`
	Max *float64  `config:"max"`
}

func (d *c04SPTwin) InitDefaults() { v := 2.5; p := &v; d.PP, d.Max = &p, p }

func init() {
	pint := func() *gen.TD { return tdOf("ptr", ptd("int")) }
	register("c04_sa", c04SA{}, c04SATwin{},
		&gen.TD{Kind: "struct", Fields: []gen.FD{fd("Soft", "soft", "min=1", pint()), fd("Hard", "hard", "min=10", pint())}},
		catInfo{initDefaults: true})
	register("c04_se", c04SE{}, c04SETwin{},
		&gen.TD{Kind: "struct", Fields: []gen.FD{fd("All", "all", "", tdOf("slice", pint())), fd("Hard", "hard", "min=10", pint())}},
		catInfo{initDefaults: true})
	register("c04_sk", c04SK{}, c04SKTwin{},
		&gen.TD{Kind: "struct", Fields: []gen.FD{fd("M", "m", "", tdOf("map", tdOf("ptr", ptd("dur")))), fd("Max", "max", "max=1s", tdOf("ptr", ptd("dur")))}},
		catInfo{initDefaults: true})
	register("c04_sl", c04SL{}, c04SLTwin{},
		&gen.TD{Kind: "struct", Fields: []gen.FD{fd("A", "a", "", tdOf("slice", ptd("string"))), fd("B", "b", "required", tdOf("slice", ptd("string")))}},
		catInfo{initDefaults: true})
	register("c04_sm", c04SM{}, c04SMTwin{},
		&gen.TD{Kind: "struct", Fields: []gen.FD{fd("A", "a", "", tdOf("map", ptd("string"))), fd("B", "b", "required", tdOf("map", ptd("string")))}},
		catInfo{initDefaults: true})
	register("c04_sp", c04SP{}, c04SPTwin{},
		&gen.TD{Kind: "struct", Fields: []gen.FD{fd("PP", "pp", "", tdOf("ptr", tdOf("ptr", ptd("float64")))), fd("Max", "max", "max=1.5", tdOf("ptr", ptd("float64")))}},
		catInfo{initDefaults: true})
}
