package c04

import (
	"fmt"
	"reflect"
	"sort"
	"strconv"
	"strings"
	"testing"

	"pgregory.net/rapid"

	"verif/harness/internal/gen"
	"verif/harness/internal/runlog"
)

// Aliasing inside the pre-filled value. A Go value is a graph, not a tree: the
// same pointer, map or slice may be stored in two or more fields, elements or
// map entries of the target (a common way to write "hard defaults to soft").
// Validate tags belong to the FIELD and not to the object, so every place that
// holds the object has to satisfy the validators declared at that place,
// whichever other place holds it too. The shared type descriptor describes
// values as trees; a case therefore carries links
//
//	{from: path, to: path}             the place `to` holds the very pointer / map / slice stored at `from`
//	{from: path, to: path, addr: true}  the place `to` holds a pointer to the field / element `from` of the value itself
//
// The types of the two places are identical, or differ in name only (Go converts
// *int to *MyInt, map[string]int to MyMap, *int64 to *time.Duration without
// copying: one object, seen as a plain type with validate tags at one place and
// as a named type with Validate() at the other).
//
// which newValue applies to the real and to the twin target after building them
// from the tree (the tree holds a copy of the content at `to`, so everything
// that prints or inspects the pre-filled value as data stays right). Paths are
// steps into the VALUE: "f3" struct field 3, "i1" element 1, "kname" map entry
// name, "*" pointee, "~" the typed value an interface holds. Cyclic values are
// never built: the unchanged library does not terminate on them.

type aliasLink struct {
	From []string `json:"from"`
	To   []string `json:"to"`
	// Addr: an interior pointer - the place To holds the ADDRESS of the field / element From (a value, not a
	// reference) instead of what is stored there
	Addr bool `json:"addr,omitempty"`
}

func withStep(steps []string, s string) []string {
	return append(append(make([]string, 0, len(steps)+1), steps...), s)
}

func stepNum(s string) int {
	n, err := strconv.Atoi(s[1:])
	if err != nil {
		return -1
	}
	return n
}

func hasStepPrefix(path, prefix []string) bool {
	if len(prefix) > len(path) {
		return false
	}
	for i := range prefix {
		if path[i] != prefix[i] {
			return false
		}
	}
	return true
}

func shareable(v reflect.Value) bool {
	switch v.Kind() {
	case reflect.Ptr, reflect.Map, reflect.Slice:
		return !v.IsNil()
	}
	return false
}

// aliasGet reads the value at the end of the path.
func aliasGet(v reflect.Value, steps []string) (reflect.Value, bool) {
	for _, s := range steps {
		if s == "" {
			return v, false
		}
		switch s[0] {
		case '*':
			if v.Kind() != reflect.Ptr || v.IsNil() {
				return v, false
			}
			v = v.Elem()
		case '~':
			if v.Kind() != reflect.Interface || v.IsNil() {
				return v, false
			}
			v = v.Elem()
		case 'f':
			i := stepNum(s)
			if v.Kind() != reflect.Struct || i < 0 || i >= v.NumField() {
				return v, false
			}
			v = v.Field(i)
		case 'i':
			i := stepNum(s)
			if (v.Kind() != reflect.Slice && v.Kind() != reflect.Array) || i < 0 || i >= v.Len() {
				return v, false
			}
			v = v.Index(i)
		case 'k':
			if v.Kind() != reflect.Map || v.IsNil() {
				return v, false
			}
			e := v.MapIndex(reflect.ValueOf(s[1:]).Convert(v.Type().Key()))
			if !e.IsValid() {
				return v, false
			}
			v = e
		default:
			return v, false
		}
	}
	return v, true
}

// aliasSet stores src at the end of the path below the settable value v (map
// entries and values held by interfaces are copied out, changed and stored back).
func aliasSet(v reflect.Value, steps []string, src reflect.Value) bool {
	if len(steps) == 0 {
		if !v.CanSet() {
			return false
		}
		if !src.Type().AssignableTo(v.Type()) {
			// the same object under a type that differs in name only
			if src.Kind() != v.Kind() || !src.Type().ConvertibleTo(v.Type()) {
				return false
			}
			src = src.Convert(v.Type())
		}
		v.Set(src)
		return true
	}
	s, rest := steps[0], steps[1:]
	if s == "" {
		return false
	}
	switch s[0] {
	case '*':
		if v.Kind() != reflect.Ptr || v.IsNil() {
			return false
		}
		return aliasSet(v.Elem(), rest, src)
	case '~':
		if v.Kind() != reflect.Interface || v.IsNil() || !v.CanSet() {
			return false
		}
		tmp := reflect.New(v.Elem().Type()).Elem()
		tmp.Set(v.Elem())
		if !aliasSet(tmp, rest, src) {
			return false
		}
		v.Set(tmp)
		return true
	case 'f':
		i := stepNum(s)
		if v.Kind() != reflect.Struct || i < 0 || i >= v.NumField() || v.Type().Field(i).PkgPath != "" {
			return false
		}
		return aliasSet(v.Field(i), rest, src)
	case 'i':
		i := stepNum(s)
		if (v.Kind() != reflect.Slice && v.Kind() != reflect.Array) || i < 0 || i >= v.Len() {
			return false
		}
		return aliasSet(v.Index(i), rest, src)
	case 'k':
		if v.Kind() != reflect.Map || v.IsNil() {
			return false
		}
		key := reflect.ValueOf(s[1:]).Convert(v.Type().Key())
		old := v.MapIndex(key)
		if !old.IsValid() {
			return false
		}
		e := reflect.New(v.Type().Elem()).Elem()
		e.Set(old)
		if !aliasSet(e, rest, src) {
			return false
		}
		v.SetMapIndex(key, e)
		return true
	}
	return false
}

// applyAlias makes the places `to` hold the objects stored at `from`.
func applyAlias(root reflect.Value, links []aliasLink) error {
	for i, l := range links {
		src, ok := aliasGet(root, l.From)
		if l.Addr {
			if !ok || !src.CanAddr() || len(l.From) == 0 {
				return fmt.Errorf("link %d: no addressable value at %v", i, l.From)
			}
			src = src.Addr()
		} else if !ok || !shareable(src) {
			return fmt.Errorf("link %d: no pointer, map or slice at %v", i, l.From)
		}
		if hasStepPrefix(l.To, l.From) || hasStepPrefix(l.From, l.To) {
			return fmt.Errorf("link %d: one place encloses the other", i)
		}
		if !aliasSet(root, l.To, src) {
			return fmt.Errorf("link %d: %v does not take the %v stored at %v", i, l.To, src.Type(), l.From)
		}
	}
	return nil
}

// cyclic reports whether the value reaches one of its pointers, maps or slices
// from inside that object.
func cyclic(v reflect.Value) bool {
	type ref struct {
		t reflect.Type
		p uintptr
	}
	onStack := map[ref]bool{}
	var visit func(v reflect.Value, depth int) bool
	visit = func(v reflect.Value, depth int) bool {
		if depth > 64 {
			return true
		}
		switch v.Kind() {
		case reflect.Ptr, reflect.Map, reflect.Slice:
			if v.IsNil() || v.Type() == gen.RegexpType || (v.Kind() == reflect.Slice && v.Len() == 0) {
				return false
			}
			k := ref{v.Type(), v.Pointer()}
			if onStack[k] {
				return true
			}
			onStack[k] = true
			defer delete(onStack, k)
		}
		switch v.Kind() {
		case reflect.Ptr, reflect.Interface:
			return !v.IsNil() && visit(v.Elem(), depth+1)
		case reflect.Slice, reflect.Array:
			for i := 0; i < v.Len(); i++ {
				if visit(v.Index(i), depth+1) {
					return true
				}
			}
		case reflect.Map:
			for _, k := range v.MapKeys() {
				if visit(v.MapIndex(k), depth+1) {
					return true
				}
			}
		case reflect.Struct:
			for i := 0; i < v.NumField(); i++ {
				if visit(v.Field(i), depth+1) {
					return true
				}
			}
		}
		return false
	}
	return visit(v, 0)
}

func cloneTV(tv *gen.TV) *gen.TV {
	if tv == nil {
		return nil
	}
	c := *tv
	if tv.Keys != nil {
		c.Keys = append([]string{}, tv.Keys...)
	}
	if tv.Elems != nil {
		c.Elems = make([]*gen.TV, len(tv.Elems))
		for i, e := range tv.Elems {
			c.Elems[i] = cloneTV(e)
		}
	}
	if tv.Tree != nil {
		c.Tree = tv.Tree.Clone()
	}
	return &c
}

// ---------------------------------------------------------------------------
// what the oracle needs to know about a link

type aliasInfo struct {
	from, to []string // configuration paths of the two places
	fs, ts   []string // ... and their paths in the value
	kind     string   // what is shared
	where    string   // how the places relate
	toIface  bool     // the place `to` is an interface
	mutable  bool     // the code may change the object in place when one of the places has a setting
	initIn   bool     // ... or without any setting: it is, or holds, a value of a type with InitDefaults (a map with InitDefaults in a non-pointer field is initialised in place whenever the field comes up)
}

// follow walks the descriptor and the pre-filled tree along a path of value
// steps: configuration path, descriptor and tree at its end.
func (c *Case) follow(steps []string) (path []string, td *gen.TD, tv *gen.TV, ok bool) {
	td, tv = c.T, c.Pre
	path = []string{}
	for _, s := range steps {
		if td == nil || s == "" {
			return nil, nil, nil, false
		}
		sh := td.Shape()
		switch s[0] {
		case '*':
			if sh.Kind != "ptr" {
				return nil, nil, nil, false
			}
			td, tv = sh.Elem, elemTV(tv, 0)
		case '~':
			if sh.Kind != "iface" || !isDynTV(tv) || int(tv.U) >= len(c.Dyn) {
				return nil, nil, nil, false
			}
			td, tv = c.Dyn[tv.U], tv.Elems[0]
		case 'f':
			i := stepNum(s)
			if sh.Kind != "struct" || i < 0 || i >= len(sh.Fields) {
				return nil, nil, nil, false
			}
			f := &sh.Fields[i]
			if !isInline(f) {
				path = append(path, f.ConfigName())
			}
			td, tv = f.T, elemTV(tv, i)
		case 'i':
			if sh.Kind != "slice" && sh.Kind != "array" {
				return nil, nil, nil, false
			}
			path = append(path, s[1:])
			td, tv = sh.Elem, elemTV(tv, stepNum(s))
		case 'k':
			if sh.Kind != "map" {
				return nil, nil, nil, false
			}
			path = append(path, s[1:])
			td, tv = sh.Elem, entryTV(tv, s[1:])
		default:
			return nil, nil, nil, false
		}
	}
	return path, td, tv, td != nil
}

func sharedKind(td *gen.TD) string {
	sh := td.Shape()
	switch sh.Kind {
	case "regexp":
		return "a *regexp.Regexp"
	case "map":
		return "a map"
	case "slice":
		return "a slice"
	case "ptr":
		switch e := sh.Elem.Shape(); {
		case e.Kind == "struct":
			return "a pointer to a struct"
		case e.Kind == "ptr":
			return "a pointer to a pointer"
		case e.Kind == "slice" || e.Kind == "array" || e.Kind == "map":
			return "a pointer to a collection"
		case e.Base() == "dur":
			return "a pointer to a duration"
		}
		return "a pointer to a primitive"
	}
	return "a " + sh.Kind
}

// changedInPlace reports whether the code may change an object of this type in place when it merges a setting into
// it: not a pointer to a primitive, a regular expression or a list of primitives (a setting replaces those) - unless the
// primitive type implements an Unpacker interface with a pointer receiver.
func changedInPlace(td *gen.TD) bool {
	sh := td.Shape()
	switch sh.Kind {
	case "regexp":
		return false
	case "ptr", "slice":
		// (a type that unpacks itself through a pointer-receiver method writes the setting into the object)
		return !sh.Elem.Shape().IsLeaf() || selfUnpacking[catBase(sh.Elem.Kind)] != ""
	case "map":
		return true
	}
	return false
}

// touches reports whether a place of one link is, encloses or lies inside a place of the other.
func (a *aliasInfo) touches(b *aliasInfo) bool {
	for _, x := range [][]string{a.fs, a.ts} {
		for _, y := range [][]string{b.fs, b.ts} {
			if hasStepPrefix(x, y) || hasStepPrefix(y, x) {
				return true
			}
		}
	}
	return false
}

func holdsInit(td *gen.TD) bool {
	if td == nil {
		return false
	}
	if info, ok := cats[td.Kind]; ok && info.initDefaults {
		return true
	}
	sh := td.Shape()
	for i := range sh.Fields {
		if holdsInit(sh.Fields[i].T) {
			return true
		}
	}
	return holdsInit(sh.Elem)
}

func (c *Case) aliasInfos() ([]aliasInfo, error) {
	var out []aliasInfo
	for i, l := range c.Alias {
		fp, ftd, _, ok1 := c.follow(l.From)
		tp, ttd, _, ok2 := c.follow(l.To)
		if !ok1 || !ok2 || len(l.To) == 0 {
			return nil, fmt.Errorf("link %d does not follow the type", i)
		}
		ai := aliasInfo{from: fp, to: tp, fs: l.From, ts: l.To, kind: sharedKind(ftd), toIface: ttd.Kind == "iface",
			mutable: changedInPlace(ftd) || (ttd.Kind != "iface" && changedInPlace(ttd)), initIn: holdsInit(ftd) || holdsInit(ttd)}
		if ttd.Kind != "iface" && !l.Addr && tdJSON(ftd) != tdJSON(ttd) {
			ai.kind += ", seen under two types that differ in name only"
		}
		if l.Addr {
			// the pointee is a field / element of the value: a setting for it changes it in place, and so does the
			// InitDefaults of a value enclosing it
			ai.kind, ai.mutable = "an interior pointer to a field / element of the value", true
			if !ftd.Shape().IsLeaf() {
				// a struct in a non-pointer field is rebuilt whenever its field comes up (a list in it is replaced under
				// the replace policy even without a setting)
				ai.initIn = true
			}
			for k := range l.From {
				if _, etd, _, ok := c.follow(l.From[:k]); ok {
					if info, isCat := cats[etd.Kind]; isCat && info.initDefaults {
						ai.initIn = true
					}
				}
			}
		}
		last := l.To[len(l.To)-1]
		if f := l.From; len(f) > 0 && last[0] == 'f' && (f[len(f)-1][0] == 'i' || f[len(f)-1][0] == 'k' || (f[len(f)-1][0] == '*' && !l.Addr && ftd.Kind == "ptr" && len(f) > 1)) {
			last = f[len(f)-1] // (the object found as an element, entry or pointee is stored in a field: the same relation)
		}
		through := strings.Contains(strings.Join(l.From, "")+strings.Join(l.To[:len(l.To)-1], ""), "~")
		switch {
		case ai.toIface:
			ai.where = "a field / element and an interface holding the same object"
		case through:
			ai.where = "places inside interface-held values"
		case last[0] == 'i' || last[0] == 'k':
			ai.where = "an element / entry of a collection and another place"
			if len(l.From) == len(l.To) && hasStepPrefix(l.From, l.To[:len(l.To)-1]) {
				ai.where = "two elements / entries of one collection"
			}
		case last[0] == '*':
			ai.where = "a place and the pointee of a further pointer"
		case len(l.From) == len(l.To) && hasStepPrefix(l.From, l.To[:len(l.To)-1]):
			ai.where = "two fields of one struct"
		default:
			ai.where = "fields of different structs / at different depths"
		}
		out = append(out, ai)
	}
	return out, nil
}

func aliasText(c *Case) string {
	if len(c.Alias) == 0 {
		return ""
	}
	infos, err := c.aliasInfos()
	if err != nil {
		return fmt.Sprintf("\n aliases %v", c.Alias)
	}
	var s []string
	for _, ai := range infos {
		if c.Alias[len(s)].Addr {
			s = append(s, fmt.Sprintf("'%s' points to '%s' itself", strings.Join(ai.to, "."), strings.Join(ai.from, ".")))
			continue
		}
		s = append(s, fmt.Sprintf("'%s' holds the very object stored at '%s' (%s)", strings.Join(ai.to, "."), strings.Join(ai.from, "."), ai.kind))
	}
	return "\n aliases " + strings.Join(s, "; ")
}

func hasSegPrefix(path, prefix []string) bool { return hasStepPrefix(path, prefix) }

// posAt moves along a configuration path like the walk does: the setting found
// there (references followed; nil: not mentioned, an explicit nil included) and
// the names the position has through references.
func (w *walker) posAt(path []string) pos {
	root, _ := w.resolve(w.root)
	p := pos{cfg: root, path: []string{}}
	for _, seg := range path {
		var raw *gen.Tree
		if p.cfg != nil {
			if p.cfg.K == "obj" {
				raw = p.cfg.Get(seg)
			} else if i, err := strconv.Atoi(seg); err == nil {
				raw = cfgIndex(p.cfg, i)
			}
		}
		p = w.at(p, seg, raw)
	}
	return p
}

// refsBelow collects the names of the settings that the references inside a
// setting lead to (an error about a value delivered through ${rN} names rN).
func (w *walker) refsBelow(n *gen.Tree, into map[string]bool) {
	if n == nil || !w.varexp {
		return
	}
	if n.K == "str" {
		if m := refRe.FindStringSubmatch(n.S); m != nil && !into[m[1]] {
			into[m[1]] = true
			w.refsBelow(w.root.Get(m[1]), into)
		}
		return
	}
	for _, v := range n.Vals {
		w.refsBelow(v, into)
	}
}

// placeEval describes a place of a shared object that is in flux as a
// candidate for the name an error quotes: the place itself, everything below
// it, and everything below the settings its references lead to.
func (w *walker) placeEval(path []string) *eval {
	p := w.posAt(path)
	e := &eval{path: p.path, alts: p.alts, what: "a state of the shared object that settings overwrite", soft: true, below: true}
	refs := map[string]bool{}
	w.refsBelow(p.cfg, refs)
	var names []string
	for r := range refs {
		names = append(names, r)
	}
	sort.Strings(names)
	for _, r := range names {
		e.alts = append(e.alts, []string{r})
	}
	return e
}

// ---------------------------------------------------------------------------
// generator: sharing objects between places of the pre-filled value

type place struct {
	steps []string
	td    *gen.TD
	tv    *gen.TV
}

type sharer struct {
	t      *rapid.T
	c      *Case
	cfg    *gen.TDCfg
	srcs   []place // non-nil pointers, maps, slices and regular expressions of the pre-filled value
	all    []place // every place of such a type, nil ones included
	holder []place // the struct values a field can be added to
	vals   []place // addressable values (fields and elements that are primitives, structs or arrays): what an interior pointer can point to
	frozen map[*gen.TD]bool
	n      int
}

func (s *sharer) scan() {
	s.srcs, s.all, s.holder, s.vals = nil, nil, nil, nil
	s.walk(s.c.T, s.c.Pre, nil)
}

func (s *sharer) walk(td *gen.TD, tv *gen.TV, steps []string) {
	if tv == nil || td == nil {
		return
	}
	sh := td.Shape()
	here := place{steps: append([]string{}, steps...), td: td, tv: tv}
	if k := sh.Kind; len(steps) > 0 && !strings.ContainsAny(strings.Join(steps, " "), "~k") && (k == "struct" || k == "array" || (sh.IsLeaf() && k != "regexp")) {
		// (map entries and values held by interfaces have no address)
		s.vals = append(s.vals, here)
	}
	switch sh.Kind {
	case "iface":
		if isDynTV(tv) && int(tv.U) < len(s.c.Dyn) {
			s.walk(s.c.Dyn[tv.U], tv.Elems[0], withStep(steps, "~"))
		}
	case "regexp":
		s.all = append(s.all, here)
		if !tv.Nil {
			s.srcs = append(s.srcs, here)
		}
	case "ptr":
		s.all = append(s.all, here)
		if !tv.Nil && len(tv.Elems) == 1 {
			s.srcs = append(s.srcs, here)
			s.walk(sh.Elem, tv.Elems[0], withStep(steps, "*"))
		}
	case "slice", "array":
		if sh.Kind == "slice" {
			s.all = append(s.all, here)
			if tv.Nil {
				return
			}
			s.srcs = append(s.srcs, here)
		}
		for i, e := range tv.Elems {
			if sh.Kind == "array" && i >= sh.N {
				break
			}
			s.walk(sh.Elem, e, withStep(steps, "i"+strconv.Itoa(i)))
		}
	case "map":
		s.all = append(s.all, here)
		if tv.Nil {
			return
		}
		s.srcs = append(s.srcs, here)
		for i, k := range tv.Keys {
			if i < len(tv.Elems) {
				s.walk(sh.Elem, tv.Elems[i], withStep(steps, "k"+k))
			}
		}
	case "struct":
		if td.Kind == "struct" && inlineCollField(td) == nil {
			s.holder = append(s.holder, here)
		}
		for i := range sh.Fields {
			if f := &sh.Fields[i]; !f.Ignore && !f.Unexp {
				s.walk(f.T, elemTV(tv, i), withStep(steps, "f"+strconv.Itoa(i)))
			}
		}
	}
}

func tdNodes(td *gen.TD, into map[*gen.TD]bool) {
	if td == nil {
		return
	}
	into[td] = true
	tdNodes(td.Elem, into)
	for i := range td.Fields {
		tdNodes(td.Fields[i].T, into)
	}
}

// pickHolder draws the struct value that gets the new field: the struct
// enclosing the source (sibling fields) or any other one. Not a struct inside
// the shared object (the object would contain itself) nor one whose type is
// part of a type shared already (the types of the places must stay identical).
func (s *sharer) pickHolder(src place) (place, bool) {
	inside := map[*gen.TD]bool{}
	tdNodes(src.td, inside)
	var cands []place
	nearest := -1
	for _, h := range s.holder {
		if s.frozen[h.td] || inside[h.td] || hasStepPrefix(h.steps, src.steps) {
			continue
		}
		if hasStepPrefix(src.steps, h.steps) && (nearest < 0 || len(h.steps) > len(cands[nearest].steps)) {
			nearest = len(cands)
		}
		cands = append(cands, h)
	}
	if len(cands) == 0 {
		return place{}, false
	}
	if nearest >= 0 && rapid.Bool().Draw(s.t, "sibling") {
		return cands[nearest], true
	}
	return cands[rapid.IntRange(0, len(cands)-1).Draw(s.t, "holder")], true
}

// addField appends a field of type ft holding ftv to the struct value h and
// returns the path of the new field. Most new fields carry validators of their
// own.
func (s *sharer) addField(h place, ft *gen.TD, ftv *gen.TV) []string {
	s.n++
	f := gen.FD{Name: fmt.Sprintf("S%d", s.n), Tag: fmt.Sprintf("s%d", s.n), T: ft}
	if cands, numKind, _ := tagCandidates(ft); len(cands) > 0 && rapid.IntRange(0, 5).Draw(s.t, "stag") != 0 {
		f.Validate = genTag(s.t, cands, numKind)
		if rapid.IntRange(0, 3).Draw(s.t, "ssecond") == 0 {
			if second := genTag(s.t, cands, numKind); tagName(second) != tagName(f.Validate) {
				f.Validate += "," + second
			}
		}
	}
	h.td.Fields = append(h.td.Fields, f)
	idx := len(h.td.Fields) - 1
	for len(h.tv.Elems) < idx {
		h.tv.Elems = append(h.tv.Elems, nil)
	}
	h.tv.Elems = append(h.tv.Elems[:idx], ftv)
	return withStep(h.steps, "f"+strconv.Itoa(idx))
}

var freshElemKinds = []string{"int", "dur", "float64", "uint16", "string", "int8", "named:int", "dur", "int64", "uint64", "float32"}

// freshSource adds a field holding a new non-nil pointer, map, slice or regular
// expression to a struct of the value.
func (s *sharer) freshSource() (place, bool) {
	var cands []place
	for _, h := range s.holder {
		if !s.frozen[h.td] {
			cands = append(cands, h)
		}
	}
	if len(cands) == 0 {
		return place{}, false
	}
	h := cands[0]
	if rapid.IntRange(0, 2).Draw(s.t, "fdeep") == 0 {
		h = cands[rapid.IntRange(0, len(cands)-1).Draw(s.t, "fholder")]
	}
	t := s.t
	leaf := func() *gen.TD { return &gen.TD{Kind: rapid.SampledFrom(freshElemKinds).Draw(t, "fleaf")} }
	var ft *gen.TD
	switch rapid.IntRange(0, 11).Draw(t, "fkind") {
	case 0, 1, 2, 3:
		ft = tdOf("ptr", leaf())
	case 4:
		ft = tdOf("ptr", &gen.TD{Kind: rapid.SampledFrom(catKinds).Draw(t, "fcat")})
	case 5:
		st := validatedElem(t)
		for st.Kind == "ptr" {
			st = st.Elem
		}
		assignTags(t, st, 0)
		ft = tdOf("ptr", st)
	case 6, 7:
		// (every second one of int: the named maps and lists of the catalogue are maps and lists of int)
		e := leaf()
		if rapid.Bool().Draw(t, "fint") {
			e = ptd("int")
		}
		ft = tdOf([]string{"map", "slice"}[rapid.IntRange(0, 1).Draw(t, "fms")], e)
	case 8:
		ft = tdOf(rapid.SampledFrom([]string{"slice", "map"}).Draw(t, "fcoll"), tdOf("ptr", leaf()))
	case 9:
		ft = ptd("regexp")
	case 10:
		ft = tdOf("ptr", tdOf("ptr", leaf()))
	default:
		ft = tdOf("ptr", tdOf(rapid.SampledFrom([]string{"slice", "map"}).Draw(t, "fpcoll"), leaf()))
	}
	ftv := gen.GenTV(t, s.cfg, ft, true)
	nonNil := func(td *gen.TD, tv *gen.TV) {
		if !tv.Nil {
			return
		}
		switch td.Shape().Kind {
		case "slice":
			*tv = gen.TV{Elems: []*gen.TV{}}
		case "map":
			*tv = gen.TV{Keys: []string{}, Elems: []*gen.TV{}}
		case "regexp":
			*tv = gen.TV{S: "a.*b$"}
		}
	}
	nonNil(ft, ftv)
	if ft.Kind == "ptr" && !ftv.Nil && len(ftv.Elems) == 1 {
		nonNil(ft.Elem, ftv.Elems[0])
	}
	steps := s.addField(h, ft, ftv)
	return place{steps: steps, td: ft, tv: ftv}, !ftv.Nil
}

func (s *sharer) dynIndex(td *gen.TD) int {
	js := tdJSON(td)
	for k, d := range s.c.Dyn {
		if tdJSON(d) == js {
			return k
		}
	}
	s.c.Dyn = append(s.c.Dyn, td)
	return len(s.c.Dyn) - 1
}

// underKey names the representation of a shareable type up to type names: Go
// converts between types with the same key without copying the object.
func underKey(td *gen.TD) (string, bool) {
	leafUnder := func(x *gen.TD) (string, bool) {
		sh := x.Shape()
		if !sh.IsLeaf() || sh.Kind == "regexp" {
			return "", false
		}
		if b := sh.Base(); b == "dur" {
			return "int64", true
		} else {
			return b, true
		}
	}
	switch sh := td.Shape(); sh.Kind {
	case "ptr":
		if td.Kind != "ptr" {
			return "", false
		}
		if u, ok := leafUnder(td.Elem); ok {
			return "ptr:" + u, true
		}
	case "map", "slice":
		// (the element types must be identical: map[string]int converts to a named map of int only)
		if _, plain := primTypesOf[sh.Elem.Kind]; plain {
			return sh.Kind + ":" + sh.Elem.Kind, true
		}
	}
	return "", false
}

var primTypesOf = func() map[string]bool {
	m := map[string]bool{}
	for _, k := range gen.PrimKinds {
		m[k] = true
	}
	return m
}()

// convertibles returns the types that differ from td in name only.
func convertibles(td *gen.TD) []*gen.TD {
	key, ok := underKey(td)
	if !ok {
		return nil
	}
	var cands []*gen.TD
	add := func(c *gen.TD) {
		if k, ok := underKey(c); ok && k == key && tdJSON(c) != tdJSON(td) {
			cands = append(cands, c)
		}
	}
	if strings.HasPrefix(key, "ptr:") {
		for _, k := range gen.PrimKinds {
			add(tdOf("ptr", ptd(k)))
		}
		for _, k := range gen.NamedKinds {
			if k != "named:string" {
				add(tdOf("ptr", ptd(k)))
			}
		}
		add(tdOf("ptr", ptd("dur")))
		for _, k := range catKinds {
			add(tdOf("ptr", ptd(k)))
		}
	} else {
		kind, elem, _ := strings.Cut(key, ":")
		add(tdOf(kind, ptd(elem)))
		for _, k := range catKinds {
			add(ptd(k))
		}
	}
	return cands
}

// link stores one object of the pre-filled value at a second place.
func (s *sharer) link() bool {
	t := s.t
	s.scan()
	mode := rapid.IntRange(0, 15).Draw(t, "mode")
	if mode >= 14 && len(s.vals) > 0 {
		// an interior pointer: a new pointer field that points to a field / element of the value itself
		src := s.vals[rapid.IntRange(0, len(s.vals)-1).Draw(t, "val")]
		if h, ok := s.pickHolder(src); ok {
			clone := cloneTD(src.td)
			to := s.addField(h, tdOf("ptr", clone), &gen.TV{Elems: []*gen.TV{cloneTV(src.tv)}})
			tdNodes(src.td, s.frozen)
			tdNodes(clone, s.frozen)
			s.c.Alias = append(s.c.Alias, aliasLink{From: src.steps, To: to, Addr: true})
			return true
		}
	}
	var src place
	ok := false
	if len(s.srcs) == 0 || rapid.IntRange(0, 2).Draw(t, "fresh") == 0 {
		src, ok = s.freshSource()
		if ok {
			s.scan()
		}
	}
	if !ok {
		if len(s.srcs) == 0 {
			return false
		}
		src = s.srcs[rapid.IntRange(0, len(s.srcs)-1).Draw(t, "src")]
	}
	usedBefore := func(steps []string) bool {
		for _, l := range s.c.Alias {
			if hasStepPrefix(l.From, steps) || hasStepPrefix(l.To, steps) {
				return true
			}
		}
		return false
	}
	insideShared := func(steps []string) bool {
		for _, l := range s.c.Alias {
			if hasStepPrefix(steps, l.From) || hasStepPrefix(steps, l.To) {
				return true
			}
		}
		return false
	}
	h, haveHolder := s.pickHolder(src)
	if mode == 13 && len(src.steps) > 0 {
		// one more element / entry of the collection the object is an element of
		parent := src.steps[:len(src.steps)-1]
		if _, ptd, ptv, ok := s.c.follow(parent); ok && ptv != nil && !ptv.Nil && !insideShared(parent) && (ptd.Shape().Kind == "slice" || ptd.Shape().Kind == "map") {
			var step string
			if ptd.Shape().Kind == "slice" {
				step = "i" + strconv.Itoa(len(ptv.Elems))
			} else {
				key := "n"
				for entryTV(ptv, key) != nil {
					key += "n"
				}
				ptv.Keys = append(ptv.Keys, key)
				step = "k" + key
			}
			ptv.Elems = append(ptv.Elems, cloneTV(src.tv))
			tdNodes(ptd, s.frozen)
			s.c.Alias = append(s.c.Alias, aliasLink{From: src.steps, To: withStep(parent, step)})
			return true
		}
		mode = 9
	}
	if mode == 9 || mode == 10 || !haveHolder {
		// a place of the same type that exists already (two elements of one collection, two fields of one type, ...)
		srcT := src.td.Type()
		var partners []place
		for _, p := range s.all {
			if p.tv == src.tv || hasStepPrefix(p.steps, src.steps) || hasStepPrefix(src.steps, p.steps) || usedBefore(p.steps) || p.td.Type() != srcT {
				continue
			}
			partners = append(partners, p)
		}
		if len(partners) > 0 {
			p := partners[rapid.IntRange(0, len(partners)-1).Draw(t, "partner")]
			*p.tv = *cloneTV(src.tv)
			tdNodes(src.td, s.frozen)
			tdNodes(p.td, s.frozen)
			s.c.Alias = append(s.c.Alias, aliasLink{From: src.steps, To: p.steps})
			return true
		}
		mode = 0
	}
	if !haveHolder {
		return false
	}
	clone := cloneTD(src.td)
	if mode == 11 || mode == 12 {
		// the same object under a type that differs in name only: plain / named primitive / catalogue type with
		// Validate() behind the pointer, plain / named map or list
		if cands := convertibles(src.td); len(cands) > 0 {
			clone = cands[rapid.IntRange(0, len(cands)-1).Draw(t, "conv")]
		}
		mode = 0
	}
	var to []string
	var more [][]string
	switch {
	case mode <= 3:
		// a field of the same type
		to = s.addField(h, clone, cloneTV(src.tv))
	case mode <= 5:
		// an element / entry of a new collection field (the other elements hold copies: same content, other object)
		kind := rapid.SampledFrom([]string{"slice", "map", "array"}).Draw(t, "ckind")
		n := rapid.IntRange(1, 2).Draw(t, "cn")
		ft := &gen.TD{Kind: kind, Elem: clone}
		ftv := &gen.TV{Elems: []*gen.TV{}}
		keys := []string{"k", "j"}
		for i := 0; i < n; i++ {
			ftv.Elems = append(ftv.Elems, cloneTV(src.tv))
			if kind == "map" {
				ftv.Keys = append(ftv.Keys, keys[i])
			}
		}
		if kind == "array" {
			ft.N = n
		}
		step := func(i int) string {
			if kind == "map" {
				return "k" + keys[i]
			}
			return "i" + strconv.Itoa(i)
		}
		fsteps := s.addField(h, ft, ftv)
		j := rapid.IntRange(0, n-1).Draw(t, "cj")
		to = withStep(fsteps, step(j))
		if n == 2 && rapid.IntRange(0, 2).Draw(t, "cboth") == 0 {
			more = append(more, withStep(fsteps, step(1-j)))
		}
	case mode <= 7:
		// an interface{} field (or an element of []interface{} / map[string]interface{}) holding the object
		k := s.dynIndex(clone)
		clone = s.c.Dyn[k]
		switch rapid.IntRange(0, 3).Draw(t, "ikind") {
		case 0:
			fsteps := s.addField(h, tdOf("slice", ifc()), &gen.TV{Elems: []*gen.TV{dynTV(k, cloneTV(src.tv))}})
			to = withStep(fsteps, "i0")
		case 1:
			fsteps := s.addField(h, tdOf("map", ifc()), &gen.TV{Keys: []string{"k"}, Elems: []*gen.TV{dynTV(k, cloneTV(src.tv))}})
			to = withStep(fsteps, "kk")
		default:
			to = s.addField(h, ifc(), dynTV(k, cloneTV(src.tv)))
		}
	default:
		// the pointee of a further pointer
		if src.td.Shape().Kind == "regexp" || (src.td.Kind == "ptr" && src.td.Elem.Kind == "ptr") {
			to = s.addField(h, clone, cloneTV(src.tv))
		} else {
			fsteps := s.addField(h, tdOf("ptr", clone), &gen.TV{Elems: []*gen.TV{cloneTV(src.tv)}})
			to = withStep(fsteps, "*")
		}
	}
	tdNodes(src.td, s.frozen)
	tdNodes(clone, s.frozen)
	s.c.Alias = append(s.c.Alias, aliasLink{From: src.steps, To: to})
	for _, m := range more {
		s.c.Alias = append(s.c.Alias, aliasLink{From: src.steps, To: m})
	}
	return true
}

// shareObjects is the hook of the case generator: it runs after type and
// pre-filled value are drawn and before the configuration is written.
func shareObjects(t *rapid.T, c *Case, cfg *gen.TDCfg) {
	if c.Pre == nil {
		return
	}
	s := &sharer{t: t, c: c, cfg: cfg, frozen: map[*gen.TD]bool{}}
	n := rapid.SampledFrom([]int{1, 1, 1, 2, 2, 3}).Draw(t, "nlinks")
	for i := 0; i < n; i++ {
		before := len(c.Alias)
		if !s.link() {
			break
		}
		// never a cycle, never a link the value does not take
		p := c.T.New(c.Pre)
		if len(c.Dyn) > 0 {
			c.fill(c.T, p.Elem(), c.Pre, false)
		}
		if err := applyAlias(p.Elem(), c.Alias); err != nil || cyclic(p.Elem()) {
			c.Alias = c.Alias[:before]
			break
		}
	}
}

// unmention removes the setting of a place from the configuration (where the
// way to it is written literally).
func (c *Case) unmention(steps []string) {
	path, _, _, ok := c.follow(steps)
	if !ok || len(path) == 0 {
		return
	}
	n := c.Cfg
	for _, seg := range path[:len(path)-1] {
		if n == nil {
			return
		}
		switch n.K {
		case "obj":
			n = n.Get(seg)
		case "list":
			i, err := strconv.Atoi(seg)
			if err != nil || i < 0 || i >= len(n.Vals) {
				return
			}
			n = n.Vals[i]
		default:
			return
		}
	}
	if n == nil || n.K != "obj" {
		return
	}
	last := path[len(path)-1]
	for i, k := range n.Keys {
		if k == last {
			n.Keys = append(append([]string{}, n.Keys[:i]...), n.Keys[i+1:]...)
			n.Vals = append(append([]*gen.Tree{}, n.Vals[:i]...), n.Vals[i+1:]...)
			return
		}
	}
}

func genShared(t *rapid.T) Case {
	c := genCaseWith(t, shareObjects)
	// the configuration mentions about half of the fields; in 2 cases of 3 the settings of both places of a link, or
	// of one of them, are taken out again
	switch rapid.IntRange(0, 2).Draw(t, "unmention") {
	case 1:
		for _, l := range c.Alias {
			c.unmention(l.From)
			c.unmention(l.To)
		}
	case 2:
		for _, l := range c.Alias {
			if rapid.Bool().Draw(t, "side") {
				c.unmention(l.From)
			} else {
				c.unmention(l.To)
			}
		}
	}
	return c
}

var subShared = runlog.Register(&runlog.Sub[Case]{
	Name: "shared-prefill",
	Rule: "a case of twin-differential (same type generator, catalogue, tags, policies, VarExp, interfaces; 1 in 12 a collection target) whose pre-filled value (never the zero value) is a GRAPH: 1 to 3 times (1 in half of the cases) an object of the pre-filled value is stored at a second place, and the case carries the links (from, to) that newValue applies to the real and to the twin target after building them from the tree. The shared object is a non-nil pointer (to a primitive, duration, named or catalogue type, struct, collection, pointer), map, slice or *regexp.Regexp found anywhere in the pre-filled value - fields, elements, entries, pointees, typed values held by interfaces - or, in 1 link of 3, a new field of such a type added to a struct of the value (empty maps and slices included); the second place is, by draw: a new field of the same type in the enclosing struct or in any other struct of the value (nested, behind pointers, inside collections, inline, inside interface-held values); an element / entry of a new slice, array or map field whose other element holds a COPY (same content, other object), sometimes both elements; a new interface{} field or an element of a new []interface{} / map[string]interface{} field holding the object (its type joins the dynamic types of the case); the pointee of a new pointer field (**T); a place of the same type that exists already (two fields, two elements of one collection); one more element / entry of the collection the object is an element of; a new field whose type differs in name only - Go converts *int to *NamedInt or to a pointer to a catalogue type with Validate(), *int64 to *time.Duration, map[string]int / []int to a named map / list with Validate() or InitDefaults without copying, so one object is judged by tags at one place and by Validate() at the other -; and in 1 link of 8 an INTERIOR pointer: a new pointer field that points to a primitive, struct or array field / element of the value itself. Most new fields carry validators of their own (5 in 6; drawn like all tags), so the places of one object carry different validators. Cyclic values are never built (the unchanged library does not terminate on them) and the generator checks every link against the built value. The configuration is written after the links (settings for any place, explicit nil included); in a third of the cases the settings of both places of every link are taken out again, in another third those of one place. Oracle of twin-differential, which decides every place on its own: the reference validators walk the value R of the twin target (same links) as a tree, so every place's validators apply to the value found there after Unpack; one rejects => Unpack fails naming that field, all accept => Unpack succeeds with a result equal to R. Reading decision for objects the code changes in place (it merges settings into a struct or array behind a non-nil pointer and into a map in place - a nil map behind a pointer becomes an empty one -, rebuilds a struct in a non-pointer field and initialises a map with InitDefaults whenever the field comes up, so the pointee of an interior pointer changes too): such an object has no single value for its other places - the code judges each place in the state the object has when the field comes up, R shows the final state only. If one of the places of such an object (or of a link touching it) has a setting or holds a type with InitDefaults, the validators at and below its places are not decisive (either verdict) and a failure naming a path at or below such a place, or below a setting its references lead to, is accepted; all other places, and all objects a setting only replaces at its own place (pointers to primitives and durations, regular expressions, lists of primitives) or none of whose places has a setting, are decided strictly. Classes: what is shared, how the places relate, which places have settings, and `the validators of one place reject the object, those of the other place accept it` (with `no place has a setting`: the class in which skipping the validators of a later place of an object seen before shows). Non-trivial and distinct as in twin-differential (links included in the hash).",
	Gen:  genShared,
	Run:  runCase,
})

func TestSharedPrefill(t *testing.T) { subShared.Check(t, 60000, 300000) }

// ---------------------------------------------------------------------------
// The alias grid: every kind of shareable object x every relation of its two
// places x which place's validators reject it x which place has a setting. It
// makes sure that every combination is exercised in every run with the
// rejection standing alone (nothing else in the type can reject), whatever the
// random search draws; the oracle is the one of the random search.

type aliasSrc struct {
	name           string
	td             func() *gen.TD
	tv             func() *gen.TV
	accept, reject string    // a tag the shared default satisfies ("" = no tag), one it breaks
	good           *gen.Tree // a setting the rejecting tag accepts
	conv           *gen.TD   // the type of the place B if it differs from the type of A in name only (B then has no tag: its Validate() rejects)
}

func aliasSources() []aliasSrc {
	sec := int64(1000000000)
	p := func(k string) func() *gen.TD { return func() *gen.TD { return tdOf("ptr", ptd(k)) } }
	return []aliasSrc{
		{"*int", p("int"), func() *gen.TV { return tvPtr(tvI(5)) }, "min=1", "min=10", num(20), nil},
		{"*time.Duration", p("dur"), func() *gen.TV { return tvPtr(tvI(5 * sec)) }, "min=1s", "min=10s", gen.Str("20s"), nil},
		{"*float64", p("float64"), func() *gen.TV { return tvPtr(&gen.TV{F: "0x1.4p+01"}) }, "positive", "max=1.5", gen.Float(1), nil},
		{"*string", p("string"), func() *gen.TV { return tvPtr(&gen.TV{}) }, "", "required", gen.Str("x"), nil},
		{"*uint16", p("uint16"), func() *gen.TV { return tvPtr(&gen.TV{}) }, "max=3", "nonzero", num(2), nil},
		{"**int", func() *gen.TD { return tdOf("ptr", tdOf("ptr", ptd("int"))) }, func() *gen.TV { return tvPtr(tvPtr(tvI(5))) }, "min=1", "min=10", num(20), nil},
		{"*regexp.Regexp", func() *gen.TD { return ptd("regexp") }, func() *gen.TV { return &gen.TV{S: ""} }, "", "nonzero", gen.Str("a+"), nil},
		{"empty map", func() *gen.TD { return tdOf("map", ptd("int")) }, func() *gen.TV { return &gen.TV{Keys: []string{}, Elems: []*gen.TV{}} }, "", "required", objOf("k", num(1)), nil},
		{"empty slice", func() *gen.TD { return tdOf("slice", ptd("string")) }, func() *gen.TV { return tvS() }, "", "nonzero", gen.List(gen.Str("x")), nil},
		{"pointer to an empty slice", func() *gen.TD { return tdOf("ptr", tdOf("slice", ptd("string"))) }, func() *gen.TV { return tvPtr(tvS()) }, "", "required", gen.List(gen.Str("x")), nil},
		// one object under two types that differ in name only: a plain type with tags at A, a catalogue type with Validate() at B
		{"*int seen as *named int with Validate() (value receiver)", p("int"), func() *gen.TV { return tvPtr(tvI(-1)) }, "max=3", "", num(1), tdOf("ptr", ptd("cat:c04_vi"))},
		{"*int seen as *named int with Validate() (pointer receiver)", p("int"), func() *gen.TV { return tvPtr(tvI(-1)) }, "max=3", "", num(1), tdOf("ptr", ptd("cat:c04_pi"))},
		{"*int64 seen as *time.Duration", p("int64"), func() *gen.TV { return tvPtr(tvI(5 * sec)) }, "min=1", "max=1s", gen.Str("1s"), tdOf("ptr", ptd("dur"))},
		{"[]int seen as a named list with Validate()", func() *gen.TD { return tdOf("slice", ptd("int")) }, func() *gen.TV { return tvS(tvI(-1)) }, "required", "", gen.List(num(1)), ptd("cat:c04_pl")},
		{"map[string]int seen as a named map with Validate()", func() *gen.TD { return tdOf("map", ptd("int")) }, func() *gen.TV { return tvMap("k", tvI(-1)) }, "required", "", objOf("k", num(1)), ptd("cat:c04_vm")},
	}
}

// aliasPlc places the object at A and B. steps: the paths of the two places;
// cfgA / cfgB wrap a setting for the place into the top-level configuration;
// tagA reports whether the place A can carry a tag of its own.
type aliasPlc struct {
	name  string
	build func(ta, tb *gen.TD, va, vb *gen.TV, tagA, tagB string) (T *gen.TD, pre *gen.TV, a, b []string, cfgA, cfgB func(*gen.Tree) *gen.Tree, dyn []*gen.TD)
	tagA  bool
	iface bool // A is an interface holding the object: the link goes from B to A
}

func aliasPlacements() []aliasPlc {
	z := func() gen.FD { return gen.FD{Name: "Z", Tag: "z", T: ptd("int")} }
	fa := func(t *gen.TD, tag string) gen.FD { return gen.FD{Name: "A", Tag: "a", Validate: tag, T: t} }
	fb := func(t *gen.TD, tag string) gen.FD { return gen.FD{Name: "B", Tag: "b", Validate: tag, T: t} }
	st := func(fs ...gen.FD) *gen.TD { return &gen.TD{Kind: "struct", Fields: fs} }
	top := func(k string) func(*gen.Tree) *gen.Tree { return func(v *gen.Tree) *gen.Tree { return objOf(k, v) } }
	in := func(k1, k2 string) func(*gen.Tree) *gen.Tree {
		return func(v *gen.Tree) *gen.Tree { return objOf(k1, objOf(k2, v)) }
	}
	type bf = func(ta, tb *gen.TD, va, vb *gen.TV, tagA, tagB string) (*gen.TD, *gen.TV, []string, []string, func(*gen.Tree) *gen.Tree, func(*gen.Tree) *gen.Tree, []*gen.TD)
	return []aliasPlc{
		{"two fields of one struct", bf(func(ta, tb *gen.TD, va, vb *gen.TV, tagA, tagB string) (*gen.TD, *gen.TV, []string, []string, func(*gen.Tree) *gen.Tree, func(*gen.Tree) *gen.Tree, []*gen.TD) {
			return st(z(), fa(ta, tagA), fb(tb, tagB)), tvS(tvI(0), va, vb), []string{"f1"}, []string{"f2"}, top("a"), top("b"), nil
		}), true, false},
		{"a field and a field of a nested struct declared after it", bf(func(ta, tb *gen.TD, va, vb *gen.TV, tagA, tagB string) (*gen.TD, *gen.TV, []string, []string, func(*gen.Tree) *gen.Tree, func(*gen.Tree) *gen.Tree, []*gen.TD) {
			return st(z(), fa(ta, tagA), gen.FD{Name: "N", Tag: "n", T: st(fb(tb, tagB))}), tvS(tvI(0), va, tvS(vb)), []string{"f1"}, []string{"f2", "f0"}, top("a"), in("n", "b"), nil
		}), true, false},
		{"a field of a nested struct and a field declared after it", bf(func(ta, tb *gen.TD, va, vb *gen.TV, tagA, tagB string) (*gen.TD, *gen.TV, []string, []string, func(*gen.Tree) *gen.Tree, func(*gen.Tree) *gen.Tree, []*gen.TD) {
			return st(z(), gen.FD{Name: "N", Tag: "n", T: st(fa(ta, tagA))}, fb(tb, tagB)), tvS(tvI(0), tvS(va), vb), []string{"f1", "f0"}, []string{"f2"}, in("n", "a"), top("b"), nil
		}), true, false},
		{"a field and a field of a struct behind a pointer", bf(func(ta, tb *gen.TD, va, vb *gen.TV, tagA, tagB string) (*gen.TD, *gen.TV, []string, []string, func(*gen.Tree) *gen.Tree, func(*gen.Tree) *gen.Tree, []*gen.TD) {
			return st(z(), fa(ta, tagA), gen.FD{Name: "N", Tag: "n", T: tdOf("ptr", st(fb(tb, tagB)))}), tvS(tvI(0), va, tvPtr(tvS(vb))), []string{"f1"}, []string{"f2", "*", "f0"}, top("a"), in("n", "b"), nil
		}), true, false},
		{"a field of an inline struct and a field", bf(func(ta, tb *gen.TD, va, vb *gen.TV, tagA, tagB string) (*gen.TD, *gen.TV, []string, []string, func(*gen.Tree) *gen.Tree, func(*gen.Tree) *gen.Tree, []*gen.TD) {
			return st(z(), gen.FD{Name: "N", Inline: true, T: st(fa(ta, tagA))}, fb(tb, tagB)), tvS(tvI(0), tvS(va), vb), []string{"f1", "f0"}, []string{"f2"}, top("a"), top("b"), nil
		}), true, false},
		{"a field of a struct in a list and a field", bf(func(ta, tb *gen.TD, va, vb *gen.TV, tagA, tagB string) (*gen.TD, *gen.TV, []string, []string, func(*gen.Tree) *gen.Tree, func(*gen.Tree) *gen.Tree, []*gen.TD) {
			return st(z(), gen.FD{Name: "L", Tag: "l", T: tdOf("slice", st(fa(ta, tagA)))}, fb(tb, tagB)), tvS(tvI(0), tvS(tvS(va)), vb), []string{"f1", "i0", "f0"}, []string{"f2"},
				func(v *gen.Tree) *gen.Tree { return objOf("l", gen.List(objOf("a", v))) }, top("b"), nil
		}), true, false},
		{"a list element and a field", bf(func(ta, tb *gen.TD, va, vb *gen.TV, tagA, tagB string) (*gen.TD, *gen.TV, []string, []string, func(*gen.Tree) *gen.Tree, func(*gen.Tree) *gen.Tree, []*gen.TD) {
			return st(z(), fa(tdOf("slice", ta), ""), fb(tb, tagB)), tvS(tvI(0), tvS(va), vb), []string{"f1", "i0"}, []string{"f2"}, func(v *gen.Tree) *gen.Tree { return objOf("a", gen.List(v)) }, top("b"), nil
		}), false, false},
		{"an array element and a field", bf(func(ta, tb *gen.TD, va, vb *gen.TV, tagA, tagB string) (*gen.TD, *gen.TV, []string, []string, func(*gen.Tree) *gen.Tree, func(*gen.Tree) *gen.Tree, []*gen.TD) {
			return st(z(), fa(&gen.TD{Kind: "array", N: 1, Elem: ta}, ""), fb(tb, tagB)), tvS(tvI(0), tvS(va), vb), []string{"f1", "i0"}, []string{"f2"}, func(v *gen.Tree) *gen.Tree { return objOf("a", gen.List(v)) }, top("b"), nil
		}), false, false},
		{"a map entry and a field", bf(func(ta, tb *gen.TD, va, vb *gen.TV, tagA, tagB string) (*gen.TD, *gen.TV, []string, []string, func(*gen.Tree) *gen.Tree, func(*gen.Tree) *gen.Tree, []*gen.TD) {
			return st(z(), fa(tdOf("map", ta), ""), fb(tb, tagB)), tvS(tvI(0), tvMap("k", va), vb), []string{"f1", "kk"}, []string{"f2"}, func(v *gen.Tree) *gen.Tree { return objOf("a", objOf("k", v)) }, top("b"), nil
		}), false, false},
		{"a field and a list element declared after it", bf(func(ta, tb *gen.TD, va, vb *gen.TV, tagA, tagB string) (*gen.TD, *gen.TV, []string, []string, func(*gen.Tree) *gen.Tree, func(*gen.Tree) *gen.Tree, []*gen.TD) {
			// (the roles are exchanged: the tagged field comes first, the element - judged by its type only - second)
			return st(z(), fb(tb, tagB), fa(tdOf("slice", ta), "")), tvS(tvI(0), vb, tvS(va)), []string{"f2", "i0"}, []string{"f1"}, func(v *gen.Tree) *gen.Tree { return objOf("a", gen.List(v)) }, top("b"), nil
		}), false, false},
		{"an interface{} field holding the object and a field", bf(func(ta, tb *gen.TD, va, vb *gen.TV, tagA, tagB string) (*gen.TD, *gen.TV, []string, []string, func(*gen.Tree) *gen.Tree, func(*gen.Tree) *gen.Tree, []*gen.TD) {
			return st(z(), fa(ifc(), tagA), fb(tb, tagB)), tvS(tvI(0), dynTV(0, va), vb), []string{"f1"}, []string{"f2"}, top("a"), top("b"), []*gen.TD{ta}
		}), true, true},
		{"an element of []interface{} holding the object and a field", bf(func(ta, tb *gen.TD, va, vb *gen.TV, tagA, tagB string) (*gen.TD, *gen.TV, []string, []string, func(*gen.Tree) *gen.Tree, func(*gen.Tree) *gen.Tree, []*gen.TD) {
			return st(z(), fa(tdOf("slice", ifc()), ""), fb(tb, tagB)), tvS(tvI(0), tvS(dynTV(0, va)), vb), []string{"f1", "i0"}, []string{"f2"}, func(v *gen.Tree) *gen.Tree { return objOf("a", gen.List(v)) }, top("b"), []*gen.TD{ta}
		}), false, true},
		{"the pointee of a further pointer and a field", bf(func(ta, tb *gen.TD, va, vb *gen.TV, tagA, tagB string) (*gen.TD, *gen.TV, []string, []string, func(*gen.Tree) *gen.Tree, func(*gen.Tree) *gen.Tree, []*gen.TD) {
			return st(z(), fa(tdOf("ptr", ta), tagA), fb(tb, tagB)), tvS(tvI(0), tvPtr(va), vb), []string{"f1", "*"}, []string{"f2"}, top("a"), top("b"), nil
		}), true, false},
	}
}

func enumAliasGrid(yield func(Case) bool) {
	for _, src := range aliasSources() {
		for _, pl := range aliasPlacements() {
			if pl.name == "the pointee of a further pointer and a field" && src.td().Shape().Kind != "ptr" {
				continue
			}
			// which place's validators reject: B only, A only (if A can carry a tag), none, B with no tag at A
			type tags struct{ a, b string }
			variants := []tags{{src.accept, src.reject}, {"", src.reject}, {src.accept, src.accept}}
			if pl.tagA && src.conv == nil {
				variants = append(variants, tags{src.reject, src.accept})
			}
			if src.conv != nil {
				// B is judged by the Validate() of its type
				variants = []tags{{src.accept, ""}, {"", ""}}
			}
			seen := map[tags]bool{}
			for _, tg := range variants {
				if !pl.tagA {
					tg.a = ""
				}
				if pl.iface && tg.a != "" && src.td().Shape().Kind != "ptr" {
					continue // (bounds on an interface{} field are generated for numbers only)
				}
				if seen[tg] {
					continue
				}
				seen[tg] = true
				for cfgv := 0; cfgv < 5; cfgv++ {
					ta, tb := src.td(), src.td()
					if src.conv != nil {
						tb = cloneTD(src.conv)
					}
					if pl.iface && src.conv != nil {
						continue
					}
					T, pre, a, b, cfgA, cfgB, dyn := pl.build(ta, tb, src.tv(), src.tv(), tg.a, tg.b)
					c := Case{T: T, Pre: pre, Dyn: dyn, Alias: []aliasLink{{From: a, To: b}}}
					if pl.iface {
						c.Alias = []aliasLink{{From: b, To: a}}
					}
					switch cfgv {
					case 0:
						c.Cfg = gen.Obj()
					case 1:
						c.Cfg = objOf("z", num(1))
					case 2:
						c.Cfg = cfgB(src.good.Clone()) // B overridden by a setting its validators accept
					case 3:
						c.Cfg = cfgA(src.good.Clone()) // A overridden, B keeps the shared default
					case 4:
						c.Cfg = cfgB(gen.Nil()) // an explicit nil counts as no setting
					}
					if !yield(c) {
						return
					}
				}
			}
		}
	}
}

var subAliasGrid = runlog.Register(&runlog.Sub[Case]{
	Name: "alias-grid",
	Rule: "deterministic cross product for the objects a setting replaces at its own place only, plus maps: 15 shared objects with a default that one tag accepts and another rejects (*int 5: min=1 / min=10; *time.Duration 5s: min=1s / min=10s; *float64 2.5: positive / max=1.5; *string \"\": - / required; *uint16 0: max=3 / nonzero; **int; *regexp.Regexp with empty source: - / nonzero; an empty map: - / required; an empty slice: - / nonzero; a pointer to an empty slice: - / required; and one object under two types that differ in name only, the plain type with a tag it satisfies at A and a type whose Validate() (value / pointer receiver) or tag rejects it at B: *int -1 as *named int, *int64 as *time.Duration, []int as a named list, map[string]int as a named map) x 13 relations of the two places A (visited first) and B (two fields of one struct; a field and a field of a nested struct, of a struct behind a pointer, of an inline struct, of a struct in a list, in either order of declaration; a list element, array element or map entry and a field, the field declared after or before the collection; an interface{} field or an element of []interface{} holding the object and a field; the pointee of a further pointer and a field) x which place's validators reject the shared default (B only with an accepting tag or no tag at A; A only; none) x configuration (empty; another field only; a setting B's validators accept for B; the same setting for A, B keeping the shared default; an explicit nil for B). Nothing else in the type can reject, so every rejection stands alone. Same oracle as shared-prefill (every place decided on its own). The enumeration is complete for this finite product.",
	Enum: enumAliasGrid,
	Run:  runCase,
})

func TestAliasGrid(t *testing.T) { subAliasGrid.Enumerate(t, true) }
