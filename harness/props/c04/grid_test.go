package c04

import (
	"testing"
	"time"

	"verif/harness/internal/gen"
	"verif/harness/internal/runlog"
)

// The placement grid: every kind of validator (tags of each documented kind,
// Validate() with value and pointer receiver, InitDefaults types) placed at
// every kind of position (direct, behind one or two pointers, in slices,
// arrays and maps, as pointer elements, behind pointers to collections, in
// inline and nested structs), with the deciding value coming from the
// pre-filled default, from the configuration (literally or through a
// reference) or from both, valid and invalid. It makes sure that every
// traversal path of the validators is exercised in every run, whatever the
// random search happens to draw; the oracle is the one of the random search.

type vsrc struct {
	name            string
	td              *gen.TD
	good, bad       *gen.TV   // pre-filled encodings (bad may be nil: no invalid pre-filled value exists)
	goodCfg, badCfg *gen.Tree // settings
}

func tvI(i int64) *gen.TV          { return &gen.TV{I: i} }
func tvS(elems ...*gen.TV) *gen.TV { return &gen.TV{Elems: elems} }
func tvPtr(e *gen.TV) *gen.TV {
	if e == nil {
		return &gen.TV{Nil: true}
	}
	return &gen.TV{Elems: []*gen.TV{e}}
}

func objOf(kv ...interface{}) *gen.Tree {
	o := gen.Obj()
	for i := 0; i+1 < len(kv); i += 2 {
		o.Put(kv[i].(string), kv[i+1].(*gen.Tree))
	}
	return o
}

func one(name, tag, validate string, t *gen.TD) *gen.TD {
	return &gen.TD{Kind: "struct", Fields: []gen.FD{{Name: name, Tag: tag, Validate: validate, T: t}}}
}

func validatorSources() []vsrc {
	sec := int64(time.Second)
	return []vsrc{
		{"tag min on int", one("X", "x", "min=1", ptd("int")), tvS(tvI(5)), tvS(tvI(0)), objOf("x", num(5)), objOf("x", num(0))},
		{"tag positive,max on int8", one("X", "x", "positive, max=42", ptd("int8")), tvS(tvI(42)), tvS(tvI(-1)), objOf("x", num(1)), objOf("x", num(100))},
		{"tag nonzero on uint", one("X", "x", "nonzero", ptd("uint16")), tvS(&gen.TV{U: 7}), tvS(&gen.TV{}), objOf("x", num(1)), objOf("x", num(0))},
		{"tag max on float", one("X", "x", "max=1.5", ptd("float64")), tvS(&gen.TV{F: "0x1.8p+00"}), tvS(&gen.TV{F: "0x1p+01"}), objOf("x", gen.Float(1.5)), objOf("x", gen.Float(1.75))},
		{"tag required on string", one("X", "x", "required", ptd("string")), tvS(&gen.TV{S: "a"}), tvS(&gen.TV{}), objOf("x", gen.Str("a")), objOf("x", gen.Str(""))},
		{"tag min on duration", one("X", "x", "min=1s", ptd("dur")), tvS(tvI(sec)), tvS(tvI(sec - 1)), objOf("x", gen.Str("1s")), objOf("x", gen.Str("999ms"))},
		{"tag max (seconds) on duration", one("X", "x", "max=10", ptd("dur")), tvS(tvI(10 * sec)), tvS(tvI(10*sec + 1)), objOf("x", num(10)), objOf("x", num(11))},
		{"tag min on *int", one("X", "x", "min=1", &gen.TD{Kind: "ptr", Elem: ptd("int")}), tvS(tvPtr(tvI(1))), tvS(tvPtr(tvI(0))), objOf("x", num(1)), objOf("x", num(0))},
		{"tag required on *int", one("X", "x", "required", &gen.TD{Kind: "ptr", Elem: ptd("int")}), tvS(tvPtr(tvI(1))), tvS(tvPtr(nil)), objOf("x", num(1)), objOf("x", gen.Nil())},
		{"tag nonzero on regexp", one("X", "x", "nonzero", ptd("regexp")), tvS(&gen.TV{S: "a+"}), tvS(&gen.TV{S: ""}), objOf("x", gen.Str("a+")), objOf("x", gen.Str(""))},
		{"tag required on []struct", one("X", "x", "required", &gen.TD{Kind: "slice", Elem: one("Y", "y", "", ptd("int"))}), tvS(tvS(tvS(tvI(0)))), tvS(tvS()), objOf("x", gen.List(objOf("y", num(1)))), objOf("x", gen.List())},
		{"tag nonzero on map of struct", one("X", "x", "nonzero", &gen.TD{Kind: "map", Elem: one("Y", "y", "", ptd("int"))}), tvS(&gen.TV{Keys: []string{"k"}, Elems: []*gen.TV{tvS(tvI(0))}}), tvS(&gen.TV{Keys: []string{}, Elems: []*gen.TV{}}), objOf("x", objOf("k", objOf("y", num(1)))), objOf("x", gen.Obj())},
		{"tag nonzero on *map", one("X", "x", "nonzero", tdOf("ptr", tdOf("map", ptd("int")))), tvS(tvPtr(&gen.TV{Keys: []string{"k"}, Elems: []*gen.TV{tvI(1)}})), tvS(tvPtr(&gen.TV{Keys: []string{}, Elems: []*gen.TV{}})), objOf("x", objOf("k", num(1))), objOf("x", gen.Obj())},
		{"tag required on *[]struct", one("X", "x", "required", tdOf("ptr", tdOf("slice", one("Y", "y", "", ptd("int"))))), tvS(tvPtr(tvS(tvS(tvI(0))))), tvS(tvPtr(tvS())), objOf("x", gen.List(objOf("y", num(1)))), objOf("x", gen.List())},
		{"tag required on [1]struct", one("X", "x", "required", &gen.TD{Kind: "array", N: 1, Elem: one("Y", "y", "", ptd("int"))}), tvS(tvS(tvS(tvI(0)))), nil, objOf("x", gen.List(objOf("y", num(1)))), nil},
		{"Validate (value receiver)", ptd("cat:c04_vs"), tvS(tvI(1), &gen.TV{}), tvS(tvI(-1), &gen.TV{}), objOf("x", num(1)), objOf("x", num(-1))},
		{"Validate (pointer receiver)", ptd("cat:c04_pv"), tvS(tvI(1), tvI(0)), tvS(tvI(13), tvI(0)), objOf("n", num(1)), objOf("d", gen.Str("-1s"))},
		{"tag inside a Validate type", ptd("cat:c04_pv"), tvS(tvI(100), tvI(0)), tvS(tvI(101), tvI(0)), objOf("n", num(100)), objOf("n", num(101))},
		{"Validate on named int", ptd("cat:c04_vi"), tvI(1), tvI(-1), num(1), num(-1)},
		{"Validate on named slice", ptd("cat:c04_vl"), tvS(tvI(1)), tvS(tvI(1), tvI(-1)), gen.List(num(1)), gen.List(num(1), num(-5))},
		{"InitDefaults + tags", ptd("cat:c04_ds"), tvS(tvI(1), &gen.TV{S: "p"}), tvS(tvI(0), &gen.TV{}), objOf("x", num(1)), objOf("y", gen.Str(""))},
		{"InitDefaults invalid + Validate", ptd("cat:c04_dv"), tvS(tvI(1), &gen.TV{Nil: true}), tvS(tvI(-5), &gen.TV{Nil: true}), objOf("x", num(1)), objOf("l", gen.List(num(1)))},
		{"InitDefaults + Validate on named int", ptd("cat:c04_ni"), tvI(1), tvI(-1), num(1), num(-1)},
		{"InitDefaults + Validate on named map", ptd("cat:c04_dm"), &gen.TV{Keys: []string{"k"}, Elems: []*gen.TV{tvI(1)}}, &gen.TV{Keys: []string{"k"}, Elems: []*gen.TV{tvI(-1)}}, objOf("j", num(1)), objOf("j", num(-1))},
		// InitDefaults installing one invalid value: "good" settings override it, "bad" ones set something else next to it
		// (pre-filled values are overwritten by InitDefaults or stand next to its entries)
		{"map InitDefaults inserts an entry failing the element's Validate", ptd("cat:c04_mi"), tvMap("k", tvI(1)), tvMap("k", tvI(-1)), objOf("dflt", num(1)), objOf("j", num(1))},
		{"map InitDefaults inserts a struct entry failing a tag", ptd("cat:c04_ms"), tvMap("k", tvS(tvI(1), &gen.TV{})), tvMap("k", tvS(tvI(0), &gen.TV{})), objOf("dflt", objOf("r", num(2))), objOf("j", objOf("r", num(2)))},
		{"map InitDefaults inserts a pointer entry failing a tag", ptd("cat:c04_mp"), tvMap("k", tvPtr(tvS(tvI(1), tvI(0)))), tvMap("k", tvPtr(tvS(tvI(101), tvI(0)))), objOf("dflt", objOf("n", num(2))), objOf("j", objOf("n", num(2)))},
		{"struct InitDefaults fills a list with an element failing Validate", ptd("cat:c04_dl"), tvS(&gen.TV{Nil: true}, tvI(0)), nil, objOf("l", gen.List(num(1), num(1))), objOf("l", gen.List(num(1)))},
		{"struct InitDefaults fills a map with an entry failing Validate", ptd("cat:c04_dk"), tvS(&gen.TV{Nil: true}, &gen.TV{}), nil, objOf("m", objOf("dflt", num(1))), objOf("m", objOf("j", num(1)))},
		{"struct InitDefaults installs a pointer to a value failing Validate", ptd("cat:c04_dp"), tvS(&gen.TV{Nil: true}, tvI(0)), nil, objOf("p", objOf("x", num(1))), objOf("p", objOf("s", gen.Str("a")))},
		{"struct InitDefaults sets a value failing its tag", ptd("cat:c04_dt"), tvS(tvI(1), &gen.TV{}), nil, objOf("x", num(1)), objOf("y", gen.Str("a"))},
		{"InitDefaults of a named int sets a value failing Validate", ptd("cat:c04_nj"), tvI(1), nil, num(1), num(-1)},
		// parameter syntax: fractional and negative plain numbers of seconds, integer literals in other bases, blanks
		// around '=', bounds beyond 2^53 (the invalid value is the nearest one on the wrong side of the bound)
		{"tag min (fractional seconds) on duration", one("X", "x", "min=0.5", ptd("dur")), tvS(tvI(sec / 2)), tvS(tvI(sec/2 - 1)), objOf("x", gen.Str("500ms")), objOf("x", gen.Str("100ms"))},
		{"tag max (negative fractional seconds) on duration", one("X", "x", "max=-0.5", ptd("dur")), tvS(tvI(-sec / 2)), tvS(tvI(-sec/2 + 1)), objOf("x", gen.Str("-1s")), objOf("x", gen.Str("-200ms"))},
		{"tag max (hexadecimal) on int", one("X", "x", "max=0x10", ptd("int")), tvS(tvI(16)), tvS(tvI(17)), objOf("x", num(16)), objOf("x", num(17))},
		{"tag min (octal, blanks) on uint", one("X", "x", "min = 017", ptd("uint")), tvS(&gen.TV{U: 15}), tvS(&gen.TV{U: 14}), objOf("x", num(15)), objOf("x", num(14))},
		{"tag max beyond 2^53 on int64", one("X", "x", "max=9007199254740992", ptd("int64")), tvS(tvI(9007199254740992)), tvS(tvI(9007199254740993)), objOf("x", num(9007199254740992)), objOf("x", num(9007199254740993))},
		// validate tags on inline fields: the setting of the struct is the list / object itself
		{"tag nonzero on inline []struct", oneInline("nonzero", tdOf("slice", one("Y", "y", "", ptd("int")))), tvS(tvS(tvS(tvI(0)))), tvS(tvS()), gen.List(objOf("y", num(1))), gen.List()},
		{"tag required on inline []string", oneInline("required", tdOf("slice", ptd("string"))), tvS(tvS(&gen.TV{S: "a"})), tvS(tvS()), gen.List(gen.Str("a")), gen.List()},
		{"tag required on inline [0]int", oneInline("required", &gen.TD{Kind: "array", N: 0, Elem: ptd("int")}), nil, tvS(tvS()), nil, gen.List()},
		{"tag nonzero on inline named slice with Validate", oneInline("nonzero", ptd("cat:c04_vl")), tvS(tvS(tvI(1))), tvS(tvS()), gen.List(num(1)), gen.List()},
		{"tag required on inline map of struct", oneInline("required", tdOf("map", one("Y", "y", "", ptd("int")))), tvS(tvMap("k", tvS(tvI(0)))), tvS(&gen.TV{Keys: []string{}, Elems: []*gen.TV{}}), objOf("k", objOf("y", num(1))), gen.Obj()},
		{"tag nonzero on inline map with InitDefaults", oneInline("nonzero", ptd("cat:c04_dm")), tvS(tvMap("k", tvI(1))), nil, objOf("k", num(1)), nil},
		// validate tags on fields of type interface{}: they apply to the value the interface holds (generic data here)
		{"tag nonzero on interface{}", one("X", "x", "nonzero", ifc()), tvS(&gen.TV{Tree: gen.Uint(5)}), tvS(&gen.TV{Tree: gen.Uint(0)}), objOf("x", num(5)), objOf("x", num(0))},
		{"tag required on interface{}", one("X", "x", "required", ifc()), tvS(&gen.TV{Tree: gen.Str("a")}), tvS(&gen.TV{Nil: true}), objOf("x", gen.Str("a")), objOf("x", gen.Str(""))},
		{"tag min on interface{}", one("X", "x", "min=1", ifc()), tvS(&gen.TV{Tree: gen.Int(1)}), tvS(&gen.TV{Tree: gen.Int(-1)}), objOf("x", num(1)), objOf("x", num(0))},
		// Validate() with pointer receiver on every underlying kind of a named type (the method is in the method set of
		// *T only), and with value receiver on the kinds not covered above
		{"Validate (pointer receiver) on named int", ptd("cat:c04_pi"), tvI(1), tvI(-1), num(1), num(-1)},
		{"Validate (pointer receiver) on named uint", ptd("cat:c04_pu"), &gen.TV{U: 7}, &gen.TV{U: 101}, num(100), num(101)},
		{"Validate (pointer receiver) on named float", ptd("cat:c04_pf"), &gen.TV{F: "0x1.8p+00"}, &gen.TV{F: "-0x1p-01"}, gen.Float(0.5), gen.Float(-0.5)},
		{"Validate (pointer receiver) on named string", ptd("cat:c04_ps"), &gen.TV{S: "x"}, &gen.TV{S: "bad"}, gen.Str("x y"), gen.Str("a")},
		{"Validate (pointer receiver) on named bool", ptd("cat:c04_pb"), &gen.TV{}, &gen.TV{B: true}, gen.Bool(false), gen.Bool(true)},
		{"Validate (pointer receiver) on named int64 derived from Duration", ptd("cat:c04_pd"), tvI(5), tvI(-5), num(2), num(-2)},
		{"Validate (pointer receiver) on named slice", ptd("cat:c04_pl"), tvS(tvI(1)), tvS(tvI(1), tvI(-1)), gen.List(num(1)), gen.List(num(1), num(-5))},
		{"Validate (pointer receiver) on named map", ptd("cat:c04_pm"), tvMap("k", tvI(1)), tvMap("k", tvI(-1)), objOf("j", num(1)), objOf("j", num(-1))},
		{"Validate (pointer receiver) on named array", ptd("cat:c04_pa"), tvS(tvI(1), tvI(1)), tvS(tvI(1), tvI(-1)), gen.List(num(1), num(2)), gen.List(num(1), num(-5))},
		{"Validate (value receiver) on named array", ptd("cat:c04_va"), tvS(tvI(1), tvI(1)), tvS(tvI(1), tvI(-1)), gen.List(num(1), num(2)), gen.List(num(1), num(-5))},
		{"Validate (value receiver) on named uint", ptd("cat:c04_vu"), &gen.TV{U: 7}, &gen.TV{U: 101}, num(100), num(101)},
		{"Validate (value receiver) on named float", ptd("cat:c04_vf"), &gen.TV{F: "0x1.8p+00"}, &gen.TV{F: "-0x1p-01"}, gen.Float(0.5), gen.Float(-0.5)},
		{"Validate (value receiver) on named string", ptd("cat:c04_vt"), &gen.TV{S: "x"}, &gen.TV{S: "bad"}, gen.Str("x y"), gen.Str("a")},
		{"Validate (value receiver) on named bool", ptd("cat:c04_vb"), &gen.TV{}, &gen.TV{B: true}, gen.Bool(false), gen.Bool(true)},
		{"Validate (value receiver) on named map", ptd("cat:c04_vm"), tvMap("k", tvI(1)), tvMap("k", tvI(-1)), objOf("j", num(1)), objOf("j", num(-1))},
		// InitDefaults (pointer receiver) on primitive kinds: invalid and valid defaults, either receiver of Validate()
		{"InitDefaults of a named string sets a value failing Validate (pointer receiver)", ptd("cat:c04_is"), &gen.TV{S: "x"}, &gen.TV{S: "a"}, gen.Str("x"), gen.Str("a")},
		{"InitDefaults of a named uint, Validate (value receiver)", ptd("cat:c04_iu"), &gen.TV{U: 1}, &gen.TV{U: 101}, num(1), num(101)},
		{"InitDefaults of a named float sets a value failing Validate (pointer receiver)", ptd("cat:c04_if"), &gen.TV{F: "0x1p+00"}, &gen.TV{F: "-0x1p+00"}, gen.Float(1.5), gen.Float(-2.25)},
		{"InitDefaults of a named bool sets a value failing Validate (value receiver)", ptd("cat:c04_ib"), &gen.TV{}, &gen.TV{B: true}, gen.Bool(false), gen.Bool(true)},
		{"struct InitDefaults sets a value failing Validate (both pointer receivers)", ptd("cat:c04_ip"), tvS(tvI(1), &gen.TV{}), tvS(tvI(-5), &gen.TV{}), objOf("x", num(1)), objOf("s", gen.Str("a"))},
		// collections of pointer-receiver validators installed by InitDefaults, one element invalid
		{"struct InitDefaults fills a list with an element failing Validate (pointer receiver)", ptd("cat:c04_dq"), tvS(&gen.TV{Nil: true}, tvI(0)), nil, objOf("l", gen.List(num(1), num(1))), objOf("l", gen.List(num(1)))},
		{"struct InitDefaults fills a map with an entry failing Validate (pointer receiver)", ptd("cat:c04_dr"), tvS(&gen.TV{Nil: true}, tvI(0)), nil, objOf("m", objOf("dflt", gen.Str("x"))), objOf("m", objOf("j", gen.Str("x")))},
		{"struct InitDefaults fills an array with an element failing Validate (pointer receiver)", ptd("cat:c04_da"), tvS(tvS(&gen.TV{U: 1}, &gen.TV{U: 1}), tvI(0)), nil, objOf("a", gen.List(num(1), num(1))), objOf("n", num(1))},
		{"map InitDefaults inserts an entry failing the element's Validate (pointer receiver)", ptd("cat:c04_mq"), tvMap("k", tvI(1)), tvMap("k", tvI(-1)), objOf("dflt", num(1)), objOf("j", num(1))},
		// InitDefaults storing ONE object at two places; the tag of the second place rejects it (the 'good' setting overrides
		// that place, the 'bad' one the other place)
		{"struct InitDefaults stores one *int in two fields with different bounds", ptd("cat:c04_sa"), tvS(tvPtr(tvI(1)), tvPtr(tvI(20))), nil, objOf("hard", num(20)), objOf("soft", num(3))},
		{"struct InitDefaults stores one *int as a list element and in a tagged field", ptd("cat:c04_se"), tvS(tvS(tvPtr(tvI(1))), tvPtr(tvI(20))), nil, objOf("hard", num(20)), objOf("all", gen.List(num(1)))},
		{"struct InitDefaults stores one *Duration as a map entry and in a tagged field", ptd("cat:c04_sk"), tvS(tvMap("k", tvPtr(tvI(sec))), tvPtr(tvI(sec))), nil, objOf("max", gen.Str("1s")), objOf("m", objOf("j", gen.Str("1s")))},
		{"struct InitDefaults stores one empty slice in two fields, the second required", ptd("cat:c04_sl"), tvS(tvS(&gen.TV{S: "x"}), tvS(&gen.TV{S: "x"})), nil, objOf("b", gen.List(gen.Str("x"))), objOf("a", gen.List(gen.Str("x")))},
		{"struct InitDefaults stores one empty map in two fields, the second required", ptd("cat:c04_sm"), tvS(tvMap("k", &gen.TV{S: "x"}), tvMap("k", &gen.TV{S: "x"})), nil, objOf("b", objOf("k", gen.Str("x"))), objOf("a", gen.Obj())},
		{"struct InitDefaults stores one *float64 behind a further pointer and in a tagged field", ptd("cat:c04_sp"), tvS(tvPtr(tvPtr(&gen.TV{F: "0x1p+00"})), tvPtr(&gen.TV{F: "0x1p+00"})), nil, objOf("max", gen.Float(1.5)), objOf("pp", gen.Float(1))},
	}
}

func tvMap(k string, v *gen.TV) *gen.TV { return &gen.TV{Keys: []string{k}, Elems: []*gen.TV{v}} }

// oneInline: struct { C T `config:",inline" validate:"..."` }
func oneInline(validate string, t *gen.TD) *gen.TD {
	return &gen.TD{Kind: "struct", Fields: []gen.FD{{Name: "C", Inline: true, Validate: validate, T: t}}}
}

// placement of the inner type I in the field "a" of the top-level struct
// (inline: the fields of I's holder appear at the top level).
type placement struct {
	name string
	typ  func(inner *gen.TD) *gen.TD
	coll string // "", "list", "array", "map"
	// single placements: wrap one value; collections: wrap the collection value
	pre func(v *gen.TV) *gen.TV
	cfg func(v *gen.Tree) *gen.Tree // the top-level configuration object holding the setting
	top bool                        // the placement is the Unpack target itself (a collection), not the field "a" of a struct
	// placements through an interface: the dynamic types of the pre-filled values the interfaces hold (Case.Dyn)
	dyn func(inner *gen.TD) []*gen.TD
}

func ifc() *gen.TD { return &gen.TD{Kind: "iface"} }

// held wraps a value as the payload of an interface whose dynamic type is Dyn[k].
func held(k int) func(v *gen.TV) *gen.TV {
	return func(v *gen.TV) *gen.TV {
		if v == nil {
			return nil
		}
		return dynTV(k, v)
	}
}

// heldPtr: the interface holds a pointer to the value (dynamic type Dyn[k] = *T).
func heldPtr(k int) func(v *gen.TV) *gen.TV {
	return func(v *gen.TV) *gen.TV {
		if v == nil {
			return nil
		}
		return dynTV(k, tvPtr(v))
	}
}

func ifacePlacements() []placement {
	self := func(i *gen.TD) []*gen.TD { return []*gen.TD{i} }
	ptrTo := func(i *gen.TD) []*gen.TD { return []*gen.TD{tdOf("ptr", i)} }
	toIfc := func(*gen.TD) *gen.TD { return ifc() }
	ident := func(v *gen.Tree) *gen.Tree { return v }
	holderJ := func() *gen.TD { return &gen.TD{Kind: "struct", Fields: []gen.FD{{Name: "B", Tag: "b", T: ifc()}}} }
	return []placement{
		{"interface{} holding T", toIfc, "", held(0), topA, false, self},
		{"interface{} holding *T", toIfc, "", heldPtr(0), topA, false, ptrTo},
		{"interface{} holding **T", toIfc, "", func(v *gen.TV) *gen.TV { return dynTV(0, tvPtr(tvPtr(v))) }, topA, false,
			func(i *gen.TD) []*gen.TD { return []*gen.TD{tdOf("ptr", tdOf("ptr", i))} }},
		{"[]interface{} holding T", func(*gen.TD) *gen.TD { return tdOf("slice", ifc()) }, "list", mapEach(held(0)), topA, false, self},
		{"[]interface{} holding *T", func(*gen.TD) *gen.TD { return tdOf("slice", ifc()) }, "list", mapEach(heldPtr(0)), topA, false, ptrTo},
		{"[2]interface{} holding *T", func(*gen.TD) *gen.TD { return arr2(ifc()) }, "array", mapEach(heldPtr(0)), topA, false, ptrTo},
		{"map[string]interface{} holding T", func(*gen.TD) *gen.TD { return tdOf("map", ifc()) }, "map", mapEach(held(0)), topA, false, self},
		{"map[string]interface{} holding *T", func(*gen.TD) *gen.TD { return tdOf("map", ifc()) }, "map", mapEach(heldPtr(0)), topA, false, ptrTo},
		{"interface{} holding []T", toIfc, "list", held(0), topA, false, func(i *gen.TD) []*gen.TD { return []*gen.TD{tdOf("slice", i)} }},
		{"interface{} holding map[string]T", toIfc, "map", held(0), topA, false, func(i *gen.TD) []*gen.TD { return []*gen.TD{tdOf("map", i)} }},
		{"interface{} holding map[string]interface{} holding *T", toIfc, "map", func(v *gen.TV) *gen.TV { return dynTV(0, mapEach(heldPtr(1))(v)) }, topA, false,
			func(i *gen.TD) []*gen.TD { return []*gen.TD{tdOf("map", ifc()), tdOf("ptr", i)} }},
		{"interface{} holding *struct with an interface{} field holding T", toIfc, "", func(v *gen.TV) *gen.TV { return dynTV(0, tvPtr(tvS(dynTV(1, v)))) },
			func(v *gen.Tree) *gen.Tree { return objOf("a", objOf("b", v)) }, false,
			func(i *gen.TD) []*gen.TD { return []*gen.TD{tdOf("ptr", holderJ()), i} }},
		{"inline map[string]interface{} holding *T", func(*gen.TD) *gen.TD { return oneInline("", tdOf("map", ifc())) }, "map",
			func(v *gen.TV) *gen.TV { return tvS(mapEach(heldPtr(0))(v)) }, topA, false, ptrTo},
		{"target map[string]interface{} holding T", func(*gen.TD) *gen.TD { return tdOf("map", ifc()) }, "map", mapEach(held(0)), ident, true, self},
		{"target []interface{} holding *T", func(*gen.TD) *gen.TD { return tdOf("slice", ifc()) }, "list", mapEach(heldPtr(0)), ident, true, ptrTo},
	}
}

func tdOf(kind string, elem *gen.TD) *gen.TD { return &gen.TD{Kind: kind, Elem: elem} }
func arr2(elem *gen.TD) *gen.TD              { return &gen.TD{Kind: "array", N: 2, Elem: elem} }
func same1(v *gen.TV) *gen.TV                { return v }
func topA(v *gen.Tree) *gen.Tree             { return objOf("a", v) }
func mapEach(f func(*gen.TV) *gen.TV) func(*gen.TV) *gen.TV {
	return func(v *gen.TV) *gen.TV {
		if v == nil || v.Nil {
			return v
		}
		c := *v
		c.Elems = nil
		for _, e := range v.Elems {
			c.Elems = append(c.Elems, f(e))
		}
		return &c
	}
}

func placements() []placement {
	holder := func(inline bool) func(inner *gen.TD) *gen.TD {
		return func(inner *gen.TD) *gen.TD {
			return &gen.TD{Kind: "struct", Fields: []gen.FD{{Name: "B", Tag: "b", T: inner}}}
		}
	}
	return []placement{
		{"direct", func(i *gen.TD) *gen.TD { return i }, "", same1, topA, false, nil},
		{"*T", func(i *gen.TD) *gen.TD { return tdOf("ptr", i) }, "", tvPtr, topA, false, nil},
		{"**T", func(i *gen.TD) *gen.TD { return tdOf("ptr", tdOf("ptr", i)) }, "", func(v *gen.TV) *gen.TV { return tvPtr(tvPtr(v)) }, topA, false, nil},
		{"nested struct", holder(false), "", func(v *gen.TV) *gen.TV { return tvS(v) }, func(v *gen.Tree) *gen.Tree { return objOf("a", objOf("b", v)) }, false, nil},
		{"*nested struct", func(i *gen.TD) *gen.TD { return tdOf("ptr", holder(false)(i)) }, "", func(v *gen.TV) *gen.TV { return tvPtr(tvS(v)) }, func(v *gen.Tree) *gen.Tree { return objOf("a", objOf("b", v)) }, false, nil},
		{"inline struct", holder(true), "", func(v *gen.TV) *gen.TV { return tvS(v) }, func(v *gen.Tree) *gen.Tree { return objOf("b", v) }, false, nil},
		{"[]T", func(i *gen.TD) *gen.TD { return tdOf("slice", i) }, "list", same1, topA, false, nil},
		{"[2]T", arr2, "array", same1, topA, false, nil},
		{"map[string]T", func(i *gen.TD) *gen.TD { return tdOf("map", i) }, "map", same1, topA, false, nil},
		{"[]*T", func(i *gen.TD) *gen.TD { return tdOf("slice", tdOf("ptr", i)) }, "list", mapEach(tvPtr), topA, false, nil},
		{"map[string]*T", func(i *gen.TD) *gen.TD { return tdOf("map", tdOf("ptr", i)) }, "map", mapEach(tvPtr), topA, false, nil},
		{"*[]T", func(i *gen.TD) *gen.TD { return tdOf("ptr", tdOf("slice", i)) }, "list", tvPtr, topA, false, nil},
		{"*map[string]T", func(i *gen.TD) *gen.TD { return tdOf("ptr", tdOf("map", i)) }, "map", tvPtr, topA, false, nil},
		{"*[2]T", func(i *gen.TD) *gen.TD { return tdOf("ptr", arr2(i)) }, "array", tvPtr, topA, false, nil},
		{"[][]T", func(i *gen.TD) *gen.TD { return tdOf("slice", tdOf("slice", i)) }, "list", func(v *gen.TV) *gen.TV {
			if v == nil || v.Nil {
				return v
			}
			return tvS(v) // one inner slice holding the elements
		}, func(v *gen.Tree) *gen.Tree { return objOf("a", gen.List(v)) }, false, nil},
		// inline collections: struct { C []T `config:",inline"` } etc. in the field "a"; the setting of "a" is the list / object
		{"inline []T", func(i *gen.TD) *gen.TD { return oneInline("", tdOf("slice", i)) }, "list", func(v *gen.TV) *gen.TV { return tvS(v) }, topA, false, nil},
		{"inline [2]T", func(i *gen.TD) *gen.TD { return oneInline("", arr2(i)) }, "array", func(v *gen.TV) *gen.TV { return tvS(v) }, topA, false, nil},
		{"inline map[string]T", func(i *gen.TD) *gen.TD { return oneInline("", tdOf("map", i)) }, "map", func(v *gen.TV) *gen.TV { return tvS(v) }, topA, false, nil},
		{"squash []T", func(i *gen.TD) *gen.TD {
			h := oneInline("", tdOf("slice", i))
			h.Fields[0].Inline, h.Fields[0].Policy = false, "squash"
			return h
		}, "list", func(v *gen.TV) *gen.TV { return tvS(v) }, topA, false, nil},
		{"*struct with inline []T", func(i *gen.TD) *gen.TD { return tdOf("ptr", oneInline("", tdOf("slice", i))) }, "list", func(v *gen.TV) *gen.TV { return tvPtr(tvS(v)) }, topA, false, nil},
		// the Unpack target itself is the collection
		{"target map[string]T", func(i *gen.TD) *gen.TD { return tdOf("map", i) }, "map", same1, func(v *gen.Tree) *gen.Tree { return v }, true, nil},
		{"target []T", func(i *gen.TD) *gen.TD { return tdOf("slice", i) }, "list", same1, func(v *gen.Tree) *gen.Tree { return v }, true, nil},
		{"target [2]T", arr2, "array", same1, func(v *gen.Tree) *gen.Tree { return v }, true, nil},
		// (sources that are maps or lists themselves only)
		{"target T", func(i *gen.TD) *gen.TD { return i }, "", same1, func(v *gen.Tree) *gen.Tree { return v }, true, nil},
	}
}

func enumGrid(yield0 func(Case) bool) {
	// lists: a pre-filled value merged with a literal list setting is also unpacked under each global list policy
	// (which decides where the kept pre-filled elements end up next to the configured ones)
	var listPolicies bool
	yield := func(c Case) bool {
		if !yield0(c) {
			return false
		}
		if listPolicies && c.Pre != nil && !c.VarExp {
			for p := 1; p <= 4; p++ {
				c.Policy = p
				if !yield0(c) {
					return false
				}
			}
		}
		return true
	}
	for _, vs := range append(append(validatorSources(), emptyRejectingSources()...), selfUnpackingSources()...) {
		for _, pl := range append(placements(), ifacePlacements()...) {
			if k := vs.td.Shape().Kind; pl.name == "target T" && k != "map" && k != "slice" {
				continue
			}
			top := &gen.TD{Kind: "struct", Fields: []gen.FD{{Name: "A", Tag: "a", T: pl.typ(vs.td), Inline: pl.name == "inline struct"}}}
			if pl.name == "inline struct" {
				top.Fields[0].Tag = ""
			}
			type preCase struct {
				name string
				tv   *gen.TV // value of the field A (nil: zero value)
			}
			type cfgCase struct {
				name string
				v    *gen.Tree // setting (nil: not mentioned)
			}
			var pres []preCase
			var cfgs []cfgCase
			switch pl.coll {
			case "":
				pres = []preCase{{"zero", nil}, {"good", vs.good}, {"bad", vs.bad}}
				cfgs = []cfgCase{{"absent", nil}, {"nil", gen.Nil()}, {"good", vs.goodCfg}, {"bad", vs.badCfg}, {"empty", emptyLike(vs.goodCfg)}}
			case "list", "array":
				pres = []preCase{{"zero", nil}, {"[good good]", tvS(vs.good, vs.good)}, {"[good bad]", tvS(vs.good, vs.bad)}, {"[bad good]", tvS(vs.bad, vs.good)}}
				cfgs = []cfgCase{{"absent", nil}, {"nil", gen.Nil()}, {"[good good]", gen.List(vs.goodCfg, vs.goodCfg)}, {"[good bad]", gen.List(vs.goodCfg, vs.badCfg)}, {"[bad good]", gen.List(vs.badCfg, vs.goodCfg)}}
				// explicit null elements: a null stands for the zero value of the element type
				cfgs = append(cfgs, cfgCase{"[good null]", gen.List(vs.goodCfg, gen.Nil())}, cfgCase{"[null good]", gen.List(gen.Nil(), vs.goodCfg)})
				if pl.coll == "list" {
					cfgs = append(cfgs, cfgCase{"[null]", gen.List(gen.Nil())})
					cfgs = append(cfgs, cfgCase{"[]", gen.List()}, cfgCase{"[good]", gen.List(vs.goodCfg)}, cfgCase{"[bad]", gen.List(vs.badCfg)},
						cfgCase{"[good good good]", gen.List(vs.goodCfg, vs.goodCfg, vs.goodCfg)})
				}
			case "map":
				m := func(a, b *gen.TV) *gen.TV { return &gen.TV{Keys: []string{"j", "k"}, Elems: []*gen.TV{a, b}} }
				pres = []preCase{{"zero", nil}, {"{j:good k:good}", m(vs.good, vs.good)}, {"{j:good k:bad}", m(vs.good, vs.bad)}, {"{}", &gen.TV{Keys: []string{}, Elems: []*gen.TV{}}}}
				cfgs = []cfgCase{{"absent", nil}, {"nil", gen.Nil()}, {"{}", gen.Obj()}, {"{j:good}", objOf("j", vs.goodCfg)}, {"{k:good}", objOf("k", vs.goodCfg)},
					{"{k:bad}", objOf("k", vs.badCfg)}, {"{n:good}", objOf("n", vs.goodCfg)}, {"{n:bad}", objOf("n", vs.badCfg)}, {"{j:bad k:good}", objOf("j", vs.badCfg, "k", vs.goodCfg)},
					{"{k:null}", objOf("k", gen.Nil())}, {"{n:null}", objOf("n", gen.Nil())}, {"{j:good n:null}", objOf("j", vs.goodCfg, "n", gen.Nil())}}
			}
			for _, p := range pres {
				if (p.tv == nil && p.name != "zero") || (p.tv != nil && hasNilElem(p.tv)) {
					continue // this validator has no such pre-filled value
				}
				if pl.dyn != nil && p.tv == nil {
					continue // (a nil interface only takes generic data from the configuration)
				}
				for _, cf := range cfgs {
					if (cf.v == nil && cf.name != "absent") || (cf.v != nil && hasNilVal(cf.v)) {
						continue
					}
					listPolicies = pl.coll == "list" && cf.v != nil && cf.v.K == "list" && len(cf.v.Vals) > 0
					for _, ref := range []bool{false, true} {
						c := Case{T: top, Cfg: gen.Obj()}
						if pl.dyn != nil {
							c.Dyn = pl.dyn(vs.td)
						}
						if pl.top {
							// the configuration itself is the setting; nothing to deliver through a reference, and
							// "not mentioned" is the empty configuration
							if ref || (cf.v != nil && cf.v.K == "nil") {
								continue
							}
							c.T = pl.typ(vs.td)
							if c.T.Shape().Kind != "map" {
								c.Cfg = gen.List()
							}
							if p.tv != nil {
								c.Pre = pl.pre(p.tv)
							}
							if cf.v != nil {
								c.Cfg = pl.cfg(cf.v.Clone())
							}
							if !yield(c) {
								return
							}
							continue
						}
						if p.tv != nil {
							c.Pre = tvS(pl.pre(p.tv))
						}
						if cf.v != nil {
							v := cf.v.Clone()
							if ref {
								if v.K == "nil" {
									continue
								}
								c.VarExp = true
								c.Cfg = pl.cfg(gen.Str("${r0}"))
								c.Cfg.Put("r0", v)
							} else {
								c.Cfg = pl.cfg(v)
							}
						} else if ref {
							continue
						}
						if !yield(c) {
							return
						}
					}
				}
			}
		}
	}
}

// emptyLike returns the empty container of the same kind as the setting (an
// empty object / list mentions the field without providing values).
func emptyLike(t *gen.Tree) *gen.Tree {
	if t == nil {
		return nil
	}
	switch t.K {
	case "obj":
		return gen.Obj()
	case "list":
		return gen.List()
	}
	return nil
}

func hasNilElem(tv *gen.TV) bool {
	for _, e := range tv.Elems {
		if e == nil {
			return true
		}
	}
	return false
}

func hasNilVal(t *gen.Tree) bool {
	for _, v := range t.Vals {
		if v == nil {
			return true
		}
	}
	return false
}

var subGrid = runlog.Register(&runlog.Sub[Case]{
	Name: "placement-grid",
	Rule: "deterministic cross product: 105 validator sources (17 of them for named primitive types whose Validate() rejects the zero value - int, string, uint, float, bool, both receivers - and for types that unpack themselves through a pointer-receiver IntUnpacker / UintUnpacker / FloatUnpacker / StringUnpacker / BoolUnpacker / generic Unpacker / ConfigUnpacker (struct) method and have a rejecting Validate(), plus min, required, nonzero and max tags on fields of such types and on a pointer to one (the latter only while N-C04-1 is not open); for every list, array and map placement the configurations also hold an EXPLICIT NULL element or entry - [good null], [null good], [null], {k:null}, {n:null}, {j:good n:null} - which stands for the zero value of the element type; 12 of them for named slices / maps whose Validate() - value and pointer receiver - rejects the empty collection, once with the allocated empty collection and once with the NIL collection as the invalid pre-filled value (the zero pre-fill state of every placement is the nil collection too), for plain structs that hold such a list / map left nil or allocated empty, and for a struct whose InitDefaults installs a pointer to a nil list; further: each documented tag on each kind it is defined for, incl. duration parameters in unit syntax and as whole, fractional and negative numbers of seconds, integer parameters in hexadecimal and octal, spelt with blanks, and beyond 2^53, tags on pointers, regexps and collections of structs; Validate() with value receiver and with pointer receiver on each of: struct, named int, uint, float, string, bool, slice, array, map (pointer receiver also on an int64 derived from time.Duration); InitDefaults on named string / uint / float / bool and on a struct with valid or invalid defaults and either receiver of Validate(); structs and a map whose InitDefaults installs a list / array / map with one element rejected by the element's pointer-receiver Validate(); InitDefaults types whose defaults are valid or invalid, among them 12 whose InitDefaults installs one invalid map entry / list element / pointee / field that the 'good' setting overrides and the 'bad' setting leaves in place next to another key, and 6 whose InitDefaults stores ONE object at two places whose validators differ - one *int in two fields with different bounds, as a list element and in a tagged field, one *Duration as a map entry and in a tagged field, one *float64 behind a further pointer and in a tagged field, one empty slice / one empty map in two fields the second of which is required: the second place rejects the shared default, the 'good' setting overrides that place, the 'bad' one the other place; required / nonzero tags on inline slices, arrays, named slices and maps - the inline map sources only while D55 is not open; nonzero, required and min on a field of type interface{} holding generic data - only while D61 is not open) x 39 placements (direct, *T, **T, nested, pointer to nested, inline struct, []T, [2]T, map[string]T, []*T, map[string]*T, *[]T, *map[string]T, *[2]T, [][]T; inline []T, inline [2]T, inline map[string]T, squash []T, pointer to a struct with inline []T; the Unpack target itself being map[string]T, []T, [2]T or, for map and list sources, T; and 15 placements through an interface, pre-filled values only: interface{} holding T, *T, **T, []T, map[string]T, map[string]interface{} holding *T, or a pointer to a struct with an interface{} field holding T; []interface{} holding T or *T, [2]interface{} holding *T, map[string]interface{} holding T or *T, inline map[string]interface{} holding *T, the targets map[string]interface{} holding T and []interface{} holding *T - the twin holds the twin value in the interface; a rejecting Validate() directly in an interface is constructed away while D59 is open, a setting for a struct / array held by value while D60 is open) x pre-filled value (zero / valid / invalid; for collections two elements with the invalid one first or last) x configuration (absent, nil, valid, invalid, empty container, partial mention of a collection, another key) x delivery (literal / whole setting through ${r0}; literal only for collection targets) x, for a pre-filled list placement with a non-empty literal list setting, the global list policy (none, replace, append, prepend, replace arrays only); same oracle as the random search. Non-trivial and distinct as there. The enumeration is complete for this finite product.",
	Enum: enumGrid,
	Run:  runCase,
})

func TestPlacementGrid(t *testing.T) { subGrid.Enumerate(t, true) }
