package c04

import (
	"fmt"
	"reflect"
	"strings"

	"pgregory.net/rapid"

	ucfg "github.com/elastic/go-ucfg"

	"verif/harness/internal/gen"
)

// Views. Which struct tags Unpack reads is decided per call by two options:
// StructTag(name) names the tag that holds a field's config name and flags
// (default `config`), ValidatorTag(name) the tag that holds its validators
// (default `validate`). "Its validate tag" in the statement is the tag the
// call selects. A struct type of a history case therefore carries two tag sets:
//
//	config:"name,flags" validate:"..."      described by the case's T
//	alt:"name,flags"    strict:"..."        described by the case's Alt (same Go structure)
//
// and a view is the description of the type as ONE call reads it; generator of
// settings, reference walk and error-name comparison all work on the view of
// the call. Selectors of a call: StructTag "" (option not given), "config" (the
// default given explicitly), "alt", "none" (a tag name no field carries: every
// field is read under its lower-cased Go name, without flags), "empty" (the
// empty tag name, which no field carries either); ValidatorTag "", "validate",
// "strict", "none", "empty" likewise (under the last two only Validate()
// methods apply).

const (
	altTagName    = "alt"
	strictTagName = "strict"
	noTagName     = "nosuchtag"
)

var (
	tagSelectors  = []string{"", "alt", "config", "none", "alt", "", "empty"}
	vtagSelectors = []string{"", "strict", "validate", "strict", "none", "", "empty"}
)

func tagSel(s string) int { // 0 primary, 1 second set, 2 bare
	switch s {
	case "", "config":
		return 0
	case "alt":
		return 1
	case "none", "empty":
		return 2
	}
	panic("c04: unknown struct tag selector " + s)
}

func vtagSel(s string) int {
	switch s {
	case "", "validate":
		return 0
	case "strict":
		return 1
	case "none", "empty":
		return 2
	}
	panic("c04: unknown validator tag selector " + s)
}

// tagOptions returns the Unpack options the selectors stand for.
func tagOptions(tag, vtag string, vfirst bool) (opts []ucfg.Option, text string) {
	var names []string
	add := func(o ucfg.Option, s string) {
		opts = append(opts, o)
		names = append(names, s)
	}
	st := func() {
		switch tag {
		case "config":
			add(ucfg.StructTag("config"), `StructTag("config")`)
		case "alt":
			add(ucfg.StructTag(altTagName), `StructTag("alt")`)
		case "none":
			add(ucfg.StructTag(noTagName), `StructTag("nosuchtag")`)
		case "empty":
			add(ucfg.StructTag(""), `StructTag("")`)
		}
	}
	vt := func() {
		switch vtag {
		case "validate":
			add(ucfg.ValidatorTag("validate"), `ValidatorTag("validate")`)
		case "strict":
			add(ucfg.ValidatorTag(strictTagName), `ValidatorTag("strict")`)
		case "none":
			add(ucfg.ValidatorTag(noTagName), `ValidatorTag("nosuchtag")`)
		case "empty":
			add(ucfg.ValidatorTag(""), `ValidatorTag("")`)
		}
	}
	if vfirst {
		vt()
		st()
	} else {
		st()
		vt()
	}
	if len(names) > 0 {
		text = ", options " + strings.Join(names, " ")
	}
	return opts, text
}

// ---------------------------------------------------------------------------
// catalogue types: hand-written tags. All config names equal the lower-cased
// Go names (no flags), so only the validator selection changes what Unpack
// reads; the shapes under `strict` and under a tag name no field carries are
// registered as <kind>@strict and <kind>@none (same Go type, same methods).

var catViewSuffix = [3]string{"", "@strict", "@none"}

// catBase strips the view suffix of a catalogue kind.
func catBase(kind string) string {
	if i := strings.IndexByte(kind, '@'); i >= 0 {
		return kind[:i]
	}
	return kind
}

func catViewShape(sh *gen.TD, rt reflect.Type, vs int) *gen.TD {
	c := *sh
	if _, ok := cats[sh.Kind]; ok {
		c.Kind = sh.Kind + catViewSuffix[vs]
		return &c
	}
	if sh.Elem != nil {
		c.Elem = catViewShape(sh.Elem, nil, vs)
	}
	c.Fields = nil
	for i, f := range sh.Fields {
		if rt == nil {
			panic("c04: anonymous struct inside a catalogue shape")
		}
		sf := rt.Field(i)
		if name, _, _ := strings.Cut(sf.Tag.Get("config"), ","); name != strings.ToLower(sf.Name) || strings.Contains(sf.Tag.Get("config"), ",") {
			panic("c04: catalogue field whose config name is not its lower-cased Go name: " + rt.Name() + "." + sf.Name)
		}
		f.Validate = ""
		if vs == 1 {
			f.Validate = sf.Tag.Get(strictTagName)
		}
		f.T = catViewShape(f.T, nil, vs)
		c.Fields = append(c.Fields, f)
	}
	return &c
}

func init() {
	// (runs after the init functions of cat_test.go and catx_test.go: files are initialised in name order)
	for _, k := range catKinds {
		for vs := 1; vs <= 2; vs++ {
			gen.RegisterCat(strings.TrimPrefix(k, "cat:")+catViewSuffix[vs], catTypes[k], catViewShape(catShapes[k], catTypes[k], vs))
		}
	}
	for _, k := range catKinds {
		for vs := 1; vs <= 2; vs++ {
			cats[k+catViewSuffix[vs]] = cats[k]
		}
	}
}

// ---------------------------------------------------------------------------

// makeView describes the type as a call with these selections reads it.
func makeView(t, alt *gen.TD, ts, vs int) *gen.TD {
	if ts == 0 && vs == 0 {
		return t
	}
	if _, ok := cats[t.Kind]; ok {
		return &gen.TD{Kind: catBase(t.Kind) + catViewSuffix[vs]}
	}
	switch {
	case t.Kind == "struct":
		out := &gen.TD{Kind: "struct", Fields: make([]gen.FD, len(t.Fields))}
		for i := range t.Fields {
			pf := &t.Fields[i]
			var af *gen.FD
			var at *gen.TD
			if alt != nil {
				af = &alt.Fields[i]
				at = af.T
			}
			f := &out.Fields[i]
			f.Name, f.Unexp = pf.Name, pf.Unexp
			switch {
			case ts == 0:
				f.Tag, f.Inline, f.Ignore, f.Policy = pf.Tag, pf.Inline, pf.Ignore, pf.Policy
			case ts == 1 && af != nil:
				f.Tag, f.Inline, f.Ignore, f.Policy = af.Tag, af.Inline, af.Ignore, af.Policy
			}
			switch {
			case vs == 0:
				f.Validate = pf.Validate
			case vs == 1 && af != nil:
				f.Validate = af.Validate
			}
			f.T = makeView(pf.T, at, ts, vs)
		}
		return out
	case t.Elem != nil:
		var ae *gen.TD
		if alt != nil {
			ae = alt.Elem
		}
		return &gen.TD{Kind: t.Kind, N: t.N, Elem: makeView(t.Elem, ae, ts, vs)}
	}
	return t
}

func tagText(name string, f *gen.FD) string {
	opts := ""
	if f.Inline {
		opts += ",inline"
	}
	if f.Ignore {
		opts += ",ignore"
	}
	if f.Policy != "" {
		opts += "," + f.Policy
	}
	return fmt.Sprintf(`%s:"%s%s"`, name, f.Tag, opts)
}

// buildType builds the Go type whose struct fields carry the tags of t under
// `config` / `validate` and those of alt under `alt` / `strict`; the twin type
// has the same names and flags but no validator tags, and the twins of the
// catalogue types.
func buildType(t, alt *gen.TD, twin bool) reflect.Type {
	if alt != nil {
		switch t.Kind {
		case "ptr":
			return reflect.PtrTo(buildType(t.Elem, alt.Elem, twin))
		case "slice":
			return reflect.SliceOf(buildType(t.Elem, alt.Elem, twin))
		case "array":
			return reflect.ArrayOf(t.N, buildType(t.Elem, alt.Elem, twin))
		case "map":
			return reflect.MapOf(reflect.TypeOf(""), buildType(t.Elem, alt.Elem, twin))
		case "struct":
			fs := make([]reflect.StructField, 0, len(t.Fields))
			for i := range t.Fields {
				f, a := &t.Fields[i], &alt.Fields[i]
				tag := tagText("config", f)
				if !twin && f.Validate != "" {
					tag += fmt.Sprintf(` validate:"%s"`, f.Validate)
				}
				tag += " " + tagText(altTagName, a)
				if !twin && a.Validate != "" {
					tag += fmt.Sprintf(` %s:"%s"`, strictTagName, a.Validate)
				}
				fs = append(fs, reflect.StructField{Name: f.Name, Type: buildType(f.T, a.T, twin), Tag: reflect.StructTag(tag)})
			}
			return reflect.StructOf(fs)
		}
	}
	if twin {
		return twinOf(t).Type()
	}
	return t.Type()
}

// sameStructure reports whether alt describes the same Go structure as t.
func sameStructure(t, alt *gen.TD) bool {
	if t == nil || alt == nil {
		return t == alt
	}
	if t.Kind != alt.Kind || t.N != alt.N || len(t.Fields) != len(alt.Fields) || (t.Elem == nil) != (alt.Elem == nil) {
		return false
	}
	if t.Elem != nil && !sameStructure(t.Elem, alt.Elem) {
		return false
	}
	for i := range t.Fields {
		f, a := &t.Fields[i], &alt.Fields[i]
		if f.Name != a.Name || f.Unexp || a.Unexp || !sameStructure(f.T, a.T) {
			return false
		}
	}
	return true
}

func cloneTD(t *gen.TD) *gen.TD {
	if t == nil {
		return nil
	}
	c := *t
	c.Elem = cloneTD(t.Elem)
	c.Fields = nil
	for _, f := range t.Fields {
		f.T = cloneTD(f.T)
		c.Fields = append(c.Fields, f)
	}
	return &c
}

// deriveAlt draws the second tag sets of a type. Names: the config name again
// or another one (prefix "a": unique wherever the config names are); inline
// flags as under `config` (so the same settings shapes are acceptable), list
// policy flags drawn anew; validators: a field that carries some under
// `validate` gets the same ones, others of its kind (other validator or other
// parameter) or none under `strict`, and about one further field in four
// carries validators under `strict` only.
func deriveAlt(t *rapid.T, td *gen.TD) *gen.TD {
	alt := cloneTD(td)
	var visit func(x *gen.TD)
	visit = func(x *gen.TD) {
		switch x.Kind {
		case "ptr", "slice", "array", "map":
			visit(x.Elem)
		case "struct":
			for i := range x.Fields {
				f := &x.Fields[i]
				visit(f.T)
				if !isInline(f) && rapid.IntRange(0, 2).Draw(t, "altname") != 0 {
					f.Tag = "a" + f.ConfigName()
				}
				if lp := listPolicyOf(f); lp != "" {
					f.Policy = strings.TrimSuffix(strings.TrimSuffix(f.Policy, lp), ",") // (assignTags may draw another one)
				}
				old := f.Validate
				f.Validate = ""
				if old == "" {
					continue
				}
				switch rapid.IntRange(0, 3).Draw(t, "altv") {
				case 0:
					f.Validate = old
				case 1, 2:
					if cands, numKind, _ := tagCandidates(f.T); len(cands) > 0 {
						f.Validate = genTag(t, cands, numKind)
					}
				}
			}
		}
	}
	visit(alt)
	assignTags(t, alt, 3)
	return alt
}
