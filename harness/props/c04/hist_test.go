package c04

import (
	"fmt"
	"reflect"
	"sort"
	"strings"
	"testing"

	"pgregory.net/rapid"

	ucfg "github.com/elastic/go-ucfg"

	"verif/harness/internal/gen"
	"verif/harness/internal/runlog"
)

// Histories: several Unpack calls in one process on the same types, each with
// its own options. The statement quantifies over single calls, but "its
// validate tag" depends on the options of THAT call, whatever other calls the
// process made before: every call of a history is decided by the oracle of the
// single call under the view its options select.

// HCase: a struct type with two tag sets and a history of Unpack calls.
type HCase struct {
	T   *gen.TD `json:"t"`             // names, flags and validators under `config` / `validate`
	Alt *gen.TD `json:"alt,omitempty"` // the same Go structure with the names, flags and validators under `alt` / `strict` (nil: no second tag sets)
	// dynamic types of the typed values the interfaces of the pre-filled values hold (as in Case); they carry tags
	// under `config` / `validate` only
	Dyn   []*gen.TD `json:"dyn,omitempty"`
	Steps []Step    `json:"steps"`
}

// Step is one Unpack call.
type Step struct {
	Tag     string    `json:"tag,omitempty"`     // StructTag option: "" (not given) | config | alt | none | empty
	VTag    string    `json:"vtag,omitempty"`    // ValidatorTag option: "" (not given) | validate | strict | none | empty
	VFirst  bool      `json:"vfirst,omitempty"`  // ValidatorTag precedes StructTag in the option list
	Sep     bool      `json:"sep,omitempty"`     // PathSep(".") is given as well (no generated name contains a dot)
	Pre     *gen.TV   `json:"pre,omitempty"`     // pre-filled value of a new target (nil: the zero value)
	Over    bool      `json:"over,omitempty"`    // unpack over the result of the previous call, if that call succeeded
	Cfg     *gen.Tree `json:"cfg"`               // the configuration
	SameCfg bool      `json:"samecfg,omitempty"` // Cfg equals the previous step's: unpack the same *Config object again
	VarExp  bool      `json:"varexp,omitempty"`
	Policy  int       `json:"policy,omitempty"`
	// a list policy given for one field by option: Field{Merge,Replace,Append,Prepend}Values(FieldName), FieldName being
	// the name the call reads a top-level field under ("" = no such option)
	FieldPol  string `json:"fieldpol,omitempty"` // merge | replace | append | prepend
	FieldName string `json:"fieldname,omitempty"`
}

func (s *Step) fieldOption() (ucfg.Option, string) {
	if s.FieldName == "" {
		return nil, ""
	}
	switch s.FieldPol {
	case "merge":
		return ucfg.FieldMergeValues(s.FieldName), fmt.Sprintf(" FieldMergeValues(%q)", s.FieldName)
	case "replace":
		return ucfg.FieldReplaceValues(s.FieldName), fmt.Sprintf(" FieldReplaceValues(%q)", s.FieldName)
	case "append":
		return ucfg.FieldAppendValues(s.FieldName), fmt.Sprintf(" FieldAppendValues(%q)", s.FieldName)
	case "prepend":
		return ucfg.FieldPrependValues(s.FieldName), fmt.Sprintf(" FieldPrependValues(%q)", s.FieldName)
	}
	return nil, ""
}

func (s *Step) sels() (ts, vs int) { return tagSel(s.Tag), vtagSel(s.VTag) }

// stepRec collects what the oracle reports about the calls of a history.
type stepRec struct {
	classes    map[string]bool
	excluded   map[string]bool
	nontrivial bool
	discarded  bool // the current call
}

func (r *stepRec) Class(l string) { r.classes[l] = true }
func (r *stepRec) ClassIf(c bool, l string) {
	if c {
		r.classes[l] = true
	}
}
func (r *stepRec) NonTrivialIf(c bool) { r.nontrivial = r.nontrivial || c }
func (r *stepRec) Discard()            { r.discarded = true }
func (r *stepRec) Excluded(id string)  { r.excluded[id] = true }

func (c *HCase) describe(upto int, typ reflect.Type) string {
	var b strings.Builder
	for i := 0; i <= upto && i < len(c.Steps); i++ {
		s := &c.Steps[i]
		_, text := tagOptions(s.Tag, s.VTag, s.VFirst)
		if s.Sep {
			text += ` PathSep(".")`
		}
		if _, ft := s.fieldOption(); ft != "" {
			text += ft
		}
		pre := reflect.New(typ)
		c.T.Set(pre.Elem(), s.Pre)
		if len(c.Dyn) > 0 {
			(&Case{Dyn: c.Dyn}).fill(c.T, pre.Elem(), s.Pre, false)
		}
		target := "a new target, pre-filled " + showV(pre.Elem())
		if s.Over {
			target = "the target of the previous call if that call succeeded, else " + target
		}
		cfg := showTree(s.Cfg)
		if s.SameCfg && i > 0 {
			cfg += " (the configuration object of the previous call)"
		}
		fmt.Fprintf(&b, "\n  call %d: %s (VarExp %v, list policy %d%s) into %s", i+1, cfg, s.VarExp, s.Policy, text, target)
	}
	return b.String()
}

// dynViews returns the dynamic types of the interface-held values as a call with these selections reads them (they
// carry tags under `config` / `validate` only) and the registry from Go types to these views.
func (c *HCase) dynViews(ts, vs int) (views []*gen.TD, reg dynReg, ok bool) {
	if len(c.Dyn) == 0 {
		return nil, nil, true
	}
	base, ok := (&Case{Dyn: c.Dyn}).registry()
	viewOf := map[*gen.TD]*gen.TD{}
	for _, d := range c.Dyn {
		v := makeView(d, nil, ts, vs)
		views = append(views, v)
		for {
			viewOf[d] = v
			if d.Kind != "ptr" {
				break
			}
			d, v = d.Elem, v.Elem
		}
	}
	reg = dynReg{}
	for t, d := range base {
		reg[t] = viewOf[d]
	}
	return views, reg, ok
}

// provenance classes of a single call that are also counted jointly with the tag set the call selects
var jointClasses = []string{"decided by a pre-filled default", "decided by an InitDefaults value", "decided behind a pointer", "decided inside a collection",
	"decided in an inline field", "decided by a tag", "decided by Validate()", "decided through an interface", "verdict: rejected", "verdict: accepted"}

func runHist(c HCase, r *runlog.R) error {
	if c.T == nil || len(c.Steps) == 0 || (c.Alt != nil && !sameStructure(c.T, c.Alt)) {
		r.Class("discarded: malformed case")
		r.Discard()
		return nil
	}
	realT, twinT := buildType(c.T, c.Alt, false), buildType(c.T, c.Alt, true)
	filler := &Case{Dyn: c.Dyn}
	rec := &stepRec{classes: map[string]bool{}, excluded: map[string]bool{}}
	var prev outcome
	var prevCfg *ucfg.Config
	evaluated := 0
	type seenSel struct{ ts, vs int }
	var earlier []seenSel
	verdicts := map[bool]bool{}
	for i := range c.Steps {
		st := &c.Steps[i]
		ts, vs := st.sels()
		view := makeView(c.T, c.Alt, ts, vs)
		dyn, reg, unambiguous := c.dynViews(ts, vs)
		if !unambiguous {
			r.Class("discarded: ambiguous dynamic types")
			r.Discard()
			return nil
		}
		extra, text := tagOptions(st.Tag, st.VTag, st.VFirst)
		if st.Sep {
			extra = append(extra, ucfg.PathSep("."))
			text += ` PathSep(".")`
		}
		fopt, ftext := st.fieldOption()
		if fopt != nil {
			extra = append(extra, fopt) // (after PathSep, which the option reads)
			text += ftext
		}
		cl := &call{fieldPolicy: fopt != nil, T: view, Pre: st.Pre, Cfg: st.Cfg, VarExp: st.VarExp, Policy: st.Policy, Dyn: dyn, reg: reg, extra: extra, extraText: text, realT: realT}
		over := st.Over && i > 0 && !prev.discarded && prev.unpacked
		if over {
			realPrev, twinPrev := prev.real, prev.twin
			before := showV(realPrev.Elem())
			cl.Pre = nil
			cl.preText = func() string { return before + " (the result of the previous call)" }
			cl.newTarget = func(twin bool) reflect.Value {
				if twin {
					return twinPrev
				}
				return realPrev
			}
		} else {
			cl.newTarget = func(twin bool) reflect.Value {
				typ := realT
				if twin {
					typ = twinT
				}
				p := reflect.New(typ)
				c.T.Set(p.Elem(), st.Pre)
				if len(c.Dyn) > 0 {
					filler.fill(c.T, p.Elem(), st.Pre, twin)
				}
				return p
			}
		}
		sameCfg := st.SameCfg && i > 0 && prevCfg != nil
		if sameCfg {
			cl.cfg = prevCfg
		}
		one := &stepRec{classes: map[string]bool{}, excluded: rec.excluded}
		out, err := runCall(cl, one)
		if err != nil {
			return fmt.Errorf("call %d of a history of %d Unpack calls: %v\n history:%s", i+1, len(c.Steps), err, c.describe(i, realT))
		}
		prev, prevCfg = out, out.cfg
		for l := range one.classes {
			rec.classes[l] = true
		}
		if out.discarded {
			continue
		}
		evaluated++
		rec.nontrivial = rec.nontrivial || one.nontrivial
		verdicts[out.rejected] = true
		rec.ClassIf(over, "history: a call unpacks over the result of the previous call")
		rec.ClassIf(sameCfg, "history: a call unpacks the configuration object of the previous call again")
		rec.ClassIf(st.Sep, "option PathSep given")
		rec.ClassIf(fopt != nil, "option Field...Values given: "+st.FieldPol)
		rec.Class("option StructTag: " + map[string]string{"": "not given", "config": "the default, explicitly", "alt": "the second tag set", "none": "a tag name no field has", "empty": "the empty tag name"}[st.Tag])
		rec.Class("option ValidatorTag: " + map[string]string{"": "not given", "validate": "the default, explicitly", "strict": "the second tag set", "none": "a tag name no field has", "empty": "the empty tag name"}[st.VTag])
		rec.ClassIf(st.VFirst && st.Tag != "" && st.VTag != "", "options: ValidatorTag before StructTag")
		for _, l := range jointClasses {
			if one.classes[l] {
				rec.ClassIf(vs == 1, "under ValidatorTag(strict): "+l) // (catalogue types carry `strict` tags in every case)
				rec.ClassIf(vs == 2, "under a validator tag no field has: "+l)
				rec.ClassIf(ts == 1 && c.Alt != nil, "under StructTag(alt): "+l)
				rec.ClassIf(ts == 2 || (ts == 1 && c.Alt == nil), "under a struct tag no field has: "+l)
			}
		}
		// would the verdict of this call differ if it read the tag sets an earlier call of the history selected?
		for _, e := range earlier {
			if e.ts == ts && e.vs == vs {
				continue
			}
			rec.ClassIf(e.vs != vs, "history: a call selects another validator tag than an earlier call")
			rec.ClassIf(e.ts != ts, "history: a call selects another struct tag than an earlier call")
			if e.vs == vs {
				continue
			}
			_, staleReg, _ := c.dynViews(ts, e.vs)
			w := &walker{root: st.Cfg, varexp: st.VarExp, dyn: staleReg}
			w.walk(makeView(c.T, c.Alt, ts, e.vs), out.twin.Elem(), pos{cfg: st.Cfg})
			rejected := false
			for k := range w.evals {
				if ev := &w.evals[k]; !ev.ok && !ev.soft {
					rejected = true
				}
			}
			if rejected != out.rejected {
				rec.Class("history: the verdict of a call differs from the one under the validator tag an earlier call selected")
				rec.ClassIf(out.rejected, "history: a call has to fail that would succeed under the validator tag an earlier call selected")
				rec.ClassIf(!out.rejected, "history: a call has to succeed that would fail under the validator tag an earlier call selected")
			}
		}
		earlier = append(earlier, seenSel{ts, vs})
	}
	for id := range rec.excluded {
		r.Excluded(id)
	}
	if evaluated == 0 {
		r.Discard()
		return nil
	}
	r.NonTrivialIf(rec.nontrivial)
	rec.Class(fmt.Sprintf("history: %d calls", len(c.Steps)))
	rec.ClassIf(evaluated > 1, "history: at least two calls evaluated")
	rec.ClassIf(len(verdicts) == 2, "history: accepted and rejected calls")
	rec.ClassIf(c.Alt == nil, "type: no second tag sets")
	labels := make([]string, 0, len(rec.classes))
	for l := range rec.classes {
		labels = append(labels, l)
	}
	sort.Strings(labels)
	for _, l := range labels {
		r.Class(l)
	}
	return nil
}

// ---------------------------------------------------------------------------
// generator

func genHist(t *rapid.T) HCase {
	cfg := tdCfg()
	var c HCase
	coll := rapid.IntRange(0, 9).Draw(t, "toplevel") == 0
	ifaces := !coll && rapid.IntRange(0, 3).Draw(t, "ifaces") == 0
	ctr := 1000
	if coll {
		// the Unpack target is a map, slice or array of elements that carry validators (no references: the settings rN
		// would be entries of the target)
		c.T = &gen.TD{Kind: rapid.SampledFrom([]string{"map", "slice", "map", "array"}).Draw(t, "topkind"), Elem: validatedElem(t)}
		if c.T.Kind == "array" {
			c.T.N = rapid.IntRange(1, 2).Draw(t, "n")
		}
		wrapInline(t, c.T, &ctr)
		assignTags(t, c.T, 1)
	} else {
		c.T = gen.GenStructTD(t, cfg, runlog.Pick(2, 3))
		enrich(t, c.T)
		if ifaces {
			n := 0
			addIfaces(t, c.T, &n)
			if n == 0 {
				c.T.Fields = append(c.T.Fields, gen.FD{Name: "FI", Tag: "fi", T: ifaceType(t)})
			}
		}
		wrapInline(t, c.T, &ctr)
		assignTags(t, c.T, 1)
		if !hasValidators(c.T) {
			c.T.Fields = append(c.T.Fields, gen.FD{Name: "FV", Tag: "fv", T: validatedElem(t)})
			assignTags(t, c.T, 0)
		}
	}
	if rapid.IntRange(0, 7).Draw(t, "noalt") != 0 {
		c.Alt = deriveAlt(t, c.T)
	}
	n := rapid.SampledFrom([]int{2, 2, 3, 1, 2, 3}).Draw(t, "ncalls")
	for i := 0; i < n; i++ {
		st := Step{
			Tag:    rapid.SampledFrom(tagSelectors).Draw(t, "tag"),
			VTag:   rapid.SampledFrom(vtagSelectors).Draw(t, "vtag"),
			VFirst: rapid.Bool().Draw(t, "vfirst"),
			Sep:    rapid.IntRange(0, 3).Draw(t, "sep") == 0,
			VarExp: !coll && rapid.IntRange(0, 3).Draw(t, "varexp") == 0,
		}
		if i > 0 && rapid.IntRange(0, 2).Draw(t, "sametag") == 0 {
			st.Tag = c.Steps[i-1].Tag // the same names, another validator tag
		}
		if rapid.IntRange(0, 3).Draw(t, "haspolicy") == 0 {
			st.Policy = rapid.IntRange(1, 4).Draw(t, "policy")
		}
		if rapid.IntRange(0, 5).Draw(t, "zero") != 0 || (ifaces && rapid.Bool().Draw(t, "ifzero")) {
			st.Pre = gen.GenTV(t, cfg, c.T, false)
			if ifaces {
				tmp := &Case{Dyn: c.Dyn}
				tmp.typedIfaces(t, cfg, c.T, st.Pre, 1)
				c.Dyn = tmp.Dyn
			}
		}
		st.Over = i > 0 && rapid.IntRange(0, 3).Draw(t, "over") == 0
		if i > 0 && rapid.IntRange(0, 3).Draw(t, "samecfg") == 0 {
			// the same configuration object again (it was written for the names the previous call read)
			p := &c.Steps[i-1]
			st.SameCfg, st.Cfg, st.VarExp = true, p.Cfg.Clone(), p.VarExp
		} else {
			ts, vs := st.sels()
			view := makeView(c.T, c.Alt, ts, vs)
			var dyn []*gen.TD
			for _, d := range c.Dyn {
				dyn = append(dyn, makeView(d, nil, ts, vs))
			}
			g := &cfgGen{t: t, varexp: st.VarExp, dyn: dyn}
			switch sh := view.Shape(); sh.Kind {
			case "struct":
				st.Cfg = gen.Obj()
				g.fields(sh, st.Cfg, st.Pre)
				for k, ref := range g.refs {
					st.Cfg.Put(fmt.Sprintf("r%d", k), ref)
				}
			case "map":
				st.Cfg = gen.Obj()
				g.entries(sh, st.Cfg, st.Pre)
			default:
				st.Cfg = g.list(sh, false, st.Pre)
			}
		}
		if !coll && rapid.IntRange(0, 4).Draw(t, "fieldpol") == 0 {
			// a list policy by option for one top-level field, under the name this call reads it
			ts, vs := st.sels()
			var names []string
			for _, f := range makeView(c.T, c.Alt, ts, vs).Fields {
				if !isInline(&f) {
					names = append(names, f.ConfigName())
				}
			}
			if len(names) > 0 {
				st.FieldName = rapid.SampledFrom(names).Draw(t, "fieldname")
				st.FieldPol = rapid.SampledFrom([]string{"append", "prepend", "replace", "merge"}).Draw(t, "fieldpolv")
			}
		}
		c.Steps = append(c.Steps, st)
	}
	return c
}

var subHist = runlog.Register(&runlog.Sub[HCase]{
	Name: "option-history",
	Rule: "a struct type as in twin-differential (1 in 4 with interface{} fields / collections of interface{} pre-filled with typed values whose dynamic types carry tags under the default names only; 1 case in 10 unpacks into a map, slice or array of validated elements instead) whose fields carry TWO tag sets - config names, inline and list policy flags under `config` and under `alt` (same name or another one, inline as under `config`, policy flags drawn anew), validators under `validate` and under `strict` (a field tagged under `validate` carries the same validators, other validators / parameters of its kind, or none under `strict`; about a quarter of the other fields carry validators under `strict` only; 5 catalogue structs have hand-written `strict` tags next to their `validate` tags or instead of one; 1 type in 8 has no generated second tag sets) - and a history of 1 to 3 Unpack calls in one process. Every call has its own options: StructTag (not given, `config` explicitly, `alt`, a tag name no field carries, the empty name), ValidatorTag (not given, `validate` explicitly, `strict`, a tag name no field carries, the empty name), the two in either order, PathSep(\".\") in 1 of 4 calls, VarExp, a global list policy (replace, append, prepend, replace arrays only), in 1 of 5 calls Field{Append,Prepend,Replace,Merge}Values for one top-level field under the name the call reads it; its own configuration written for the names the call reads (in 1 of 4 later calls instead the *Config object of the previous call again, which was written for the names that call read) and a newly pre-filled target (zero value in 1 of 6) or, in 1 of 4 later calls, the target the previous call filled successfully. Every call is decided like a case of twin-differential under the VIEW its options select (names and flags of the selected struct tag, lower-cased Go names without flags under a tag name no field carries; validators of the selected validator tag, none under a tag name no field carries; Validate() methods always): unpack into the twin type (same tag sets without validator tags, twins of the catalogue types) in the same state gives R; the reference validators of the view walk R; all accept => Unpack succeeds with a result equal to R, one rejects => Unpack fails naming the field (by the name the call reads it under) or an enclosing one. Calls whose configuration does not convert under the names they read are skipped; a case counts if one call was evaluated. The classes `history: the verdict of a call differs ...` count the cases in which a call must decide otherwise than it would with the validator tag an earlier call of the same history selected. Non-trivial: some call is non-trivial in the sense of twin-differential. Distinct: hash of the whole case.",
	Gen:  genHist,
	Run:  runHist,
})

func TestOptionHistory(t *testing.T) { subHist.Check(t, 48000, 400000) }
