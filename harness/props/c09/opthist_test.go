package c09

import (
	"encoding/json"
	"fmt"
	"hash/fnv"
	"strings"
	"testing"

	ucfg "github.com/elastic/go-ucfg"
	"github.com/elastic/go-ucfg/parse"
	"pgregory.net/rapid"

	"verif/harness/internal/gen"
	"verif/harness/internal/runlog"
	"verif/harness/internal/uc"
)

// ---------------------------------------------------------------------------
// option histories: "functions of their arguments" - the options are arguments. A call must give the same outcome
// whether or not the process has seen the same texts (keys, reference expressions, paths) and the same target
// types under OTHER options before. Every case runs a history of calls that differ in their options only, over
// one input, and the same calls one by one over renamed (isomorphic) inputs and distinct (identical) target types,
// which therefore meet their options for the first time; after the names are mapped back all outcomes must agree.

type PStep struct {
	Sep          string `json:"sep"`               // "" (PathSep not passed), ".", "/"
	MaxIdx       int64  `json:"maxidx"`            // -1: not passed
	NumKeys      int    `json:"numkeys,omitempty"` // 0: not passed, 1: EnableNumKeys(true), 2: EnableNumKeys(false)
	Escape       bool   `json:"escape,omitempty"`
	VarExp       bool   `json:"varexp,omitempty"`
	IgnoreCommas bool   `json:"ignorecommas,omitempty"`
	Tag          string `json:"tag,omitempty"`  // StructTag
	VTag         string `json:"vtag,omitempty"` // ValidatorTag
	Policy       string `json:"policy,omitempty"`
	Env          bool   `json:"env,omitempty"`
	Resolve      bool   `json:"resolve,omitempty"`
}

type PCase struct {
	In        *gen.Tree `json:"in"`
	In2       *gen.Tree `json:"in2"`
	Reads     []string  `json:"reads"`
	Steps     []PStep   `json:"steps"`
	SoloFirst bool      `json:"solofirst,omitempty"`
}

var pSegs = []string{"a", "b", "0", "c", "1", "a", "b", "7", "12", "3"}

// genPath draws a name the way keys, references and accessor paths spell them: segments (names and numbers)
// joined by "." or "/", or one bracketed name.
func genPath(t *rapid.T) string {
	n := rapid.IntRange(1, 3).Draw(t, "nseg")
	sep := rapid.SampledFrom([]string{".", ".", "/"}).Draw(t, "sep")
	var segs []string
	for i := 0; i < n; i++ {
		segs = append(segs, rapid.SampledFrom(pSegs).Draw(t, "seg"))
	}
	p := strings.Join(segs, sep)
	if rapid.IntRange(0, 5).Draw(t, "bracket") == 0 {
		p = "[" + p + "]"
	}
	return p
}

func genRefText(t *rapid.T, paths []string) string {
	path := func() string {
		if len(paths) > 0 && rapid.IntRange(0, 3).Draw(t, "known") > 0 {
			return rapid.SampledFrom(paths).Draw(t, "kpath")
		}
		return genPath(t)
	}
	switch rapid.IntRange(0, 7).Draw(t, "refkind") {
	case 0, 1, 2:
		return "${" + path() + "}"
	case 3:
		return "${" + path() + ":x}"
	case 4:
		return "${" + path() + ":${" + path() + "}}"
	case 5:
		return "x${" + path() + "},${" + path() + ":y}"
	case 6:
		return "${" + path() + ":+z}"
	default:
		return "${" + path() + "},y"
	}
}

func genPValue(t *rapid.T, paths []string, depth int) *gen.Tree {
	switch k := rapid.IntRange(0, 9).Draw(t, "vkind"); {
	case k <= 2:
		return gen.Str(genRefText(t, paths))
	case k <= 4:
		return gen.Str(rapid.SampledFrom([]string{"x", "y", "x,y", "7", "z"}).Draw(t, "lit"))
	case k == 5:
		return gen.Uint(uint64(rapid.IntRange(0, 9).Draw(t, "u")))
	case k <= 7 && depth > 0:
		o := gen.Obj()
		for i, n := 0, rapid.IntRange(1, 3).Draw(t, "nsub"); i < n; i++ {
			key := rapid.SampledFrom(pSegs).Draw(t, "subkey")
			if rapid.IntRange(0, 4).Draw(t, "subdotted") == 0 {
				key = genPath(t)
			}
			if o.Get(key) == nil {
				o.Put(key, genPValue(t, paths, depth-1))
			}
		}
		return o
	case k == 8 && depth > 0:
		l := gen.List()
		for i, n := 0, rapid.IntRange(1, 3).Draw(t, "nelem"); i < n; i++ {
			l.Vals = append(l.Vals, genPValue(t, paths, depth-1))
		}
		return l
	}
	return gen.Str(rapid.SampledFrom([]string{"x", "y"}).Draw(t, "lit2"))
}

func genPInput(t *rapid.T, paths *[]string) *gen.Tree {
	o := gen.Obj()
	var keys []string
	for i, n := 0, rapid.IntRange(2, 5).Draw(t, "nkeys"); i < n; i++ {
		k := genPath(t)
		keys = append(keys, k)
		*paths = append(*paths, k)
	}
	for _, k := range keys {
		if o.Get(k) == nil {
			o.Put(k, genPValue(t, *paths, 2))
		}
	}
	// settings the typed target reads (names outside the renamed alphabet)
	for _, k := range []string{"p", "q"} {
		if rapid.IntRange(0, 3).Draw(t, "has"+k) > 0 {
			o.Put(k, gen.Uint(uint64(rapid.IntRange(0, 7).Draw(t, "pv"))))
		}
	}
	if rapid.Bool().Draw(t, "hasr") {
		o.Put("r", gen.Str(genRefText(t, *paths)))
	}
	return o
}

func genPStep(t *rapid.T) PStep {
	return PStep{
		Sep:          rapid.SampledFrom([]string{".", "", "/", "."}).Draw(t, "sep"),
		MaxIdx:       rapid.SampledFrom([]int64{-1, 0, 5, -1, 1, 100}).Draw(t, "maxidx"),
		NumKeys:      rapid.SampledFrom([]int{0, 1, 0, 2}).Draw(t, "numkeys"),
		Escape:       rapid.IntRange(0, 2).Draw(t, "escape") == 0,
		VarExp:       rapid.IntRange(0, 3).Draw(t, "varexp") > 0,
		IgnoreCommas: rapid.IntRange(0, 2).Draw(t, "ignorecommas") == 0,
		Tag:          rapid.SampledFrom([]string{"", "alt", ""}).Draw(t, "tag"),
		VTag:         rapid.SampledFrom([]string{"", "altv", ""}).Draw(t, "vtag"),
		Policy:       rapid.SampledFrom([]string{"", "append", "", "replace", "prepend"}).Draw(t, "policy"),
		Env:          rapid.IntRange(0, 3).Draw(t, "env") == 0,
		Resolve:      rapid.IntRange(0, 3).Draw(t, "resolve") == 0,
	}
}

func genOptHist(t *rapid.T) PCase {
	c := PCase{SoloFirst: rapid.Bool().Draw(t, "solofirst")}
	var paths []string
	c.In = genPInput(t, &paths)
	c.In2 = genPInput(t, &paths)
	for i, n := 0, rapid.IntRange(1, 4).Draw(t, "nreads"); i < n; i++ {
		if rapid.Bool().Draw(t, "readknown") {
			c.Reads = append(c.Reads, rapid.SampledFrom(paths).Draw(t, "read"))
		} else {
			c.Reads = append(c.Reads, genPath(t))
		}
	}
	ns := rapid.IntRange(2, 4).Draw(t, "nsteps")
	for i := 0; i < ns; i++ {
		st := genPStep(t)
		if i > 0 && rapid.IntRange(0, 2).Draw(t, "near") > 0 {
			// the previous call with one option changed
			st = c.Steps[i-1]
			o := genPStep(t)
			switch rapid.IntRange(0, 9).Draw(t, "change") {
			case 0, 1, 2:
				st.Sep = o.Sep
			case 3:
				st.MaxIdx = o.MaxIdx
			case 4:
				st.NumKeys = o.NumKeys
			case 5:
				st.Escape = !st.Escape
			case 6:
				st.IgnoreCommas = !st.IgnoreCommas
			case 7:
				st.Tag, st.VTag = o.Tag, o.VTag
			case 8:
				st.Policy, st.Env, st.Resolve = o.Policy, o.Env, o.Resolve
			default:
				st.VarExp = !st.VarExp
			}
		}
		c.Steps = append(c.Steps, st)
	}
	return c
}

// tag is a function of the case (six letters of D-W from a hash of its content): every case, the candidates of the
// shrinker included, works on texts of its own, so what an execution meets in the process was left there only by
// executions of the very same case, which leave the same.
func (c PCase) tag() string {
	raw, _ := json.Marshal(c)
	h := fnv.New64a()
	h.Write(raw)
	x := h.Sum64()
	var b [6]byte
	for i := range b {
		b[i] = byte('D' + x%20)
		x /= 20
	}
	return string(b[:])
}

// the renamed alphabet: every a, b, c of a key or a string value gets the suffix of its world
func rename(s, suffix string) string {
	var b strings.Builder
	for _, r := range s {
		b.WriteRune(r)
		if r == 'a' || r == 'b' || r == 'c' {
			b.WriteString(suffix)
		}
	}
	return b.String()
}

func renameTree(t *gen.Tree, suffix string) *gen.Tree {
	if t == nil {
		return nil
	}
	out := *t
	out.Keys, out.Vals = nil, nil
	if t.K == "str" {
		out.S = rename(t.S, suffix)
	}
	for i, v := range t.Vals {
		if t.K == "obj" {
			out.Keys = append(out.Keys, rename(t.Keys[i], suffix))
		}
		out.Vals = append(out.Vals, renameTree(v, suffix))
	}
	return &out
}

// five identical target types: one per world, so that whatever the library remembers per type was learned under
// the options of that world only
type pTarget struct {
	P int    `config:"p" alt:"q" validate:"min=2" altv:"max=5"`
	Q int    `config:"q" alt:"p" validate:"max=6" altv:"min=1"`
	R string `config:"r" alt:"rr"`
	U []int  `config:"u,append" alt:"u,prepend"`
}
type pTarget0 pTarget
type pTarget1 pTarget
type pTarget2 pTarget
type pTarget3 pTarget

func newPTarget(world int) (interface{}, func() string) {
	switch world {
	case 0:
		v := &pTarget0{P: 3, Q: 3, U: []int{1}}
		return v, func() string { return fmt.Sprintf("%+v", *v) }
	case 1:
		v := &pTarget1{P: 3, Q: 3, U: []int{1}}
		return v, func() string { return fmt.Sprintf("%+v", *v) }
	case 2:
		v := &pTarget2{P: 3, Q: 3, U: []int{1}}
		return v, func() string { return fmt.Sprintf("%+v", *v) }
	case 3:
		v := &pTarget3{P: 3, Q: 3, U: []int{1}}
		return v, func() string { return fmt.Sprintf("%+v", *v) }
	}
	v := &pTarget{P: 3, Q: 3, U: []int{1}}
	return v, func() string { return fmt.Sprintf("%+v", *v) }
}

func (st PStep) options(suffix string) ([]ucfg.Option, error) {
	var opts []ucfg.Option
	if st.Sep != "" {
		opts = append(opts, ucfg.PathSep(st.Sep))
	}
	if st.MaxIdx >= 0 {
		opts = append(opts, ucfg.MaxIdx(st.MaxIdx))
	}
	switch st.NumKeys {
	case 1:
		opts = append(opts, ucfg.EnableNumKeys(true))
	case 2:
		opts = append(opts, ucfg.EnableNumKeys(false))
	}
	if st.Escape {
		opts = append(opts, ucfg.EscapePath())
	}
	if st.VarExp {
		opts = append(opts, ucfg.VarExp)
	}
	if st.IgnoreCommas {
		opts = append(opts, ucfg.IgnoreCommas)
	}
	if st.Tag != "" {
		opts = append(opts, ucfg.StructTag(st.Tag))
	}
	if st.VTag != "" {
		opts = append(opts, ucfg.ValidatorTag(st.VTag))
	}
	switch st.Policy {
	case "append":
		opts = append(opts, ucfg.AppendValues)
	case "prepend":
		opts = append(opts, ucfg.PrependValues)
	case "replace":
		opts = append(opts, ucfg.ReplaceValues)
	}
	if st.Env {
		e, err := ucfg.NewFrom(map[string]interface{}{
			rename("a", suffix):   map[string]interface{}{rename("b", suffix): "env-ab", "0": "env-a0"},
			rename("a.b", suffix): "env-a.b", rename("a/b", suffix): "env-a/b", rename("c", suffix): []interface{}{"env-c0", "env-c1"},
		})
		if err != nil {
			return nil, err
		}
		opts = append(opts, ucfg.Env(e))
	}
	if st.Resolve {
		known := rename("b.a", suffix)
		opts = append(opts, ucfg.Resolve(func(name string) (string, parse.Config, error) {
			if name == known || strings.HasPrefix(name, "7") {
				return "res,1", parse.DefaultConfig, nil
			}
			return "", parse.DefaultConfig, ucfg.ErrMissing
		}))
	}
	return opts, nil
}

// runStep performs the calls of one step in the world with the given suffix and returns the outcome with the
// names mapped back.
func (c PCase) runStep(st PStep, suffix string, world int) (string, error) {
	opts, err := st.options(suffix)
	if err != nil {
		return "", err
	}
	var out []string
	add := func(what string, f func() (interface{}, error)) {
		out = append(out, strings.ReplaceAll(what+" "+sigOf(f), suffix, ""))
	}
	in, in2 := renameTree(c.In, suffix), renameTree(c.In2, suffix)
	cfg, err := ucfg.NewFrom(treeGo(in, seq(8), false), opts...)
	add("NewFrom:", func() (interface{}, error) { return "created", err })
	if err != nil {
		return strings.Join(out, "\n    "), nil
	}
	add("Unpack(generic):", func() (interface{}, error) { return uc.Dump(cfg, opts...) })
	for _, p := range c.Reads {
		p := rename(p, suffix)
		add("Has("+p+"):", func() (interface{}, error) { return cfg.Has(p, -1, opts...) })
		add("String("+p+"):", func() (interface{}, error) { return cfg.String(p, -1, opts...) })
		add("Child("+p+"):", func() (interface{}, error) {
			ch, err := cfg.Child(p, -1, opts...)
			if err != nil {
				return nil, err
			}
			return uc.Dump(ch, opts...)
		})
	}
	add("Unpack(struct):", func() (interface{}, error) {
		to, show := newPTarget(world)
		if err := cfg.Unpack(to, opts...); err != nil {
			return nil, err
		}
		return show(), nil
	})
	add("Merge:", func() (interface{}, error) {
		if err := cfg.Merge(treeGo(in2, seq(8), false), opts...); err != nil {
			return nil, err
		}
		return uc.Dump(cfg, opts...)
	})
	add("FlattenedKeys:", func() (interface{}, error) {
		if st.VarExp {
			return "skipped", nil // termination on cyclic references is C08's matter
		}
		return fmt.Sprint(cfg.FlattenedKeys(opts...)), nil
	})
	return strings.Join(out, "\n    "), nil
}

func runOptHist(c PCase, r *runlog.R) error {
	if c.In == nil || c.In2 == nil || len(c.Steps) < 1 || len(c.Steps) > 4 {
		r.Discard()
		return nil
	}
	tag := c.tag()
	hist := make([]string, len(c.Steps))
	solo := make([]string, len(c.Steps))
	var err error
	runHistory := func() error {
		for i, st := range c.Steps {
			if hist[i], err = c.runStep(st, tag+"H", 4); err != nil {
				return err
			}
		}
		return nil
	}
	runSolo := func() error {
		// latest step first: nothing a solo call meets was prepared by an earlier one
		for i := len(c.Steps) - 1; i >= 0; i-- {
			if solo[i], err = c.runStep(c.Steps[i], tag+string("PQRS"[i]), i); err != nil {
				return err
			}
		}
		return nil
	}
	if c.SoloFirst {
		if err := runSolo(); err != nil {
			return err
		}
	}
	if err := runHistory(); err != nil {
		return err
	}
	if !c.SoloFirst {
		if err := runSolo(); err != nil {
			return err
		}
	}
	for i := range c.Steps {
		if hist[i] != solo[i] {
			return fmt.Errorf("call %d of the history (options %+v) has the outcome\n    %s\nthe same call on an input that differs in its names only (a, b, c carry a suffix, removed again here) and was never used under other options has the outcome\n    %s\nearlier calls of the history: %+v", i, c.Steps[i], hist[i], solo[i], c.Steps[:i])
		}
	}
	// classes
	seps, idx, nk, esc, tags, commas, vx := map[string]bool{}, map[int64]bool{}, map[int]bool{}, map[bool]bool{}, map[string]bool{}, map[bool]bool{}, 0
	for _, st := range c.Steps {
		seps[st.Sep], idx[st.MaxIdx], nk[st.NumKeys], esc[st.Escape], commas[st.IgnoreCommas] = true, true, true, true, true
		tags[st.Tag+"/"+st.VTag] = true
		if st.VarExp {
			vx++
		}
	}
	textDims := len(seps) > 1 || len(idx) > 1 || len(nk) > 1 || len(esc) > 1
	r.ClassIf(len(seps) > 1, "history varies PathSep")
	r.ClassIf(len(idx) > 1, "history varies MaxIdx")
	r.ClassIf(len(nk) > 1, "history varies EnableNumKeys")
	r.ClassIf(len(esc) > 1, "history varies EscapePath")
	r.ClassIf(len(tags) > 1, "history varies StructTag/ValidatorTag")
	r.ClassIf(len(commas) > 1, "history varies IgnoreCommas")
	r.ClassIf(vx >= 2 && textDims, "two or more calls expand variables under different path options")
	okNew, okDump, okStruct := 0, 0, 0
	for _, h := range hist {
		if strings.HasPrefix(h, "NewFrom: ok") {
			okNew++
		}
		if strings.Contains(h, "Unpack(generic): ok") {
			okDump++
		} else if i := strings.Index(h, "Unpack(generic): "); i >= 0 {
			k := h[i:]
			if j := strings.Index(k, "\n"); j > 0 {
				k = k[:j]
			}
			r.Class("call with " + k)
		}
		if strings.Contains(h, "Unpack(struct): ok") {
			okStruct++
		}
	}
	r.ClassIf(okNew == len(hist), "every call creates the config")
	r.ClassIf(okNew == 0, "no call creates the config")
	r.ClassIf(okDump > 0, "a call unpacks all settings into generic data")
	r.ClassIf(okStruct > 0, "a typed target was filled")
	distinct := map[string]bool{}
	for _, h := range hist {
		distinct[h] = true
	}
	r.ClassIf(len(distinct) > 1, "the options change the outcome")
	r.NonTrivialIf(len(distinct) > 1 && okNew > 0)
	return nil
}

var subOptHist = runlog.Register(&runlog.Sub[PCase]{
	Name:    "option-histories",
	Rule:    "histories of 2-4 calls that differ in their OPTIONS only (two thirds of the calls are the previous one with one option changed): PathSep none/./slash, MaxIdx default/0/1/5/100, EnableNumKeys unset/true/false, EscapePath, VarExp, IgnoreCommas, StructTag, ValidatorTag, a global merge policy, an Env config, a resolver. Every call creates a config from one input (2-5 top-level keys spelled with names, numbers, '.' and '/' separators and [bracketed] names; values are literals, nested objects/lists and reference expressions - plain, with defaults, nested, spliced, with commas - over the same spellings), dumps it, reads 1-4 paths through Has/String/Child, unpacks it into a typed struct (two tag sets, validators), merges a second such input into it and lists the flattened keys (without VarExp). The history runs on the input with the suffix <tag>H (tag: six letters from a hash of the case) added to every a, b, c of keys and strings and a target type of its own; each call also runs alone (latest first, before or after the history) on an input renamed with a suffix of its own and a distinct identical target type, so that none of its texts and types was ever used under other options in the process. With the suffixes removed the outcome of every call (canonical data or error kind per operation) must be the same in both. Non-trivial: at least one call creates the config and the calls of the history do not all have the same outcome. Distinct: hash of the case.",
	Gen:     genOptHist,
	Run:     runOptHist,
	Journal: true,
})

func TestOptionHistories(t *testing.T) { subOptHist.Check(t, 14000, 600000) }
