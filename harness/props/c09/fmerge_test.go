package c09

import (
	"fmt"
	"strings"

	ucfg "github.com/elastic/go-ucfg"
	"pgregory.net/rapid"

	"verif/harness/internal/gen"
	"verif/harness/internal/model"
	"verif/harness/internal/runlog"
	"verif/harness/internal/uc"
)

// ---------------------------------------------------------------------------
// fmerge: merges under per-field options. The handling of a setting is looked up in a tree built from the option
// names while the source dictionary is enumerated in map order: whatever the lookup of one setting does must not
// change what its siblings get. The names overlap on purpose: plain names, dotted names, indexes, `*` and the
// any-depth wildcard `**` at the top, below named fields and below other wildcards, the same leaf handled
// differently by names of different specificity.

var fSegs = []string{"a", "**", "b", "c", "**", "a", "0", "b", "*", "1"}

func genFieldName(t *rapid.T, earlier []string) string {
	if len(earlier) > 0 && rapid.IntRange(0, 1).Draw(t, "related") == 0 {
		// a variation of an earlier name: the same leaf reached through another prefix
		segs := strings.Split(rapid.SampledFrom(earlier).Draw(t, "of"), ".")
		switch rapid.IntRange(0, 4).Draw(t, "vary") {
		case 0: // below a named field
			segs = append([]string{rapid.SampledFrom([]string{"a", "b", "c"}).Draw(t, "under")}, segs...)
		case 1: // at any depth
			segs = append([]string{"**"}, segs...)
		case 2: // one segment widened
			segs[rapid.IntRange(0, len(segs)-1).Draw(t, "at")] = rapid.SampledFrom([]string{"**", "*", "a", "b"}).Draw(t, "to")
		case 3: // less specific
			if len(segs) > 1 {
				segs = segs[1:]
			}
		default: // one level deeper
			segs = append(segs, rapid.SampledFrom([]string{"a", "b", "c", "**", "0"}).Draw(t, "deeper"))
		}
		if len(segs) > 4 {
			segs = segs[:4]
		}
		return strings.Join(segs, ".")
	}
	n := rapid.IntRange(1, 3).Draw(t, "nseg")
	var segs []string
	for i := 0; i < n; i++ {
		segs = append(segs, rapid.SampledFrom(fSegs).Draw(t, "seg"))
	}
	return strings.Join(segs, ".")
}

// genPair draws two trees of related shape: containers of the same kind at the same paths (what a merge policy
// distinguishes), next to settings only one side has and settings whose kind differs.
func genPair(t *rapid.T, depth int, top bool) (*gen.Tree, *gen.Tree) {
	prim := &gen.TreeCfg{Depth: 0, Width: 2, Keys: []string{"a", "b"}, NoFloat: true, PrimOnly: true}
	k := rapid.IntRange(0, 9).Draw(t, "pairkind")
	if top || (depth > 0 && k <= 4) {
		a, b := gen.Obj(), gen.Obj()
		for _, key := range []string{"a", "b", "c", "d"} {
			if key == "d" && !top {
				break
			}
			switch rapid.IntRange(0, 7).Draw(t, "where") {
			case 0:
			case 1:
				x, _ := genPair(t, depth-1, false)
				a.Put(key, x)
			case 2:
				_, y := genPair(t, depth-1, false)
				b.Put(key, y)
			default:
				x, y := genPair(t, depth-1, false)
				a.Put(key, x)
				b.Put(key, y)
			}
		}
		return a, b
	}
	switch {
	case k <= 7:
		mk := func(label string) *gen.Tree {
			l := gen.List()
			for i, n := 0, rapid.IntRange(0, 3).Draw(t, label); i < n; i++ {
				if depth > 0 && rapid.IntRange(0, 3).Draw(t, "objelem") == 0 {
					x, y := genPair(t, depth-1, false)
					if label == "lb" {
						x = y
					}
					l.Vals = append(l.Vals, x)
				} else {
					l.Vals = append(l.Vals, gen.GenTree(t, prim, 0))
				}
			}
			return l
		}
		return mk("la"), mk("lb")
	case k == 8:
		return gen.GenTree(t, prim, 0), gen.GenTree(t, prim, 0)
	}
	loose := &gen.TreeCfg{Depth: 1, Width: 2, Keys: []string{"a", "b", "c"}, NoFloat: true}
	return gen.GenTree(t, loose, 1), gen.GenTree(t, loose, 1)
}

func (c *Case) genFieldMerge(t *rapid.T) {
	c.A, c.B = genPair(t, 3, true)
	if rapid.IntRange(0, 3).Draw(t, "dotted") == 0 {
		// the source names a nested setting by a dotted key
		_, y := genPair(t, 1, false)
		k := rapid.SampledFrom([]string{"a.b", "b.c", "c.a.b", "a.0", "d.a"}).Draw(t, "dkey")
		if c.B.Get(strings.Split(k, ".")[0]) == nil || rapid.Bool().Draw(t, "overlap") {
			c.B.Put(k, y)
		}
	}
	c.Policy = model.Policy(rapid.IntRange(0, int(model.NPolicies)-1).Draw(t, "policy"))
	c.Into = rapid.SampledFrom([]string{"merge", "mergecfg", "unpackcfg", "merge"}).Draw(t, "into")
	var names []string
	for i, n := 0, rapid.IntRange(1, 4).Draw(t, "nfopts"); i < n; i++ {
		s := OptSpec{Kind: rapid.SampledFrom([]string{"freplace", "fappend", "fprepend", "fmerge"}).Draw(t, "fkind")}
		for j, m := 0, rapid.IntRange(1, 2).Draw(t, "nnames"); j < m; j++ {
			name := genFieldName(t, names)
			names = append(names, name)
			s.Names = append(s.Names, name)
		}
		c.FOpts = append(c.FOpts, s)
	}
}

func (c *Case) runFieldMerge(perm []int, note func(order string)) (interface{}, error) {
	sep := ucfg.PathSep(".")
	opts := append([]ucfg.Option{sep}, uc.PolicyOpts(c.Policy)...)
	for _, s := range c.FOpts {
		o, err := buildOption(s)
		if err != nil {
			return nil, err
		}
		opts = append(opts, o)
	}
	a, err := ucfg.NewFrom(treeGo(c.A, perm, c.IfaceKeys), sep)
	if err != nil {
		return nil, err
	}
	switch c.Into {
	case "mergecfg", "unpackcfg":
		b, err := ucfg.NewFrom(treeGo(c.B, perm, c.IfaceKeys), sep)
		if err != nil {
			return nil, err
		}
		note(fmt.Sprint(b.GetFields()))
		if c.Into == "mergecfg" {
			err = a.Merge(b, opts...)
		} else {
			err = b.Unpack(a, opts...)
		}
		if err != nil {
			return nil, err
		}
	default:
		note(fmt.Sprint(a.GetFields()))
		if err := a.Merge(treeGo(c.B, perm, c.IfaceKeys), opts...); err != nil {
			return nil, err
		}
	}
	return uc.Dump(a, sep)
}

// sharedContainers counts the paths at which both trees hold a container of the same kind with something in it:
// the places where replace, merge, append and prepend give different results.
func sharedContainers(a, b *gen.Tree) int {
	if a == nil || b == nil || a.K != b.K || !a.IsCont() || len(a.Vals) == 0 || len(b.Vals) == 0 {
		return 0
	}
	n := 1
	if a.K == "obj" {
		for i, k := range a.Keys {
			n += sharedContainers(a.Vals[i], b.Get(k))
		}
		return n
	}
	for i := range a.Vals {
		if i < len(b.Vals) {
			n += sharedContainers(a.Vals[i], b.Vals[i])
		}
	}
	return n
}

func (c *Case) classesFieldMerge(r *runlog.R) {
	r.Class("fmerge into=" + c.Into)
	top, below, star, idx, plain := false, false, false, false, false
	leaves := map[string]map[string]bool{} // last segment -> handlings configured for it
	for _, s := range c.FOpts {
		for _, n := range s.Names {
			segs := strings.Split(n, ".")
			for i, sg := range segs {
				switch {
				case sg == "**" && i == 0:
					top = true
				case sg == "**":
					below = true
				case sg == "*":
					star = true
				case sg == "0" || sg == "1":
					idx = true
				}
			}
			if !strings.Contains(n, "*") {
				plain = true
			}
			l := segs[len(segs)-1]
			if leaves[l] == nil {
				leaves[l] = map[string]bool{}
			}
			leaves[l][s.Kind] = true
		}
	}
	conflict := false
	for _, k := range leaves {
		if len(k) > 1 {
			conflict = true
		}
	}
	r.ClassIf(top, "fmerge: any-depth wildcard at the top")
	r.ClassIf(below, "fmerge: any-depth wildcard below another segment")
	r.ClassIf(top && below, "fmerge: any-depth wildcards at the top and below another segment")
	r.ClassIf(star, "fmerge: name with '*' segment")
	r.ClassIf(idx, "fmerge: name with index segment")
	r.ClassIf(plain, "fmerge: name without wildcard")
	r.ClassIf(conflict, "fmerge: one leaf name under two different handlings")
	r.ClassIf(sharedContainers(c.A, c.B) >= 3, "fmerge: three or more containers shared by target and source")
}
