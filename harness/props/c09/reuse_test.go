package c09

import (
	"fmt"
	"strings"
	"testing"

	ucfg "github.com/elastic/go-ucfg"
	"github.com/elastic/go-ucfg/parse"
	"pgregory.net/rapid"

	"verif/harness/internal/gen"
	"verif/harness/internal/runlog"
	"verif/harness/internal/uc"
)

// ---------------------------------------------------------------------------
// call histories with reused arguments: "functions of their arguments" also means that a call does not depend on
// what earlier calls did with the same input objects and the same Option values. Every step of a history is run
// in two worlds - one in which the inputs (maps holding embedded *Config values) and the Option values were built
// ONCE and are reused by all steps, one in which everything is built afresh for the step - and must give the
// same outcome.

type OptSpec struct {
	Kind  string   `json:"kind"` // pathsep varexp append prepend replace fappend fprepend freplace fmerge resolve env
	Names []string `json:"names,omitempty"`
}

type HStep struct {
	Op   string `json:"op"`   // newfrom | merge | unpackcfg
	Opts []int  `json:"opts"` // indices into the pool, in the order they are passed (PathSep(".") always first)
}

type HCase struct {
	AT        *gen.Tree `json:"a"`
	BT        *gen.Tree `json:"b"`
	EmbedA    []string  `json:"embed_a,omitempty"` // top-level keys of A whose object value is passed as *Config
	EmbedB    []string  `json:"embed_b,omitempty"`
	Pool      []OptSpec `json:"pool"`
	Steps     []HStep   `json:"steps"`
	IfaceKeys bool      `json:"ifacekeys,omitempty"`
}

var fieldNames = []string{"a", "b", "c", "a.b", "a.c", "b.a", "a.b.c", "**.a", "**.b", "a.*", "a.**.b", "b.**.a", "**.a.b", "a.**", "**.**.c", "c.**.a", "**.0"}

func genEmbed(t *rapid.T, tr *gen.Tree) []string {
	var out []string
	for i, k := range tr.Keys {
		if tr.Vals[i].K == "obj" && rapid.IntRange(0, 2).Draw(t, "embed") > 0 {
			out = append(out, k)
		}
	}
	return out
}

func genHist(t *rapid.T) HCase {
	varexp := rapid.Bool().Draw(t, "varexp")
	c := HCase{AT: genDotted(t, varexp), BT: genDotted(t, varexp), IfaceKeys: rapid.IntRange(0, 3).Draw(t, "ifacekeys") == 0}
	c.EmbedA, c.EmbedB = genEmbed(t, c.AT), genEmbed(t, c.BT)
	if varexp {
		c.Pool = append(c.Pool, OptSpec{Kind: "varexp"}, OptSpec{Kind: "resolve"}, OptSpec{Kind: "env"})
	}
	n := rapid.IntRange(2, 5).Draw(t, "npool")
	for i := 0; i < n; i++ {
		k := rapid.SampledFrom([]string{"append", "prepend", "replace", "fappend", "fprepend", "freplace", "fmerge", "fappend", "freplace", "fprepend"}).Draw(t, "okind")
		s := OptSpec{Kind: k}
		if strings.HasPrefix(k, "f") {
			for j, m := 0, rapid.IntRange(1, 2).Draw(t, "nnames"); j < m; j++ {
				s.Names = append(s.Names, rapid.SampledFrom(fieldNames).Draw(t, "fname"))
			}
		}
		c.Pool = append(c.Pool, s)
	}
	ns := rapid.IntRange(2, 6).Draw(t, "nsteps")
	for i := 0; i < ns; i++ {
		st := HStep{Op: rapid.SampledFrom([]string{"newfrom", "merge", "merge", "unpackcfg", "unpack-reused", "unpack-reused", "merge-config", "merge-config"}).Draw(t, "op")}
		if i > 0 && rapid.IntRange(0, 2).Draw(t, "again") == 0 {
			// exactly an earlier call once more
			prev := c.Steps[rapid.IntRange(0, i-1).Draw(t, "prev")]
			st = HStep{Op: prev.Op, Opts: append([]int(nil), prev.Opts...)}
		} else {
			perm := rapid.Permutation(seq(len(c.Pool))).Draw(t, "operm")
			st.Opts = perm[:rapid.IntRange(0, len(perm)).Draw(t, "nopts")]
		}
		c.Steps = append(c.Steps, st)
	}
	return c
}

func seq(n int) []int {
	out := make([]int, n)
	for i := range out {
		out[i] = i
	}
	return out
}

// world holds the arguments of one world: inputs and Option values.
type world struct {
	inA, inB interface{}
	embedded []*ucfg.Config
	embTrees []*gen.Tree
	pool     []ucfg.Option
	// a configuration and targets that live as long as the world: unpacking it again into the same targets (which
	// capture sections of it in *Config fields, under append/prepend policies too) must not change it
	srcCfg  *ucfg.Config
	srcErr  error
	targets []interface{}
	// a long-lived configuration used as merge SOURCE by several calls
	srcB    *ucfg.Config
	srcBErr error
}

func (w *world) sourceB() (*ucfg.Config, error) {
	if w.srcB == nil && w.srcBErr == nil {
		w.srcB, w.srcBErr = ucfg.NewFrom(w.inB, ucfg.PathSep("."), ucfg.VarExp)
	}
	return w.srcB, w.srcBErr
}

func (w *world) source() (*ucfg.Config, error) {
	if w.srcCfg == nil && w.srcErr == nil {
		w.srcCfg, w.srcErr = ucfg.NewFrom(w.inA, ucfg.PathSep("."))
		w.targets = []interface{}{
			&struct {
				A *ucfg.Config `config:"a"`
			}{},
			&struct {
				A *ucfg.Config `config:"a,append"`
			}{},
			&struct {
				A *ucfg.Config `config:"a,prepend"`
				B *ucfg.Config `config:"b,append"`
			}{},
			&struct {
				C []*ucfg.Config `config:"c,append"`
			}{},
			&struct {
				M map[string]*ucfg.Config `config:",inline,append"`
			}{},
			&struct {
				B map[string]interface{} `config:"b,append"`
				A []interface{}          `config:"a,prepend"`
			}{},
			ucfg.New(),
		}
	}
	return w.srcCfg, w.srcErr
}

func buildInput(tr *gen.Tree, embed []string, iface bool, w *world) (interface{}, error) {
	perm := seq(8)
	in := treeGo(tr, perm, iface)
	for _, k := range embed {
		sub := tr.Get(k)
		if sub == nil || sub.K != "obj" {
			continue
		}
		ec, err := embeddedConfig(sub, perm, len(w.embedded)%2 == 1)
		if err != nil {
			return nil, fmt.Errorf("building the embedded config for %q failed: %v", k, err)
		}
		w.embedded = append(w.embedded, ec)
		w.embTrees = append(w.embTrees, sub)
		switch m := in.(type) {
		case map[string]interface{}:
			m[k] = ec
		case map[interface{}]interface{}:
			m[k] = ec
		}
	}
	return in, nil
}

// embeddedConfig builds the configuration of an embedded section. assembled: its object-valued entries are sections
// that belong to other configurations, where all of them are called "same", adopted here with SetChild under
// their keys (what a section is called where it came from must not matter).
func embeddedConfig(sub *gen.Tree, perm []int, assembled bool) (*ucfg.Config, error) {
	if !assembled {
		return ucfg.NewFrom(treeGo(sub, perm, false))
	}
	plain := gen.Obj()
	for i, k := range sub.Keys {
		if sub.Vals[i].K != "obj" {
			plain.Put(k, sub.Vals[i])
		}
	}
	ec, err := ucfg.NewFrom(treeGo(plain, perm, false))
	if err != nil {
		return nil, err
	}
	for i, k := range sub.Keys {
		if sub.Vals[i].K != "obj" {
			continue
		}
		sec, err := ucfg.NewFrom(treeGo(sub.Vals[i], perm, false))
		if err != nil {
			return nil, err
		}
		donor := ucfg.New()
		if err := donor.SetChild("same", -1, sec); err != nil {
			return nil, err
		}
		if err := ec.SetChild(k, -1, sec); err != nil {
			return nil, err
		}
	}
	return ec, nil
}

func buildOption(s OptSpec) (ucfg.Option, error) {
	switch s.Kind {
	case "varexp":
		return ucfg.VarExp, nil
	case "append":
		return ucfg.AppendValues, nil
	case "prepend":
		return ucfg.PrependValues, nil
	case "replace":
		return ucfg.ReplaceValues, nil
	case "fappend":
		return ucfg.FieldAppendValues(s.Names...), nil
	case "fprepend":
		return ucfg.FieldPrependValues(s.Names...), nil
	case "freplace":
		return ucfg.FieldReplaceValues(s.Names...), nil
	case "fmerge":
		return ucfg.FieldMergeValues(s.Names...), nil
	case "resolve":
		return ucfg.Resolve(func(name string) (string, parse.Config, error) {
			if name == "zz" || name == "c" {
				return "r-" + name, parse.DefaultConfig, nil
			}
			return "", parse.DefaultConfig, ucfg.ErrMissing
		}), nil
	case "env":
		e, err := ucfg.NewFrom(map[string]interface{}{"b": map[string]interface{}{"a": "envba"}, "c": "envc", "a": []interface{}{"e0", "e1"}}, ucfg.PathSep("."), ucfg.VarExp)
		if err != nil {
			return nil, err
		}
		return ucfg.Env(e), nil
	}
	return nil, fmt.Errorf("unknown option kind %q", s.Kind)
}

func buildWorld(c HCase) (*world, error) {
	w := &world{}
	var err error
	if w.inA, err = buildInput(c.AT, c.EmbedA, c.IfaceKeys, w); err != nil {
		return nil, err
	}
	if w.inB, err = buildInput(c.BT, c.EmbedB, c.IfaceKeys, w); err != nil {
		return nil, err
	}
	for _, s := range c.Pool {
		o, err := buildOption(s)
		if err != nil {
			return nil, err
		}
		w.pool = append(w.pool, o)
	}
	return w, nil
}

func (w *world) run(st HStep) string {
	opts := []ucfg.Option{ucfg.PathSep(".")}
	for _, i := range st.Opts {
		if i >= 0 && i < len(w.pool) {
			opts = append(opts, w.pool[i])
		}
	}
	if st.Op == "merge-config" {
		return sigOf(func() (interface{}, error) {
			src, err := w.sourceB()
			if err != nil {
				return "source refused", nil
			}
			dst, err := ucfg.NewFrom(w.inA, opts...)
			if err != nil {
				return "destination refused", nil
			}
			merr := uc.Safe("Merge", func() error { return dst.Merge(src, opts...) })
			// the source reads like before, whatever it was merged into
			d, derr := uc.Dump(src, ucfg.PathSep("."), ucfg.VarExp)
			if derr != nil {
				return []interface{}{errKind(derr), merr != nil}, nil
			}
			return []interface{}{d, merr != nil}, nil
		})
	}
	if st.Op == "unpack-reused" {
		return sigOf(func() (interface{}, error) {
			src, err := w.source()
			if err != nil {
				return "source refused", nil
			}
			for _, t := range w.targets {
				uc.Safe("Unpack", func() error { return src.Unpack(t, opts...) })
			}
			return uc.Dump(src, ucfg.PathSep("."))
		})
	}
	return sigOf(func() (interface{}, error) {
		cfg, err := ucfg.NewFrom(w.inA, opts...)
		if err != nil {
			return nil, err
		}
		switch st.Op {
		case "merge":
			if err := cfg.Merge(w.inB, opts...); err != nil {
				return nil, err
			}
		case "unpackcfg":
			to, err := ucfg.NewFrom(w.inB, opts...)
			if err != nil {
				return nil, err
			}
			if err := cfg.Unpack(to, opts...); err != nil {
				return nil, err
			}
			cfg = to
		}
		return uc.Dump(cfg, opts...)
	})
}

func runHist(c HCase, r *runlog.R) error {
	if c.AT == nil || c.BT == nil {
		r.Discard()
		return nil
	}
	reused, err := buildWorld(c)
	if err != nil {
		return err
	}
	seen := map[string]string{}
	repeated := false
	for i, st := range c.Steps {
		got := reused.run(st)
		fresh, err := buildWorld(c)
		if err != nil {
			return err
		}
		want := fresh.run(st)
		if got != want {
			return fmt.Errorf("step %d (%s with options %v of the pool %+v): with the input objects and Option values that the earlier steps already used the outcome is\n  %s\nwith freshly built, equal arguments it is\n  %s", i, st.Op, st.Opts, c.Pool, got, want)
		}
		key := fmt.Sprint(st.Op, st.Opts)
		if prev, ok := seen[key]; ok {
			repeated = true
			if prev != got {
				return fmt.Errorf("step %d repeats an earlier call (%s, options %v) but the outcome changed from\n  %s\nto\n  %s", i, st.Op, st.Opts, prev, got)
			}
		}
		seen[key] = got
		r.ClassIf(strings.HasPrefix(got, "error"), "step outcome: error")
		r.ClassIf(strings.HasPrefix(got, "ok"), "step outcome: ok")
	}
	// the embedded configs still hold their own data
	for i, ec := range reused.embedded {
		got := sigOf(func() (interface{}, error) { return uc.Dump(ec) })
		want := sigOf(func() (interface{}, error) {
			f, err := ucfg.NewFrom(treeGo(reused.embTrees[i], seq(8), false))
			if err != nil {
				return nil, err
			}
			return uc.Dump(f)
		})
		if got != want {
			return fmt.Errorf("an embedded *Config of the input was modified by the calls it was passed to: it holds\n  %s\nit was built from\n  %s", got, want)
		}
	}
	fieldOpt := false
	for _, s := range c.Pool {
		if strings.HasPrefix(s.Kind, "f") {
			fieldOpt = true
		}
	}
	r.ClassIf(len(reused.embedded) > 0, "input holds embedded *Config values")
	r.ClassIf(fieldOpt, "pool holds per-field merge options")
	r.ClassIf(repeated, "history repeats a call")
	r.NonTrivialIf(len(c.Steps) >= 2 && (fieldOpt || len(reused.embedded) > 0))
	return nil
}

var subHist = runlog.Register(&runlog.Sub[HCase]{
	Name:    "reused-arguments",
	Rule:    "histories of 2-6 calls (NewFrom; NewFrom+Merge; Unpack into a *Config target; Merge of a long-lived *Config source (which must read like a fresh one afterwards); Unpack of a long-lived configuration into long-lived targets that capture its sections in *Config fields under default/append/prepend tags, after which the configuration must unpack like a fresh one) over two dotted-key inputs whose object-valued entries may be embedded *Config values, with option lists drawn (subset and order) from a pool of Option values (global and per-field merge policies with plain, dotted and wildcard names - any-depth wildcards at the top, below named fields and below one another -, VarExp, a resolver, an Env config); a third of the steps repeat an earlier call exactly. Every step runs with inputs and Option values built once and shared by all steps, and again with freshly built equal arguments: both outcomes (canonical data or error kind) must be equal, repeated calls must repeat their outcome, and the embedded *Config values must still hold their own data afterwards. Non-trivial: at least two steps and the pool holds a per-field option or the input an embedded *Config. Distinct: hash of the case.",
	Gen:     genHist,
	Run:     runHist,
	Journal: true,
})

func TestReusedArguments(t *testing.T) { subHist.Check(t, 24000, 1000000) }
