// Package c09 decides property C09: results never depend on map iteration
// order. Metamorphic oracle: the same operation is repeated on freshly built
// inputs whose maps were filled in different insertion orders (Go enumerates a
// small map from a random offset of its insertion layout, so insertion
// permutation x random offset reaches every order; the library's internal
// dictionaries are enumerated from a random offset on every range as well);
// all repetitions must have the same outcome signature: success plus canonical
// data, or failure plus error kind.
package c09

import (
	"fmt"
	"reflect"
	"regexp"
	"sort"
	"strings"
	"testing"

	ucfg "github.com/elastic/go-ucfg"
	"pgregory.net/rapid"

	"verif/harness/internal/canon"
	"verif/harness/internal/gen"
	"verif/harness/internal/model"
	"verif/harness/internal/runlog"
	"verif/harness/internal/uc"
	"verif/harness/internal/vx"
)

type Case struct {
	Kind      string       `json:"kind"` // newfrom | merge | fmerge | refs | faults
	A         *gen.Tree    `json:"a,omitempty"`
	B         *gen.Tree    `json:"b,omitempty"`
	Policy    model.Policy `json:"policy,omitempty"`
	VarExp    bool         `json:"varexp,omitempty"`
	Root      *vx.Node     `json:"root,omitempty"`
	Envs      []*vx.Node   `json:"envs,omitempty"`
	Resolvers [][]vx.KV    `json:"resolvers,omitempty"`
	Perms     [][]int      `json:"perms"`
	IfaceKeys bool         `json:"ifacekeys,omitempty"` // input maps are map[interface{}]interface{} (what the YAML decoder produces)
	FOpts     []OptSpec    `json:"fopts,omitempty"`     // fmerge: per-field merge options, in the order they are passed
	Into      string       `json:"into,omitempty"`      // fmerge: merge (B as Go value) | mergecfg (B as *Config) | unpackcfg (B unpacked into the config of A)
}

var keyPool = []string{"a", "b", "a.b", "a.c", "a.b.c", "a.0", "a.1", "b.a", "b.0.a", "a.b.0", "c", "c.a"}
var refPool = []string{"${a}", "${b}", "${a.b}", "x${a.c}", "${b:${a}}", "${a.0}", "${zz:7}", "${c}", "${c.a:+y}", "${b.a}-${b.a}"}

func genPerms(t *rapid.T) [][]int {
	n := rapid.IntRange(3, 6).Draw(t, "nperm")
	var out [][]int
	for i := 0; i < n; i++ {
		out = append(out, rapid.Permutation([]int{0, 1, 2, 3, 4, 5, 6, 7}).Draw(t, "perm"))
	}
	return out
}

func genDotted(t *rapid.T, varexp bool) *gen.Tree {
	cfg := &gen.TreeCfg{Depth: 2, Width: 3, Keys: []string{"a", "b", "c", "0", "1"}, NoFloat: true}
	o := gen.Obj()
	n := rapid.IntRange(2, 5).Draw(t, "n")
	for i := 0; i < n; i++ {
		k := rapid.SampledFrom(keyPool).Draw(t, "k")
		if o.Get(k) != nil {
			continue
		}
		v := gen.GenTree(t, cfg, 2)
		if varexp && rapid.IntRange(0, 2).Draw(t, "ref") == 0 {
			v = gen.Str(rapid.SampledFrom(refPool).Draw(t, "refv"))
		}
		o.Put(k, v)
	}
	if rapid.IntRange(0, 3).Draw(t, "twice") == 0 {
		// one object defined twice (nested below "a" and under the dotted name "a.b"), both definitions holding
		// a sub-object of the same name next to other settings: three levels that are merged recursively
		leaf := func() *gen.Tree {
			return gen.GenTree(t, &gen.TreeCfg{Depth: 1, Width: 2, Keys: []string{"p", "q"}, NoFloat: true}, 1)
		}
		inner1, inner2 := gen.Obj().Put("p", leaf()), gen.Obj().Put("q", leaf())
		def1 := gen.Obj().Put("s", inner1)
		def2 := gen.Obj().Put("s", inner2)
		for _, extra := range []string{"t", "u", "v"} {
			if rapid.Bool().Draw(t, "extra1") {
				def1.Put(extra+"1", leaf())
			}
			if rapid.Bool().Draw(t, "extra2") {
				def2.Put(extra+"2", leaf())
			}
		}
		o.Put("a", gen.Obj().Put("b", def1))
		o.Put("a.b", def2)
	}
	return o
}

func genCase(t *rapid.T) Case {
	c := Case{Perms: genPerms(t), IfaceKeys: rapid.IntRange(0, 2).Draw(t, "ifacekeys") == 0}
	switch rapid.IntRange(0, 9).Draw(t, "kind") {
	case 0, 1, 2:
		c.Kind = "newfrom"
		c.VarExp = rapid.Bool().Draw(t, "varexp")
		c.A = genDotted(t, c.VarExp)
	case 3:
		c.Kind = "fmerge"
		c.genFieldMerge(t)
	case 4:
		c.Kind = "merge"
		c.VarExp = rapid.Bool().Draw(t, "varexp")
		c.A = genDotted(t, c.VarExp)
		c.B = genDotted(t, c.VarExp)
		c.Policy = model.Policy(rapid.IntRange(0, int(model.NPolicies)-1).Draw(t, "policy"))
	case 5, 6, 7:
		c.Kind = "refs"
		c.genWorld(t)
	default:
		c.Kind = "faults"
		c.genWorld(t)
	}
	return c
}

func (c *Case) genWorld(t *rapid.T) {
	names := vx.OwnNames
	if rapid.Bool().Draw(t, "allnames") {
		names = vx.Names
	}
	g := &vx.GCfg{Depth: 2, Names: names}
	c.Root = g.GenRoot(t)
	if rapid.IntRange(0, 2).Draw(t, "env") == 0 {
		c.Envs = append(c.Envs, g.GenEnv(t))
	}
	if rapid.IntRange(0, 2).Draw(t, "res") == 0 {
		c.Resolvers = append(c.Resolvers, g.GenResolver(t))
	}
	// evaluation has no memo: bound the work of a case (see vx.Lighten)
	vx.Lighten(20000, append([]*vx.Node{c.Root}, c.Envs...)...)
}

// ordered materialisation: every map is filled in the order given by perm

func order(n int, perm []int) []int {
	var out []int
	for _, x := range perm {
		if x < n {
			out = append(out, x)
		}
	}
	for i := len(perm); i < n; i++ {
		out = append(out, i)
	}
	return out
}

func treeGo(t *gen.Tree, perm []int, iface bool) interface{} {
	switch t.K {
	case "obj":
		if iface {
			m := map[interface{}]interface{}{}
			for _, i := range order(len(t.Keys), perm) {
				m[t.Keys[i]] = treeGo(t.Vals[i], perm, iface)
			}
			return m
		}
		m := map[string]interface{}{}
		for _, i := range order(len(t.Keys), perm) {
			m[t.Keys[i]] = treeGo(t.Vals[i], perm, iface)
		}
		return m
	case "list":
		a := make([]interface{}, len(t.Vals))
		for i, v := range t.Vals {
			a[i] = treeGo(v, perm, iface)
		}
		return a
	}
	return t.Prim()
}

func nodeGo(n *vx.Node, perm []int, iface bool) interface{} {
	switch n.K {
	case "obj":
		if iface {
			m := map[interface{}]interface{}{}
			for _, i := range order(len(n.Keys), perm) {
				m[n.Keys[i]] = nodeGo(n.Vals[i], perm, iface)
			}
			return m
		}
		m := map[string]interface{}{}
		for _, i := range order(len(n.Keys), perm) {
			m[n.Keys[i]] = nodeGo(n.Vals[i], perm, iface)
		}
		return m
	case "list":
		a := make([]interface{}, len(n.Vals))
		for i, v := range n.Vals {
			a[i] = nodeGo(v, perm, iface)
		}
		return a
	}
	return n.Go()
}

var quoted = regexp.MustCompile(`'[^']*'`)

// kind of an error: the text of the root Reason with quoted parts (paths, values) blanked
func errKind(err error) string {
	for i := 0; i < 20; i++ {
		e, ok := err.(ucfg.Error)
		if !ok || e.Reason() == nil || e.Reason() == err {
			break
		}
		err = e.Reason()
	}
	s := err.Error()
	if i := strings.Index(s, "\nTrace"); i >= 0 {
		s = s[:i]
	}
	return "error: " + quoted.ReplaceAllString(s, "'…'")
}

func sigOf(f func() (interface{}, error)) (s string) {
	defer func() {
		if r := recover(); r != nil {
			s = fmt.Sprint("panic: ", r)
		}
	}()
	v, err := f()
	if err != nil {
		return errKind(err)
	}
	return "ok: " + canon.String(canon.Split(canon.Of(v)))
}

// checked is a pre-filled map entry that carries a validator
type checked struct {
	Port int `validate:"min=1"`
}

// prefilled builds a target map that already holds entries the configuration does not mention (one of them
// invalid in some cases), inserted in the order perm gives
func prefilled(perm []int, bad int) map[string]interface{} {
	names := []string{"p1", "p2", "p3", "p4"}
	m := map[string]interface{}{}
	for _, i := range order(len(names), perm) {
		port := 9200
		if i == bad {
			port = 0 // violates min=1
		}
		m[names[i]] = checked{Port: port}
	}
	return m
}

type typedTarget struct {
	A int            `config:"a"`
	B string         `config:"b"`
	C bool           `config:"c"`
	D float64        `config:"d"`
	O map[string]int `config:"o"`
	L []uint         `config:"l"`
}

func runCase(c Case, r *runlog.R) error {
	reps := runlog.Pick(8, 24)
	if runlog.Env().Replay != "" {
		reps = 200
	}
	if len(c.Perms) == 0 {
		c.Perms = [][]int{{0, 1, 2, 3, 4, 5, 6, 7}}
	}
	sigs := map[string]int{}
	var first string
	orders := map[string]bool{}
	var err0 error
	for rep := 0; rep < reps; rep++ {
		perm := c.Perms[rep%len(c.Perms)]
		var s string
		switch c.Kind {
		case "newfrom", "merge":
			opts := []ucfg.Option{ucfg.PathSep(".")}
			if c.VarExp {
				opts = append(opts, ucfg.VarExp)
			}
			s = sigOf(func() (interface{}, error) {
				cfg, err := ucfg.NewFrom(treeGo(c.A, perm, c.IfaceKeys), opts...)
				if err != nil {
					return nil, err
				}
				orders[fmt.Sprint(cfg.GetFields())] = true
				if c.Kind == "merge" {
					if err := cfg.Merge(treeGo(c.B, perm, c.IfaceKeys), append(append([]ucfg.Option{}, opts...), uc.PolicyOpts(c.Policy)...)...); err != nil {
						return nil, err
					}
				}
				d, err := uc.Dump(cfg, opts...)
				if err != nil {
					return nil, err
				}
				// ... and into a target map that is pre-filled with entries of its own: which of them are validated
				// must not depend on the enumeration order of either map
				bad := -1
				if len(c.Perms) > 0 && len(c.Perms[0]) > 0 {
					bad = c.Perms[0][0] % 6 // 0..3: that entry is invalid, 4..5: none is
				}
				pm := prefilled(perm, bad)
				perr := cfg.Unpack(&pm, opts...)
				ps := "prefilled ok"
				if perr != nil {
					ps = "prefilled " + errKind(perr)
				}
				return []interface{}{d, ps, len(pm)}, nil
			})
		case "fmerge":
			s = sigOf(func() (interface{}, error) { return c.runFieldMerge(perm, func(o string) { orders[o] = true }) })
		case "refs", "faults":
			opts, err := vx.Options(c.Envs, c.Resolvers)
			if err != nil {
				err0 = err
				break
			}
			s = sigOf(func() (interface{}, error) {
				cfg, err := ucfg.NewFrom(nodeGo(c.Root, perm, c.IfaceKeys), opts...)
				if err != nil {
					return nil, err
				}
				orders[fmt.Sprint(cfg.GetFields())] = true
				if c.Kind == "refs" {
					return uc.Dump(cfg, opts...)
				}
				// a typed map visits the dictionary in map order: with several faulty settings the reported
				// fault must not depend on which one is met first
				var tm map[string]uint
				err1 := cfg.Unpack(&tm, opts...)
				var tt typedTarget
				err2 := cfg.Unpack(&tt, opts...)
				if err1 != nil {
					k := errKind(err1)
					if err2 != nil {
						k += " / struct " + errKind(err2)
					}
					return k, nil
				}
				if err2 != nil {
					return nil, err2
				}
				return fmt.Sprintf("%v %+v", canon.Show(tm), tt), nil
			})
		default:
			r.Discard()
			return nil
		}
		if err0 != nil {
			return err0
		}
		if rep == 0 {
			first = s
		}
		sigs[s]++
	}
	if len(sigs) > 1 {
		var lines []string
		for s, n := range sigs {
			lines = append(lines, fmt.Sprintf("  %3d x %s", n, s))
		}
		sort.Strings(lines)
		return fmt.Errorf("the outcome of the same %s operation depends on map enumeration order: %d different outcomes in %d repetitions\n%s", c.Kind, len(sigs), reps, strings.Join(lines, "\n"))
	}
	r.Class("kind=" + c.Kind)
	if c.Kind == "fmerge" {
		c.classesFieldMerge(r)
	}
	r.ClassIf(c.IfaceKeys, "interface-keyed input maps")
	r.ClassIf(strings.HasPrefix(first, "error"), "outcome: error")
	r.ClassIf(strings.HasPrefix(first, "ok"), "outcome: ok")
	r.ClassIf(len(orders) >= 2, "two or more enumeration orders of the root observed")
	r.NonTrivialIf(len(orders) >= 2 && interacting(c))
	return nil
}

// interacting: at least two keys at one level whose dotted expansions overlap, or settings that reference each other
func interacting(c Case) bool {
	switch c.Kind {
	case "fmerge":
		return len(c.FOpts) > 0 && sharedContainers(c.A, c.B) >= 2
	case "newfrom", "merge":
		for _, t := range []*gen.Tree{c.A, c.B} {
			if t == nil {
				continue
			}
			for i, k := range t.Keys {
				for j, o := range t.Keys {
					if i != j && (strings.HasPrefix(o, k+".") || strings.Split(o, ".")[0] == strings.Split(k, ".")[0]) {
						return true
					}
				}
				if t.Vals[i].K == "str" && strings.Contains(t.Vals[i].S, "${") {
					return true
				}
			}
		}
		return false
	}
	return c.Root != nil && c.Root.AnyPart(func(p *vx.Part) bool { return p.IsVar })
}

var subOrder = runlog.Register(&runlog.Sub[Case]{
	Name:    "order-independence",
	Rule:    "five input classes: (newfrom) top-level maps whose keys overlap after dotted expansion (same leaf, prefixes of one another, object vs primitive vs list vs nil), optionally with references; (merge) two such maps merged under one of the five policies - both also unpacked into a target map pre-filled with entries of its own, one of which may fail validation; (fmerge) two trees of related shape (containers of the same kind at the same paths below a-d, settings only one side has, kinds that differ, optionally a dotted key in the source) merged - source as Go value, source as *Config, or source unpacked into the target config - under a global policy plus 1-4 per-field options (replace/append/prepend/merge, 1-2 names each) whose names overlap: 1-3 segments of names, indexes, '*' and the any-depth wildcard '**', half of them variations of an earlier name (put below a named field, put below '**', one segment widened, shortened, deepened), so that wildcards sit at the top, below named fields and below one another and one leaf is handled differently by names of different specificity; (refs) reference graphs incl. cycles absorbed by defaults/resolvers unpacked into generic data; (faults) the same graphs unpacked into a typed struct so that several settings fail with faults of different kinds. Each case carries 3-6 insertion permutations; the operation is repeated 8 (quick) / 24 (thorough) / 200 (replay) times on freshly built inputs and all outcome signatures (canonical data, or error kind = root Reason with quoted parts blanked) must be equal. Non-trivial: at least two keys at one level overlap or settings reference each other (fmerge: at least one per-field option and two non-empty containers of the same kind shared by target and source), and at least two different enumeration orders of the root dictionary were observed. Distinct: hash of the case.",
	Gen:     genCase,
	Run:     runCase,
	Journal: true, // a worker that dies (memory, stack) names its case
})

func TestOrderIndependence(t *testing.T) { subOrder.Check(t, 90000, 3000000) }

func TestReplay(t *testing.T) { runlog.ReplayMain(t) }

var _ = reflect.DeepEqual
