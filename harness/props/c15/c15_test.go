// Package c15 decides property C15: Path, Parent, FlattenedKeys and diff always
// describe the actual structure.
//
// Sub-check positional-histories: C12's operation histories (hist.Case)
// restricted as the quantifier says (no references; every node a dictionary
// or a list: operations that would give a node both parts are skipped) and
// enriched with the operations that move things (removal from the middle of
// lists, append/prepend merges, re-attached children). After every step every
// node of the model is navigated to with Child and asked for its Path and
// Parent, FlattenedKeys is compared with the model's leaves and
// diff.CompareConfigs with the leaves before and after the step.
//
// Sub-check diff-pairs: pairs of trees given to diff.CompareConfigs.
//
// Only the public surface is used (no hooks).
package c15

import (
	"fmt"
	"os"
	"sort"
	"strings"
	"testing"

	ucfg "github.com/elastic/go-ucfg"
	"github.com/elastic/go-ucfg/diff"
	"pgregory.net/rapid"

	"verif/harness/internal/canon"
	"verif/harness/internal/gen"
	"verif/harness/internal/hist"
	"verif/harness/internal/model"
	"verif/harness/internal/runlog"
	"verif/harness/internal/uc"
)

type Case = hist.Case

// d14Open: finding D14 (SetChild of an already attached child keeps its old
// path) has no repair; while it is open the generator constructs the class
// away. Class predicate: the history contains an operation of kind
// "reattach", i.e. a SetChild whose value is a config that already has a
// parent (obtained with Child, or attached before with SetChild).
func d14Open() bool {
	return runlog.IsOpen("D14") || os.Getenv("VERIF_FORCE_OPEN_D14") != ""
}

// isD14Class is the class predicate of finding D14.
func isD14Class(c Case) bool {
	for _, op := range c.Ops {
		if op.Kind == hist.Reattach {
			return true
		}
	}
	return false
}

// dictionary-ish and list-ish names are kept apart so that most operations
// keep every node a dictionary or a list
var names = []string{
	"a", "b", "c", "a.b", "a.c", "a.b.c", "d.x", "d.y",
	"l", "l", "l.0", "l.1", "l.2", "l.0.x", "l.1.x", "l.1.y", "l.2.x",
	"a.l", "a.l", "a.l.0", "a.l.1", "a.l.2", "a.l.1.x",
	"m.0.0", "m.0.1", "m.1.0", "m.1", "m", "",
}

var treeKeys = []string{"a", "b", "c", "d", "x", "y"}

func genCfg() *hist.GenCfg {
	return &hist.GenCfg{
		Names:  names,
		MaxIdx: 3,
		MinOps: 3,
		MaxOps: runlog.Pick(20, 36),
		Kinds: []string{hist.Set, hist.Set, hist.Set, hist.Set, hist.Set, hist.Remove, hist.Remove, hist.Remove, hist.Remove, hist.Remove,
			hist.Child, hist.Child, hist.Child, hist.SetChild, hist.SetChild, hist.Merge, hist.Merge, hist.Merge, hist.Reattach, hist.Reattach},
		Trees:     &gen.TreeCfg{Depth: 2, Width: 3, Keys: treeKeys, NoFloat: true},
		Prims:     &gen.TreeCfg{PrimOnly: true, NoNil: true, NoFloat: true},
		Policies:  []model.Policy{model.Default, model.Replace, model.ReplaceArr, model.Append, model.Prepend, model.Append, model.Prepend},
		NReads:    0,
		ListNames: []string{"l", "a.l", "m", "l", "a.l"},
		InitLists: 6,
		MoveBias:  5,
		D14Open:   d14Open(),
	}
}

func genCase(t *rapid.T) Case { return hist.Gen(t, genCfg()) }

// ---------------------------------------------------------------------------
// oracle

// checkPositions navigates to every node of the model with Child and compares
// Path and Parent.
func checkPositions(st *hist.State) (nodes int, err error) {
	root := st.Root
	if p := root.C.Path("."); p != "" {
		return 0, fmt.Errorf("the root says its path is %q", p)
	}
	if root.C.Parent() != nil {
		return 0, fmt.Errorf("the root has a parent")
	}
	var walk func(h *ucfg.Config, m *model.Node, path []model.Seg) error
	visit := func(h *ucfg.Config, sg model.Seg, cm *model.Node, path []model.Seg) error {
		if cm.Kind == "prim" {
			return nil
		}
		name, idx := hist.SegAddr(sg)
		p := append(append([]model.Seg{}, path...), sg)
		want := model.JoinSegs(p, ".")
		var ch *ucfg.Config
		cerr := uc.Safe("Child", func() error {
			var e error
			ch, e = h.Child(name, idx, st.Opts...)
			return e
		})
		if cm.Kind == "nil" {
			// a nil setting: whether it can be taken as a child is not stated; if it can, it has a position
			if cerr != nil || ch == nil {
				return nil
			}
		} else if cerr != nil || ch == nil {
			return fmt.Errorf("navigating to %q: Child(%q,%d) failed: %v", want, name, idx, cerr)
		}
		nodes++
		if got := ch.Path("."); got != want {
			return fmt.Errorf("the node reached by navigating to %q says its path is %q", want, got)
		}
		if par := ch.Parent(); par != h {
			pp := "<nil>"
			if par != nil {
				pp = fmt.Sprintf("a node with path %q", par.Path("."))
			}
			return fmt.Errorf("the node at %q: Parent() is not the node it was reached from (%q) but %s", want, model.JoinSegs(path, "."), pp)
		}
		if cm.Kind == "cont" {
			return walk(ch, cm, p)
		}
		return nil
	}
	walk = func(h *ucfg.Config, m *model.Node, path []model.Seg) error {
		for _, k := range m.SortedKeys() {
			if err := visit(h, model.NameSeg(k), m.D[k], path); err != nil {
				return err
			}
		}
		for i, e := range m.A {
			if err := visit(h, model.IdxSeg(i), e, path); err != nil {
				return err
			}
		}
		return nil
	}
	return nodes, walk(root.C, root.M, nil)
}

func sameKeys(got, want []string) bool {
	if len(got) != len(want) {
		return false
	}
	for i := range got {
		if got[i] != want[i] {
			return false
		}
	}
	return true
}

func checkFlattened(c *ucfg.Config, leaves []string, opts []ucfg.Option) error {
	var keys []string
	if err := uc.Safe("FlattenedKeys", func() error { keys = c.FlattenedKeys(opts...); return nil }); err != nil {
		return err
	}
	if !sort.StringsAreSorted(keys) {
		return fmt.Errorf("FlattenedKeys is not sorted: %q", keys)
	}
	if !sameKeys(keys, leaves) {
		return fmt.Errorf("FlattenedKeys = %q, the non-nil primitive settings are at %q", keys, leaves)
	}
	return nil
}

// hasDup reports whether a sorted list of paths holds one path twice.
func hasDup(sorted []string) bool {
	for i := 1; i < len(sorted); i++ {
		if sorted[i] == sorted[i-1] {
			return true
		}
	}
	return false
}

func set(keys []string) map[string]bool {
	m := map[string]bool{}
	for _, k := range keys {
		m[k] = true
	}
	return m
}

// checkDiff: CompareConfigs(old, new) must put every path in exactly the
// right one of Keep / Add / Remove.
func checkDiff(old, new *ucfg.Config, oldLeaves, newLeaves []string, opts []ucfg.Option) error {
	var d diff.Diff
	if err := uc.Safe("CompareConfigs", func() error { d = diff.CompareConfigs(old, new, opts...); return nil }); err != nil {
		return err
	}
	o, n := set(oldLeaves), set(newLeaves)
	want := map[diff.Type]map[string]bool{diff.Keep: {}, diff.Add: {}, diff.Remove: {}}
	for k := range o {
		if n[k] {
			want[diff.Keep][k] = true
		} else {
			want[diff.Remove][k] = true
		}
	}
	for k := range n {
		if !o[k] {
			want[diff.Add][k] = true
		}
	}
	for _, tp := range []diff.Type{diff.Keep, diff.Add, diff.Remove} {
		got := map[string]bool{}
		for _, k := range d[tp] {
			if got[k] {
				return fmt.Errorf("CompareConfigs lists %q twice under %q", k, tp.String())
			}
			got[k] = true
		}
		var wrong []string
		for k := range got {
			if !want[tp][k] {
				wrong = append(wrong, "unexpected "+k)
			}
		}
		for k := range want[tp] {
			if !got[k] {
				wrong = append(wrong, "missing "+k)
			}
		}
		if len(wrong) > 0 {
			sort.Strings(wrong)
			return fmt.Errorf("CompareConfigs, class %q: %s\n old settings %q\n new settings %q\n diff %v", tp.String(), strings.Join(wrong, ", "), oldLeaves, newLeaves, map[diff.Type][]string(d))
		}
	}
	changed := len(want[diff.Add]) > 0 || len(want[diff.Remove]) > 0
	if d.HasChanged() != changed {
		return fmt.Errorf("CompareConfigs: HasChanged() = %v, want %v", d.HasChanged(), changed)
	}
	return nil
}

// fresh builds a config from the model's generic rendering.
func fresh(m *model.Node, opts []ucfg.Option) (*ucfg.Config, error) {
	v := m.Reify()
	if v == nil {
		return ucfg.New(), nil
	}
	var c *ucfg.Config
	err := uc.Safe("NewFrom", func() error {
		var e error
		c, e = ucfg.NewFrom(v, opts...)
		return e
	})
	return c, err
}

func listLens(root *model.Node) map[*model.Node]int {
	out := map[*model.Node]int{}
	root.Walk(nil, func(_ []model.Seg, n *model.Node) {
		if n.Kind == "cont" {
			out[n] = len(n.A)
		}
	})
	return out
}

// grew: a list that was not empty got longer (append/prepend merges number the
// new elements after / before the old ones).
func grew(before map[*model.Node]int, root *model.Node) bool {
	g := false
	root.Walk(nil, func(_ []model.Seg, n *model.Node) {
		if l, ok := before[n]; ok && l > 0 && len(n.A) > l {
			g = true
		}
	})
	return g
}

func trace(c Case, upto int) string {
	var b strings.Builder
	b.WriteString("\n history:")
	if c.Init != nil {
		fmt.Fprintf(&b, "\n  init %s", canon.Show(c.Init.Go()))
	}
	for i := 0; i <= upto && i < len(c.Ops); i++ {
		op := c.Ops[i]
		fmt.Fprintf(&b, "\n  %d: %s", i, op)
		if op.Val != nil {
			fmt.Fprintf(&b, " %s", canon.Show(op.Val.Go()))
		}
	}
	fmt.Fprintf(&b, "\n  pathsep=%v", c.PathSep)
	return b.String()
}

func runCase(c Case, r *runlog.R) error {
	if c.ExclD14 > 0 {
		r.Excluded("D14")
	}
	st, ok, err := hist.New(c, true)
	if err != nil {
		return err
	}
	if !ok {
		r.Discard()
		return nil
	}
	prevLeaves := st.Root.M.Leaves(".")
	prevCfg, err := fresh(st.Root.M, st.Opts)
	if err != nil {
		return fmt.Errorf("building a config from the initial model failed: %v", err)
	}
	check := func(label string) error {
		// frame: the data agree (C12's oracle; here it guards the model)
		got, err := uc.Dump(st.Root.C)
		if err != nil {
			return fmt.Errorf("dumping failed: %v", err)
		}
		if want := st.Root.M.Reify(); !canon.EqualSplit(got, want) {
			return fmt.Errorf("the root differs from the model\n got  %s\n want %s", canon.String(canon.Split(canon.Of(got))), canon.String(canon.Split(canon.Of(want))))
		}
		if _, err := checkPositions(st); err != nil {
			return err
		}
		leaves := st.Root.M.Leaves(".")
		if err := checkFlattened(st.Root.C, leaves, st.Opts); err != nil {
			return err
		}
		cur, err := fresh(st.Root.M, st.Opts)
		if err != nil {
			return fmt.Errorf("building a config from the model failed: %v", err)
		}
		if hasDup(prevLeaves) || hasDup(leaves) {
			// Without PathSep a key may contain the separator literally ("m.1" next to m:{1:..}); two settings
			// then share one path string and "partitions those paths" has no meaning: diff is not asserted.
			r.Class("ambiguous path strings: diff not asserted")
		} else {
			// against the state before the step (built from the model)
			if err := checkDiff(prevCfg, st.Root.C, prevLeaves, leaves, st.Opts); err != nil {
				return fmt.Errorf("old = state before the step: %v", err)
			}
			// against an equal config: no change
			if err := checkDiff(st.Root.C, cur, leaves, leaves, st.Opts); err != nil {
				return fmt.Errorf("new = an equal config built from scratch: %v", err)
			}
		}
		prevCfg, prevLeaves = cur, leaves
		return nil
	}
	if err := check("initial state"); err != nil {
		return fmt.Errorf("initial state: %v%s", err, trace(c, -1))
	}
	nt := false
	for i, op := range c.Ops {
		before := hist.Positions(st.Root.M)
		lens := listLens(st.Root.M)
		info, err := st.Apply(op)
		if err != nil {
			return fmt.Errorf("step %d: %v%s", i, err, trace(c, i))
		}
		if st.Root.M.Mixed() {
			return fmt.Errorf("harness: step %d made a node of the model both a dictionary and a list%s", i, trace(c, i))
		}
		moved := hist.Moved(before, hist.Positions(st.Root.M))
		if op.Kind == hist.Merge && (op.Policy == model.Append || op.Policy == model.Prepend) && grew(lens, st.Root.M) {
			moved = true
			r.Class("moved by " + op.Policy.String() + " merge")
		}
		switch {
		case info.Skipped != "":
			r.Class("skipped: " + info.Skipped)
		case info.Rejected:
			r.Class("rejected " + op.Kind)
		default:
			r.Class("op " + op.Kind)
			r.ClassIf(op.Kind == hist.Merge, "merge "+op.Policy.String())
		}
		r.ClassIf(info.Shifted, "removal before the end of a list")
		r.ClassIf(moved, "step moved existing settings")
		r.ClassIf(moved && op.Kind == hist.Reattach, "moved by re-attaching")
		r.ClassIf(info.ViaHandle && info.Wrote && !info.Detached, "write through a live handle")
		if moved {
			nt = true
		}
		if err := check(fmt.Sprintf("after step %d", i)); err != nil {
			return fmt.Errorf("after step %d (%s): %v%s", i, op, err, trace(c, i))
		}
	}
	r.NonTrivialIf(nt)
	r.ClassIf(c.PathSep, "with PathSep")
	r.ClassIf(!c.PathSep, "without PathSep")
	r.ClassIf(isD14Class(c), "D14 class (re-attached child)")
	return nil
}

var subHist = runlog.Register(&runlog.Sub[Case]{
	Name: "positional-histories",
	Rule: "histories of 3-20 (thorough: 3-36) operations Set*, SetChild(fresh config), Remove, Merge under all five policies (half of the merged trees put a list where the history keeps its lists), Child, and re-attachment of a pooled child with SetChild (after removing it from its old place), on the root and on pooled child handles; addresses from overlapping dictionary-ish and list-ish dotted names plus explicit indices 0..3; operations that would give a node both named keys and list elements are skipped, no references. After every step: every node of the model is navigated to Child by Child; its Path(\".\") must be the navigated path and its Parent() pointer-identical to the handle it was reached from (root: empty path, nil parent); FlattenedKeys equals the sorted model paths of the non-nil primitives; CompareConfigs(state before the step, state) partitions exactly and CompareConfigs(state, equal config built from scratch) reports no change. Non-trivial: some step moved an existing non-nil setting to another path (removal before the end of a list, prepend merge, re-attachment) or an append/prepend merge extended a non-empty list; all positional queries follow it. Distinct: hash of the whole case. While finding D14 is open the generator replaces re-attachments by SetChild of fresh configs (counted in excluded_known).",
	Gen:  genCase,
	Run:  runCase,
})

func TestPositionalHistories(t *testing.T) { subHist.Check(t, 30000, 2000000) }

// ---------------------------------------------------------------------------
// pairs of configurations for diff

type PairCase struct {
	A       *gen.Tree `json:"a"`
	B       *gen.Tree `json:"b"`
	PathSep bool      `json:"pathsep"`
}

func pairCfg() *gen.TreeCfg {
	return &gen.TreeCfg{Depth: runlog.Pick(3, 4), Width: runlog.Pick(4, 5), Keys: []string{"a", "b", "c", "x"}, NoFloat: true, NoEmpty: true}
}

// variant returns an edited copy of t: children are kept (edited
// recursively), dropped or replaced, and new ones are added.
func variant(t *rapid.T, cfg *gen.TreeCfg, a *gen.Tree, depth int) *gen.Tree {
	if !a.IsCont() {
		if rapid.IntRange(0, 5).Draw(t, "replaceleaf") == 0 {
			return gen.GenTree(t, cfg, depth)
		}
		return a.Clone()
	}
	out := &gen.Tree{K: a.K}
	for i, v := range a.Vals {
		var nv *gen.Tree
		switch rapid.IntRange(0, 9).Draw(t, "edit") {
		case 0, 1:
			continue // dropped (in a list: the later elements move down)
		case 2:
			nv = gen.GenTree(t, cfg, depth-1)
		default:
			nv = variant(t, cfg, v, depth-1)
		}
		if a.K == "obj" {
			out.Put(a.Keys[i], nv)
		} else {
			out.Vals = append(out.Vals, nv)
		}
	}
	for n := rapid.IntRange(0, 2).Draw(t, "added"); n > 0; n-- {
		nv := gen.GenTree(t, cfg, depth-1)
		if a.K == "obj" {
			k := rapid.SampledFrom(cfg.Keys).Draw(t, "newkey")
			if out.Get(k) == nil {
				out.Put(k, nv)
			}
		} else if rapid.Bool().Draw(t, "front") {
			out.Vals = append([]*gen.Tree{nv}, out.Vals...)
		} else {
			out.Vals = append(out.Vals, nv)
		}
	}
	return out
}

func genPair(t *rapid.T) PairCase {
	cfg := pairCfg()
	top := func() *gen.Tree {
		if rapid.IntRange(0, 4).Draw(t, "toplist") == 0 {
			return gen.GenList(t, cfg, cfg.Depth)
		}
		return gen.GenObj(t, cfg, cfg.Depth)
	}
	pc := PairCase{A: top(), PathSep: rapid.Bool().Draw(t, "pathsep")}
	if rapid.IntRange(0, 3).Draw(t, "independent") == 0 {
		pc.B = top()
	} else {
		pc.B = variant(t, cfg, pc.A, cfg.Depth)
	}
	return pc
}

func runPair(pc PairCase, r *runlog.R) error {
	if pc.A == nil || pc.B == nil || !pc.A.IsCont() || !pc.B.IsCont() {
		r.Discard()
		return nil
	}
	var opts []ucfg.Option
	if pc.PathSep {
		opts = []ucfg.Option{ucfg.PathSep(".")}
	}
	ma, mb := model.NewCont(), model.NewCont()
	model.MergeCont(model.Default, nil, ma, model.FromTree(pc.A))
	model.MergeCont(model.Default, nil, mb, model.FromTree(pc.B))
	if ma.Mixed() || mb.Mixed() {
		r.Discard()
		return nil
	}
	la, lb := ma.Leaves("."), mb.Leaves(".")
	if hasDup(la) || hasDup(lb) {
		r.Discard() // a key that contains the separator: two settings share one path string
		return nil
	}
	mk := func(t *gen.Tree) (*ucfg.Config, error) {
		var c *ucfg.Config
		err := uc.Safe("NewFrom", func() error {
			var e error
			c, e = ucfg.NewFrom(t.Go(), opts...)
			return e
		})
		return c, err
	}
	a, err := mk(pc.A)
	if err != nil {
		return fmt.Errorf("NewFrom(A): %v", err)
	}
	a2, _ := mk(pc.A)
	b, err := mk(pc.B)
	if err != nil {
		return fmt.Errorf("NewFrom(B): %v", err)
	}
	if err := checkFlattened(a, la, opts); err != nil {
		return fmt.Errorf("A: %v", err)
	}
	if err := checkFlattened(b, lb, opts); err != nil {
		return fmt.Errorf("B: %v", err)
	}
	if err := checkDiff(a, b, la, lb, opts); err != nil {
		return fmt.Errorf("A -> B: %v", err)
	}
	if err := checkDiff(b, a, lb, la, opts); err != nil {
		return fmt.Errorf("B -> A: %v", err)
	}
	if err := checkDiff(a, a2, la, la, opts); err != nil {
		return fmt.Errorf("A -> equal copy of A: %v", err)
	}
	if err := checkDiff(a, a, la, la, opts); err != nil {
		return fmt.Errorf("A -> A itself: %v", err)
	}
	sa, sb := set(la), set(lb)
	common, onlyA, onlyB := 0, 0, 0
	for k := range sa {
		if sb[k] {
			common++
		} else {
			onlyA++
		}
	}
	for k := range sb {
		if !sa[k] {
			onlyB++
		}
	}
	r.NonTrivialIf(common > 0 && (onlyA > 0 || onlyB > 0))
	r.ClassIf(common > 0, "kept paths")
	r.ClassIf(onlyA > 0, "removed paths")
	r.ClassIf(onlyB > 0, "added paths")
	r.ClassIf(onlyA == 0 && onlyB == 0, "equal key sets")
	r.ClassIf(pc.A.K == "list" || pc.B.K == "list", "top-level list")
	return nil
}

var subPairs = runlog.Register(&runlog.Sub[PairCase]{
	Name: "diff-pairs",
	Rule: "pairs (A, B) of random trees without references, every node a dictionary or a list, B an edited copy of A (children dropped, replaced, added; 3 of 4 cases) or independent: FlattenedKeys of each equals the model's non-nil primitive paths; CompareConfigs(A,B) and (B,A) put every path in exactly the right one of Keep/Add/Remove; CompareConfigs(A, equal copy) and (A, A) report no change. Non-trivial: the two key sets share a path and differ in one. Distinct: hash of the case.",
	Gen:  genPair,
	Run:  runPair,
})

func TestDiffPairs(t *testing.T) { subPairs.Check(t, 30000, 1500000) }

func TestReplay(t *testing.T) { runlog.ReplayMain(t) }
